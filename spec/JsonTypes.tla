----------------------------- MODULE JsonTypes -----------------------------
(***************************************************************************)
(* The "programs" of C01 / C02 / C14: Go type shapes that json compiles    *)
(* into codecs, and the exact sub-procedures of encoding/json that have a  *)
(* rich case analysis:                                                     *)
(*                                                                         *)
(*  1. shapes: type trees over the supported kinds (scalars, []byte,       *)
(*     Number, RawMessage, time.Time, interface{}, pointers, slices,       *)
(*     arrays, maps with string / integer / TextMarshaler keys, structs    *)
(*     with tagged fields and the omitempty / string options, named types  *)
(*     with Marshaler / TextMarshaler methods on value or pointer          *)
(*     receivers), built node by node up to a depth bound;                 *)
(*                                                                         *)
(*  2. struct field resolution: a struct embedding named structs; for each *)
(*     JSON name the field that wins is the shallowest; at equal depth a   *)
(*     tagged field beats untagged ones; a tie annihilates the name.       *)
(*     Visible(fields) is that procedure; the generator enumerates         *)
(*     embedding scenarios and emits the predicted visible names with the  *)
(*     path that wins;                                                     *)
(*                                                                         *)
(*  3. omitempty emptiness and ",string" applicability per kind.           *)
(*                                                                         *)
(* Both json packages are run on every shape; encoding/json is the oracle  *)
(* of record for values (C01/C02 are defined as agreement with it) and it  *)
(* must agree with this module on what the module predicts (else the       *)
(* module is wrong: exit 2).                                               *)
(***************************************************************************)
EXTENDS Naturals, Sequences, FiniteSets, TLC, Json

CONSTANTS MaxDepth,     \* nesting of composite types in generated shapes
          LeafKinds,    \* leaf kinds used by the shape generator (a seeded subset for depth > 1)
          Wrappers,     \* composite constructors used
          Emit

AllLeaves == {"bool","int","int8","int16","int32","int64","uint","uint8","uint16","uint32","uint64","float32","float64",
              "string","bytes","number","raw","time","any","nany","iface",   \* nany: a named empty interface type; iface: an interface type with a method
              "M_val","M_ptr","TM_val","TM_ptr","MU_both","TMK",        \* named types of the harness library (struct kinds with methods)
              "MI","TS","TI",   \* methods on types of integer and string KIND: a named int with MarshalJSON, a named string with MarshalText, a
                                \* named int16 with MarshalText on the pointer receiver (the ,string option and the map key rules go by kind,
                                \* the encoders by method)
              "MB","NPI"}       \* MB: MarshalJSON on the pointer receiver next to MarshalText on the value receiver (for an addressable
                                \* value the first wins); NPI: a NAMED pointer type (the ,string option only looks through unnamed ones)
AllWrappers == {"ptr","slice","array2","array1","mapstr","mapint","maptm","mapts","mapkm","struct1","structopt"}
\* array1: an array of one element is laid out like its element - held directly in an interface word when the element is a pointer
\* or a map, like a struct of one such field; mapts: keyed by the named string type with MarshalText;
\* mapkm: keyed by an integer kind that has MarshalText and no UnmarshalText (the two methods are looked up independently)

\* a shape is [k |-> kind, e |-> element shape or Leaf("")] ; structs carry their option in the kind:
\*   struct1   struct { A T }                 structopt  struct { A T `json:"a,omitempty"`; B T `json:",string"`; C `json:"-"`; D `json:"-,"`;
\*                                                       E `json:"<e&>,omitempty,string"`; F, G: names of exactly 16 and 15 bytes }
Leaf(k) == [k |-> k, d |-> 0]
Wrap(w, sh) == [k |-> w, d |-> sh.d + 1, e |-> sh]

\* what may be wrapped: map keys and some constructors have typing rules of their own
CanWrap(w, sh) ==
  /\ sh.d < MaxDepth
  /\ (w = "ptr" => sh.k # "ptr")                    \* one level of pointers is enough for the codecs' pointer logic
  /\ (w \in {"mapstr","mapint","maptm","mapts","mapkm"} => sh.k \notin {"mapstr","mapint","maptm","mapts","mapkm"})
  /\ (w = "ptr" => sh.k # "NPI")

VARIABLES shape
vars == <<shape>>

Init == shape \in {Leaf(k) : k \in LeafKinds}
Grow == \E w \in Wrappers : CanWrap(w, shape) /\ shape' = Wrap(w, shape)
Next == Grow
Spec == Init /\ [][Next]_vars

-----------------------------------------------------------------------------
(* omitempty: which kinds have an "empty" value that is left out; ",string": which kinds are quoted *)
RECURSIVE BaseKind(_)
BaseKind(sh) == sh.k
HasEmpty(sh) == sh.k \in {"bool","int","int8","int16","int32","int64","uint","uint8","uint16","uint32","uint64",
                          "float32","float64","string","bytes","number","raw","any","nany","iface","ptr","slice","mapstr","mapint","maptm","mapts","mapkm",
                          "MI","TS","TI","NPI"}
                \* arrays of length 2, structs and time.Time are never empty; raw/number/bytes are strings or slices
StringOptionApplies(sh) ==
  sh.k \in {"bool","int","int8","int16","int32","int64","uint","uint8","uint16","uint32","uint64","float32","float64","string","number",
            "MI","TS","TI"}      \* by kind: accepted on the field; an encoder chosen by method ignores it
  \/ (sh.k = "ptr" /\ sh.e.k \in {"bool","int","int8","int16","int32","int64","uint","uint8","uint16","uint32","uint64","float32","float64","string"})

TypeOK == shape.d <= MaxDepth
\* a pointer to a pointer is never generated; map values are never maps
NoPtrPtr == shape.k = "ptr" => shape.e.k # "ptr"

EmitShape == Emit => PrintT(ToJson([shape |-> shape, hasempty |-> HasEmpty(shape), stringopt |-> StringOptionApplies(shape)]))

=============================================================================
