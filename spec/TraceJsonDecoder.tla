------------------------- MODULE TraceJsonDecoder -------------------------
(***************************************************************************)
(* Trace validation for json.Decoder.readValue (code -> spec).             *)
(*                                                                         *)
(* The hooks in json/json.go (build tag verif) emit one event per loop arm *)
(* of readValue with the scalar projection of the decoder state AFTER the  *)
(* transition: blen/bcap (len/cap of the read buffer), roff/rlen (offset   *)
(* and length of the unparsed window inside it), ioff (InputOffset), err   *)
(* (class of the sticky reader error).  The harness adds what only it can  *)
(* know (ghost fields): rpos = bytes its reader has handed out so far,     *)
(* rdone = its reader has reported its terminal error, and for "value"     *)
(* events the ideal span [vs, ve) of that value in the stream and nns =    *)
(* offset of the first non-space byte at or after ve (from encoding/json's *)
(* own tokenisation of the same bytes).                                    *)
(*                                                                         *)
(* This is JsonDecoderStream projected on offsets, policy-free: buffer     *)
(* capacities, growth and read lengths are whatever the trace says.  What  *)
(* is required at every step of every recorded execution:                  *)
(*   - the buffer is a window of the stream ending at the reader position  *)
(*     (base + blen = rpos): no byte lost or duplicated; compaction keeps  *)
(*     exactly the unparsed window;                                        *)
(*   - the unparsed window is a suffix of the buffer;                      *)
(*   - a returned value is exactly the next ideal value [vs, ve);          *)
(*   - InputOffset never decreases and after a value lies in [ve, nns];    *)
(*   - the window after a value starts inside [ve, nns];                   *)
(*   - a sticky error exists only once the reader has really failed, is of *)
(*     the reader's kind, and is only reported when no value is available. *)
(***************************************************************************)
EXTENDS Naturals, Sequences, TLC, Json

Trace == ndJsonDeserialize("trace.ndjson")

VARIABLES l, hasBuf, base, blen, bcap, roff, rlen, ioff, derr, rpos, lastEnd, term

tvars == <<l, hasBuf, base, blen, bcap, roff, rlen, ioff, derr, rpos, lastEnd, term>>

TraceInit == /\ l = 1 /\ hasBuf = FALSE /\ base = 0 /\ blen = 0 /\ bcap = 0 /\ roff = 0 /\ rlen = 0
             /\ ioff = 0 /\ derr = "none" /\ rpos = 0 /\ lastEnd = 0 /\ term = "EOF"

Ev == Trace[l]

\* NewDecoder
TraceNew ==
  /\ l <= Len(Trace) /\ Ev.ev = "new"
  /\ hasBuf' = FALSE /\ base' = 0 /\ blen' = 0 /\ bcap' = 0 /\ roff' = 0 /\ rlen' = 0
  /\ ioff' = 0 /\ derr' = "none" /\ rpos' = 0 /\ lastEnd' = 0 /\ term' = Ev.term
  /\ l' = l + 1

\* the window reported by the hook is well-formed: a suffix of the buffer (or empty)
WindowOK(e) == /\ e.blen <= e.bcap
               /\ (e.rlen > 0 => e.roff + e.rlen = e.blen)
               /\ (e.rlen = 0 => e.roff = 0)

\* allocate / compact / grow, read
TraceFill ==
  /\ l <= Len(Trace) /\ Ev.ev = "fill"
  /\ derr = "none"                                   \* never read again after a failure
  /\ LET kept == IF hasBuf THEN rlen ELSE 0
         n    == Ev.blen - kept IN
     /\ Ev.blen >= kept                              \* compaction keeps the whole window ...
     /\ base' = (IF hasBuf /\ rlen > 0 THEN base + roff ELSE rpos)   \* ... and nothing else
     /\ rpos' = Ev.rpos /\ rpos' = rpos + n          \* exactly the bytes the reader handed out were appended
     /\ WindowOK(Ev)
     /\ Ev.ioff >= ioff
     /\ Ev.err \in {"none", term}                    \* only the reader's own error becomes sticky
     /\ (Ev.err # "none" => Ev.rdone)                \* and only after the reader really failed
  /\ hasBuf' = TRUE /\ blen' = Ev.blen /\ bcap' = Ev.bcap /\ roff' = Ev.roff /\ rlen' = Ev.rlen
  /\ ioff' = Ev.ioff /\ derr' = Ev.err
  /\ UNCHANGED <<lastEnd, term>> /\ l' = l + 1

\* a complete value is returned
TraceValue ==
  /\ l <= Len(Trace) /\ Ev.ev = "value"
  /\ hasBuf /\ rlen >= Ev.n /\ Ev.n > 0
  /\ base + roff = Ev.vs /\ Ev.n = Ev.ve - Ev.vs     \* exactly the next ideal value
  /\ Ev.blen = blen /\ Ev.bcap = bcap /\ WindowOK(Ev)      \* the buffer itself is untouched
  /\ LET start == IF Ev.rlen > 0 THEN base + Ev.roff ELSE rpos IN   \* where the unparsed window begins now
        Ev.ve <= start /\ start <= Ev.nns
  /\ Ev.ioff >= ioff /\ Ev.ve <= Ev.ioff /\ Ev.ioff <= Ev.nns
  /\ Ev.err = derr
  /\ roff' = Ev.roff /\ rlen' = Ev.rlen /\ ioff' = Ev.ioff /\ lastEnd' = Ev.ve
  /\ UNCHANGED <<hasBuf, base, blen, bcap, derr, rpos, term>> /\ l' = l + 1

\* a syntax error is reported: nothing changes
TraceSyntax ==
  /\ l <= Len(Trace) /\ Ev.ev = "syntax"
  /\ hasBuf /\ rlen > 0
  /\ Ev.blen = blen /\ Ev.bcap = bcap /\ Ev.roff = roff /\ Ev.rlen = rlen /\ Ev.ioff = ioff /\ Ev.err = derr
  /\ UNCHANGED <<hasBuf, base, blen, bcap, roff, rlen, ioff, derr, rpos, lastEnd, term>> /\ l' = l + 1

\* the sticky reader error is reported: only when the reader has failed; nothing changes
TraceError ==
  /\ l <= Len(Trace) /\ Ev.ev = "error"
  /\ derr # "none"
  /\ Ev.blen = blen /\ Ev.bcap = bcap /\ Ev.roff = roff /\ Ev.rlen = rlen /\ Ev.ioff = ioff /\ Ev.err = derr
  /\ UNCHANGED <<hasBuf, base, blen, bcap, roff, rlen, ioff, derr, rpos, lastEnd, term>> /\ l' = l + 1

TraceNext == TraceNew \/ TraceFill \/ TraceValue \/ TraceSyntax \/ TraceError
TraceSpec == TraceInit /\ [][TraceNext]_tvars

\* invariants evaluated on every state reached by a real execution
WindowInvariant == hasBuf => /\ base + blen = rpos
                             /\ blen <= bcap
                             /\ roff + rlen <= blen
OffsetInvariant == lastEnd <= ioff /\ ioff <= rpos

TraceAccepted ==
  LET d == TLCGet("stats").diameter IN
  IF d - 1 = Len(Trace) THEN TRUE ELSE Print(<<"TRACE-REJECTED-AT", d>>, FALSE)
=============================================================================
