------------------------------- MODULE Ascii -------------------------------
(***************************************************************************)
(* The byte-wise definitions of the ascii package's predicates (bytes are  *)
(* the naturals 0..255) and the generator of the deviation cases of C20.   *)
(*                                                                         *)
(*   Valid(s)       every byte below 0x80                                  *)
(*   ValidPrint(s)  every byte in 0x20..0x7E                               *)
(*   EqualFold(a,b) equal lengths, bytes equal after mapping only A-Z to   *)
(*                  a-z                                                    *)
(*   HasPrefixFold / HasSuffixFold accordingly                             *)
(*                                                                         *)
(* Cases: a string of N base bytes with one or two positions replaced by   *)
(* representative bytes (class boundaries and the 0x20-apart non-letter    *)
(* pairs NUL/space, @/`, [/{, _/DEL that a careless fold confuses), and    *)
(* for the fold family a second string differing at one position.  The     *)
(* class lemmas (checked here) say the answers only depend on the set of   *)
(* deviating bytes / the per-position fold classes, so the harness may     *)
(* stretch the base run to any length and alignment.                       *)
(***************************************************************************)
EXTENDS Naturals, Sequences, FiniteSets, TLC, Json

CONSTANTS MaxLen, Emit

Reps == {0, 31, 32, 64, 65, 90, 91, 95, 96, 97, 122, 123, 126, 127, 128, 255}
Base == 97     \* 'a'

Valid(s)      == \A i \in 1..Len(s) : s[i] < 128
ValidPrint(s) == \A i \in 1..Len(s) : s[i] >= 32 /\ s[i] <= 126
Fold(c)       == IF c >= 65 /\ c <= 90 THEN c + 32 ELSE c
EqualFold(a, b)     == Len(a) = Len(b) /\ \A i \in 1..Len(a) : Fold(a[i]) = Fold(b[i])
HasPrefixFold(s, p) == Len(s) >= Len(p) /\ EqualFold(SubSeq(s, 1, Len(p)), p)
HasSuffixFold(s, x) == Len(s) >= Len(x) /\ EqualFold(SubSeq(s, Len(s) - Len(x) + 1, Len(s)), x)

VARIABLES a, b, dev     \* two strings; dev = number of deviations applied
vars == <<a, b, dev>>

Init == /\ \E n \in 0..MaxLen, m \in 0..MaxLen : a = [i \in 1..n |-> Base] /\ b = [i \in 1..m |-> Base]
        /\ dev = 0

Deviate ==
  /\ dev < 2
  /\ dev' = dev + 1
  /\ \/ \E i \in 1..Len(a), x \in Reps : a' = [a EXCEPT ![i] = x] /\ b' = b
     \/ \E i \in 1..Len(b), x \in Reps : b' = [b EXCEPT ![i] = x] /\ a' = a

Next == Deviate
Spec == Init /\ [][Next]_vars

\* class lemmas: the validity predicates only depend on the set of bytes present
ValidBySet      == Valid(a) = (\A x \in {a[i] : i \in 1..Len(a)} : x < 128)
PrintBySet      == ValidPrint(a) = (\A x \in {a[i] : i \in 1..Len(a)} : x >= 32 /\ x <= 126)
\* fold is an equivalence that only identifies a letter with its other case
FoldOnlyLetters == \A x \in Reps, y \in Reps : (Fold(x) = Fold(y)) = (x = y \/ (x + 32 = y /\ x >= 65 /\ x <= 90) \/ (y + 32 = x /\ y >= 65 /\ y <= 90))
FoldSymmetric   == EqualFold(a, b) = EqualFold(b, a)
PrefixOfSelf    == HasPrefixFold(a, a) /\ HasSuffixFold(a, a)
EqualIsBoth     == EqualFold(a, b) = (HasPrefixFold(a, b) /\ Len(a) = Len(b))

EmitVector == Emit => PrintT(ToJson([a |-> a, b |-> b, valid |-> Valid(a), print |-> ValidPrint(a),
                                     eq |-> EqualFold(a, b), pre |-> HasPrefixFold(a, b), suf |-> HasSuffixFold(a, b)]))
=============================================================================
