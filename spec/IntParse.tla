------------------------------ MODULE IntParse ------------------------------
(***************************************************************************)
(* The hand-written decimal parsers of the json decoder (parseInt,         *)
(* parseUint) with their overflow guards, and the range checks of the      *)
(* narrower integer kinds, property C02.                                   *)
(*                                                                         *)
(* Numbers are sequences of decimal digits (TLC's integers end at 2^31):   *)
(* "times ten plus x" is Append, and the guards of the code compare digit  *)
(* sequences.  The parser takes one digit per step, as the loops do:       *)
(*   positive  reject when acc > max/10, or acc = max/10 and x > max%10;   *)
(*             else acc := acc*10 + x                                      *)
(*   negative  (the code accumulates a negative value) reject when         *)
(*             |acc| > |min|/10, or |acc|*10 + x > |min|                   *)
(*   unsigned  as positive with max = 2^64-1; a sign is refused            *)
(* followed, for the kinds below 64 bits, by the check against the range   *)
(* of the target's kind (on the machine word: NoWrap says that it holds    *)
(* the value).  What                                                       *)
(* must hold (Refines): the verdict and the value are those of the         *)
(* definition - a JSON integer literal (no leading zero, no fraction, no   *)
(* exponent) whose value lies in the range of the kind.                    *)
(*                                                                         *)
(* Inputs: every digit string that follows a bound (the extreme values of  *)
(* all eight kinds) for its first i digits, then has a digit one below,    *)
(* equal or one above the bound's, then is filled with 0s or 9s to the     *)
(* bound's length or one more - with and without a sign; and the           *)
(* degenerate literals.  NoLastDigitGuard is the deviation witness: the    *)
(* positive loop without its test of the last digit.                       *)
(***************************************************************************)
EXTENDS Naturals, Sequences, FiniteSets, TLC, Json

CONSTANTS Emit, Kinds, NoLastDigitGuard

D(s) == s      \* digit sequences are written as tuples
Max8 == <<1,2,7>>          Min8 == <<1,2,8>>          MaxU8 == <<2,5,5>>
Max16 == <<3,2,7,6,7>>     Min16 == <<3,2,7,6,8>>     MaxU16 == <<6,5,5,3,5>>
Max32 == <<2,1,4,7,4,8,3,6,4,7>>   Min32 == <<2,1,4,7,4,8,3,6,4,8>>   MaxU32 == <<4,2,9,4,9,6,7,2,9,5>>
Max64 == <<9,2,2,3,3,7,2,0,3,6,8,5,4,7,7,5,8,0,7>>
Min64 == <<9,2,2,3,3,7,2,0,3,6,8,5,4,7,7,5,8,0,8>>
MaxU64 == <<1,8,4,4,6,7,4,4,0,7,3,7,0,9,5,5,1,6,1,5>>

Signed(k) == k \in {"int8", "int16", "int32", "int64"}
MaxOf(k) == CASE k = "int8" -> Max8 [] k = "int16" -> Max16 [] k = "int32" -> Max32 [] k = "int64" -> Max64
              [] k = "uint8" -> MaxU8 [] k = "uint16" -> MaxU16 [] k = "uint32" -> MaxU32 [] k = "uint64" -> MaxU64
MinAbsOf(k) == CASE k = "int8" -> Min8 [] k = "int16" -> Min16 [] k = "int32" -> Min32 [] k = "int64" -> Min64
                 [] OTHER -> <<>>
Bounds == {Max8, Min8, MaxU8, Max16, Min16, MaxU16, Max32, Min32, MaxU32, Max64, Min64, MaxU64}

\* numbers: digit sequences without leading zeros; zero is the empty sequence
RECURSIVE Norm(_)
Norm(s) == IF s # <<>> /\ s[1] = 0 THEN Norm(Tail(s)) ELSE s
Less(a, b) == \/ Len(a) < Len(b)
              \/ /\ Len(a) = Len(b)
                 /\ \E i \in 1..Len(a) : a[i] < b[i] /\ \A j \in 1..(i - 1) : a[j] = b[j]
Greater(a, b) == Less(b, a)
Times10Plus(a, x) == Norm(Append(a, x))
Front(s) == SubSeq(s, 1, Len(s) - 1)
Last(s) == s[Len(s)]

\* ----- the inputs -----
Fill(n, f) == [i \in 1..n |-> f]
Along(b) ==
  {SubSeq(b, 1, i) : i \in 0..Len(b)}
  \cup UNION {UNION {{SubSeq(b, 1, i) \o <<d>> \o Fill(n, f) : n \in {m \in {0, Len(b) - i - 1, Len(b) - i} : m >= 0}} :
                     d \in {e \in 0..9 : e + 1 >= b[i + 1] /\ e <= b[i + 1] + 1}, f \in {0, 9}} : i \in 0..(Len(b) - 1)}
Degenerate == {<<>>, <<0>>, <<0,0>>, <<0,1>>, <<0,9,9>>, <<1>>, <<9>>, <<1,0>>, Fill(21, 9), <<1>> \o Fill(21, 0)}
Digits == Degenerate \cup UNION {Along(b) : b \in Bounds}
Suffixes == {"none", "frac", "exp"}

VARIABLES kind, neg, digits, suffix,      \* the input and its target
          i, acc, verdict, phase
vars == <<kind, neg, digits, suffix, i, acc, verdict, phase>>

Init == /\ kind \in Kinds /\ neg \in BOOLEAN /\ digits \in Digits
        /\ suffix \in (IF digits \in {<<1>>, Max8, <<0>>} THEN Suffixes ELSE {"none"})
        /\ i = 0 /\ acc = <<>> /\ verdict = "?" /\ phase = "start"

\* the 64-bit limits of the loop in use
LoopMax == IF Signed(kind) THEN (IF neg THEN Min64 ELSE Max64) ELSE MaxU64

Start == /\ phase = "start"
         /\ IF digits = <<>> THEN verdict' = "err" /\ phase' = "done"                 \* nothing, or a sign alone
            ELSE IF Len(digits) > 1 /\ digits[1] = 0 THEN verdict' = "err" /\ phase' = "done"   \* leading zero
            ELSE IF neg /\ ~Signed(kind) THEN verdict' = "err" /\ phase' = "done"      \* a sign into an unsigned kind
            ELSE verdict' = verdict /\ phase' = "loop"
         /\ UNCHANGED <<kind, neg, digits, suffix, i, acc>>

Step == /\ phase = "loop" /\ i < Len(digits)
        /\ LET x == digits[i + 1]
               lim == Front(LoopMax)
               over == IF neg THEN Greater(acc, lim) \/ Greater(Times10Plus(acc, x), LoopMax)
                       ELSE Greater(acc, lim) \/ (~NoLastDigitGuard /\ acc = lim /\ x > Last(LoopMax)) IN
            IF over THEN verdict' = "err" /\ phase' = "done" /\ UNCHANGED <<i, acc>>
            ELSE acc' = Times10Plus(acc, x) /\ i' = i + 1 /\ UNCHANGED <<verdict, phase>>
        /\ UNCHANGED <<kind, neg, digits, suffix>>

Finish == /\ phase = "loop" /\ i = Len(digits)
          /\ verdict' = IF suffix # "none" THEN "err"                                   \* a float: the kind does not take it
                        ELSE IF kind \in {"int64", "uint64"} THEN "ok"                  \* the guards of the loop are all there is
                        ELSE IF neg THEN (IF Greater(acc, MinAbsOf(kind)) THEN "err" ELSE "ok")
                        ELSE IF Greater(acc, MaxOf(kind)) THEN "err" ELSE "ok"
          /\ phase' = "done"
          /\ UNCHANGED <<kind, neg, digits, suffix, i, acc>>

Next == Start \/ Step \/ Finish
Spec == Init /\ [][Next]_vars

\* ----- the definition -----
Literal == digits # <<>> /\ ~(Len(digits) > 1 /\ digits[1] = 0) /\ suffix = "none"
InRange == IF neg THEN Signed(kind) /\ ~Greater(Norm(digits), MinAbsOf(kind)) ELSE ~Greater(Norm(digits), MaxOf(kind))
DefOk == Literal /\ InRange

Done == phase = "done"
TypeOK == /\ phase \in {"start", "loop", "done"} /\ verdict \in {"?", "ok", "err"}
          /\ i <= Len(digits) /\ \A p \in 1..Len(acc) : acc[p] \in 0..9
Refines == Done => /\ (verdict = "ok") = DefOk
                   /\ verdict = "ok" => acc = Norm(digits)
\* the accumulator never leaves what 64 bits hold (the code's arithmetic does not wrap)
NoWrap == ~Greater(acc, LoopMax)
\* and it is the value of the digits read so far
AccIsPrefix == phase = "loop" => acc = Norm(SubSeq(digits, 1, i))

EmitVector == (Emit /\ Done) =>
  PrintT(ToJson([intparse |-> kind, neg |-> neg, digits |-> digits, suffix |-> suffix, ok |-> verdict = "ok"]))
=============================================================================
