--------------------------- MODULE JsonAppendBuf ---------------------------
(***************************************************************************)
(* The destination-buffer discipline of json.Append (property C15).        *)
(*                                                                         *)
(* Append(b, v, flags) receives a slice b = array[0 : P] with capacity C    *)
(* and drives it with a handful of buffer operations, nested encoders      *)
(* remembering where they started so that they can roll back on error:     *)
(*   Enter      a nested encoder records start = len                       *)
(*   Write(n)   append n bytes: in place while they fit, else grow - copy  *)
(*              the used part into a new array (the old one is no longer   *)
(*              written)                                                   *)
(*   Reserve(n) make room for n bytes at once (encodeBytes sizes the base64 *)
(*              text beforehand): nothing to do while they fit, else a new  *)
(*              array of len + n bytes (and some slack) takes the used part *)
(*   Rewrite    rewrite bytes in [start, len) in place (the ,string        *)
(*              option quotes what the inner encoder wrote)                *)
(*   Rollback   an error: truncate to start                                *)
(*   Leave      success: forget start                                      *)
(* Ghost state records the lowest offset ever written in the caller's      *)
(* array and the current length.  Invariants: nothing is ever written      *)
(* below P in the caller's array, the length never drops below P, and the  *)
(* first P bytes of the result are the caller's (the result is the         *)
(* caller's array, or a copy made while its prefix was intact).            *)
(*                                                                         *)
(* The generator enumerates the configurations replayed on the real        *)
(* Append: prefix length x spare capacity class x AppendFlags subset.      *)
(***************************************************************************)
EXTENDS Naturals, Sequences, FiniteSets, TLC, Json

CONSTANTS Prefixes, MaxOps, MaxWrite, Emit,
          ReservePolicy   \* "fromend": the new capacity is counted from len (as the code does); "fromstart": from the
                          \* size of what is to be written alone - the deviation a seeded change made: make(len, cap)
                          \* with cap < len panics once the prefix is longer than the text

SpareClasses == {"none", "n-1", "n", "n+1", "big"}

VARIABLES P, cap, len, inCaller,   \* prefix length, capacity, length, still writing the caller's array
          starts,                  \* stack of start offsets of nested encoders
          lowest,                  \* ghost: lowest offset written in the caller's array (cap + 1000 = none)
          prefixIntact,            \* ghost: the first P bytes of the current array are the caller's
          ops,
          panicked                 \* ghost: an allocation was asked for a capacity below the length it must hold
vars == <<P, cap, len, inCaller, starts, lowest, prefixIntact, ops, panicked>>

None == 100000

Init == /\ P \in Prefixes /\ \E spare \in 0..(MaxWrite + 1) : cap = P + spare
        /\ len = P /\ inCaller = TRUE /\ starts = <<>> /\ lowest = None /\ prefixIntact = TRUE /\ ops = 0 /\ panicked = FALSE

Min(a, b) == IF a < b THEN a ELSE b

Enter == /\ ops < MaxOps /\ starts' = Append(starts, len) /\ ops' = ops + 1
         /\ UNCHANGED <<P, cap, len, inCaller, lowest, prefixIntact, panicked>>

Write(n) ==
  /\ ops < MaxOps /\ ops' = ops + 1
  /\ IF len + n <= cap
     THEN /\ len' = len + n /\ lowest' = (IF inCaller THEN Min(lowest, len) ELSE lowest)
          /\ UNCHANGED <<cap, inCaller, prefixIntact>>
     ELSE /\ len' = len + n /\ cap' = 2 * (len + n)            \* grow: copy [0, len) to a new array
          /\ inCaller' = FALSE /\ UNCHANGED <<lowest, prefixIntact>>
  /\ UNCHANGED <<P, starts, panicked>>

Reserve(n) ==
  /\ ops < MaxOps /\ ops' = ops + 1
  /\ IF cap - len >= n
     THEN UNCHANGED <<cap, inCaller, panicked>>
     ELSE LET newcap == (IF ReservePolicy = "fromend" THEN len ELSE 0) + n + (n \div 4) IN
          IF newcap < len
          THEN panicked' = TRUE /\ UNCHANGED <<cap, inCaller>>
          ELSE cap' = newcap /\ inCaller' = FALSE /\ UNCHANGED panicked
  /\ UNCHANGED <<P, len, starts, lowest, prefixIntact>>

Rewrite == /\ ops < MaxOps /\ starts # <<>> /\ ops' = ops + 1
           /\ lowest' = (IF inCaller /\ starts[Len(starts)] < len THEN Min(lowest, starts[Len(starts)]) ELSE lowest)
           /\ UNCHANGED <<P, cap, len, inCaller, starts, prefixIntact, panicked>>

Rollback == /\ ops < MaxOps /\ starts # <<>> /\ ops' = ops + 1
            /\ len' = starts[Len(starts)] /\ starts' = SubSeq(starts, 1, Len(starts) - 1)
            /\ UNCHANGED <<P, cap, inCaller, lowest, prefixIntact, panicked>>

Leave == /\ ops < MaxOps /\ starts # <<>> /\ ops' = ops + 1
         /\ starts' = SubSeq(starts, 1, Len(starts) - 1)
         /\ UNCHANGED <<P, cap, len, inCaller, lowest, prefixIntact, panicked>>

Next == Enter \/ (\E n \in 1..MaxWrite : Write(n) \/ Reserve(n)) \/ Rewrite \/ Rollback \/ Leave
Spec == Init /\ [][Next]_vars

NeverBelowPrefix == lowest >= P
LengthKeepsPrefix == len >= P
StartsAbovePrefix == \A i \in 1..Len(starts) : starts[i] >= P /\ starts[i] <= len
ResultStartsWithPrefix == prefixIntact /\ len >= P
NoPanic == ~panicked
\* a reservation leaves room for what it was asked for
RoomAfterReserve == [][\A n \in 1..MaxWrite : Reserve(n) /\ ~panicked' => cap' - len' >= n]_vars

\* prefix lengths relative to the size n of what is written (a reservation counted from the wrong end only shows when
\* the prefix is longer than the text and its slack)
RelPrefixes == {"n/4", "n", "n+n/4", "n+n/4+2", "n+n/2", "2n"}

\* configurations replayed on the real Append: emitted once per initial state (prefix length) with every
\* spare-capacity class and AppendFlags subset
EmitConfig == (Emit /\ ops = 0 /\ cap = P) =>
   PrintT(ToJson([prefix |-> P, spares |-> SpareClasses, flagsets |-> SUBSET {"EscapeHTML", "SortMapKeys", "TrustRawMessage"},
                   rel |-> RelPrefixes]))
=============================================================================
