--------------------------- MODULE JsonGrammar ---------------------------
(***************************************************************************)
(* RFC 8259 as a push-down recogniser over byte CLASSES.                   *)
(*                                                                         *)
(* One step per input byte.  The state after a prefix is a function of the *)
(* prefix, so the reachable states of the generator below are exactly the  *)
(* viable prefixes (prefixes that can still be completed to a document) of *)
(* the JSON language up to length MaxLen.  For each such prefix the spec   *)
(* states: is it a complete document (accept), which classes kill it, and  *)
(* one completion.  This module is the oracle of property C05 and the      *)
(* document generator of C02, C06, C10, C11 and C17.                       *)
(*                                                                         *)
(* Classes are one-character strings; the harness lifts each class to      *)
(* several concrete bytes:                                                 *)
(*   { } [ ] : , " \ /          themselves                                 *)
(*   t r u e f a l s n b E     themselves (letters of true/false/null,    *)
(*                              escapes, exponent, hex)                    *)
(*   h   hex-only letters c d A B C D F                                    *)
(*   0   the digit zero         1   digits 1-9                             *)
(*   - + .                      themselves                                 *)
(*   S   space                  W   tab, newline, carriage return          *)
(*   C   other control bytes < 0x20                                        *)
(*   x   every other byte (plain ASCII, 0x7f, bytes >= 0x80)               *)
(***************************************************************************)
EXTENDS Naturals, Sequences, FiniteSets, TLC, Json

CONSTANTS DepthLimit, MaxLen,      \* longest prefix generated
          MaxWS,       \* most whitespace classes in one prefix (bounds the self-loops)
          Emit         \* TRUE: print one JSON record per viable prefix

Classes == {"{","}","[","]",":",",","\"","\\","/","t","r","u","e","f","a","l","s","n","b","E",
            "h","0","1","-","+",".","S","W","C","x"}

WS      == {"S","W"}
Digits  == {"0","1"}
Hex     == {"0","1","a","b","e","f","E","h"}
Escapes == {"\"","\\","/","b","f","n","r","t"}

VARIABLES doc,   \* history: the prefix read so far
          m,     \* mode of the recogniser
          stk,   \* enclosing containers, innermost last: "A" | "O"
          key,   \* the string being read is an object key
          lit    \* remaining letters of a literal

vars == <<doc, m, stk, key, lit>>

St(mm, ss, kk, ll) == [m |-> mm, stk |-> ss, key |-> kk, lit |-> ll]
Dead == St("DEAD", <<>>, FALSE, <<>>)

Pop(s) == SubSeq(s, 1, Len(s) - 1)
Top(s) == s[Len(s)]

\* state after a complete value when byte c follows it
AfterValue(s, c) ==
  IF c \in WS THEN St("E", s, FALSE, <<>>)
  ELSE IF c = "," THEN (IF s = <<>> THEN Dead
                         ELSE IF Top(s) = "A" THEN St("V", s, FALSE, <<>>) ELSE St("K", s, FALSE, <<>>))
  ELSE IF c = "]" THEN (IF s # <<>> /\ Top(s) = "A" THEN St("E", Pop(s), FALSE, <<>>) ELSE Dead)
  ELSE IF c = "}" THEN (IF s # <<>> /\ Top(s) = "O" THEN St("E", Pop(s), FALSE, <<>>) ELSE Dead)
  ELSE Dead

\* start of a value.  encoding/json refuses documents nested deeper than 10000 containers ("exceeded max depth"): the
\* language that Valid accepts has a depth limit, and opening a container inside DepthLimit others is a syntax error.
BeginValue(s, c) ==
  IF c = "{" THEN (IF Len(s) >= DepthLimit THEN Dead ELSE St("O0", Append(s, "O"), FALSE, <<>>))
  ELSE IF c = "[" THEN (IF Len(s) >= DepthLimit THEN Dead ELSE St("A0", Append(s, "A"), FALSE, <<>>))
  ELSE IF c = "\"" THEN St("S", s, FALSE, <<>>)
  ELSE IF c = "-" THEN St("N-", s, FALSE, <<>>)
  ELSE IF c = "0" THEN St("N0", s, FALSE, <<>>)
  ELSE IF c = "1" THEN St("NI", s, FALSE, <<>>)
  ELSE IF c = "t" THEN St("L", s, FALSE, <<"r","u","e">>)
  ELSE IF c = "f" THEN St("L", s, FALSE, <<"a","l","s","e">>)
  ELSE IF c = "n" THEN St("L", s, FALSE, <<"u","l","l">>)
  ELSE Dead

Step(mm, s, kk, ll, c) ==
  CASE mm = "V"  -> IF c \in WS THEN St("V", s, FALSE, <<>>) ELSE BeginValue(s, c)
    [] mm = "A0" -> IF c \in WS THEN St("A0", s, FALSE, <<>>)
                    ELSE IF c = "]" THEN St("E", Pop(s), FALSE, <<>>) ELSE BeginValue(s, c)
    [] mm = "O0" -> IF c \in WS THEN St("O0", s, FALSE, <<>>)
                    ELSE IF c = "}" THEN St("E", Pop(s), FALSE, <<>>)
                    ELSE IF c = "\"" THEN St("S", s, TRUE, <<>>) ELSE Dead
    [] mm = "K"  -> IF c \in WS THEN St("K", s, FALSE, <<>>)
                    ELSE IF c = "\"" THEN St("S", s, TRUE, <<>>) ELSE Dead
    [] mm = "C"  -> IF c \in WS THEN St("C", s, FALSE, <<>>)
                    ELSE IF c = ":" THEN St("V", s, FALSE, <<>>) ELSE Dead
    [] mm = "E"  -> AfterValue(s, c)
    [] mm = "S"  -> IF c = "\"" THEN (IF kk THEN St("C", s, FALSE, <<>>) ELSE St("E", s, FALSE, <<>>))
                    ELSE IF c = "\\" THEN St("SE", s, kk, <<>>)
                    ELSE IF c \in {"C","W"} THEN Dead      \* control bytes (incl. tab/newline) are illegal in strings
                    ELSE St("S", s, kk, <<>>)
    [] mm = "SE" -> IF c \in Escapes THEN St("S", s, kk, <<>>)
                    ELSE IF c = "u" THEN St("U4", s, kk, <<>>) ELSE Dead
    [] mm = "U4" -> IF c \in Hex THEN St("U3", s, kk, <<>>) ELSE Dead
    [] mm = "U3" -> IF c \in Hex THEN St("U2", s, kk, <<>>) ELSE Dead
    [] mm = "U2" -> IF c \in Hex THEN St("U1", s, kk, <<>>) ELSE Dead
    [] mm = "U1" -> IF c \in Hex THEN St("S", s, kk, <<>>) ELSE Dead
    [] mm = "N-" -> IF c = "0" THEN St("N0", s, FALSE, <<>>)
                    ELSE IF c = "1" THEN St("NI", s, FALSE, <<>>) ELSE Dead
    [] mm = "N0" -> IF c = "." THEN St("N.", s, FALSE, <<>>)
                    ELSE IF c \in {"e","E"} THEN St("Ne", s, FALSE, <<>>)
                    ELSE AfterValue(s, c)                    \* no digit may follow a leading zero
    [] mm = "NI" -> IF c \in Digits THEN St("NI", s, FALSE, <<>>)
                    ELSE IF c = "." THEN St("N.", s, FALSE, <<>>)
                    ELSE IF c \in {"e","E"} THEN St("Ne", s, FALSE, <<>>)
                    ELSE AfterValue(s, c)
    [] mm = "N." -> IF c \in Digits THEN St("NF", s, FALSE, <<>>) ELSE Dead
    [] mm = "NF" -> IF c \in Digits THEN St("NF", s, FALSE, <<>>)
                    ELSE IF c \in {"e","E"} THEN St("Ne", s, FALSE, <<>>)
                    ELSE AfterValue(s, c)
    [] mm = "Ne" -> IF c \in {"+","-"} THEN St("Ns", s, FALSE, <<>>)
                    ELSE IF c \in Digits THEN St("NX", s, FALSE, <<>>) ELSE Dead
    [] mm = "Ns" -> IF c \in Digits THEN St("NX", s, FALSE, <<>>) ELSE Dead
    [] mm = "NX" -> IF c \in Digits THEN St("NX", s, FALSE, <<>>) ELSE AfterValue(s, c)
    [] mm = "L"  -> IF c = Head(ll)
                    THEN (IF Len(ll) = 1 THEN St("E", s, FALSE, <<>>) ELSE St("L", s, FALSE, Tail(ll)))
                    ELSE Dead
    [] OTHER     -> Dead

NumEnd == {"N0","NI","NF","NX"}

\* a prefix is a complete document
Accepting(mm, s) == s = <<>> /\ mm \in ({"E"} \cup NumEnd)

\* classes that keep the prefix viable / kill it
Live(mm, s, kk, ll)  == {c \in Classes : Step(mm, s, kk, ll, c).m # "DEAD"}
Kills(mm, s, kk, ll) == Classes \ Live(mm, s, kk, ll)

\* Reduced alphabet used by the generator: classes that behave identically in a
\* state are represented by one of them (the harness re-expands them to bytes).
Plain == {"x","/","t","r","u","e","f","a","l","s","n","b","E","h","0","1","-","+",".",":",",","{","}","[","]"}
GenAlphabet(mm) ==
  CASE mm = "S"  -> {"\"", "\\", "x", "S", "{", "u"}      \* plain bytes in a string are all alike
    [] mm \in {"U4","U3","U2","U1"} -> {"0","a","E","h"}
    [] mm = "SE" -> Escapes \cup {"u"}
    [] OTHER     -> Classes

RECURSIVE Closers(_)
Closers(s) == IF s = <<>> THEN <<>> ELSE <<(IF Top(s) = "A" THEN "]" ELSE "}")>> \o Closers(Pop(s))

\* a completion of the current prefix to a full document
StrTail(kk) == IF kk THEN <<"\"", ":", "0">> ELSE <<"\"">>
ModeTail(mm, kk, ll) ==
  CASE mm \in {"V","A0","N-","N.","Ne","Ns"} -> <<"0">>
    [] mm = "O0" -> <<>>
    [] mm = "K"  -> <<"\"", "\"", ":", "0">>
    [] mm = "C"  -> <<":", "0">>
    [] mm = "S"  -> StrTail(kk)
    [] mm = "SE" -> <<"n">> \o StrTail(kk)
    [] mm = "U4" -> <<"0","0","0","0">> \o StrTail(kk)
    [] mm = "U3" -> <<"0","0","0">> \o StrTail(kk)
    [] mm = "U2" -> <<"0","0">> \o StrTail(kk)
    [] mm = "U1" -> <<"0">> \o StrTail(kk)
    [] mm = "L"  -> ll
    [] OTHER     -> <<>>
Completion(mm, s, kk, ll) == ModeTail(mm, kk, ll) \o Closers(s)

NumWS(d) == Cardinality({i \in 1..Len(d) : d[i] \in WS})

Init == doc = <<>> /\ m = "V" /\ stk = <<>> /\ key = FALSE /\ lit = <<>>

Read(c) ==
  /\ Len(doc) < MaxLen
  /\ c \in GenAlphabet(m)
  /\ (c \in WS => NumWS(doc) < MaxWS)
  /\ LET n == Step(m, stk, key, lit, c) IN
       /\ n.m # "DEAD"
       /\ doc' = Append(doc, c)
       /\ m' = n.m /\ stk' = n.stk /\ key' = n.key /\ lit' = n.lit

Next == \E c \in Classes : Read(c)
Spec == Init /\ [][Next]_vars

-----------------------------------------------------------------------------
(* Design properties of the recogniser itself (checked by TLC in MC_JsonGrammar) *)

TypeOK == /\ m \in {"V","A0","O0","K","C","E","S","SE","U4","U3","U2","U1","N-","N0","NI","N.","NF","Ne","Ns","NX","L"}
          /\ \A i \in 1..Len(stk) : stk[i] \in {"A","O"}
          /\ Len(stk) <= Len(doc)
          /\ (m = "L") = (lit # <<>>)
          /\ (key => m \in {"S","SE","U4","U3","U2","U1"})
          /\ (m \in {"O0","K","C"} => stk # <<>> /\ Top(stk) = "O")
          /\ (m = "A0" => stk # <<>> /\ Top(stk) = "A")

\* the completion really completes: running the recogniser over it ends in an accepting state
RECURSIVE Run(_, _, _, _, _)
Run(mm, s, kk, ll, w) ==
  IF w = <<>> THEN St(mm, s, kk, ll)
  ELSE LET n == Step(mm, s, kk, ll, Head(w)) IN
       IF n.m = "DEAD" THEN Dead ELSE Run(n.m, n.stk, n.key, n.lit, Tail(w))
CompletionAccepts ==
  LET r == Run(m, stk, key, lit, Completion(m, stk, key, lit)) IN Accepting(r.m, r.stk)

\* lifting lemmas: plain bytes in a string, and whitespace between tokens, are self-loops;
\* hence string bodies and whitespace runs may be stretched without changing the verdict
PlainInStringStutters ==
  m = "S" => \A c \in Plain \cup {"S"} : Step(m, stk, key, lit, c) = St(m, stk, key, lit)
WhitespaceStutters ==
  m \in {"V","A0","O0","K","C","E"} => \A c \in WS : Step(m, stk, key, lit, c) = St(m, stk, FALSE, <<>>)
\* a dead prefix stays dead: nothing leaves DEAD
DeadIsAbsorbing == \A c \in Classes : Step("DEAD", <<>>, FALSE, <<>>, c).m = "DEAD"
\* closing an empty stack or the wrong container is never live
NoBadPop == \A c \in {"]","}"} : (stk = <<>> /\ m # "S") => Step(m, stk, key, lit, c).m \in {"DEAD"}

-----------------------------------------------------------------------------
(* Vector emission (Gen_JsonGrammar): one record per viable prefix *)
\* verdicts of the prefix embedded in larger documents (exact: the recogniser is run on the wrapped sequence)
Verdict(w) == LET r == Run("V", <<>>, FALSE, <<>>, w) IN Accepting(r.m, r.stk)
WrapVerdicts == [o  |-> Verdict(<<"{","\"","x","\"",":">> \o doc \o <<"}">>),
                 a1 |-> Verdict(<<"[">> \o doc \o <<"]">>),
                 a2 |-> Verdict(<<"[","0",",">> \o doc \o <<"]">>),
                 t  |-> Verdict(<<"[">> \o doc \o <<",","\"","\\","n","x","\"","]">>)]
\* Insertions into a COMPLETE document: a class that kills the prefix doc[1..p] is inserted at p and the rest of
\* the document follows.  The result has a non-viable prefix, so it is not a document whatever follows
\* (InsertionsAreDead); embedded in an array or an object its prefix may be viable again, so the verdicts of the
\* wrapped sequences are computed by the recogniser itself.
Ins(p, c) == SubSeq(doc, 1, p) \o <<c>> \o SubSeq(doc, p + 1, Len(doc))
KillsAt(p) == LET r == Run("V", <<>>, FALSE, <<>>, SubSeq(doc, 1, p)) IN Kills(r.m, r.stk, r.key, r.lit)
WrapOf(d) == [o  |-> Verdict(<<"{","\"","x","\"",":">> \o d \o <<"}">>),
              a1 |-> Verdict(<<"[">> \o d \o <<"]">>),
              a2 |-> Verdict(<<"[","0",",">> \o d \o <<"]">>)]
InsertionsOf == IF Accepting(m, stk) /\ Len(doc) > 0
                THEN UNION {{[p |-> p, c |-> c, w |-> WrapOf(Ins(p, c))] : c \in KillsAt(p)} : p \in 0..(Len(doc) - 1)}
                ELSE {}
InsertionsAreDead == \A x \in InsertionsOf : ~Verdict(Ins(x.p, x.c))

\* Depth lifting: the deepest nesting a document reaches, and the lemma that wrapping it in j more arrays keeps the verdict
\* exactly as long as that depth plus j stays within the limit (checked with a small DepthLimit; the harness applies it at 10000)
RECURSIVE DeepestRun(_, _, _, _, _, _)
DeepestRun(mm, s, kk, ll, w, mx) ==
  IF w = <<>> THEN mx
  ELSE LET n == Step(mm, s, kk, ll, Head(w)) IN
       IF n.m = "DEAD" THEN mx ELSE DeepestRun(n.m, n.stk, n.key, n.lit, Tail(w), IF Len(n.stk) > mx THEN Len(n.stk) ELSE mx)
Deepest(w) == DeepestRun("V", <<>>, FALSE, <<>>, w, 0)
WrapA(j, w) == [i \in 1..j |-> "["] \o w \o [i \in 1..j |-> "]"]
DepthLifting == Accepting(m, stk) =>
   \A j \in 0..3 : Verdict(WrapA(j, doc)) = (Deepest(doc) + j <= DepthLimit)

Record == [d |-> doc, a |-> Accepting(m, stk), k |-> Kills(m, stk, key, lit), md |-> Deepest(doc),
           c |-> Completion(m, stk, key, lit), m |-> m, n |-> Len(stk), w |-> WrapVerdicts, ins |-> InsertionsOf]
EmitVector == Emit => PrintT(ToJson(Record))
=============================================================================
