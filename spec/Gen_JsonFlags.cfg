SPECIFICATION Spec
CONSTANTS
  Emit = TRUE
  TrustCovers = {"raw"}
CONSTRAINT EmitTable
CONSTRAINT EmitConfig
CONSTRAINT EmitFault
CHECK_DEADLOCK FALSE
