SPECIFICATION Spec
CONSTANTS
  Emit = TRUE
CONSTRAINT EmitTable
CONSTRAINT EmitConfig
CHECK_DEADLOCK FALSE
