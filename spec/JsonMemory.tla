----------------------------- MODULE JsonMemory -----------------------------
(***************************************************************************)
(* Memory ownership of the json package (property C10) as a model of       *)
(* regions and of which region each handed-out result may be backed by.    *)
(*                                                                         *)
(* Regions: Input(k) - a byte slice lent by the caller; Fresh - memory     *)
(* allocated for the result; Pool - the package's pooled encode buffers;   *)
(* DecBuf - a Decoder's read buffer.  A history is a sequence of library   *)
(* calls and of caller actions:                                            *)
(*   marshal            result backed by Fresh (never by Pool)             *)
(*   unmarshal(k, zc)   decoded strings / numbers / raw messages backed by *)
(*                      Fresh, or by Input(k) when zc (zero-copy flags)    *)
(*   decode(t)          values from a Decoder into a target of kind t (a   *)
(*                      struct with every kind of field, a top-level       *)
(*                      RawMessage, an interface): backed by Fresh (never  *)
(*                      by DecBuf, which later calls compact and refill);  *)
(*                      at = "end": the value ends exactly where the       *)
(*                      buffered data ends while more input is to come, so *)
(*                      that the next fill writes over the very place the  *)
(*                      value was read from; at = "inside": more buffered  *)
(*                      data follows it                                    *)
(*   tokstring(k)       Tokenizer.String: may alias Input(k)               *)
(*   overwrite(k)       the caller scribbles over Input(k)                 *)
(*   churn              many further library calls (pools re-acquired,     *)
(*                      the Decoder's buffer compacted and regrown)        *)
(* The specification predicts, after every step, which earlier results may *)
(* have changed: exactly those allowed to alias an input that has been     *)
(* overwritten.  Everything else must still equal its snapshot, and no     *)
(* library call may change an input.                                       *)
(***************************************************************************)
EXTENDS Naturals, Sequences, FiniteSets, TLC, Json

CONSTANTS MaxSteps, Inputs, Emit,
          ZeroCopyAtEnd   \* deviation witness: a value that is the last of the buffered data is decoded without copying

VARIABLES hist,      \* sequence of actions [op, k, zc]
          results,   \* sequence of [op, k, zc]: one per result-producing action
          dirty,     \* set of inputs overwritten so far
          may        \* after each step: set of result indices that may differ from their snapshot

vars == <<hist, results, dirty, may>>

Act(op, k, zc) == [op |-> op, k |-> k, zc |-> zc, t |-> "", at |-> ""]
Targets == {"struct", "raw", "any"}
Ats == {"inside", "end"}

\* regions a result may be backed by
Backing(r) == IF (r.op = "unmarshal" /\ r.zc) \/ r.op = "tokstring" THEN {"Fresh", "Input"}
              ELSE IF ZeroCopyAtEnd /\ r.op = "decode" /\ r.at = "end" THEN {"Fresh", "DecBuf"}
              ELSE {"Fresh"}
MayChange(rs, d) == {i \in 1..Len(rs) : "Input" \in Backing(rs[i]) /\ rs[i].k \in d}

Init == hist = <<>> /\ results = <<>> /\ dirty = {} /\ may = <<>>

Step(a) ==
  /\ Len(hist) < MaxSteps
  /\ hist' = Append(hist, a)
  /\ results' = IF a.op \in {"marshal", "unmarshal", "decode", "tokstring"} THEN Append(results, a) ELSE results
  /\ dirty' = IF a.op = "overwrite" THEN dirty \cup {a.k} ELSE dirty
  /\ may' = Append(may, MayChange(results', dirty'))

Next == \/ Step(Act("marshal", 0, FALSE))
        \/ \E t \in Targets, e \in Ats : Step([Act("decode", 0, FALSE) EXCEPT !.t = t, !.at = e])
        \/ Step(Act("churn", 0, FALSE))
        \/ \E k \in Inputs, zc \in BOOLEAN : k \notin dirty /\ Step(Act("unmarshal", k, zc))   \* a lent input is intact when used
        \/ \E k \in Inputs : k \notin dirty /\ Step(Act("tokstring", k, FALSE))
        \/ \E k \in Inputs : k \notin dirty /\ Step(Act("overwrite", k, FALSE))
Spec == Init /\ [][Next]_vars

\* results never backed by pooled or decoder memory; aliasing only opt-in and only with the input
NeverPoolOrDecBuf == \A i \in 1..Len(results) : Backing(results[i]) \subseteq {"Fresh", "Input"}
AliasOnlyOptIn == \A i \in 1..Len(results) :
   "Input" \in Backing(results[i]) => (results[i].op = "tokstring" \/ (results[i].op = "unmarshal" /\ results[i].zc))
\* without an overwrite nothing may ever change
StableWithoutOverwrite == dirty = {} => \A j \in 1..Len(may) : may[j] = {}
\* what may change only grows with overwrites of the aliased input
MayChangeMonotone == \A j \in 1..(Len(may) - 1) : may[j] \subseteq may[j + 1]

EmitHistory == (Emit /\ Len(hist) = MaxSteps) => PrintT(ToJson([hist |-> hist, may |-> may]))
=============================================================================
