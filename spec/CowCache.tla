------------------------------ MODULE CowCache ------------------------------
(***************************************************************************)
(* The copy-on-write codec caches of json (atomic.Pointer to a map), proto *)
(* (atomic.Value; TypeOf adds a mutex and a second check) and thrift       *)
(* (atomic.Value per encoder / decoder), property C09.                     *)
(*                                                                         *)
(* Goroutines call an entry point for a type.  One call is                 *)
(*   Load     read the published map (a value: maps are never mutated)     *)
(*   Hit      the type is in the snapshot: use its codec                    *)
(*   Build    else build the codec privately (several steps in the code;   *)
(*            nothing is visible to others until Store)                    *)
(*   Store    publish snapshot + {own type} (+ whatever else was built)    *)
(*   Use      encode / decode with the codec                               *)
(* With Locked = TRUE (proto.TypeOf) a miss takes the mutex and loads      *)
(* again before building, so stores are serialised.  EarlyUnlock = TRUE    *)
(* is the deviation in which the mutex only covers the second load: it     *)
(* violates NoLossWhenLocked and IdentityStableWhenLocked, and its         *)
(* schedules that the mutex forbids are replayed on the real goroutines as *)
(* a probe of mutual exclusion (they must prove infeasible).  Registry =    *)
(* TRUE is the deviation in which a builder is entered in a shared         *)
(* registry before its codec is built and whoever finds the type there     *)
(* takes the codec as it is: it violates PublishedComplete and             *)
(* UsesOwnCompleteCodec (the stress lets every goroutine make its first    *)
(* call on one big fresh type at once to meet it).                         *)
(*                                                                         *)
(* Lost updates are ALLOWED in the unlocked caches: two goroutines that    *)
(* miss on different types from the same snapshot each publish a map       *)
(* without the other's type; the loser's type is simply rebuilt later.     *)
(* What must hold: published maps are immutable; every entry of every      *)
(* published map was completely built before it was published; a call only *)
(* uses a complete codec of the type it asked for; with the mutex, nothing *)
(* is ever lost and a type keeps the identity it was first given.          *)
(***************************************************************************)
EXTENDS Naturals, FiniteSets, Sequences, TLC

CONSTANTS Procs, Types, MaxCalls, Locked,
          EarlyUnlock,  \* deviation witness: the mutex is given back after the second check, before the build and the store
          Registry      \* deviation witness: a builder is entered in a registry shared by all goroutines BEFORE its codec is built,
                        \* and a goroutine that finds the type registered takes that codec as it is

VARIABLES maps,        \* map id -> set of entries <<type, builder>>; id 0 is the initial empty map
          published,   \* id of the published map
          pc, snap, want, calls,
          complete,    \* set of <<type, builder>> codecs that are fully built
          used,        \* history: <<proc, wanted type, entry used>>
          lock,
          reg,         \* the registry of the deviation: entries <<type, builder>> that somebody has begun to build
          mine         \* the entry a goroutine that missed is going to publish and use

vars == <<maps, published, pc, snap, want, calls, complete, used, lock, reg, mine>>

NoProc == "none"
NoEntry == <<CHOOSE t \in Types : TRUE, NoProc>>
TypesIn(id) == {e[1] : e \in maps[id]}
EntryFor(id, t) == CHOOSE e \in maps[id] : e[1] = t

Init == /\ maps = (0 :> {}) /\ published = 0
        /\ pc = [p \in Procs |-> "idle"] /\ snap = [p \in Procs |-> 0] /\ want = [p \in Procs |-> CHOOSE t \in Types : TRUE]
        /\ calls = [p \in Procs |-> 0] /\ complete = {} /\ used = {} /\ lock = NoProc
        /\ reg = {} /\ mine = [p \in Procs |-> NoEntry]

Call(p) == /\ pc[p] = "idle" /\ calls[p] < MaxCalls
           /\ \E t \in Types : want' = [want EXCEPT ![p] = t]
           /\ calls' = [calls EXCEPT ![p] = @ + 1] /\ pc' = [pc EXCEPT ![p] = "load"]
           /\ UNCHANGED <<maps, published, snap, complete, used, lock, reg, mine>>

Load(p) == /\ pc[p] = "load"
           /\ snap' = [snap EXCEPT ![p] = published]
           /\ pc' = [pc EXCEPT ![p] = IF want[p] \in TypesIn(published) THEN "use"
                                      ELSE IF Locked THEN "lock" ELSE "build"]
           /\ UNCHANGED <<maps, published, want, calls, complete, used, lock, reg, mine>>

Lock(p) == /\ pc[p] = "lock" /\ lock = NoProc /\ lock' = p /\ pc' = [pc EXCEPT ![p] = "load2"]
           /\ UNCHANGED <<maps, published, snap, want, calls, complete, used, reg, mine>>

Load2(p) == /\ pc[p] = "load2"
            /\ snap' = [snap EXCEPT ![p] = published]
            /\ pc' = [pc EXCEPT ![p] = IF want[p] \in TypesIn(published) THEN "unlock" ELSE "build"]
            /\ lock' = IF EarlyUnlock /\ want[p] \notin TypesIn(published) THEN NoProc ELSE lock
            /\ UNCHANGED <<maps, published, want, calls, complete, used, reg, mine>>

Build(p) == /\ pc[p] = "build"
            /\ IF Registry /\ \E e \in reg : e[1] = want[p]
               THEN \* the deviation: somebody is registered as the builder of the type: that codec is taken as it is
                    /\ mine' = [mine EXCEPT ![p] = CHOOSE e \in reg : e[1] = want[p]]
                    /\ pc' = [pc EXCEPT ![p] = "store"]
                    /\ UNCHANGED <<complete, reg>>
               ELSE IF Registry
               THEN \* the deviation: registered first, built afterwards (Build2)
                    /\ reg' = reg \cup {<<want[p], p>>}
                    /\ mine' = [mine EXCEPT ![p] = <<want[p], p>>]
                    /\ pc' = [pc EXCEPT ![p] = "build2"]
                    /\ UNCHANGED complete
               ELSE /\ complete' = complete \cup {<<want[p], p>>}       \* private until Store
                    /\ mine' = [mine EXCEPT ![p] = <<want[p], p>>]
                    /\ pc' = [pc EXCEPT ![p] = "store"]
                    /\ UNCHANGED reg
            /\ UNCHANGED <<maps, published, snap, want, calls, used, lock>>

Build2(p) == /\ pc[p] = "build2"
             /\ complete' = complete \cup {mine[p]}
             /\ pc' = [pc EXCEPT ![p] = "store"]
             /\ UNCHANGED <<maps, published, snap, want, calls, used, lock, reg, mine>>

Store(p) == /\ pc[p] = "store"
            /\ LET id == Cardinality(DOMAIN maps)
                   \* entries of the snapshot are kept as they are (identity preserved); the own type is added
                   new == maps[snap[p]] \cup {mine[p]} IN
               /\ maps' = maps @@ (id :> new)
               /\ published' = id
            /\ pc' = [pc EXCEPT ![p] = IF Locked /\ ~EarlyUnlock THEN "unlock" ELSE "use"]
            /\ UNCHANGED <<snap, want, calls, complete, used, lock, reg, mine>>

Unlock(p) == /\ pc[p] = "unlock" /\ lock = p /\ lock' = NoProc
             /\ pc' = [pc EXCEPT ![p] = "use"]
             /\ UNCHANGED <<maps, published, snap, want, calls, complete, used, reg, mine>>

\* the codec used is the snapshot's entry on a hit, the own build on a miss
Use(p) == /\ pc[p] = "use"
          /\ LET e == IF want[p] \in TypesIn(snap[p]) THEN EntryFor(snap[p], want[p]) ELSE mine[p] IN
               used' = used \cup {<<p, want[p], e>>}
          /\ pc' = [pc EXCEPT ![p] = "idle"]
          /\ mine' = [mine EXCEPT ![p] = NoEntry]
          /\ UNCHANGED <<maps, published, snap, want, calls, complete, lock, reg>>

Next == \E p \in Procs : Call(p) \/ Load(p) \/ Lock(p) \/ Load2(p) \/ Build(p) \/ Build2(p) \/ Store(p) \/ Unlock(p) \/ Use(p)
Spec == Init /\ [][Next]_vars

-----------------------------------------------------------------------------
\* published maps are values: once created a map never changes
MapsImmutable == [][\A id \in DOMAIN maps : maps'[id] = maps[id]]_vars
\* every entry of every map ever published is a completely built codec
PublishedComplete == \A id \in DOMAIN maps : maps[id] \subseteq complete
\* one entry per type in every map
OneEntryPerType == \A id \in DOMAIN maps : \A e1, e2 \in maps[id] : e1[1] = e2[1] => e1 = e2
\* a call only ever uses a complete codec of the type it asked for
UsesOwnCompleteCodec == \A u \in used : u[3][1] = u[2] /\ u[3] \in complete
\* the mutex protects at most one builder
MutexHeldByBuilder == \A p \in Procs : pc[p] \in {"load2", "unlock"} => lock = p
\* with the mutex nothing is ever lost and identities are stable
NoLossWhenLocked == Locked => \A id \in DOMAIN maps : id <= published => maps[id] \subseteq maps[published]
IdentityStableWhenLocked ==
  Locked => \A u1, u2 \in used : u1[2] = u2[2] => u1[3] = u2[3]
\* reachability witness for the unlocked variant: a lost update does happen (checked as a violated "never" in a separate config)
NoLostUpdate == \A id \in DOMAIN maps : id <= published => TypesIn(id) \subseteq TypesIn(published)
=============================================================================
