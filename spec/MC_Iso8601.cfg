SPECIFICATION Spec
CONSTANTS
  Fracs = {0, 1, 9}
  MaxEdits = 1
  Emit = FALSE
INVARIANTS DefinitionsAgree ShapesParse Monotone
CHECK_DEADLOCK FALSE
