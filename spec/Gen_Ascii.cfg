SPECIFICATION Spec
CONSTANTS
  MaxLen = 3
  Emit = TRUE
CONSTRAINT EmitVector
CHECK_DEADLOCK FALSE
