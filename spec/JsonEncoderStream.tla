-------------------------- MODULE JsonEncoderStream --------------------------
(***************************************************************************)
(* json.Encoder as a state machine: what one Encoder returns and writes    *)
(* over a history of calls, as encoding/json's Encoder defines it.         *)
(*                                                                         *)
(* State of the code (json/json.go Encoder): the flags (EscapeHTML), the   *)
(* prefix / indent pair, and err - the error of a failed Write, which      *)
(* every later Encode returns without doing anything.  Environment: the    *)
(* writer, which may refuse a Write.                                       *)
(*                                                                         *)
(* One action per public call: Encode of a value that can be encoded,      *)
(* Encode of a value that cannot (NaN, a channel, a failing Marshaler, an  *)
(* invalid Number), SetEscapeHTML, SetIndent; one for the environment:     *)
(* WriterBreaks (the next Write fails and writes nothing).                 *)
(*                                                                         *)
(* Checked by TLC:                                                         *)
(*   OutputIsSuccesses   the writer holds, in order, exactly the values of *)
(*                       the calls that returned nil, each rendered under  *)
(*                       the settings in force at its call                 *)
(*   ValueErrorsPass     an encoding error concerns its value only: err is *)
(*                       set only by a failed Write                        *)
(*   FailureIsReported   the call whose Write failed returns that error    *)
(*   StickyAfterFailure  once a Write failed every Encode returns the      *)
(*                       error and nothing more is written                 *)
(* Variants (witnesses that the invariants can fail, and the two changes   *)
(* of the code they stand for):                                            *)
(*   "shadow"       the failing call returns nil (the pinned tree did: the *)
(*                  Write error was assigned to a shadowed variable)       *)
(*   "stickyvalue"  an encoding error is stored in err as well             *)
(***************************************************************************)
EXTENDS Naturals, Sequences, TLC, Json

CONSTANTS MaxOps, Variant, Emit

Good    == {"num", "html", "nested", "map"}
Bad     == {"nan", "chan", "marshaler", "number"}
Indents == {"none", "spaces", "prefixed"}

VARIABLES err,       \* "none" | "werr" | "verr"   Encoder.err
          esc,       \* EscapeHTML flag
          ind,       \* prefix / indent pair
          broken,    \* environment: the next Write fails
          out,       \* what the writer has received: <<value, esc, ind>> records
          hist       \* ghost: the calls made, with what they returned
vars == <<err, esc, ind, broken, out, hist>>

Init == err = "none" /\ esc = TRUE /\ ind = "none" /\ broken = FALSE /\ out = <<>> /\ hist = <<>>

Room == Len(hist) < MaxOps
Log(op, arg, ret) == hist' = Append(hist, [op |-> op, arg |-> arg, ret |-> ret, wrote |-> Len(out') > Len(out), failed |-> (op = "encode" /\ err = "none" /\ arg \in Good /\ broken)])

Encode(v) ==
    /\ Room
    /\ IF err # "none"
         THEN UNCHANGED <<err, out, broken>> /\ Log("encode", v, err)
         ELSE IF v \in Bad
           THEN /\ err' = IF Variant = "stickyvalue" THEN "verr" ELSE "none"
                /\ UNCHANGED <<out, broken>> /\ Log("encode", v, "verr")
           ELSE IF broken
             THEN /\ err' = "werr" /\ broken' = FALSE /\ UNCHANGED out
                  /\ Log("encode", v, IF Variant = "shadow" THEN "nil" ELSE "werr")
             ELSE /\ out' = Append(out, <<v, esc, ind>>) /\ UNCHANGED <<err, broken>>
                  /\ Log("encode", v, "nil")
    /\ UNCHANGED <<esc, ind>>

SetEscapeHTML(b) == Room /\ esc' = b /\ UNCHANGED <<err, ind, broken, out>> /\ Log("escape", IF b THEN "on" ELSE "off", "nil")
SetIndent(i)     == Room /\ ind' = i /\ UNCHANGED <<err, esc, broken, out>> /\ Log("indent", i, "nil")
WriterBreaks     == Room /\ ~broken /\ err = "none" /\ broken' = TRUE /\ UNCHANGED <<err, esc, ind, out>> /\ Log("break", "", "nil")

Next == \/ \E v \in Good \cup Bad : Encode(v)
        \/ \E b \in BOOLEAN : SetEscapeHTML(b)
        \/ \E i \in Indents : SetIndent(i)
        \/ WriterBreaks
Spec == Init /\ [][Next]_vars

\* ---- properties
Encodes == SelectSeq(hist, LAMBDA h : h.op = "encode")
OutputIsSuccesses == Len(out) = Len(SelectSeq(Encodes, LAMBDA h : h.ret = "nil"))
                     /\ \A i \in 1..Len(out) : out[i][1] = SelectSeq(Encodes, LAMBDA h : h.ret = "nil")[i].arg
ValueErrorsPass    == err # "none" => \E i \in 1..Len(hist) : hist[i].failed
FailureIsReported  == \A i \in 1..Len(hist) : hist[i].failed => hist[i].ret = "werr"
StickyAfterFailure == \A i, j \in 1..Len(hist) : (i < j /\ hist[i].failed /\ hist[j].op = "encode") => (hist[j].ret = "werr" /\ ~hist[j].wrote)
NoTraceOfFailures  == \A i \in 1..Len(hist) : hist[i].wrote <=> (hist[i].op = "encode" /\ hist[i].ret = "nil" /\ ~hist[i].failed)

EmitVector == (Emit /\ Len(hist) = MaxOps) => PrintT(ToJson([encstream |-> hist, out |-> out]))
=============================================================================
