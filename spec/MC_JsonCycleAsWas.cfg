SPECIFICATION Spec
CONSTANTS
  N = 3
  MaxEdges = 4
  CycleAfter = 2
  TrackOnly = {"ptr"}
  Emit = FALSE
INVARIANTS Terminates ErrorIffCyclic
CHECK_DEADLOCK FALSE
