SPECIFICATION Spec
CONSTANTS
  W = 4
  MaxUnits = 4
  Dirs = {"esc"}
  EscUnits = {}
  UnescUnits = {}
  Variant = "code"
  Emit = FALSE
INVARIANTS EscapeRefines UnitAligned NoCuts Grammatical RoundTrip OnePiece HtmlOnlyHtml
CHECK_DEADLOCK FALSE
