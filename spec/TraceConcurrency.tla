------------------------- MODULE TraceConcurrency -------------------------
(***************************************************************************)
(* Trace validation for the caches and pools of json, proto and thrift     *)
(* under free-running concurrent first use (C09, code -> spec).            *)
(*                                                                         *)
(* The hooks (build tag verif) report, in the order of a global atomic     *)
(* sequence number taken after each Load and before each Store / Put:      *)
(*   {"ev":"load"|"load-locked","cache":C,"g":G,"id":M,"n":N}              *)
(*   {"ev":"store","cache":C,"g":G,"id":M,"n":N}                           *)
(*   {"ev":"get"|"put","pool":P,"g":G,"obj":O,"n":N}                       *)
(* M, O and G are small integers assigned by the harness to map headers,   *)
(* pooled objects and goroutines; M = 0 is the nil map, O = 0 "the pool    *)
(* was empty".                                                             *)
(*                                                                         *)
(* This is CowCache projected on what the hooks can see.  Required of      *)
(* every recorded execution:                                               *)
(*   - a loaded map is one that was published before (or the nil map) and  *)
(*     has the size it was published with: published maps are immutable;   *)
(*   - a stored map is new, and strictly larger than the snapshot the same *)
(*     goroutine loaded last from that cache (snapshot + own types);       *)
(*   - for the mutex-protected cache ("proto.type") the snapshot of a      *)
(*     store is the latest published map: nothing is lost;                 *)
(*   - a pooled object is held by at most one goroutine at a time, is put  *)
(*     back by the goroutine that got it, never put twice, and a sort      *)
(*     scratch slice is empty when it is put back.                         *)
(***************************************************************************)
EXTENDS Naturals, Sequences, FiniteSets, TLC, Json

Trace == ndJsonDeserialize("trace.ndjson")

VARIABLES l,
          size,      \* cache -> (map id -> size at publication)
          latest,    \* cache -> id of the latest published map
          snapshot,  \* <<goroutine, cache>> -> map id loaded last
          held,      \* <<pool, obj>> -> goroutine holding it
          seen       \* set of <<pool, obj>> ever seen

tvars == <<l, size, latest, snapshot, held, seen>>

Caches == {"json", "proto.codec", "proto.type", "thrift.encoder", "thrift.decoder"}
LockedCaches == {"proto.type"}

TraceInit == /\ l = 1
             /\ size = [c \in Caches |-> (0 :> 0)]
             /\ latest = [c \in Caches |-> 0]
             /\ snapshot = <<>> /\ held = <<>> /\ seen = {}

Ev == Trace[l]

Get(f, k, default) == IF k \in DOMAIN f THEN f[k] ELSE default
Put(f, k, v) == [x \in DOMAIN f \cup {k} |-> IF x = k THEN v ELSE f[x]]
Del(f, k) == [x \in DOMAIN f \ {k} |-> f[x]]

TraceLoad ==
  /\ l <= Len(Trace) /\ Ev.ev \in {"load", "load-locked"}
  /\ Ev.id \in DOMAIN size[Ev.cache]                      \* published before (or nil)
  /\ size[Ev.cache][Ev.id] = Ev.n                         \* and unchanged since
  /\ (Ev.ev = "load-locked" => Ev.id = latest[Ev.cache])  \* under the mutex the newest map is seen
  /\ snapshot' = Put(snapshot, <<Ev.g, Ev.cache>>, Ev.id)
  /\ UNCHANGED <<size, latest, held, seen>> /\ l' = l + 1

TraceStore ==
  /\ l <= Len(Trace) /\ Ev.ev = "store"
  /\ Ev.id \notin DOMAIN size[Ev.cache]                   \* a new map, never one already published
  /\ <<Ev.g, Ev.cache>> \in DOMAIN snapshot
  /\ LET from == snapshot[<<Ev.g, Ev.cache>>] IN
       /\ Ev.n > size[Ev.cache][from]                     \* snapshot + own type(s)
       /\ (Ev.cache \in LockedCaches => from = latest[Ev.cache])
  /\ size' = [size EXCEPT ![Ev.cache] = Put(@, Ev.id, Ev.n)]
  /\ latest' = [latest EXCEPT ![Ev.cache] = Ev.id]
  /\ UNCHANGED <<snapshot, held, seen>> /\ l' = l + 1

TraceGet ==
  /\ l <= Len(Trace) /\ Ev.ev = "get"
  /\ IF Ev.obj = 0 THEN UNCHANGED <<held, seen>>          \* empty pool: the caller makes a new object
     ELSE /\ <<Ev.pool, Ev.obj>> \notin DOMAIN held       \* nobody holds it
          /\ held' = Put(held, <<Ev.pool, Ev.obj>>, Ev.g)
          /\ seen' = seen \cup {<<Ev.pool, Ev.obj>>}
  /\ UNCHANGED <<size, latest, snapshot>> /\ l' = l + 1

TracePut ==
  /\ l <= Len(Trace) /\ Ev.ev = "put"
  /\ (Ev.pool = "mapslice" => Ev.n = 0)                   \* sort scratch is emptied before it goes back
  /\ IF <<Ev.pool, Ev.obj>> \in DOMAIN held
     THEN /\ held[<<Ev.pool, Ev.obj>>] = Ev.g             \* put back by its holder
          /\ held' = Del(held, <<Ev.pool, Ev.obj>>) /\ UNCHANGED seen
     ELSE /\ <<Ev.pool, Ev.obj>> \notin seen              \* a fresh object made by the caller; not a second Put
          /\ seen' = seen \cup {<<Ev.pool, Ev.obj>>} /\ UNCHANGED held
  /\ UNCHANGED <<size, latest, snapshot>> /\ l' = l + 1

TraceNext == TraceLoad \/ TraceStore \/ TraceGet \/ TracePut
TraceSpec == TraceInit /\ [][TraceNext]_tvars

\* at most one holder per pooled object, by construction of held; stated for the record
ExclusiveOwnership == \A k \in DOMAIN held : held[k] >= 0

TraceAccepted ==
  LET d == TLCGet("stats").diameter IN
  IF d - 1 = Len(Trace) THEN TRUE ELSE Print(<<"TRACE-REJECTED-AT", d>>, FALSE)
=============================================================================
