SPECIFICATION Spec
CONSTANTS
  MaxSteps = 2
  Inputs = {1, 2}
  ZeroCopyAtEnd = TRUE
  Emit = FALSE
INVARIANTS NeverPoolOrDecBuf
CHECK_DEADLOCK FALSE
