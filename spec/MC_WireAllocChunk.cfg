SPECIFICATION Spec
CONSTANTS
  Pre = 4
  Small = 6
  MaxN = 64
  MaxR = 60
  Factor = 4
  Policy = "chunk"
  Emit = FALSE
INVARIANTS Bounded
CHECK_DEADLOCK FALSE
