SPECIFICATION Spec
CONSTANTS
  Emit = FALSE
  TrustCovers = {"raw", "method-output"}
INVARIANTS ErrorParity
CHECK_DEADLOCK FALSE
