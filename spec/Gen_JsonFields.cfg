SPECIFICATION Spec
CONSTANTS
  MaxEmbeds = 3
  Emit = TRUE
CONSTRAINT EmitScenario
CHECK_DEADLOCK FALSE
