SPECIFICATION Spec
CONSTANTS
  MaxTok = 9
  FixKeyLatch = TRUE
  Emit = FALSE
INVARIANTS MachineMatchesDefinition NoErrorOnValid StacksAgree LatchMeaning
CHECK_DEADLOCK FALSE
