SPECIFICATION Spec
CONSTANTS
  W = 8
  MaxUnits = 2
  Dirs = {"unesc"}
  EscUnits = {}
  UnescUnits = {}
  Variant = "code"
  Emit = TRUE
CONSTRAINT EmitVector
CHECK_DEADLOCK FALSE
