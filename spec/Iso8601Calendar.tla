--------------------------- MODULE Iso8601Calendar ---------------------------
(***************************************************************************)
(* The calendar arithmetic of iso8601.Parse's fast path: the closed-form   *)
(* day count (daysSinceEpoch, transcribed from iso8601/parse.go) against   *)
(* the definition by summation of year and month lengths, walked year by   *)
(* year from 0000 to 9999.                                                 *)
(***************************************************************************)
EXTENDS Integers, Sequences, TLC

(* Walk the years, carrying the number of days since                                                    *)
(* 0000-01-01 by summation; the closed form of the fast path must agree on the first and last day of    *)
(* every month (it is linear in the day in between).                                                    *)
IsLeap(y) == (y % 4 = 0) /\ ((y % 100 # 0) \/ (y % 400 = 0))
MonthLen(y, m) == IF m = 2 THEN (IF IsLeap(y) THEN 29 ELSE 28) ELSE IF m \in {4, 6, 9, 11} THEN 30 ELSE 31
YearLen(y) == IF IsLeap(y) THEN 366 ELSE 365
RECURSIVE DaysBeforeMonth(_, _)
DaysBeforeMonth(y, m) == IF m = 1 THEN 0 ELSE DaysBeforeMonth(y, m - 1) + MonthLen(y, m - 1)

\* iso8601/parse.go daysSinceEpoch, transcribed (the unsigned wrap of month-3 is the carry)
ClosedForm(y, m, d) ==
  LET carry == IF m < 3 THEN 1 ELSE 0
      ma    == IF m < 3 THEN m + 9 ELSE m - 3
      ya    == y + 4800 - carry
      md    == (ma * 62719 + 769) \div 2048
      leap  == (ya \div 4) - (ya \div 100) + (ya \div 400) IN
  ya * 365 + leap + md + (d - 1) - 2472632

EpochOffset == 719528      \* days from 0000-01-01 to 1970-01-01

VARIABLES year, before      \* before = days from 0000-01-01 to year-01-01 (by summation)
cvars == <<year, before>>
CalInit == year = 0 /\ before = 0
CalNext == year < 9999 /\ year' = year + 1 /\ before' = before + YearLen(year)
CalSpec == CalInit /\ [][CalNext]_cvars

ClosedFormIsSummation ==
  \A m \in 1..12 : \A d \in {1, 15, MonthLen(year, m)} :
     ClosedForm(year, m, d) = before + DaysBeforeMonth(year, m) + (d - 1) - EpochOffset
EpochIsZero == year = 1970 => ClosedForm(1970, 1, 1) = 0
LeapRule == IsLeap(year) = (YearLen(year) = 366)
=============================================================================
