SPECIFICATION Spec
CONSTANTS
  Pre = 4
  Small = 6
  MaxN = 64
  MaxR = 13
  Factor = 4
  Policy = "code"
  Emit = FALSE
INVARIANTS Bounded ReserveCoversUse Terminates CutShortIsAnError
CHECK_DEADLOCK FALSE
