SPECIFICATION Spec
CONSTANTS
  MaxEmbeds = 3
  Emit = FALSE
INVARIANTS AtMostOnePerName ShallowestWins OwnFieldWins DeeperIsInvisible
CHECK_DEADLOCK FALSE
