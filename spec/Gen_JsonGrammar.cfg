SPECIFICATION Spec
CONSTANTS
  DepthLimit = 10000
  MaxLen = 6
  MaxWS = 1
  Emit = TRUE
CONSTRAINT EmitVector
CHECK_DEADLOCK FALSE
