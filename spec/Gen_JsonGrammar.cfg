SPECIFICATION Spec
CONSTANTS
  MaxLen = 6
  MaxWS = 1
  Emit = TRUE
CONSTRAINT EmitVector
CHECK_DEADLOCK FALSE
