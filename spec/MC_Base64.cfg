SPECIFICATION Spec
CONSTANTS
  MaxLen = 3
  ByteSet = {0, 65, 251, 255}
  Reps = {0, 11}
  StrictNewlines = FALSE
  DropTail = FALSE
  Emit = FALSE
INVARIANTS TypeOK LengthLaw PadLaw RoundTrip NewlinesInvisible TrailingBitsNotLookedAt Rejected PadInThePlaceOfASextet FitsReservedRoom
PROPERTY OutGrows
CHECK_DEADLOCK FALSE
