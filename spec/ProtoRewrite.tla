---------------------------- MODULE ProtoRewrite ----------------------------
(***************************************************************************)
(* proto rewriters (proto/rewrite.go) on top of ProtoCodec.                *)
(*                                                                         *)
(* A TEMPLATE for a shape says, per field, either "untouched" or a new     *)
(* value (for message fields: a nested template).  Two things are defined: *)
(*                                                                         *)
(*  RewriteDef   the DEFINITION of the property: the decoded value with    *)
(*               exactly the templated fields replaced;                    *)
(*  RewriteAlg   the ALGORITHM of MessageRewriter.Rewrite on wire records: *)
(*               walk the input; a record of a templated field is replaced *)
(*               by the template's records the first time the field is     *)
(*               seen and dropped afterwards; other records are copied;    *)
(*               templated fields never seen are appended at the end;      *)
(*               nested templates rewrite the embedded message in place.   *)
(*                                                                         *)
(* Theorems (MC_ProtoRewrite.cfg):                                         *)
(*   Refines      Decode(RewriteAlg(w)) ~ RewriteDef(Decode(w)) for the    *)
(*                standard encoding and for every legal re-encoding        *)
(*                (reordered, overridden, unknown fields, split messages)  *)
(*   CarriedOver  the records of untemplated fields appear in the output   *)
(*                unchanged and in their original order                    *)
(* With FixSplit = FALSE (as the code is) TLC finds the inputs for which   *)
(* the algorithm loses data: a templated embedded message that arrives     *)
(* split in two occurrences.                                               *)
(***************************************************************************)
EXTENDS ProtoCodec

CONSTANTS FixSplit,   \* TRUE: later occurrences of a templated embedded message are merged, not dropped
          FixOrLast   \* TRUE: a bit-or rule combines the mask with the field's value (its LAST occurrence); FALSE (as the
                      \*       code is): with the first occurrence it meets, later ones are dropped

VARIABLE tmpl         \* sequence over fields: [t |-> "keep"] | [t |-> "set", x |-> value] | [t |-> "sub", xs |-> nested template]
                      \*   | [t |-> "or", x |-> mask]   (RewriterRules with BitOr: the field becomes value | mask)

rvars == <<shape, val, wire, step, tmpl>>

Keep == [t |-> "keep", x |-> S(0), xs |-> <<>>]
Set(x) == [t |-> "set", x |-> x, xs |-> <<>>]
Sub(xs) == [t |-> "sub", x |-> S(0), xs |-> xs]
Or(x) == [t |-> "or", x |-> x, xs |-> <<>>]

\* bit-or rules apply to the integer kinds
IntKinds == {"int","i32","i64","s32","s64","uint","u32","u64","x32","x64"}
\* value ids are abstract; "value a or-ed with mask m" is the id 100 + 10 a + m (masks are a namespace of
\* their own: mask 0 = no bits, so or-ing with it changes nothing); the harness computes the number
OrId(a, m) == IF m = 0 THEN a ELSE 100 + 10 * a + m

\* template values offered for one field (small on purpose: the value space is ProtoCodec's business)
TemplateElems(k) == IF k \in MsgKinds THEN SubValues(k) ELSE {S(0), S(1)}
RECURSIVE SubTemplates(_)
FieldTemplates(f) ==
  LET E == TemplateElems(f.k) IN
  {Keep} \cup
  CASE f.c = "one" -> (IF f.k \in MsgKinds THEN {Sub(t) : t \in SubTemplates(f.k)} ELSE {Set(e) : e \in E})
                      \cup (IF f.k \in IntKinds THEN {Or(S(0)), Or(S(1))} ELSE {})
    [] f.c = "ptr" -> (IF f.k \in MsgKinds THEN {Sub(t) : t \in SubTemplates(f.k)} ELSE {Set(V("p", 0, <<S(1)>>))})
                      \cup (IF f.k \in IntKinds THEN {Or(S(1))} ELSE {})
    [] f.c = "rep" -> {Set(V("r", 0, <<e>>)) : e \in E} \cup {Set(V("r", 0, <<e1, e2>>)) : e1 \in E, e2 \in E}
    [] f.c = "map" -> IF f.mk = "str" THEN {Set(V("m", 0, <<V("e", 1, <<e>>)>>)) : e \in E} ELSE {}
\* nested templates: each scalar field of the sub-shape kept or set to id 1
SubTemplates(k) ==
  LET sh == SubShape(k) IN
  {t \in [1..Len(sh) -> {Keep, Set(S(1)), Or(S(1))}] :
      /\ \E i \in 1..Len(sh) : t[i].t # "keep"         \* a nested template names at least one field
      /\ \A i \in 1..Len(sh) : t[i].t = "set" => (sh[i].c = "one" /\ sh[i].k \in ScalarKinds)
      /\ \A i \in 1..Len(sh) : t[i].t = "or" => (sh[i].c = "one" /\ sh[i].k \in IntKinds)}   \* nested RewriterRules

\* ---- the definition
RECURSIVE ApplyTemplate(_, _, _)
ApplyField(f, cur, t) ==
  CASE t.t = "keep" -> cur
    [] t.t = "set"  -> t.x
    [] t.t = "or"   -> IF f.c = "ptr" THEN V("p", 0, <<S(OrId(IF cur.t = "nil" THEN 0 ELSE cur.xs[1].v, t.x.v))>>)
                       ELSE S(OrId(cur.v, t.x.v))
    [] t.t = "sub"  -> IF f.c = "ptr"
                       THEN V("p", 0, <<ApplyTemplate(SubShape(f.k), IF cur.t = "nil" THEN ZeroMsg(SubShape(f.k)) ELSE cur.xs[1], t.xs)>>)
                       ELSE ApplyTemplate(SubShape(f.k), cur, t.xs)
ApplyTemplate(sh, vl, tm) == V("g", 0, [i \in 1..Len(sh) |-> ApplyField(sh[i], vl.xs[i], tm[i])])
RewriteDef(sh, vl, tm) == ApplyTemplate(sh, vl, tm)

\* a nested template that sets nothing to a non-zero value writes nothing: then a nil pointer stays nil
\* and the definition must say so too (the rewriter cannot create an empty message)
SubWritesNothing(f, t) == t.t = "sub" /\ \A i \in 1..Len(t.xs) : t.xs[i].t = "keep"

\* ---- the algorithm, on wire records
Templated(sh, tm, n) == \E i \in 1..Len(sh) : Num(sh, i) = n /\ tm[i].t # "keep"
TIndex(sh, n) == CHOOSE i \in 1..Len(sh) : Num(sh, i) = n

RECURSIVE AlgMsg(_, _, _), AlgWalk(_, _, _, _), AlgTail(_, _, _, _)
LastOf(w, n) == LET rs == SelectSeq(w, LAMBDA r : r.n = n) IN rs[Len(rs)]

\* records the template writes for field i when the field's (first) input record is rec (or absent)
TemplateRecs(sh, tm, i, present, rec) ==
  LET f == sh[i]
      n == Num(sh, i) IN
  IF tm[i].t = "set" THEN WireField(f, n, tm[i].x)
  ELSE IF tm[i].t = "or" THEN <<R(n, WT(f.k), f.k, OrId(IF present THEN rec.v ELSE 0, tm[i].x.v), <<>>)>>   \* always written
  ELSE LET inner == AlgMsg(SubShape(f.k), IF present THEN rec.sub ELSE <<>>, tm[i].xs) IN
       IF inner = <<>> THEN <<>> ELSE <<R(n, 2, f.k, 0, inner)>>

AlgWalk(sh, w, tm, seen) ==
  IF w = <<>> THEN AlgTail(sh, tm, seen, 1)
  ELSE LET rec == Head(w) IN
       IF Templated(sh, tm, rec.n)
       THEN LET i == TIndex(sh, rec.n) IN
            IF i \in seen
            THEN (IF FixSplit /\ tm[i].t = "sub"
                  THEN <<R(rec.n, 2, rec.k, 0, AlgMsg(SubShape(sh[i].k), rec.sub, tm[i].xs))>>   \* merged, not dropped
                  ELSE <<>>) \o AlgWalk(sh, Tail(w), tm, seen)
            ELSE TemplateRecs(sh, tm, i, TRUE, IF FixOrLast /\ tm[i].t = "or" THEN LastOf(w, rec.n) ELSE rec)
                 \o AlgWalk(sh, Tail(w), tm, seen \cup {i})
       ELSE <<rec>> \o AlgWalk(sh, Tail(w), tm, seen)
AlgTail(sh, tm, seen, i) ==
  IF i > Len(sh) THEN <<>>
  ELSE (IF tm[i].t # "keep" /\ i \notin seen THEN TemplateRecs(sh, tm, i, FALSE, R(0, 0, "", 0, <<>>)) ELSE <<>>)
       \o AlgTail(sh, tm, seen, i + 1)
AlgMsg(sh, w, tm) == AlgWalk(sh, w, tm, {})

RewriteAlg(sh, w, tm) == AlgMsg(sh, w, tm)

-----------------------------------------------------------------------------
RInit == Init /\ tmpl = <<>>

\* proto.TypeOf refuses structs that mix tagged and untagged fields: all or none
RBuild == /\ AddField /\ tmpl' = tmpl
          /\ ((\A i \in 1..Len(shape') : shape'[i].n = 0) \/ (\A i \in 1..Len(shape') : shape'[i].n # 0))
ChooseTemplate ==
  /\ step = "build" /\ shape # <<>>
  /\ \E tm \in [1..Len(shape) -> UNION {FieldTemplates(shape[i]) : i \in 1..Len(shape)}] :
        /\ \A i \in 1..Len(shape) : tm[i] \in FieldTemplates(shape[i])
        /\ \E i \in 1..Len(shape) : tm[i].t # "keep"
        /\ tmpl' = tm
  /\ step' = "tmpl"
  /\ UNCHANGED <<shape, val, wire>>

RNext == RBuild \/ ChooseTemplate
RSpec == RInit /\ [][RNext]_rvars

-----------------------------------------------------------------------------
Inputs == [standard |-> wire, reordered |-> Reencodings.reordered, overridden |-> Reencodings.overridden,
           unknown |-> Reencodings.unknown, split |-> Reencodings.split]

\* what the value must be after rewriting: the definition, except that a nested template which writes
\* nothing cannot turn a nil pointer into an empty message
Expected ==
  LET d == RewriteDef(shape, val, tmpl) IN
  V("g", 0, [i \in 1..Len(shape) |->
       IF shape[i].c = "ptr" /\ tmpl[i].t = "sub" /\ val.xs[i].t = "nil"
          /\ AlgMsg(SubShape(shape[i].k), <<>>, tmpl[i].xs) = <<>>
       THEN Nil ELSE d.xs[i]])

RefinesOn(w) == Equiv(Decode(shape, RewriteAlg(shape, w, tmpl)), Expected)
Refines == step = "tmpl" =>
   /\ RefinesOn(Inputs.standard) /\ RefinesOn(Inputs.reordered)
   /\ RefinesOn(Inputs.overridden) /\ RefinesOn(Inputs.unknown)
RefinesSplit == step = "tmpl" => RefinesOn(Inputs.split)

Untouched(sh, tm, w) == SelectSeq(w, LAMBDA r : ~Templated(sh, tm, r.n))
CarriedOver == step = "tmpl" =>
   \A name \in DOMAIN Inputs :
      Untouched(shape, tmpl, RewriteAlg(shape, Inputs[name], tmpl)) = Untouched(shape, tmpl, Inputs[name])

EmitRewrite == (Emit /\ step = "tmpl") =>
   PrintT(ToJson([shape |-> shape, val |-> val, tmpl |-> tmpl, want |-> Expected, inputs |-> Inputs,
                  alg |-> RewriteAlg(shape, wire, tmpl)]))
=============================================================================
