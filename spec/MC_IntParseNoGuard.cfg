SPECIFICATION Spec
CONSTANTS
  Emit = FALSE
  Kinds = {"int8", "int16", "int32", "int64", "uint8", "uint16", "uint32", "uint64"}
  NoLastDigitGuard = TRUE
INVARIANTS Refines
CHECK_DEADLOCK FALSE
