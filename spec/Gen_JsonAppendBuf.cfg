SPECIFICATION Spec
CONSTANTS
  Prefixes = {0, 1, 7, 8, 9, 31}
  MaxOps = 0
  MaxWrite = 1
  Emit = TRUE
  ReservePolicy = "fromend"
CONSTRAINT EmitConfig
CHECK_DEADLOCK FALSE
