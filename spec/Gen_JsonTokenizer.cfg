SPECIFICATION Spec
CONSTANTS
  MaxTok = 9
  FixKeyLatch = TRUE
  Emit = TRUE
CONSTRAINT EmitVector
CHECK_DEADLOCK FALSE
