SPECIFICATION Spec
CONSTANTS
  Fracs = {0, 1, 9}
  MaxEdits = 1
  Emit = TRUE
CONSTRAINT EmitVector
CHECK_DEADLOCK FALSE
