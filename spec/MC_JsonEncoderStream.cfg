SPECIFICATION Spec
CONSTANTS
  MaxOps = 4
  Variant = "std"
  Emit = FALSE
INVARIANTS OutputIsSuccesses ValueErrorsPass FailureIsReported StickyAfterFailure NoTraceOfFailures
CHECK_DEADLOCK FALSE
