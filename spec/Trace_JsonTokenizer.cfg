SPECIFICATION TraceSpec
CONSTANTS
  FixKeyLatch = TRUE
INVARIANTS StackShape
POSTCONDITION TraceAccepted
CHECK_DEADLOCK FALSE
