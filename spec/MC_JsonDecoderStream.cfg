SPECIFICATION Spec
CONSTANTS
  MaxRead = 3
  MaxLen = 5
  MaxCalls = 4
  FixSkip = TRUE
  FixDigit = TRUE
  Emit = FALSE
INVARIANTS BufWindow ResultsIdeal OffsetInRange OffsetMonotone BufferedOK EOFOnlyWhenClean
CHECK_DEADLOCK FALSE
