SPECIFICATION Spec
CONSTANTS
  Procs = {"g1", "g2", "g3"}
  Types = {"A", "B"}
  MaxCalls = 2
  EarlyUnlock = TRUE
  Registry = FALSE
  Locked = TRUE
INVARIANTS PublishedComplete OneEntryPerType UsesOwnCompleteCodec MutexHeldByBuilder NoLossWhenLocked IdentityStableWhenLocked
PROPERTIES MapsImmutable
CHECK_DEADLOCK FALSE
