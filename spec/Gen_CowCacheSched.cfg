SPECIFICATION SSpec
CONSTANTS
  Procs = {"g1", "g2"}
  Types = {"A", "B"}
  MaxCalls = 1
  EarlyUnlock = FALSE
  Registry = FALSE
  Locked = FALSE
  Emit = TRUE
CONSTRAINT EmitSched
CHECK_DEADLOCK FALSE
