----------------------------- MODULE WireAlloc  -----------------------------
(***************************************************************************)
(* Memory reserved by the thrift and proto decoders for values whose size  *)
(* comes from the wire (properties C08 and C07: "memory allocated stays    *)
(* within a constant factor of the bytes actually available / the input"). *)
(*                                                                         *)
(* Three policies of thrift/decode.go and thrift/binary.go, one action per *)
(* allocation site:                                                        *)
(*   list   decodeFuncSliceOf: reserve min(n, Pre) elements, then - each   *)
(*          time the reserve is used up at element i - add min(n - i, i)   *)
(*          more (at most doubling)                                        *)
(*   map    decodeFuncMapOf / decodeFuncSetOf: a size hint of min(n, Pre), *)
(*          then one entry at a time                                       *)
(*   bytes  readBytes: n <= Small bytes are reserved at once; more are     *)
(*          accumulated as they arrive, the accumulator doubling           *)
(*   append proto/slice.go growSlice: a repeated field arrives element by  *)
(*          element, nothing is announced; the destination starts at 10    *)
(*          elements and doubles                                           *)
(* n is the announced size, r what the input really holds behind the       *)
(* header (r < n: the input is cut short).  `total` is a ghost: every unit *)
(* ever allocated, dead copies included (what runtime.MemStats.TotalAlloc  *)
(* measures).  The invariant Bounded says total <= Factor * (consumed +    *)
(* Pre): whatever n claims, memory follows the bytes that are there.       *)
(*                                                                         *)
(* Policy = "code" is what the package does; "trusting" reserves n at once *)
(* and "eager" grows by all that is announced once the reserve is used up  *)
(* and "chunk" grows by a fixed amount - all three violate Bounded         *)
(* (vacuity witnesses; the last two are what seeded changes did).  The generator emits the (kind, n, r) triples the harness  *)
(* replays with a quiet allocation meter: r around the reserve and its     *)
(* doublings, n from r + 1 to 2^31 - 1.                                    *)
(***************************************************************************)
EXTENDS Naturals, Sequences, FiniteSets, TLC, Json

CONSTANTS Pre,        \* maxPreallocate (1024 in the code; small here)
          Small,      \* readBytes reserves up to this many bytes at once (4096 in the code)
          MaxN,       \* largest announced size explored
          MaxR,       \* largest present size explored
          Factor,     \* the constant of the bound
          Policy,     \* "code" | "trusting" | "eager" | "chunk"
          Emit

Kinds == {"list", "map", "bytes", "append"}
Min(a, b) == IF a < b THEN a ELSE b
Max(a, b) == IF a > b THEN a ELSE b

VARIABLES kind, n, r,     \* what is decoded; announced size; size present
          i,              \* elements / bytes consumed so far
          cap,            \* units reserved at the moment
          total,          \* ghost: units ever allocated
          pc              \* "run" | "ok" | "eof"
vars == <<kind, n, r, i, cap, total, pc>>

First(k, nn) == CASE k = "append" -> 0
                  [] Policy = "trusting" -> nn
                  [] k = "bytes" -> IF nn <= Small THEN nn ELSE 0
                  [] OTHER -> Min(nn, Pre)

Init == /\ kind \in Kinds /\ r \in 0..MaxR /\ n \in (IF kind = "append" THEN {r} ELSE 0..MaxN)   \* nothing announced: n = r
        /\ i = 0 /\ cap = First(kind, n) /\ total = First(kind, n) /\ pc = "run"

\* one element (list, map) or one chunk of bytes is consumed, the reserve growing first where it must
Step ==
  /\ pc = "run"
  /\ IF i >= n THEN pc' = "ok" /\ UNCHANGED <<kind, n, r, i, cap, total>>
     ELSE IF i >= r THEN pc' = "eof" /\ UNCHANGED <<kind, n, r, i, cap, total>>       \* nothing left to read
     ELSE /\ i' = i + 1 /\ UNCHANGED <<kind, n, r, pc>>
          /\ IF i < cap THEN UNCHANGED <<cap, total>>
             ELSE LET g == CASE Policy = "chunk" -> 2
                             [] Policy = "eager" -> n - i
                             [] kind = "append" -> Max(cap, 2)          \* growSlice: 10, then twice the capacity
                             [] kind = "list" -> Max(Min(n - i, i), 1)
                             [] kind = "map" -> Max(i, 1)              \* a hash table doubles
                             [] OTHER -> Max(i, 1)                     \* bytes.Buffer doubles
                  IN cap' = cap + g /\ total' = total + cap + g          \* a new array, the old one copied and dropped

Next == Step
Spec == Init /\ [][Next]_vars

Consumed == Min(i, r)
Bounded == total <= Factor * (Consumed + Pre + Small)
ReserveCoversUse == pc = "run" => i <= cap \/ i <= n
Terminates == pc \in {"ok", "eof"} => (pc = "ok") = (r >= n)
CutShortIsAnError == (pc = "eof") => r < n

(***************************** generator ************************************)
\* sizes around the reserve and its doublings, lifted by the harness to the real constants:
\* a value v <= Pre stands for itself relative to Pre (v - Pre is kept), larger ones for multiples
EmitVector == (Emit /\ pc = "run" /\ i = 0 /\ (r < n \/ kind = "append")) =>
   PrintT(ToJson([kind |-> kind, n |-> n, r |-> r, pre |-> Pre, small |-> Small]))
=============================================================================
