----------------------------- MODULE ThriftWire -----------------------------
(***************************************************************************)
(* The Apache Thrift binary and compact protocol specifications as         *)
(* functions from logical content to bytes, plus the generator of struct   *)
(* layouts and values used by properties C04, C08 and C13.                 *)
(*                                                                         *)
(* Logical values are records [ty, v, e, k, xs]:                           *)
(*   scalars   ty in BOOL I8 I16 I32 I64 DOUBLE BINARY, v = abstract id    *)
(*             (0 = zero value; the harness lifts ids to boundary values)  *)
(*   LIST/SET  e = element type, xs = elements                             *)
(*   MAP       k, e = key / value type, xs = <<key, value, key, ...>>      *)
(*   STRUCT    xs = fields [id, val] in ascending id order                 *)
(*                                                                         *)
(* An encoding is a sequence of ITEMS [s, t, v]:                           *)
(*   s = "b"    a literal byte v (all structure: type codes, headers,      *)
(*              sizes, ids, deltas, stop bytes is computed here)           *)
(*   s = "be16" "be32" "be64"  big-endian fixed width of scalar (t, v)     *)
(*   s = "zz"   zig-zag varint of scalar (t, v)                            *)
(*   s = "i8"   one byte of scalar (t, v)                                  *)
(*   s = "dbe" / "dle"  IEEE double, big / little endian                   *)
(*   s = "bin32" / "binuv"  length (be32 / uvarint) followed by the bytes  *)
(* The harness expands the symbolic leaves with encoding/binary.           *)
(*                                                                         *)
(* Only clauses of the published specifications that are certain are       *)
(* encoded; bool ELEMENTS inside compact containers (0 vs 2 for false, and *)
(* the element type code 1 vs 2) are left out of the generated content.    *)
(*                                                                         *)
(* Deviation switches (TRUE = as the specification prescribes, FALSE = as  *)
(* the pinned code does): FixTypeCodes, FixStop, FixVersion (binary);      *)
(* FixDoubleLE, FixMsgByte (compact).                                      *)
(***************************************************************************)
EXTENDS Naturals, Sequences, FiniteSets, TLC, Json

CONSTANTS MaxFields, FieldIds, GenTypes, MaxId, MaxMapEntries, Emit

B(v) == [s |-> "b", t |-> "", v |-> v]
Sym(s, t, v) == [s |-> s, t |-> t, v |-> v]

Val(ty, v, e, k, xs) == [ty |-> ty, v |-> v, e |-> e, k |-> k, xs |-> xs]
Sc(ty, id) == Val(ty, id, "", "", <<>>)
Fld(id, val) == [id |-> id, val |-> val]

Scalars == {"BOOL","I8","I16","I32","I64","DOUBLE","BINARY"}

\* type codes
BinCode(ty) == CASE ty = "BOOL" -> 2 [] ty = "I8" -> 3 [] ty = "DOUBLE" -> 4 [] ty = "I16" -> 6 [] ty = "I32" -> 8
                 [] ty = "I64" -> 10 [] ty = "BINARY" -> 11 [] ty \in {"STRUCT", "STRUCTP"} -> 12 [] ty = "MAP" -> 13
                 [] ty = "SET" -> 14 [] ty = "LIST" -> 15
CompCode(ty) == CASE ty = "BOOL" -> 2 [] ty = "I8" -> 3 [] ty = "I16" -> 4 [] ty = "I32" -> 5 [] ty = "I64" -> 6
                  [] ty = "DOUBLE" -> 7 [] ty = "BINARY" -> 8 [] ty = "LIST" -> 9 [] ty = "SET" -> 10
                  [] ty = "MAP" -> 11 [] ty \in {"STRUCT", "STRUCTP"} -> 12     \* STRUCTP: element held through a pointer, same wire type

\* unsigned LEB128 of a small natural, as literal bytes
RECURSIVE UV(_)
UV(n) == IF n < 128 THEN <<B(n)>> ELSE <<B(128 + (n % 128))>> \o UV(n \div 128)
BE16(n) == <<B(n \div 256), B(n % 256)>>
BE32(n) == <<B(0), B(0), B(n \div 256), B(n % 256)>>

RECURSIVE Cat(_)
Cat(ss) == IF ss = <<>> THEN <<>> ELSE Head(ss) \o Cat(Tail(ss))

-----------------------------------------------------------------------------
(* Binary protocol.  sw = [codes, stop, enum]: TRUE = as specified *)
(* Enums (struct tag option "enum" on an integer field of any width) are i32 on the wire: the field header   *)
(* says I32 and the value is encoded as an i32.  As the code is (enum = FALSE) the header carries the type   *)
(* of the Go field's width while the value is still written as an i32.                                        *)
RECURSIVE Bin(_, _)
BinTy(sw, ty) == IF sw.codes THEN BinCode(ty) ELSE CompCode(ty)
HdrTy(asSpec, val) == IF val.ty = "ENUM" THEN (IF asSpec THEN "I32" ELSE val.e) ELSE val.ty
Bin(sw, x) ==
  CASE x.ty = "BOOL"   -> <<B(IF x.v = 0 THEN 0 ELSE 1)>>
    [] x.ty = "I8"     -> <<Sym("i8", x.ty, x.v)>>
    [] x.ty = "I16"    -> <<Sym("be16", x.ty, x.v)>>
    [] x.ty = "I32"    -> <<Sym("be32", x.ty, x.v)>>
    [] x.ty = "I64"    -> <<Sym("be64", x.ty, x.v)>>
    [] x.ty = "DOUBLE" -> <<Sym("dbe", x.ty, x.v)>>
    [] x.ty = "BINARY" -> <<Sym("bin32", x.ty, x.v)>>
    [] x.ty = "ENUM"   -> <<Sym("enum32", x.e, x.v)>>
    [] x.ty \in {"LIST","SET"} ->
         <<B(BinTy(sw, x.e))>> \o BE32(Len(x.xs)) \o Cat([i \in 1..Len(x.xs) |-> Bin(sw, x.xs[i])])
    [] x.ty = "MAP" ->
         <<B(BinTy(sw, x.k)), B(BinTy(sw, x.e))>> \o BE32(Len(x.xs) \div 2) \o Cat([i \in 1..Len(x.xs) |-> Bin(sw, x.xs[i])])
    [] x.ty = "STRUCT" ->
         Cat([i \in 1..Len(x.xs) |-> <<B(BinTy(sw, HdrTy(sw.enum, x.xs[i].val)))>> \o BE16(x.xs[i].id) \o Bin(sw, x.xs[i].val)])
         \o (IF sw.stop THEN <<B(0)>> ELSE <<B(0), B(0), B(0)>>)

\* message header (type mt in 0..3, name = binary id, seq = I32 id)
BinMessage(strict, fixVersion, mt, name, seq) ==
  IF strict THEN <<B(128), B(IF fixVersion THEN 1 ELSE 0), B(0), B(mt), Sym("bin32", "BINARY", name)>> \o BE32(seq)
  ELSE <<Sym("bin32", "BINARY", name), B(mt)>> \o BE32(seq)

-----------------------------------------------------------------------------
(* Compact protocol.  long = TRUE: the long forms of field and list headers are used everywhere   *)
(* (an alternative conformant encoding).  dle = doubles little-endian as specified.               *)
RECURSIVE CompS(_, _, _), CompFields(_, _, _, _)
ListHeader(long, n, code) == IF n <= 14 /\ ~long THEN <<B(n * 16 + code)>> ELSE <<B(240 + code)>> \o UV(n)
CompS(sw, long, x) ==
  CASE x.ty = "BOOL"   -> <<B(IF x.v = 0 THEN 0 ELSE 1)>>          \* only reached for bool container elements (not generated)
    [] x.ty = "I8"     -> <<Sym("i8", x.ty, x.v)>>
    [] x.ty \in {"I16","I32","I64"} -> <<Sym("zz", x.ty, x.v)>>
    [] x.ty = "DOUBLE" -> <<Sym(IF sw.dle THEN "dle" ELSE "dbe", x.ty, x.v)>>
    [] x.ty = "BINARY" -> <<Sym("binuv", x.ty, x.v)>>
    [] x.ty = "ENUM"   -> <<Sym("enumzz", x.e, x.v)>>
    [] x.ty \in {"LIST","SET"} ->
         ListHeader(long, Len(x.xs), CompCode(x.e)) \o Cat([i \in 1..Len(x.xs) |-> CompS(sw, long, x.xs[i])])
    [] x.ty = "MAP" ->
         IF x.xs = <<>> THEN <<B(0)>>
         ELSE UV(Len(x.xs) \div 2) \o <<B(CompCode(x.k) * 16 + CompCode(x.e))>> \o Cat([i \in 1..Len(x.xs) |-> CompS(sw, long, x.xs[i])])
    [] x.ty = "STRUCT" -> CompFields(sw, long, x.xs, 0) \o <<B(0)>>
CompFields(sw, long, fs, last) ==
  IF fs = <<>> THEN <<>>
  ELSE LET f     == Head(fs)
           code  == IF f.val.ty = "BOOL" THEN (IF f.val.v = 0 THEN 2 ELSE 1) ELSE CompCode(HdrTy(sw.enum, f.val))   \* bools live in the type nibble
           delta == f.id - last
           hdr   == IF f.id > last /\ delta <= 15 /\ ~long THEN <<B(delta * 16 + code)>>
                    ELSE <<B(code)>> \o UV(2 * f.id)                                                    \* zig-zag of a positive id
           body  == IF f.val.ty = "BOOL" THEN <<>> ELSE CompS(sw, long, f.val) IN
       hdr \o body \o CompFields(sw, long, Tail(fs), f.id)

\* sw = [dle, enum]: doubles little-endian / enum headers say I32, as specified
Comp(asSpec, long, x) == CompS([dle |-> asSpec, enum |-> asSpec], long, x)

CompMessage(fixByte, mt, name, seqSmall) ==
  <<B(130), B(IF fixByte THEN mt * 32 + 1 ELSE mt)>> \o UV(seqSmall) \o <<Sym("binuv", "BINARY", name)>>

-----------------------------------------------------------------------------
(* Generator: struct layouts (field ids in declaration order, types, options) and values *)
VARIABLES layout,   \* sequence of [id, ty, e, k, req, ptr]
          vals      \* sequence of values, one per layout entry ("absent" pointers: ty = "NIL")

vars == <<layout, vals>>

Sub1 == <<[id |-> 1, ty |-> "I64", e |-> "", k |-> "", req |-> FALSE, ptr |-> FALSE],
          [id |-> 2, ty |-> "BOOL", e |-> "", k |-> "", req |-> FALSE, ptr |-> FALSE]>>
Sub1Values == {Val("STRUCT", 0, "", "", <<>>),
               Val("STRUCT", 0, "", "", <<Fld(1, Sc("I64", 1))>>),
               Val("STRUCT", 0, "", "", <<Fld(1, Sc("I64", 2)), Fld(2, Sc("BOOL", 1))>>)}

Ids == 0..MaxId
ElemTypes == {"I32","BINARY","STRUCT","STRUCTP"}
ElemValues(t) == IF t \in {"STRUCT","STRUCTP"} THEN Sub1Values ELSE {Sc(t, i) : i \in Ids}

TypeChoices ==
  {[ty |-> t, e |-> "", k |-> ""] : t \in Scalars \cup {"STRUCT"}}
  \cup {[ty |-> "ENUM", e |-> w, k |-> ""] : w \in {"I8","I16","I32","I64"}}       \* option "enum" on an integer field of width w
  \cup {[ty |-> "LIST", e |-> e, k |-> ""] : e \in ElemTypes \cup {"I64","DOUBLE"}}
  \cup {[ty |-> "SET", e |-> e, k |-> ""] : e \in {"I32","BINARY"}}
  \cup {[ty |-> "MAP", e |-> e, k |-> k] : k \in {"I32","BINARY"}, e \in {"I64","BINARY","STRUCT","STRUCTP"}}

ValuesOf(tc) ==
  CASE tc.ty \in Scalars -> {Sc(tc.ty, i) : i \in Ids}
    [] tc.ty = "ENUM"    -> {Val("ENUM", i, tc.e, "", <<>>) : i \in Ids}
    [] tc.ty = "STRUCT"  -> Sub1Values
    [] tc.ty = "LIST"    -> {Val("LIST", 0, tc.e, "", <<>>)} \cup {Val("LIST", 0, tc.e, "", <<a>>) : a \in ElemValues(tc.e)}
                            \cup {Val("LIST", 0, tc.e, "", <<a, b>>) : a \in ElemValues(tc.e), b \in ElemValues(tc.e)}
    [] tc.ty = "SET"     -> {Val("SET", 0, tc.e, "", <<>>), Val("SET", 0, tc.e, "", <<Sc(tc.e, 1)>>)}
    [] tc.ty = "MAP"     -> {Val("MAP", 0, tc.e, tc.k, <<>>)} \cup {Val("MAP", 0, tc.e, tc.k, <<Sc(tc.k, 1), a>>) : a \in ElemValues(tc.e)}
                            \cup (IF MaxMapEntries >= 2     \* two entries: the member order on the wire is then free
                                  THEN {Val("MAP", 0, tc.e, tc.k, <<Sc(tc.k, 1), a, Sc(tc.k, 2), b>>) : a \in ElemValues(tc.e), b \in ElemValues(tc.e)}
                                  ELSE {})

Nil == Val("NIL", 0, "", "", <<>>)
IsZeroV(x) == CASE x.ty \in Scalars \cup {"ENUM"} -> x.v = 0
                [] x.ty = "STRUCT" -> x.xs = <<>>
                [] OTHER -> FALSE               \* a non-nil empty collection is written (nil ones are not generated)

Init == layout = <<>> /\ vals = <<>>

IsUnion == \E i \in 1..Len(layout) : layout[i].ty = "UNION"
AddField ==
  /\ Len(layout) < MaxFields
  /\ ~IsUnion
  /\ \E id \in FieldIds, tc \in TypeChoices, req \in BOOLEAN, ptr \in BOOLEAN :
       /\ tc.ty \in GenTypes
       /\ \A i \in 1..Len(layout) : layout[i].id # id
       /\ ~(req /\ ptr)
       /\ (ptr => tc.ty \in Scalars \cup {"STRUCT"})
       /\ \E x \in (IF ptr THEN ValuesOf(tc) \cup {Nil} ELSE ValuesOf(tc)) :
            /\ layout' = Append(layout, [id |-> id, ty |-> tc.ty, e |-> tc.e, k |-> tc.k, req |-> req, ptr |-> ptr])
            /\ vals' = Append(vals, x)

\* Option "union": the struct carries an interface field tagged `thrift:",union"`; at most one of its other fields may
\* be set, Marshal writes it like any struct, and Unmarshal makes the interface field point to the field it decoded.
\* Modelled as a last pseudo-entry of the layout (id 0, never written).
AddUnion ==
  /\ layout # <<>> /\ ~IsUnion
  /\ \A i \in 1..Len(layout) : ~layout[i].req
  /\ Cardinality({i \in 1..Len(layout) : vals[i].ty # "NIL" /\ (layout[i].ptr \/ ~IsZeroV(vals[i]))}) <= 1
  /\ layout' = Append(layout, [id |-> 0, ty |-> "UNION", e |-> "", k |-> "", req |-> FALSE, ptr |-> FALSE])
  /\ vals' = Append(vals, Nil)

Next == AddField \/ AddUnion
Spec == Init /\ [][Next]_vars

-----------------------------------------------------------------------------
(* The logical struct the package must write: fields in ascending id order; optional zero values and  *)
(* nil pointers are left out, required fields are always written                                      *)
IsZero(x) == IsZeroV(x)
Written(i) == /\ vals[i].ty # "NIL"
              /\ (layout[i].req \/ layout[i].ptr \/ ~IsZero(vals[i]))

RECURSIVE SortedIdx(_)
SortedIdx(S) == IF S = {} THEN <<>>
                ELSE LET m == CHOOSE i \in S : \A j \in S : layout[i].id <= layout[j].id IN <<m>> \o SortedIdx(S \ {m})
Logical == Val("STRUCT", 0, "", "",
               LET idx == SortedIdx({i \in 1..Len(layout) : Written(i)}) IN
               [j \in 1..Len(idx) |-> Fld(layout[idx[j]].id, vals[idx[j]])])

Spec1 == [codes |-> TRUE, stop |-> TRUE, enum |-> TRUE]
AsIs1 == [codes |-> FALSE, stop |-> FALSE, enum |-> FALSE]

\* design properties of the encodings themselves
TypeOK == Len(layout) = Len(vals)
\* the compact short and long forms have the same items apart from headers: at least as long
LongNotShorter == layout # <<>> => Len(Comp(TRUE, TRUE, Logical)) >= Len(Comp(TRUE, FALSE, Logical))
\* every struct ends with exactly one stop byte in both protocols
EndsWithStop == layout # <<>> => /\ Bin(Spec1, Logical)[Len(Bin(Spec1, Logical))] = B(0)
                                 /\ Comp(TRUE, FALSE, Logical)[Len(Comp(TRUE, FALSE, Logical))] = B(0)
\* a delta short form is only used for ascending ids at most 15 apart
RECURSIVE DeltasOK(_, _)
DeltasOK(fs, last) == fs = <<>> \/ (Head(fs).id > last /\ DeltasOK(Tail(fs), Head(fs).id))
FieldsAscending == DeltasOK(Logical.xs, 0)

\* message headers: one vector (emitted from the initial state) with every type x name x sequence id
\* A map is unordered on the wire: the same content with the entries of every map in the opposite order is another
\* conformant encoding of it (one that no encoder with a fixed iteration order ever produces)
RECURSIVE Rev(_)
RevPairs(xs) == [i \in 1..Len(xs) |-> LET n == Len(xs) \div 2
                                           q == n + 1 - ((i + 1) \div 2) IN xs[2 * (q - 1) + (IF i % 2 = 1 THEN 1 ELSE 2)]]
Rev(x) == CASE x.ty = "MAP" -> [x EXCEPT !.xs = RevPairs([i \in 1..Len(x.xs) |-> Rev(x.xs[i])])]
            [] x.ty \in {"LIST", "SET"} -> [x EXCEPT !.xs = [i \in 1..Len(x.xs) |-> Rev(x.xs[i])]]
            [] x.ty = "STRUCT" -> [x EXCEPT !.xs = [i \in 1..Len(x.xs) |-> [x.xs[i] EXCEPT !.val = Rev(x.xs[i].val)]]]
            [] OTHER -> x
\* reversing twice is the identity, and the reversed encoding has the same items in another order (same length)
RevInvolution == layout # <<>> => Rev(Rev(Logical)) = Logical
RevSameLength == layout # <<>> => /\ Len(Bin(Spec1, Rev(Logical))) = Len(Bin(Spec1, Logical))
                                  /\ Len(Comp(TRUE, FALSE, Rev(Logical))) = Len(Comp(TRUE, FALSE, Logical))

MessageCases ==
  {[mt |-> mt, name |-> nm, seq |-> sq,
    bin |-> BinMessage(TRUE, TRUE, mt, nm, sq), binasis |-> BinMessage(TRUE, FALSE, mt, nm, sq),
    binns |-> BinMessage(FALSE, TRUE, mt, nm, sq),
    comp |-> CompMessage(TRUE, mt, nm, sq), compasis |-> CompMessage(FALSE, mt, nm, sq)] :
      mt \in 0..3, nm \in 0..2, sq \in {0, 1, 127, 128, 300, 65535}}
EmitMessages == (Emit /\ layout = <<>>) => PrintT(ToJson([messages |-> MessageCases]))

EmitVector == (Emit /\ layout # <<>>) =>
  PrintT(ToJson([layout |-> layout, vals |-> vals, logical |-> Logical,
                 bin |-> Bin(Spec1, Logical), binasis |-> Bin(AsIs1, Logical),
                 comp |-> Comp(TRUE, FALSE, Logical), compasis |-> Comp(FALSE, FALSE, Logical),
                 complong |-> Comp(TRUE, TRUE, Logical), complongasis |-> Comp(FALSE, TRUE, Logical),
                 binrevasis |-> Bin(AsIs1, Rev(Logical)), comprevasis |-> Comp(FALSE, FALSE, Rev(Logical)),
                 \* the dialect of the Writer implementations driven directly (the caller names the field type, so
                 \* the enum deviation of Marshal does not arise there)
                 binasisw |-> Bin([codes |-> FALSE, stop |-> FALSE, enum |-> TRUE], Logical),
                 compasisw |-> CompS([dle |-> FALSE, enum |-> TRUE], FALSE, Logical)]))
=============================================================================
