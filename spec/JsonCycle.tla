----------------------------- MODULE JsonCycle -----------------------------
(***************************************************************************)
(* Reference cycles in values given to json.Marshal (property C06).        *)
(*                                                                         *)
(* A heap is a set of nodes with labelled edges: a node can refer to       *)
(* another through a pointer field, a slice element, a map value or an     *)
(* interface field.  The encoder walks the graph depth first from the      *)
(* root.  Every hop through a reference counts one level; from             *)
(* CycleAfter levels on, the references on the current path are remembered *)
(* and meeting one of them again is reported as an error.                  *)
(*                                                                         *)
(* Theorems (MC_JsonCycle.cfg, CycleAfter scaled down):                    *)
(*   the walk terminates within (CycleAfter + number of nodes + 1) levels; *)
(*   it reports a cycle iff a cycle is reachable from the root - whatever  *)
(*   kinds of edges the cycle is made of;                                  *)
(*   with TrackOnly = a strict subset of the edge kinds (as the code was:  *)
(*   pointers only) the walk of some cyclic heaps does not terminate.      *)
(***************************************************************************)
EXTENDS Naturals, Sequences, FiniteSets, TLC, Json

CONSTANTS N,           \* nodes 1..N, root = 1
          MaxEdges,
          CycleAfter,
          TrackOnly,   \* edge kinds the cycle detector counts and remembers
          Emit

Kinds == {"ptr", "slice", "map", "iface"}
Nodes == 1..N

VARIABLES edges    \* set of <<from, kind, to>>; at most one edge per (from, kind)
vars == <<edges>>

Init == edges = {}
AddEdge == /\ Cardinality(edges) < MaxEdges
           /\ \E a \in Nodes, k \in Kinds, b \in Nodes :
                /\ ~\E e \in edges : e[1] = a /\ e[2] = k
                /\ edges' = edges \cup {<<a, k, b>>}
Next == AddEdge
Spec == Init /\ [][Next]_vars

Succ(n) == {e \in edges : e[1] = n}

\* reachability of a cycle from the root (the definition)
RECURSIVE Reach(_, _)
Reach(S, k) == IF k = 0 THEN S ELSE Reach(S \cup {e[3] : e \in {x \in edges : x[1] \in S}}, k - 1)
Reachable == Reach({1}, N)
RECURSIVE ReachFrom(_, _)
ReachFrom(S, k) == IF k = 0 THEN S ELSE ReachFrom(S \cup {e[3] : e \in {x \in edges : x[1] \in S}}, k - 1)
OnCycle(n) == n \in ReachFrom({e[3] : e \in Succ(n)}, N)
Cyclic == \E n \in Reachable : OnCycle(n)

\* the encoder's walk: returns "ok", "cycle", or "overflow" when the fuel (stack) runs out
RECURSIVE Walk(_, _, _, _)
Walk(n, depth, seen, fuel) ==
  IF fuel = 0 THEN "overflow"
  ELSE LET results ==
             {LET counted == e[2] \in TrackOnly
                  d1 == IF counted THEN depth + 1 ELSE depth
                  tracking == counted /\ d1 >= CycleAfter IN
              IF tracking /\ e[3] \in seen THEN "cycle"
              ELSE Walk(e[3], d1, IF tracking THEN seen \cup {e[3]} ELSE seen, fuel - 1)
              : e \in Succ(n)} IN
       IF "overflow" \in results THEN "overflow"
       ELSE IF "cycle" \in results THEN "cycle" ELSE "ok"

Fuel == CycleAfter + N + 2
Result == Walk(1, 0, {}, Fuel)

Terminates == Result # "overflow"
ErrorIffCyclic == (Result = "cycle") = Cyclic

EmitGraph == (Emit /\ edges # {}) => PrintT(ToJson([edges |-> edges, cyclic |-> Cyclic]))
=============================================================================
