SPECIFICATION Spec
CONSTANTS
  MaxDepth = 2
  LeafKinds = {"bool","int","int8","int16","int32","int64","uint","uint8","uint16","uint32","uint64","float32","float64","string","bytes","number","raw","time","any","nany","iface","M_val","M_ptr","TM_val","TM_ptr","MU_both","TMK","MI","TS","TI","MB","NPI"}
  Wrappers = {"ptr","slice","array2","array1","mapstr","mapint","maptm","mapts","mapkm","struct1","structopt"}
  Emit = TRUE
CONSTRAINT EmitShape
CHECK_DEADLOCK FALSE
