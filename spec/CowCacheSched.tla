--------------------------- MODULE CowCacheSched ---------------------------
(***************************************************************************)
(* CowCache with a history variable: the order in which the goroutines     *)
(* perform the steps that are visible at the hooks (load, load under the   *)
(* mutex, store).  TLC enumerates every complete behaviour of a small      *)
(* configuration; each is emitted as a schedule with the set of types the  *)
(* published map holds at the end.  The harness forces the schedule on     *)
(* real goroutines (the hooks block until the driver lets the step happen) *)
(* and compares the abstract state - which types are cached - by making    *)
(* follow-up calls and watching whether they hit or miss.                  *)
(***************************************************************************)
EXTENDS CowCache, Json

CONSTANT Emit
VARIABLE sched

Visible(p) == IF pc[p] = "load" /\ pc'[p] # "load" THEN "load"
              ELSE IF pc[p] = "load2" /\ pc'[p] # "load2" THEN "load-locked"
              ELSE IF pc[p] = "store" /\ pc'[p] # "store" THEN "store" ELSE ""

SInit == Init /\ sched = <<>>
SNext == /\ Next
         /\ LET ps == {p \in Procs : Visible(p) # ""} IN
            sched' = IF ps = {} THEN sched
                     ELSE LET p == CHOOSE q \in ps : TRUE IN Append(sched, [p |-> p, ev |-> Visible(p), t |-> want[p]])
SSpec == SInit /\ [][SNext]_<<vars, sched>>

Done == \A p \in Procs : pc[p] = "idle" /\ calls[p] = MaxCalls
EmitSched == (Emit /\ Done) => PrintT(ToJson([sched |-> sched, final |-> TypesIn(published), locked |-> Locked]))
=============================================================================
