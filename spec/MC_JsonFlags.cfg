SPECIFICATION Spec
CONSTANTS
  Emit = FALSE
INVARIANTS ChosenTypeFits Precedence FloatOnlyByDefault DefaultChangesNothing
CHECK_DEADLOCK FALSE
