SPECIFICATION Spec
CONSTANTS
  Emit = FALSE
  TrustCovers = {"raw"}
INVARIANTS ChosenTypeFits Precedence FloatOnlyByDefault DefaultChangesNothing ErrorParity TrustIsAboutRawMessages
CHECK_DEADLOCK FALSE
