----------------------------- MODULE JsonFields -----------------------------
(***************************************************************************)
(* encoding/json's struct field resolution (the procedure json must share, *)
(* C01/C02): which field a JSON name denotes in a struct that embeds other *)
(* structs.                                                                *)
(*                                                                         *)
(*   For each JSON name take the candidate fields of minimal embedding     *)
(*   depth.  One candidate: it wins.  Several: if exactly one of them got  *)
(*   its name from a tag it wins; otherwise the name is ambiguous and      *)
(*   denotes nothing (no error).                                           *)
(*                                                                         *)
(* The generator enumerates outer structs made of own fields and embedded  *)
(* library structs (by value or by pointer) and emits the predicted        *)
(* winner per name.  Library (mirrored by named Go types in the harness):  *)
(*   E1 {X; Y}      E2 {X}      E3 {X `json:"X"`}      E4 {E2}             *)
(*   E5 {Y `json:"X"`}          E6 {Z; x (unexported)}  E7 {E1; E3}        *)
(* Own fields: OX = X, OT = W `json:"X"`, OY = Y.                          *)
(***************************************************************************)
EXTENDS Naturals, Sequences, FiniteSets, TLC, Json

CONSTANTS MaxEmbeds, Emit

F(name, depth, tagged, path) == [name |-> name, depth |-> depth, tagged |-> tagged, path |-> path]

\* fields contributed by a library struct embedded at depth d (its own fields are at depth d)
RECURSIVE LibFields(_, _)
LibFields(e, d) ==
  CASE e = "E1" -> {F("X", d, FALSE, "E1.X"), F("Y", d, FALSE, "E1.Y")}
    [] e = "E2" -> {F("X", d, FALSE, "E2.X")}
    [] e = "E3" -> {F("X", d, TRUE, "E3.X")}
    [] e = "E4" -> {F(f.name, f.depth, f.tagged, "E4." \o f.path) : f \in LibFields("E2", d + 1)}
    [] e = "E5" -> {F("X", d, TRUE, "E5.Y")}
    [] e = "E6" -> {F("Z", d, FALSE, "E6.Z")}
    [] e = "E7" -> {F(f.name, f.depth, f.tagged, "E7." \o f.path) : f \in LibFields("E1", d + 1) \cup LibFields("E3", d + 1)}

OwnFields(o) == CASE o = "OX" -> {F("X", 0, FALSE, "X")}
                  [] o = "OT" -> {F("X", 0, TRUE, "W")}
                  [] o = "OY" -> {F("Y", 0, FALSE, "Y")}

Lib == {"E1","E2","E3","E4","E5","E6","E7"}
Own == {"OX","OT","OY"}

VARIABLES own, embeds     \* set of own fields; sequence of [e, ptr]
vars == <<own, embeds>>

AllFields == UNION {OwnFields(o) : o \in own} \cup UNION {LibFields(embeds[i].e, 1) : i \in 1..Len(embeds)}

Names(fs) == {f.name : f \in fs}
Winner(fs, n) ==
  LET c    == {f \in fs : f.name = n}
      md   == CHOOSE d \in {f.depth : f \in c} : \A f \in c : d <= f.depth
      at   == {f \in c : f.depth = md}
      tg   == {f \in at : f.tagged} IN
  IF Cardinality(at) = 1 THEN at ELSE IF Cardinality(tg) = 1 THEN tg ELSE {}
Visible(fs) == UNION {Winner(fs, n) : n \in Names(fs)}

Init == own \in SUBSET Own /\ embeds = <<>>
Embed == /\ Len(embeds) < MaxEmbeds
         /\ \E e \in Lib, p \in BOOLEAN :
              /\ \A i \in 1..Len(embeds) : embeds[i].e # e          \* a type can be embedded once
              /\ ~(e = "E7" /\ \E i \in 1..Len(embeds) : embeds[i].e \in {"E1","E3"})  \* reflect.StructOf would see duplicates
              /\ embeds' = Append(embeds, [e |-> e, ptr |-> p])
         /\ UNCHANGED own
Next == Embed
Spec == Init /\ [][Next]_vars

\* properties of the procedure itself
AtMostOnePerName == \A n \in Names(AllFields) : Cardinality(Winner(AllFields, n)) <= 1
ShallowestWins   == \A f \in Visible(AllFields) : \A g \in AllFields : g.name = f.name => f.depth <= g.depth
OwnFieldWins     == \A o \in own : \A f \in OwnFields(o) :
                       (Cardinality({g \in AllFields : g.name = f.name /\ g.depth = 0}) = 1) => f \in Visible(AllFields)
\* adding a deeper field never changes who wins a name that already has a winner
DeeperIsInvisible == \A f \in Visible(AllFields) :
                        Winner(AllFields \cup {F(f.name, f.depth + 1, TRUE, "deeper")}, f.name) = {f}

EmitScenario == (Emit /\ (own # {} \/ embeds # <<>>)) =>
   PrintT(ToJson([own |-> own, embeds |-> embeds,
                  visible |-> {[name |-> f.name, path |-> f.path] : f \in Visible(AllFields)},
                  hidden |-> {f.path : f \in AllFields \ Visible(AllFields)}]))
=============================================================================
