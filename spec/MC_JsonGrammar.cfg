SPECIFICATION Spec
CONSTANTS
  MaxLen = 5
  MaxWS = 1
  Emit = FALSE
INVARIANTS TypeOK CompletionAccepts PlainInStringStutters WhitespaceStutters DeadIsAbsorbing NoBadPop InsertionsAreDead
CHECK_DEADLOCK FALSE
