SPECIFICATION Spec
CONSTANTS
  DepthLimit = 3
  MaxLen = 5
  MaxWS = 1
  Emit = FALSE
INVARIANTS TypeOK CompletionAccepts PlainInStringStutters WhitespaceStutters DeadIsAbsorbing NoBadPop InsertionsAreDead DepthLifting
CHECK_DEADLOCK FALSE
