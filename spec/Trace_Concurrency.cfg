SPECIFICATION TraceSpec
INVARIANTS ExclusiveOwnership
POSTCONDITION TraceAccepted
CHECK_DEADLOCK FALSE
