----------------------------- MODULE JsonFlags -----------------------------
(***************************************************************************)
(* The decision tables behind property C14.                                *)
(*                                                                         *)
(* 1. The dynamic Go type chosen for a JSON number stored in an interface, *)
(*    as a function of the number's class and the flags                    *)
(*    UseNumber / UseBigInt / UseInt64 / UseUint64, in the documented      *)
(*    precedence with overflow fall-through:                               *)
(*      UseUint64  in-range non-negative integers   -> uint64              *)
(*      UseInt64   in-range integers                -> int64               *)
(*      UseBigInt  any integer                      -> *big.Int            *)
(*      UseNumber  any number                       -> json.Number         *)
(*      otherwise                                   -> float64             *)
(*    Number classes: u63 (0 .. 2^63-1), u64 (2^63 .. 2^64-1), neg         *)
(*    (-2^63 .. -1, and -0), posover (>= 2^64), negover (< -2^63), flt     *)
(*    (fraction or exponent).                                              *)
(*                                                                         *)
(* 2. The configuration lattice the harness walks: all 8 AppendFlags       *)
(*    subsets and all 16 subsets of the copy / case-matching ParseFlags,   *)
(*    with what each is allowed to change (representation or copying,      *)
(*    never meaning).                                                      *)
(***************************************************************************)
EXTENDS Naturals, FiniteSets, TLC, Json

CONSTANTS Emit

NumFlags    == {"UseNumber", "UseBigInt", "UseInt64", "UseUint64"}
Classes     == {"u63", "u64", "neg", "posover", "negover", "flt"}
IsInteger(c) == c # "flt"

DynType(c, F) ==
  IF c \in {"u63", "u64"} /\ "UseUint64" \in F THEN "uint64"
  ELSE IF c \in {"u63", "neg"} /\ "UseInt64" \in F THEN "int64"
  ELSE IF IsInteger(c) /\ "UseBigInt" \in F THEN "bigint"
  ELSE IF "UseNumber" \in F THEN "number"
  ELSE "float64"

\* which types can hold a class exactly
Fits(c, t) == CASE t = "uint64" -> c \in {"u63", "u64"}
                [] t = "int64"  -> c \in {"u63", "neg"}
                [] t = "bigint" -> IsInteger(c)
                [] t \in {"number", "float64"} -> TRUE

AppendFlags == {"EscapeHTML", "SortMapKeys", "TrustRawMessage"}
CopyFlags   == {"DontCopyString", "DontCopyNumber", "DontCopyRawMessage", "DontMatchCaseInsensitiveStructFields"}

\* what an AppendFlags subset may change relative to the default {EscapeHTML, SortMapKeys}
MayChange(A) == (IF "EscapeHTML" \in A THEN {} ELSE {"html-escapes"})
                \cup (IF "SortMapKeys" \in A THEN {} ELSE {"member-order"})
                \cup (IF "TrustRawMessage" \in A THEN {"raw-not-validated"} ELSE {})

VARIABLES c, F, A, P
vars == <<c, F, A, P>>
Init == c \in Classes /\ F \in SUBSET NumFlags /\ A \in SUBSET AppendFlags /\ P \in SUBSET CopyFlags
Next == UNCHANGED vars
Spec == Init /\ [][Next]_vars

\* the chosen type always holds the number exactly; the flags only ever change the type
ChosenTypeFits == Fits(c, DynType(c, F))
\* precedence: a flag lower in the order never overrides a higher one that applies
Precedence ==
  /\ ("UseUint64" \in F /\ c \in {"u63","u64"}) => DynType(c, F) = "uint64"
  /\ ("UseInt64" \in F /\ c = "neg") => DynType(c, F) = "int64"
  /\ ("UseBigInt" \in F /\ c \in {"posover","negover"}) => DynType(c, F) = "bigint"
  /\ (F = {}) => DynType(c, F) = "float64"
  /\ (c = "flt") => DynType(c, F) \in {"number", "float64"}
\* adding flags never makes the representation less precise: float64 only without any applicable flag
FloatOnlyByDefault == DynType(c, F) = "float64" => ("UseNumber" \notin F /\ (IsInteger(c) => "UseBigInt" \notin F))
\* the default AppendFlags change nothing
DefaultChangesNothing == MayChange({"EscapeHTML", "SortMapKeys"}) = {}

EmitTable == (Emit /\ A = {} /\ P = {}) => PrintT(ToJson([cls |-> c, flags |-> F, type |-> DynType(c, F)]))
EmitConfig == (Emit /\ c = "u63" /\ F = {}) => PrintT(ToJson([append |-> A, parse |-> P, may |-> MayChange(A)]))
=============================================================================
