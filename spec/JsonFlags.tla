----------------------------- MODULE JsonFlags -----------------------------
(***************************************************************************)
(* The decision tables behind property C14.                                *)
(*                                                                         *)
(* 1. The dynamic Go type chosen for a JSON number stored in an interface, *)
(*    as a function of the number's class and the flags                    *)
(*    UseNumber / UseBigInt / UseInt64 / UseUint64, in the documented      *)
(*    precedence with overflow fall-through:                               *)
(*      UseUint64  in-range non-negative integers   -> uint64              *)
(*      UseInt64   in-range integers                -> int64               *)
(*      UseBigInt  any integer                      -> *big.Int            *)
(*      UseNumber  any number                       -> json.Number         *)
(*      otherwise                                   -> float64             *)
(*    Number classes: u63 (0 .. 2^63-1), u64 (2^63 .. 2^64-1), neg         *)
(*    (-2^63 .. -1, and -0), posover (>= 2^64), negover (< -2^63), flt     *)
(*    (fraction or exponent).                                              *)
(*                                                                         *)
(* 2. The configuration lattice the harness walks: all 8 AppendFlags       *)
(*    subsets and all 16 subsets of the copy / case-matching ParseFlags,   *)
(*    with what each is allowed to change (representation or copying,      *)
(*    never meaning).                                                      *)
(*                                                                         *)
(* 3. Whether Append fails.  A value can hold one fault - a raw message    *)
(*    that is not JSON, a marshal method whose output is not JSON, a       *)
(*    method that returns an error, a kind no flag makes encodable, a      *)
(*    float that JSON cannot write, a Number that is no number - in one of *)
(*    six places.  Each fault is found by a check of its own; the only     *)
(*    check a flag switches off is that of raw messages (TrustRawMessage), *)
(*    and the property takes those values out of its domain.  Hence:       *)
(*    within the domain Append fails exactly when it does with the default *)
(*    flags (ErrorParity).  TrustCovers is the set of faults whose check   *)
(*    TrustRawMessage switches off: {"raw"} as the package is; a set that  *)
(*    also holds "method-output" is the deviation witness.                 *)
(***************************************************************************)
EXTENDS Naturals, FiniteSets, TLC, Json

CONSTANTS Emit,
          TrustCovers   \* the faults whose check TrustRawMessage switches off

NumFlags    == {"UseNumber", "UseBigInt", "UseInt64", "UseUint64"}
Classes     == {"u63", "u64", "neg", "posover", "negover", "flt"}
IsInteger(c) == c # "flt"

DynType(c, F) ==
  IF c \in {"u63", "u64"} /\ "UseUint64" \in F THEN "uint64"
  ELSE IF c \in {"u63", "neg"} /\ "UseInt64" \in F THEN "int64"
  ELSE IF IsInteger(c) /\ "UseBigInt" \in F THEN "bigint"
  ELSE IF "UseNumber" \in F THEN "number"
  ELSE "float64"

\* which types can hold a class exactly
Fits(c, t) == CASE t = "uint64" -> c \in {"u63", "u64"}
                [] t = "int64"  -> c \in {"u63", "neg"}
                [] t = "bigint" -> IsInteger(c)
                [] t \in {"number", "float64"} -> TRUE

AppendFlags == {"EscapeHTML", "SortMapKeys", "TrustRawMessage"}
CopyFlags   == {"DontCopyString", "DontCopyNumber", "DontCopyRawMessage", "DontMatchCaseInsensitiveStructFields"}

\* what an AppendFlags subset may change relative to the default {EscapeHTML, SortMapKeys}
MayChange(A) == (IF "EscapeHTML" \in A THEN {} ELSE {"html-escapes"})
                \cup (IF "SortMapKeys" \in A THEN {} ELSE {"member-order"})
                \cup (IF "TrustRawMessage" \in A THEN {"raw-not-validated"} ELSE {})

Faults    == {"none", "raw", "method-output", "method-error", "text-method-error", "kind", "float", "number"}
Places    == {"top", "field", "element", "map-value", "pointer", "interface"}
Default   == {"EscapeHTML", "SortMapKeys"}
Fails(f, AA)    == f # "none" /\ ~(f \in TrustCovers /\ "TrustRawMessage" \in AA)
InDomain(f, AA) == ~(f = "raw" /\ "TrustRawMessage" \in AA)

VARIABLES c, F, A, P, fault, place
vars == <<c, F, A, P, fault, place>>
Init == /\ c \in Classes /\ F \in SUBSET NumFlags /\ A \in SUBSET AppendFlags /\ P \in SUBSET CopyFlags
        /\ \/ fault = "none" /\ place = "top"
           \/ c = "u63" /\ F = {} /\ P = {} /\ fault \in Faults /\ place \in Places
Next == UNCHANGED vars
Spec == Init /\ [][Next]_vars

\* the chosen type always holds the number exactly; the flags only ever change the type
ChosenTypeFits == Fits(c, DynType(c, F))
\* precedence: a flag lower in the order never overrides a higher one that applies
Precedence ==
  /\ ("UseUint64" \in F /\ c \in {"u63","u64"}) => DynType(c, F) = "uint64"
  /\ ("UseInt64" \in F /\ c = "neg") => DynType(c, F) = "int64"
  /\ ("UseBigInt" \in F /\ c \in {"posover","negover"}) => DynType(c, F) = "bigint"
  /\ (F = {}) => DynType(c, F) = "float64"
  /\ (c = "flt") => DynType(c, F) \in {"number", "float64"}
\* adding flags never makes the representation less precise: float64 only without any applicable flag
FloatOnlyByDefault == DynType(c, F) = "float64" => ("UseNumber" \notin F /\ (IsInteger(c) => "UseBigInt" \notin F))
\* the default AppendFlags change nothing
DefaultChangesNothing == MayChange({"EscapeHTML", "SortMapKeys"}) = {}

\* within the domain of the property the flags have no say in whether Append fails
ErrorParity == InDomain(fault, A) => (Fails(fault, A) <=> Fails(fault, Default))
\* and the one flag that speaks of validation speaks of raw messages only
TrustIsAboutRawMessages == TrustCovers \subseteq {"raw"}

EmitFault == (Emit /\ c = "u63" /\ F = {} /\ P = {} /\ ~(fault = "none" /\ place # "top")) =>
  PrintT(ToJson([fault |-> fault, place |-> place, append |-> A, fails |-> Fails(fault, A), indomain |-> InDomain(fault, A)]))
EmitTable == (Emit /\ A = {} /\ P = {} /\ fault = "none" /\ place = "top") => PrintT(ToJson([cls |-> c, flags |-> F, type |-> DynType(c, F)]))
EmitConfig == (Emit /\ c = "u63" /\ F = {} /\ fault = "none" /\ place = "top") => PrintT(ToJson([append |-> A, parse |-> P, may |-> MayChange(A)]))
=============================================================================
