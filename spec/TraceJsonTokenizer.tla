------------------------ MODULE TraceJsonTokenizer ------------------------
(***************************************************************************)
(* Trace validation for json.Tokenizer (code -> spec).                     *)
(*                                                                         *)
(* The harness drives the real Tokenizer over arbitrary byte strings       *)
(* (valid, invalid, truncated) and over histories of Reset / reuse, and    *)
(* logs one event per public call with the Tokenizer's public state after  *)
(* the call.  Every logged execution must be a behaviour of the            *)
(* implementation machine of JsonTokenizerOps (as the property demands:    *)
(* FixKeyLatch = TRUE): same return value, Depth, Index, IsKey, error      *)
(* flag at every step; errors sticky until Reset; a Reset or reused        *)
(* tokenizer starts from the initial state whatever the pool handed out;   *)
(* the end of input clears the state.                                      *)
(*                                                                         *)
(* Events (ndjson, file trace.ndjson):                                     *)
(*   {"ev":"new"} | {"ev":"reset"}                                         *)
(*   {"ev":"next","tok":T,"ret":B,"d":N,"i":N,"k":B,"e":B}                 *)
(*      T in Tokens, "bad" (malformed scalar / stray byte), "eof",         *)
(*      "none" (the call was made while the error was set)                 *)
(***************************************************************************)
EXTENDS JsonTokenizerOps, Json

Trace == ndJsonDeserialize("trace.ndjson")

VARIABLES l,                 \* next event to consume
          tstk, isKey, err,  \* implementation machine state
          rep                \* public fields as last reported

tvars == <<l, tstk, isKey, err, rep>>

Zero == [d |-> 0, i |-> 0, k |-> FALSE]

TraceInit == l = 1 /\ tstk = <<>> /\ isKey = FALSE /\ err = FALSE /\ rep = Zero

Fresh == /\ tstk' = <<>> /\ isKey' = FALSE /\ err' = FALSE /\ rep' = Zero

Logged(ev) == [d |-> ev.d, i |-> ev.i, k |-> ev.k]

TraceReset ==
  /\ l <= Len(Trace) /\ Trace[l].ev \in {"new", "reset"}
  /\ Fresh /\ l' = l + 1

\* a call made while the error is set returns false and changes nothing
TraceSticky ==
  /\ l <= Len(Trace) /\ Trace[l].ev = "next" /\ err
  /\ Trace[l].tok = "none" /\ Trace[l].ret = FALSE /\ Trace[l].e = TRUE
  /\ Logged(Trace[l]) = rep
  /\ UNCHANGED <<tstk, isKey, err, rep>> /\ l' = l + 1

\* end of input: Next returns false, no error, and the tokenizer is back in its initial state
TraceEOF ==
  /\ l <= Len(Trace) /\ Trace[l].ev = "next" /\ ~err /\ Trace[l].tok = "eof"
  /\ Trace[l].ret = FALSE /\ Trace[l].e = FALSE /\ Logged(Trace[l]) = Zero
  /\ Fresh /\ l' = l + 1

TraceToken ==
  /\ l <= Len(Trace) /\ Trace[l].ev = "next" /\ ~err
  /\ Trace[l].tok \in Tokens \cup {"bad"}
  /\ LET ev == Trace[l]
         r  == TNext(tstk, isKey, ev.tok) IN
       /\ ev.ret = r.ret /\ ev.e = r.e
       /\ ev.d = r.depth /\ ev.i = r.index /\ ev.k = r.iskey
       /\ tstk' = r.s /\ isKey' = r.k /\ err' = r.e
       /\ rep' = Logged(ev)
  /\ l' = l + 1

TraceNext == TraceReset \/ TraceSticky \/ TraceEOF \/ TraceToken
TraceSpec == TraceInit /\ [][TraceNext]_tvars

\* invariants of the implementation machine, evaluated at every step of every real execution
StackShape == \A j \in 1..Len(tstk) : tstk[j].typ \in {"A","O"} /\ tstk[j].len >= 1
ErrorFreezes == err => rep = rep   \* (stickiness itself is enforced by TraceSticky)

\* acceptance: the whole trace was consumed.  On rejection the position of the first
\* event that no action explains is printed.
TraceAccepted ==
  LET d == TLCGet("stats").diameter IN
  IF d - 1 = Len(Trace) THEN TRUE
  ELSE Print(<<"TRACE-REJECTED-AT", d>>, FALSE)
=============================================================================
