------------------------ MODULE TraceJsonTokenizer ------------------------
(***************************************************************************)
(* Trace validation for json.Tokenizer (code -> spec).                     *)
(*                                                                         *)
(* The harness drives the real Tokenizer over arbitrary byte strings       *)
(* (valid, invalid, truncated) and over histories of Reset / reuse, and    *)
(* logs one event per public call with the Tokenizer's public state after  *)
(* the call.  Every logged execution must be a behaviour of the            *)
(* implementation machine of JsonTokenizerOps (as the property demands:    *)
(* FixKeyLatch = TRUE): same return value, Depth, Index, IsKey, error      *)
(* flag at every step; errors sticky until Reset; a Reset or reused        *)
(* tokenizer starts from the initial state whatever the pool handed out;   *)
(* the end of input clears the state.                                      *)
(*                                                                         *)
(* Events (ndjson, file trace.ndjson):                                     *)
(*   {"ev":"new","t":K} | {"ev":"reset","t":K}          K = tokenizer 1 or 2 *)
(*   {"ev":"next","t":K,"tok":T,"ret":B,"d":N,"i":N,"k":B,"e":B}           *)
(*      T in Tokens, "bad" (malformed scalar / stray byte), "eof",         *)
(*      "none" (the call was made while the error was set)                 *)
(***************************************************************************)
EXTENDS JsonTokenizerOps, Json

Trace == ndJsonDeserialize("trace.ndjson")

\* Two tokenizers may be alive at once (their calls interleave in the trace): each has its own machine
\* state; whatever the stack pool hands out, they must not influence each other.
Toks == {1, 2}

VARIABLES l,                 \* next event to consume
          st                 \* tokenizer -> [tstk, isKey, err, rep]

tvars == <<l, st>>

Zero == [d |-> 0, i |-> 0, k |-> FALSE]
FreshState == [tstk |-> <<>>, isKey |-> FALSE, err |-> FALSE, rep |-> Zero]

TraceInit == l = 1 /\ st = [t \in Toks |-> FreshState]

T == Trace[l].t
tstk == st[T].tstk
isKey == st[T].isKey
err == st[T].err
rep == st[T].rep
Set(new) == st' = [st EXCEPT ![T] = new]
Fresh == Set(FreshState)

Logged(ev) == [d |-> ev.d, i |-> ev.i, k |-> ev.k]

TraceReset ==
  /\ l <= Len(Trace) /\ Trace[l].ev \in {"new", "reset"}
  /\ Fresh /\ l' = l + 1

\* a call made while the error is set returns false and changes nothing
TraceSticky ==
  /\ l <= Len(Trace) /\ Trace[l].ev = "next" /\ err
  /\ Trace[l].tok = "none" /\ Trace[l].ret = FALSE /\ Trace[l].e = TRUE
  /\ Logged(Trace[l]) = rep
  /\ UNCHANGED st /\ l' = l + 1

\* end of input: Next returns false, no error, and the tokenizer is back in its initial state
TraceEOF ==
  /\ l <= Len(Trace) /\ Trace[l].ev = "next" /\ ~err /\ Trace[l].tok = "eof"
  /\ Trace[l].ret = FALSE /\ Trace[l].e = FALSE /\ Logged(Trace[l]) = Zero
  /\ Fresh /\ l' = l + 1

TraceToken ==
  /\ l <= Len(Trace) /\ Trace[l].ev = "next" /\ ~err
  /\ Trace[l].tok \in Tokens \cup {"bad"}
  /\ LET ev == Trace[l]
         r  == TNext(tstk, isKey, ev.tok) IN
       /\ ev.ret = r.ret /\ ev.e = r.e
       /\ ev.d = r.depth /\ ev.i = r.index /\ ev.k = r.iskey
       /\ Set([tstk |-> r.s, isKey |-> r.k, err |-> r.e, rep |-> Logged(ev)])
  /\ l' = l + 1

TraceNext == TraceReset \/ TraceSticky \/ TraceEOF \/ TraceToken
TraceSpec == TraceInit /\ [][TraceNext]_tvars

\* invariants of the implementation machine, evaluated at every step of every real execution
StackShape == \A t \in Toks : \A j \in 1..Len(st[t].tstk) : st[t].tstk[j].typ \in {"A","O"} /\ st[t].tstk[j].len >= 1

\* acceptance: the whole trace was consumed.  On rejection the position of the first
\* event that no action explains is printed.
TraceAccepted ==
  LET d == TLCGet("stats").diameter IN
  IF d - 1 = Len(Trace) THEN TRUE
  ELSE Print(<<"TRACE-REJECTED-AT", d>>, FALSE)
=============================================================================
