SPECIFICATION RSpec
CONSTANTS
  MaxFields = 1
  TagNumbers = {0, 16, 63, 64, 255, 256, 300, 320}
  MaxId = 1
  GenKinds = {"bool","int","i32","i64","s32","s64","uint","u32","u64","x32","x64","flt","dbl","str","byt","arr","arr7","arr15","arr16","m1","m2","m3","m4"}
  FixPresence = TRUE
  FixEmptyMap = TRUE
  RepTagged = FALSE
  FixRepTagged = TRUE
  FixSplit = TRUE
  FixOrLast = TRUE
  Emit = TRUE
CONSTRAINT EmitRewrite
CHECK_DEADLOCK FALSE
