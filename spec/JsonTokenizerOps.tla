--------------------------- MODULE JsonTokenizerOps ---------------------------
(***************************************************************************)
(* json.Tokenizer (json/token.go) as a state machine over TOKEN classes,   *)
(* next to the definition of what it must report.                          *)
(*                                                                         *)
(* Two machines run side by side over the same token history:              *)
(*                                                                         *)
(*  - the DEFINITION: the RFC 8259 grammar over tokens (modes V/A0/O0/K/   *)
(*    C/E as in JsonGrammar) with a stack of [typ, cnt] where cnt counts   *)
(*    the separators seen in that container.  From it: Depth = number of   *)
(*    enclosing containers, Index = position of the element / member in   *)
(*    its parent, IsKey = the token is a member name.                      *)
(*                                                                         *)
(*  - the IMPLEMENTATION machine, one action per call of Next: a stack of  *)
(*    [typ, len], the isKey latch, the sticky error.  It is total: the     *)
(*    real Tokenizer walks through grammatically wrong input and only      *)
(*    stops on a mismatched closer, a comma outside any container or a     *)
(*    malformed scalar.                                                    *)
(*                                                                         *)
(* Property C17 (design level): on every viable prefix of a valid document *)
(* the implementation machine reports, for scalars and opening delimiters, *)
(* exactly the definition's Depth / Index / IsKey; errors are sticky;      *)
(* Reset restores the initial state whatever stack the pool hands out.     *)
(*                                                                         *)
(* Token classes: { } [ ] : ,  and scalars s (string) n (number)           *)
(* l (true/false/null).  "bad" = a malformed scalar / stray byte,          *)
(* "eof" = end of input (only in recorded traces).                         *)
(***************************************************************************)
EXTENDS Integers, Sequences, FiniteSets, TLC

CONSTANTS FixKeyLatch    \* TRUE: closing an object clears the isKey latch (as the property demands)

Scalars == {"s","n","l"}
Delims  == {"{","}","[","]",":",","}
Tokens  == Scalars \cup Delims

Pop(s) == SubSeq(s, 1, Len(s) - 1)
Top(s) == s[Len(s)]
Bump(s, f(_)) == [s EXCEPT ![Len(s)] = f(s[Len(s)])]

-----------------------------------------------------------------------------
(* The definition: grammar over tokens *)

GIndex(s) == IF s = <<>> THEN 0 ELSE Top(s).cnt

\* next grammar mode after a complete value
\* ("E" = after a value; what may follow depends on the stack)
GStep(mode, s, t) ==
  LET beginValue ==
        IF t \in Scalars THEN [m |-> "E", s |-> s]
        ELSE IF t = "{" THEN [m |-> "O0", s |-> Append(s, [typ |-> "O", cnt |-> 0])]
        ELSE IF t = "[" THEN [m |-> "A0", s |-> Append(s, [typ |-> "A", cnt |-> 0])]
        ELSE [m |-> "DEAD", s |-> <<>>]
  IN
  CASE mode = "V"  -> beginValue
    [] mode = "A0" -> IF t = "]" THEN [m |-> "E", s |-> Pop(s)] ELSE beginValue
    [] mode = "O0" -> IF t = "}" THEN [m |-> "E", s |-> Pop(s)]
                      ELSE IF t = "s" THEN [m |-> "C", s |-> s] ELSE [m |-> "DEAD", s |-> <<>>]
    [] mode = "K"  -> IF t = "s" THEN [m |-> "C", s |-> s] ELSE [m |-> "DEAD", s |-> <<>>]
    [] mode = "C"  -> IF t = ":" THEN [m |-> "V", s |-> s] ELSE [m |-> "DEAD", s |-> <<>>]
    [] mode = "E"  -> IF s = <<>> THEN [m |-> "DEAD", s |-> <<>>]
                      ELSE IF t = "," THEN [m |-> (IF Top(s).typ = "A" THEN "V" ELSE "K"),
                                            s |-> Bump(s, LAMBDA e : [e EXCEPT !.cnt = @ + 1])]
                      ELSE IF t = "]" /\ Top(s).typ = "A" THEN [m |-> "E", s |-> Pop(s)]
                      ELSE IF t = "}" /\ Top(s).typ = "O" THEN [m |-> "E", s |-> Pop(s)]
                      ELSE [m |-> "DEAD", s |-> <<>>]
    [] OTHER       -> [m |-> "DEAD", s |-> <<>>]

\* what the definition says about token t read in (mode, s): only scalars and openers are specified
Specified(mode, s, t) ==
  IF t \in Scalars \cup {"{","["}
  THEN [depth |-> Len(s), index |-> GIndex(s), iskey |-> (t = "s" /\ mode \in {"O0","K"})]
  ELSE [depth |-> 0, index |-> 0, iskey |-> FALSE]      \* not specified (closers, ':' and ',')
IsSpecified(t) == t \in Scalars \cup {"{","["}

Complete(mode, s) == mode = "E" /\ s = <<>>

-----------------------------------------------------------------------------
(* The implementation machine: json/token.go Tokenizer.Next, one call per token *)

TDepth(s) == Len(s)
TIndex(s) == IF s = <<>> THEN 0 ELSE Top(s).len - 1

\* result of one call of Next on token t: new stack, latch, error flag, reported fields, return value
TNext(s, k, t) ==
  LET d0 == TDepth(s)
      i0 == TIndex(s)
  IN
  CASE t \in Scalars ->
         [s |-> s, k |-> k, e |-> FALSE, depth |-> d0, index |-> i0, iskey |-> k, ret |-> TRUE]
    [] t = "bad" ->      \* malformed scalar or stray byte: Err is set, the fields are still assigned
         [s |-> s, k |-> k, e |-> TRUE, depth |-> d0, index |-> i0, iskey |-> k, ret |-> FALSE]
    [] t = "{" ->
         [s |-> Append(s, [typ |-> "O", len |-> 1]), k |-> TRUE, e |-> FALSE,
          depth |-> d0, index |-> i0, iskey |-> FALSE, ret |-> TRUE]
    [] t = "[" ->
         [s |-> Append(s, [typ |-> "A", len |-> 1]), k |-> k, e |-> FALSE,
          depth |-> d0, index |-> i0, iskey |-> FALSE, ret |-> TRUE]
    [] t \in {"}","]"} ->
         LET typ == IF t = "}" THEN "O" ELSE "A"
             ok  == s # <<>> /\ Top(s).typ = typ
             s1  == IF ok THEN Pop(s) ELSE s
             k1  == IF FixKeyLatch /\ t = "}" THEN FALSE ELSE k
         IN [s |-> s1, k |-> k1, e |-> ~ok, depth |-> d0 - 1, index |-> TIndex(s1), iskey |-> FALSE, ret |-> ok]
    [] t = ":" ->
         [s |-> s, k |-> FALSE, e |-> FALSE, depth |-> d0, index |-> i0, iskey |-> FALSE, ret |-> TRUE]
    [] t = "," ->
         IF s = <<>>
         THEN [s |-> s, k |-> k, e |-> TRUE, depth |-> d0, index |-> i0, iskey |-> FALSE, ret |-> FALSE]
         ELSE [s |-> Bump(s, LAMBDA e : [e EXCEPT !.len = @ + 1]),
               k |-> (IF Top(s).typ = "O" THEN TRUE ELSE k), e |-> FALSE,
               depth |-> d0, index |-> i0, iskey |-> FALSE, ret |-> TRUE]

------------------------------------------------------------------------=============================================================================
