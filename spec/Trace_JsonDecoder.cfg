SPECIFICATION TraceSpec
INVARIANTS WindowInvariant OffsetInvariant
POSTCONDITION TraceAccepted
CHECK_DEADLOCK FALSE
