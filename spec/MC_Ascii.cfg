SPECIFICATION Spec
CONSTANTS
  MaxLen = 3
  Emit = FALSE
INVARIANTS ValidBySet PrintBySet FoldOnlyLetters FoldSymmetric PrefixOfSelf EqualIsBoth
CHECK_DEADLOCK FALSE
