SPECIFICATION CalSpec
INVARIANTS ClosedFormIsSummation EpochIsZero LeapRule
CHECK_DEADLOCK FALSE
