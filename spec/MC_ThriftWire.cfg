SPECIFICATION Spec
CONSTANTS
  MaxFields = 1
  FieldIds = {1, 2, 5, 15, 16, 17, 64, 70, 300, 8192, 32767}
  GenTypes = {"BOOL","I8","I16","I32","I64","DOUBLE","BINARY","STRUCT","LIST","SET","MAP","ENUM"}
  MaxId = 2
  MaxMapEntries = 1
  Emit = FALSE
INVARIANTS TypeOK LongNotShorter EndsWithStop FieldsAscending RevInvolution RevSameLength
CHECK_DEADLOCK FALSE
