SPECIFICATION Spec
CONSTANTS
  Prefixes = {0, 1, 3}
  MaxOps = 6
  MaxWrite = 2
  Emit = FALSE
  ReservePolicy = "fromstart"
INVARIANTS NeverBelowPrefix LengthKeepsPrefix StartsAbovePrefix ResultStartsWithPrefix NoPanic
PROPERTIES RoomAfterReserve
CHECK_DEADLOCK FALSE
