SPECIFICATION Spec
CONSTANTS
  W = 4
  MaxUnits = 3
  Dirs = {"unesc"}
  EscUnits = {}
  UnescUnits = {}
  Variant = "code"
  Emit = FALSE
INVARIANTS UnescapeRefines NeverSurrogate
CHECK_DEADLOCK FALSE
