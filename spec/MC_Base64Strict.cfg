SPECIFICATION Spec
CONSTANTS
  MaxLen = 3
  ByteSet = {0, 65, 251, 255}
  Reps = {0, 11}
  StrictNewlines = TRUE
  DropTail = FALSE
  Emit = FALSE
INVARIANTS NewlinesInvisible
CHECK_DEADLOCK FALSE
