------------------------------- MODULE Varint -------------------------------
(***************************************************************************)
(* Base-128 variable-length integers as protobuf and the thrift compact    *)
(* protocol write them, at the level of bits and bytes.                    *)
(*                                                                         *)
(* A value is a 64-bit PATTERN (a function 0..63 -> {0,1}, bit 0 the least *)
(* significant): TLC's integers stop at 2^31, and what the code gets wrong *)
(* is a matter of which bits go where (an unrolled encoder with one shift  *)
(* per byte and per length; a size computed from the bit length; a decoder *)
(* that must refuse an eleventh byte and a tenth byte above 1).            *)
(*                                                                         *)
(* One behaviour: choose a pattern of the lattice and a presentation       *)
(* (plain, zig-zag 64, zig-zag 32); the ENCODER writes its bytes one step  *)
(* per byte, as the code's switch on the length does; the bytes are then   *)
(* presented to the DECODER as they are, padded with empty groups (legal   *)
(* up to ten bytes), with a tenth byte that carries more than bit 63, or   *)
(* cut short; the decoder consumes them one step per byte as the loop in   *)
(* proto/decode.go decodeVarint does.                                      *)
(*                                                                         *)
(* Checked by TLC (MC_Varint.cfg):                                         *)
(*   SizeLaw         the length written is (bitlen(v|1)+6) div 7           *)
(*   Minimal         the last byte written is not an empty group           *)
(*   DecoderRefines  the decoder's verdict is the format's: value for the  *)
(*                   bytes as written and for every legal padding, "eof"   *)
(*                   for every proper prefix, "overflow" beyond 64 bits    *)
(*   ZigZagLaws      zz(2^k) = 2^(k+1), zz(-2^k) = 2^(k+1)-1, unzz.zz = id *)
(* Variant = "dup28" (the seven-byte case writes bits 21..27 twice) and    *)
(* Variant = "lax" (no test on the tenth byte) are the witnesses that the  *)
(* invariants can fail.                                                    *)
(***************************************************************************)
EXTENDS Naturals, Sequences, FiniteSets, TLC, Json

CONSTANTS Ks,        \* bit positions the lattice is built on
          Variant,   \* "code" | "dup28" | "lax"
          Emit

Idx == 0..63
Pow2(t) == CASE t = 0 -> 1 [] t = 1 -> 2 [] t = 2 -> 4 [] t = 3 -> 8 [] t = 4 -> 16 [] t = 5 -> 32 [] t = 6 -> 64
Single(k) == [i \in Idx |-> IF i = k THEN 1 ELSE 0]                \* 2^k
Low(k)    == [i \in Idx |-> IF i < k THEN 1 ELSE 0]                \* 2^k - 1
Plus1(k)  == [i \in Idx |-> IF i = k \/ i = 0 THEN 1 ELSE 0]       \* 2^k + 1
Not(p)    == [i \in Idx |-> 1 - p[i]]                              \* -p - 1
Alt(a)    == [i \in Idx |-> (i + a) % 2]                           \* 0x5555.. / 0xAAAA..
\* the low k bits of a pattern, bit k-1 set: a k-bit number whose groups differ from their neighbours (alternating bits)
\* or from every other group (group j holds the number j+1): an encoder that takes a group from the wrong shift shows
Mask(p, k)  == [i \in Idx |-> IF i < k - 1 THEN p[i] ELSE IF i = k - 1 THEN 1 ELSE 0]
Stair       == [i \in Idx |-> (((i \div 7) + 1) \div Pow2(i % 7)) % 2]
Lattice   == UNION {{Single(k), Low(k), Plus1(k), Not(Single(k)), Not(Low(k)), Not(Plus1(k)),
                     Mask(Alt(0), k + 1), Mask(Alt(1), k + 1), Mask(Stair, k + 1), Not(Mask(Stair, k + 1))} : k \in Ks}
               \cup {Alt(0), Alt(1), Low(0), Not(Low(0)), Stair}

\* ---- the format
BitAt(p, i) == IF i \in Idx THEN p[i] ELSE 0
Group(p, j) == BitAt(p, 7*j) + 2*BitAt(p, 7*j+1) + 4*BitAt(p, 7*j+2) + 8*BitAt(p, 7*j+3)
                 + 16*BitAt(p, 7*j+4) + 32*BitAt(p, 7*j+5) + 64*BitAt(p, 7*j+6)
BitLen(p) == IF \E i \in Idx : p[i] = 1 THEN 1 + CHOOSE i \in Idx : p[i] = 1 /\ \A h \in Idx : h > i => p[h] = 0 ELSE 1
Size(p)   == (BitLen(p) + 6) \div 7                                 \* sizeOfVarint: (bits.Len64(v|1) + 6) / 7

Is32(p) == \A i \in 31..63 : p[i] = p[31]                           \* the sign extension of a 32-bit integer
ZigZag64(p) == [i \in Idx |-> IF i = 0 THEN p[63] ELSE (p[i-1] + p[63]) % 2]
ZigZag32(p) == [i \in Idx |-> IF i = 0 THEN p[31] ELSE IF i <= 31 THEN (p[i-1] + p[31]) % 2 ELSE 0]
UnZigZag64(z) == [i \in Idx |-> IF i = 63 THEN z[0] ELSE (z[i+1] + z[0]) % 2]

Present(p, enc) == CASE enc = "plain" -> p [] enc = "zz64" -> ZigZag64(p) [] enc = "zz32" -> ZigZag32(p)
Encs(p) == {"plain", "zz64"} \cup (IF Is32(p) THEN {"zz32"} ELSE {})

\* the pattern a sequence of groups stands for (bits beyond 63 fall off, as a shift by 64 or more does)
GroupBit(g, t) == (g \div Pow2(t)) % 2
PatOf(acc) == [i \in Idx |-> IF (i \div 7) + 1 <= Len(acc) THEN GroupBit(acc[(i \div 7) + 1], i % 7) ELSE 0]

VARIABLES pat, enc, src, n, out, pc, kind, di, acc, res
vars == <<pat, enc, src, n, out, pc, kind, di, acc, res>>

Init == /\ pat \in Lattice
        /\ enc \in Encs(pat)
        /\ src = Present(pat, enc)
        /\ n = Size(src)
        /\ out = <<>> /\ pc = "enc" /\ kind = "canon" /\ di = 1 /\ acc = <<>> /\ res = "run"

\* ---- the encoder: byte j of n (proto/encode.go encodeVarint, one case per length)
Shift(j) == IF Variant = "dup28" /\ n = 7 /\ j = 4 THEN 3 ELSE j
EncStep == /\ pc = "enc" /\ Len(out) < n
           /\ LET j == Len(out) IN out' = Append(out, Group(src, Shift(j)) + IF j < n - 1 THEN 128 ELSE 0)
           /\ pc' = IF Len(out) + 1 = n THEN "present" ELSE "enc"
           /\ UNCHANGED <<pat, enc, src, n, kind, di, acc, res>>

\* ---- how the bytes reach a decoder
WithCont(s) == [s EXCEPT ![Len(s)] = @ + 128]
Padded(s, k) == IF k = 0 THEN s ELSE WithCont(s) \o [i \in 1..k |-> IF i < k THEN 128 ELSE 0]
PresentAsIs == /\ pc = "present" /\ pc' = "dec" /\ UNCHANGED <<pat, enc, src, n, out, kind, di, acc, res>>
PresentPadded == /\ pc = "present"
                 /\ \E k \in {1, 10 - n, 11 - n} : k > 0 /\ out' = Padded(out, k)
                                                   /\ kind' = IF n + k > 10 THEN "toolong" ELSE "padded"
                 /\ pc' = "dec" /\ UNCHANGED <<pat, enc, src, n, di, acc, res>>
PresentTenth == /\ pc = "present"        \* ten bytes whose last one carries bits 64 and up
                /\ \E t \in {2, 3, 64, 127} : out' = [Padded(out, 10 - n) EXCEPT ![10] = t] /\ n <= 10
                /\ kind' = "tenth" /\ pc' = "dec" /\ UNCHANGED <<pat, enc, src, n, di, acc, res>>
PresentCut == /\ pc = "present"
              /\ \E c \in 0..(n - 1) : out' = SubSeq(out, 1, c)
              /\ kind' = "cut" /\ pc' = "dec" /\ UNCHANGED <<pat, enc, src, n, di, acc, res>>
PresentPaddedCut == /\ pc = "present" /\ n < 10
                    /\ out' = SubSeq(Padded(out, 10 - n), 1, 9)
                    /\ kind' = "cut" /\ pc' = "dec" /\ UNCHANGED <<pat, enc, src, n, di, acc, res>>

\* ---- the decoder: one byte per step (proto/decode.go decodeVarint; encoding/binary.Uvarint has the same tests)
DecStep == /\ pc = "dec"
           /\ IF di > Len(out)
                THEN res' = "eof" /\ pc' = "done" /\ UNCHANGED <<di, acc>>
                ELSE LET c == out[di] IN
                     IF c < 128
                       THEN /\ res' = IF Variant # "lax" /\ (di - 1 > 9 \/ (di - 1 = 9 /\ c > 1)) THEN "overflow" ELSE "ok"
                            /\ acc' = Append(acc, c) /\ pc' = "done" /\ UNCHANGED di
                       ELSE acc' = Append(acc, c - 128) /\ di' = di + 1 /\ UNCHANGED <<res, pc>>
           /\ UNCHANGED <<pat, enc, src, n, out, kind>>

Next == EncStep \/ PresentAsIs \/ PresentPadded \/ PresentTenth \/ PresentCut \/ PresentPaddedCut \/ DecStep
Spec == Init /\ [][Next]_vars

\* ---- what the format says
Expected == CASE kind \in {"canon", "padded"} -> "ok" [] kind = "cut" -> "eof" [] kind \in {"toolong", "tenth"} -> "overflow"

TypeOK == /\ Len(out) <= 11 /\ \A i \in 1..Len(out) : out[i] \in 0..255
          /\ res \in {"run", "ok", "eof", "overflow"}
SizeLaw == pc = "present" => Len(out) = Size(src) /\ \A i \in 1..Len(out) : (out[i] >= 128) = (i < Len(out))
Minimal == pc = "present" => (out[Len(out)] # 0 \/ Len(out) = 1)
EncoderRight == pc = "present" => PatOf([i \in 1..Len(out) |-> out[i] % 128]) = src
DecoderRefines == pc = "done" => res = Expected /\ (res = "ok" => PatOf(acc) = src)
ZigZagLaws == /\ \A k \in Ks : k < 63 => ZigZag64(Single(k)) = Single(k + 1)
              /\ \A k \in Ks : ZigZag64(Not(Low(k))) = Low(k + 1)        \* -2^k -> 2^(k+1) - 1
              /\ \A p \in Lattice : UnZigZag64(ZigZag64(p)) = p
              /\ \A p \in Lattice : Is32(p) => \A i \in 32..63 : ZigZag32(p)[i] = 0
              /\ \A p \in Lattice : Is32(p) => \A i \in 0..31 : ZigZag32(p)[i] = ZigZag64(p)[i]
ZigZagOnce == pc = "enc" /\ out = <<>> => ZigZagLaws          \* a law of the definitions: evaluated in the initial states only

EmitVector == (Emit /\ pc = "done") =>
    PrintT(ToJson([varint |-> TRUE, pat |-> [i \in 1..64 |-> pat[i-1]], enc |-> enc, src |-> [i \in 1..64 |-> src[i-1]],
                   bytes |-> out, kind |-> kind, res |-> res]))
=============================================================================
