SPECIFICATION Spec
CONSTANTS
  Pre = 4
  Small = 6
  MaxN = 64
  MaxR = 13
  Factor = 4
  Policy = "trusting"
  Emit = FALSE
INVARIANTS Bounded
CHECK_DEADLOCK FALSE
