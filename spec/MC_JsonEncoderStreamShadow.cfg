SPECIFICATION Spec
CONSTANTS
  MaxOps = 4
  Variant = "shadow"
  Emit = FALSE
INVARIANTS OutputIsSuccesses ValueErrorsPass FailureIsReported StickyAfterFailure NoTraceOfFailures
CHECK_DEADLOCK FALSE
