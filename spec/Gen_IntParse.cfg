SPECIFICATION Spec
CONSTANTS
  Emit = TRUE
  Kinds = {"int8", "int16", "int32", "int64", "uint8", "uint16", "uint32", "uint64"}
  NoLastDigitGuard = FALSE
CONSTRAINT EmitVector
CHECK_DEADLOCK FALSE
