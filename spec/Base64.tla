------------------------------- MODULE Base64 -------------------------------
(***************************************************************************)
(* The text of a []byte in JSON: RFC 4648 base64 with the standard         *)
(* alphabet and padding, as encoding/json writes it and reads it back.     *)
(*                                                                         *)
(* The encoder takes one group of up to three bytes per step; then one of  *)
(* the presentations of the text is chosen (as written, with line breaks   *)
(* put in, with the padding damaged, with a symbol replaced, with trailing *)
(* bits that are not zero, cut short, ...); the decoder takes one symbol   *)
(* per step and is the reader encoding/json uses: line breaks are skipped  *)
(* wherever they stand, padding is required and closes the text, trailing  *)
(* bits of a padded group are not looked at.                               *)
(*                                                                         *)
(* Symbols: 0..63 a sextet (the alphabet is the harness's), 64 the pad,    *)
(* 65 LF, 66 CR, 67 a character outside the alphabet, 68 a space.          *)
(***************************************************************************)
EXTENDS Naturals, Sequences, FiniteSets, TLC, Json

CONSTANTS MaxLen,          \* free bytes after the fixed blocks
          ByteSet,         \* their values
          Reps,            \* numbers of fixed 3-byte blocks in front (lengths that reach the vectorised loops)
          Emit,
          StrictNewlines,  \* deviation: a reader that takes CR and LF for characters outside the alphabet
          DropTail         \* deviation: a writer that forgets the last group when it is not full

VARIABLES full, enc, i, phase, pres, k, text, j, dq, dout, derr, dpad, fin
vars == <<full, enc, i, phase, pres, k, text, j, dq, dout, derr, dpad, fin>>

PAD == 64
LF  == 65
CR  == 66
BAD == 67
SP  == 68
Block == <<65, 66, 67>>

RECURSIVE Repeat(_, _)
Repeat(s, n) == IF n = 0 THEN <<>> ELSE s \o Repeat(s, n - 1)

SeqsUpTo(S, n) == UNION {[1..m -> S] : m \in 0..n}

Min(a, b) == IF a < b THEN a ELSE b

\* one group of 1..3 bytes as four symbols
Group(b) ==
  LET b1 == b[1]
      b2 == IF Len(b) >= 2 THEN b[2] ELSE 0
      b3 == IF Len(b) = 3 THEN b[3] ELSE 0
      s1 == b1 \div 4
      s2 == (b1 % 4) * 16 + (b2 \div 16)
      s3 == (b2 % 16) * 4 + (b3 \div 64)
      s4 == b3 % 64
  IN  CASE Len(b) = 3 -> <<s1, s2, s3, s4>>
        [] Len(b) = 2 -> <<s1, s2, s3, PAD>>
        [] Len(b) = 1 -> <<s1, s2, PAD, PAD>>

Pads(t) == Cardinality({p \in 1..Len(t) : t[p] = PAD})
Insert(t, p, s) == SubSeq(t, 1, p) \o <<s>> \o SubSeq(t, p + 1, Len(t))      \* s stands after p symbols
Replace(t, p, s) == [t EXCEPT ![p] = s]
\* positions looked at: both ends, and around the 32nd symbol where the wide loops of a vectorised reader end
Near(t) == {p \in 0..Len(t) : p <= 1 \/ p + 8 >= Len(t) \/ p \in {31, 32, 33}}

Init ==
  /\ \E r \in Reps, d \in SeqsUpTo(ByteSet, MaxLen) : full = Repeat(Block, r) \o d
  /\ enc = <<>> /\ i = 0 /\ phase = "enc"
  /\ pres = "none" /\ k = 0 /\ text = <<>>
  /\ j = 0 /\ dq = <<>> /\ dout = <<>> /\ derr = FALSE /\ dpad = 0 /\ fin = FALSE

(* ----- the writer: one group per step ----- *)
Encode ==
  /\ phase = "enc" /\ i < Len(full)
  /\ LET m == Min(3, Len(full) - i) IN
       /\ enc' = IF DropTail /\ m < 3 THEN enc ELSE enc \o Group(SubSeq(full, i + 1, i + m))
       /\ i' = i + m
  /\ UNCHANGED <<full, phase, pres, k, text, j, dq, dout, derr, dpad, fin>>

EncodeDone ==
  /\ phase = "enc" /\ i = Len(full)
  /\ phase' = "present"
  /\ UNCHANGED <<full, enc, i, pres, k, text, j, dq, dout, derr, dpad, fin>>

(* ----- what the reader is given ----- *)
Presentations ==
  LET n == Len(enc) np == Pads(enc) IN
       {<<"canon", 0, enc>>}
  \cup {<<"lf", p, Insert(enc, p, LF)>> : p \in Near(enc)}
  \cup {<<"cr", p, Insert(enc, p, CR)>> : p \in {q \in Near(enc) : q = 0 \/ q + 2 >= n}}
  \cup {<<"crlf", p, Insert(Insert(enc, p, CR), p + 1, LF)>> : p \in {q \in Near(enc) : q + 3 >= n}}
  \cup {<<"space", p, Insert(enc, p, SP)>> : p \in {0, n}}
  \cup {<<"bad", p, Replace(enc, p, BAD)>> : p \in Near(enc) \ {0}}
  \cup {<<"padat", p, Replace(enc, p, PAD)>> : p \in {q \in Near(enc) \ {0} : enc[q] # PAD}}
  \cup {<<"extrapad", 0, enc \o <<PAD>>>>}
  \cup {<<"cut", c, SubSeq(enc, 1, n - c)>> : c \in {q \in 1..3 : q <= n}}
  \cup (IF np > 0 THEN {<<"nopad", 0, SubSeq(enc, 1, n - np)>>,
                        <<"dirty", 0, Replace(enc, n - np, enc[n - np] + 1)>>,
                        <<"tail", 0, enc \o <<16, 16, PAD, PAD>>>>} ELSE {})
  \cup (IF np = 2 THEN {<<"pad1", 0, SubSeq(enc, 1, n - 1)>>} ELSE {})

Present ==
  /\ phase = "present"
  /\ \E p \in Presentations : pres' = p[1] /\ k' = p[2] /\ text' = p[3]
  /\ phase' = "dec"
  /\ UNCHANGED <<full, enc, i, j, dq, dout, derr, dpad, fin>>

(* ----- the reader: one symbol per step ----- *)
Bytes3(q) == <<q[1] * 4 + (q[2] \div 16), (q[2] % 16) * 16 + (q[3] \div 4), (q[3] % 4) * 64 + q[4]>>
Bytes2(q) == <<q[1] * 4 + (q[2] \div 16), (q[2] % 16) * 16 + (q[3] \div 4)>>
Bytes1(q) == <<q[1] * 4 + (q[2] \div 16)>>

Decode ==
  /\ phase = "dec" /\ j < Len(text)
  /\ j' = j + 1
  /\ LET s == text[j + 1] IN
       IF derr THEN UNCHANGED <<dq, dout, derr, dpad, fin>>
       ELSE IF s \in {LF, CR} /\ ~StrictNewlines THEN UNCHANGED <<dq, dout, derr, dpad, fin>>
       ELSE IF s > PAD \/ fin THEN derr' = TRUE /\ UNCHANGED <<dq, dout, dpad, fin>>
       ELSE IF s < PAD THEN
              IF dpad > 0 THEN derr' = TRUE /\ UNCHANGED <<dq, dout, dpad, fin>>
              ELSE IF Len(dq) = 3
                   THEN dout' = dout \o Bytes3(Append(dq, s)) /\ dq' = <<>> /\ UNCHANGED <<derr, dpad, fin>>
                   ELSE dq' = Append(dq, s) /\ UNCHANGED <<dout, derr, dpad, fin>>
       ELSE \* the pad
              IF Len(dq) < 2 THEN derr' = TRUE /\ UNCHANGED <<dq, dout, dpad, fin>>
              ELSE IF Len(dq) = 3 THEN dout' = dout \o Bytes2(dq) /\ dq' = <<>> /\ fin' = TRUE /\ UNCHANGED <<derr, dpad>>
              ELSE IF dpad = 0 THEN dpad' = 1 /\ UNCHANGED <<dq, dout, derr, fin>>
              ELSE dout' = dout \o Bytes1(dq) /\ dq' = <<>> /\ dpad' = 0 /\ fin' = TRUE /\ UNCHANGED <<derr>>
  /\ UNCHANGED <<full, enc, i, phase, pres, k, text>>

DecodeDone ==
  /\ phase = "dec" /\ j = Len(text)
  /\ phase' = "done"
  /\ derr' = (derr \/ dq # <<>>)          \* a group left open: the padding is missing
  /\ UNCHANGED <<full, enc, i, pres, k, text, j, dq, dout, dpad, fin>>

Next == Encode \/ EncodeDone \/ Present \/ Decode \/ DecodeDone
Spec == Init /\ [][Next]_vars

Ok == ~derr

(* ----- what must hold ----- *)
TypeOK ==
  /\ phase \in {"enc", "present", "dec", "done"}
  /\ \A p \in 1..Len(enc) : enc[p] \in 0..64
  /\ \A p \in 1..Len(dout) : dout[p] \in 0..255
  /\ Len(dq) <= 3 /\ dpad \in 0..1 /\ i <= Len(full) /\ j <= Len(text)

Written == phase # "enc"
LengthLaw == Written => Len(enc) = 4 * ((Len(full) + 2) \div 3)
PadLaw == Written => /\ Pads(enc) = (3 - (Len(full) % 3)) % 3
                     /\ \A p \in 1..Len(enc) : enc[p] = PAD => p + Pads(enc) > Len(enc)
Done == phase = "done"
RoundTrip == (Done /\ pres = "canon") => (Ok /\ dout = full)
NewlinesInvisible == (Done /\ pres \in {"lf", "cr", "crlf"}) => (Ok /\ dout = full)
TrailingBitsNotLookedAt == (Done /\ pres = "dirty") => (Ok /\ dout = full)
Rejected == (Done /\ pres \in {"space", "bad", "extrapad", "cut", "nopad", "tail", "pad1"}) => ~Ok
\* a pad put in the place of a sextet is an error, unless it takes the third or fourth place of the last group, where it shortens the data by one byte
PadInThePlaceOfASextet == (Done /\ pres = "padat") =>
      IF k = Len(enc) - Pads(enc) /\ Pads(enc) <= 1 THEN Ok /\ dout = SubSeq(full, 1, Len(full) - 1) ELSE ~Ok
\* the room encoding/json and the library reserve before decoding: three bytes for every four symbols
FitsReservedRoom == Len(dout) <= (Len(text) \div 4) * 3
\* nothing is written after an error and what was written stays
OutGrows == [][/\ Len(dout') >= Len(dout)
               /\ SubSeq(dout', 1, Len(dout)) = dout
               /\ (derr => dout' = dout)]_vars

EmitVector == (Emit /\ Done) =>
  PrintT(ToJson([b64 |-> pres, k |-> k, data |-> full, text |-> text, ok |-> Ok, out |-> IF Ok THEN dout ELSE <<>>]))
=============================================================================
