----------------------------- MODULE ProtoCodec -----------------------------
(***************************************************************************)
(* The proto package's Go-type -> protobuf-message mapping.                *)
(*                                                                         *)
(* A "program" is a struct SHAPE: a sequence of fields                     *)
(*     [k : kind, c : cardinality, n : field number (0 = declaration       *)
(*      order), mk : map key kind]                                         *)
(* and an input is a VALUE of that shape.  Scalar values are abstract ids  *)
(* 0..MaxId (0 = the zero value; the harness maps (kind, id) to concrete   *)
(* boundary values of the kind: -1, MaxInt32, 2^63, NaN, "", ...).         *)
(*                                                                         *)
(* The module defines                                                      *)
(*   Wire(shape, value)     the STANDARD encoding with explicit presence   *)
(*                          for pointers (a sequence of wire records)      *)
(*   ImplWire(shape, value) the encoding POLICY of the package: zero       *)
(*                          elision, the `wantzero` flag that travels into *)
(*                          the first field emitted under a pointer /      *)
(*                          element / map value, unique fields before      *)
(*                          repeated ones, the empty-map marker            *)
(*   Decode(shape, wire)    standard protobuf decoding as a state machine  *)
(*                          over wire records: last scalar wins, repeated  *)
(*                          appends, embedded messages merge, map entries  *)
(*                          assign, unknown numbers are skipped            *)
(* and the generator actions that build (shape, value) pairs field by      *)
(* field, plus the legal re-encodings of C12 and the unknown-field         *)
(* insertions of C07 as further actions on the wire sequence.              *)
(*                                                                         *)
(* Design theorems checked by TLC (MC_ProtoCodec.cfg):                     *)
(*   RoundTrip       Decode(Wire(v)) ~ v            (nil ~ empty)          *)
(*   ImplRoundTrip   Decode(ImplWire(v)) ~ v  - with FixPresence = FALSE   *)
(*                   TLC finds the values the package cannot represent     *)
(*   ReencodeStable  every legal re-encoding decodes to the same value     *)
(*   UnknownIgnored  inserting unknown fields does not change the result   *)
(***************************************************************************)
EXTENDS Naturals, Sequences, FiniteSets, TLC, Json

CONSTANTS MaxFields,     \* fields per generated top-level shape
          TagNumbers,    \* explicit field numbers tried (0 = declaration order)
          GenKinds,      \* kinds the generator draws fields from (a seeded subset for multi-field shapes)
          MaxId,         \* scalar value ids 0..MaxId
          FixPresence,   \* TRUE: a non-nil pointer to a message is always written (as the property demands)
          FixEmptyMap,   \* TRUE: an empty map writes nothing (standard); FALSE: a zero-length entry marks it
          RepTagged,     \* TRUE: repeated fields of the zig-zag / fixed kinds are generated (a struct tag asks for them)
          FixRepTagged,  \* TRUE: their elements are written zig-zag / fixed-width as TypeOf documents (standard);
                         \* FALSE (as the code is): as plain varints of the Go type
          Emit

ScalarKinds == {"bool","int","i32","i64","s32","s64","uint","u32","u64","x32","x64","flt","dbl","str","byt","arr","arr7","arr15","arr16",
                "rawm","pmsg","cmsg"}
\* types with user-supplied marshalling methods: proto.RawMessage ("rawm"), a struct implementing proto.Message ("pmsg"),
\* a struct implementing the gogo-style custom interface ("cmsg").  On the wire they are length-delimited blobs; the
\* struct-typed ones have no empty value and are always written.
BlobKinds   == {"rawm","pmsg","cmsg"}
AlwaysKinds == {"pmsg","cmsg"}
ArrKinds    == {"arr","arr7","arr15","arr16"}     \* byte arrays of 4, 7, 15 and 16 bytes (zero test runs word-wise)
MsgKinds    == {"m1","m2","m3","m4"}
Kinds       == ScalarKinds \cup MsgKinds
MapKeyKinds == {"i32","str","u64"}
Cards       == {"one","ptr","rep","map"}

\* wire type of a kind: 0 varint, 1 fixed64, 2 length-delimited, 5 fixed32
WT(k) == CASE k \in {"x64","dbl"} -> 1
           [] k \in {"x32","flt"} -> 5
           [] k \in {"str","byt"} \cup ArrKinds \cup MsgKinds \cup BlobKinds -> 2
           [] OTHER -> 0

F(k, c, n, mk) == [k |-> k, c |-> c, n |-> n, mk |-> mk]

\* fixed library of nested message shapes (nesting depth 2)
SubShape(k) ==
  CASE k = "m1" -> <<F("i64","one",0,"")>>
    [] k = "m2" -> <<F("str","one",0,""), F("i32","rep",0,"")>>
    [] k = "m3" -> <<F("m1","ptr",0,""), F("bool","one",0,""), F("m1","rep",0,"")>>
    [] k = "m4" -> <<F("m1","ptr",0,""), F("i32","rep",0,"")>>       \* no field can carry the wantzero marker

\* values are uniform records [t, v, xs]:
\*   scalar      [t |-> "s",   v |-> id, xs |-> <<>>]
\*   nil pointer [t |-> "nil", ...]      pointer [t |-> "p", xs |-> <<inner>>]
\*   repeated    [t |-> "r",   xs |-> <<inner, ...>>]
\*   map         [t |-> "m",   xs |-> <<[t |-> "e", v |-> key id, xs |-> <<inner>>], ...>>]
\*   message     [t |-> "g",   xs |-> <<field value, ...>>]
V(t, v, xs) == [t |-> t, v |-> v, xs |-> xs]
Nil == V("nil", 0, <<>>)
S(id) == V("s", id, <<>>)

Ids == 0..MaxId

\* a small set of values for each nested message shape
SubValues(k) ==
  CASE k = "m1" -> {V("g",0,<<S(0)>>), V("g",0,<<S(1)>>)}
    [] k = "m2" -> {V("g",0,<<S(0), V("r",0,<<>>)>>), V("g",0,<<S(1), V("r",0,<<S(0),S(1)>>)>>)}
    [] k = "m3" -> {V("g",0,<<Nil, S(0), V("r",0,<<>>)>>),
                    V("g",0,<<V("p",0,<<V("g",0,<<S(0)>>)>>), S(0), V("r",0,<<>>)>>),
                    V("g",0,<<V("p",0,<<V("g",0,<<S(1)>>)>>), S(1), V("r",0,<<V("g",0,<<S(0)>>)>>)>>)}
    [] k = "m4" -> {V("g",0,<<Nil, V("r",0,<<>>)>>), V("g",0,<<V("p",0,<<V("g",0,<<S(0)>>)>>), V("r",0,<<S(1)>>)>>)}

ElemValues(k) == IF k \in MsgKinds THEN SubValues(k) ELSE {S(i) : i \in Ids}

FieldValues(f) ==
  LET E == ElemValues(f.k) IN
  CASE f.c = "one" -> E
    [] f.c = "ptr" -> {Nil} \cup {V("p",0,<<e>>) : e \in E}
    [] f.c = "rep" -> {V("r",0,<<>>)} \cup {V("r",0,<<e>>) : e \in E}
                      \cup {V("r",0,<<e1,e2>>) : e1 \in E, e2 \in E}
    [] f.c = "map" -> {V("m",0,<<>>)} \cup {V("m",0,<<V("e",kk,<<e>>)>>) : kk \in 0..1, e \in E}
                      \cup {V("m",0,<<V("e",0,<<e1>>), V("e",1,<<e2>>)>>) : e1 \in E, e2 \in E}

\* field number: explicit tag, else position in the declaration
Num(shape, i) == IF shape[i].n # 0 THEN shape[i].n ELSE i

-----------------------------------------------------------------------------
(* Wire records: [n, w, k, v, sub]; sub = nested records for embedded messages and map entries *)
R(n, w, k, v, sub) == [n |-> n, w |-> w, k |-> k, v |-> v, sub |-> sub]

RECURSIVE WireMsg(_, _), WireField(_, _, _), WireElem(_, _, _)

\* one element (scalar or message) as a record with number n; presence decided by the caller
WireElem(k, n, val) ==
  IF k \in MsgKinds THEN R(n, 2, k, 0, WireMsg(SubShape(k), val))
  ELSE R(n, WT(k), k, val.v, <<>>)

\* STANDARD encoding of one field: default scalars and empty plain messages are
\* omitted, non-nil pointers always written, every element of repeated fields and every map entry
\* (key = field 1, value = field 2) written.
WireField(f, n, val) ==
  CASE f.c = "one" ->
         IF f.k \in MsgKinds
         THEN LET sub == WireMsg(SubShape(f.k), val) IN IF sub = <<>> THEN <<>> ELSE <<R(n, 2, f.k, 0, sub)>>
         ELSE IF val.v = 0 /\ f.k \notin AlwaysKinds THEN <<>> ELSE <<R(n, WT(f.k), f.k, val.v, <<>>)>>
    [] f.c = "ptr" ->
         IF val.t = "nil" THEN <<>> ELSE <<WireElem(f.k, n, val.xs[1])>>
    [] f.c = "rep" ->
         [i \in 1..Len(val.xs) |-> WireElem(f.k, n, val.xs[i])]
    [] f.c = "map" ->
         [i \in 1..Len(val.xs) |->
            R(n, 2, "entry", 0, <<R(1, WT(f.mk), f.mk, val.xs[i].v, <<>>), WireElem(f.k, 2, val.xs[i].xs[1])>>)]

RECURSIVE Concat(_)
Concat(ss) == IF ss = <<>> THEN <<>> ELSE Head(ss) \o Concat(Tail(ss))

WireMsg(shape, val) == Concat([i \in 1..Len(shape) |-> WireField(shape[i], Num(shape, i), val.xs[i])])

Wire(shape, val) == WireMsg(shape, val)

-----------------------------------------------------------------------------
(* The package's encoding policy (proto/struct.go, pointer.go, slice.go, map.go).                   *)
(* wz = the wantzero flag: set under a pointer, for slice elements and map keys/values; it makes    *)
(* the first field that can carry it appear even if zero, and is cleared by the first field written *)
RECURSIVE ImplMsg(_, _, _), ImplField(_, _, _, _), ImplElem(_, _, _, _)
PlainOf(k) == CASE k = "s32" -> "i32" [] k = "s64" -> "i64" [] k = "x32" -> "u32" [] k = "x64" -> "u64" [] OTHER -> k

ImplElem(k, n, val, always) ==      \* element under wantzero
  IF k \in MsgKinds
  THEN LET sub == ImplMsg(SubShape(k), val, TRUE) IN
       IF sub = <<>> /\ ~always THEN <<>> ELSE <<R(n, 2, k, 0, sub)>>
  ELSE <<R(n, WT(k), k, val.v, <<>>)>>

ImplField(f, n, val, wz) ==
  CASE f.c = "one" ->
         IF f.k \in MsgKinds
         THEN LET sub == ImplMsg(SubShape(f.k), val, wz) IN IF sub = <<>> THEN <<>> ELSE <<R(n, 2, f.k, 0, sub)>>
         ELSE IF val.v = 0 /\ ~wz /\ f.k \notin AlwaysKinds THEN <<>> ELSE <<R(n, WT(f.k), f.k, val.v, <<>>)>>
    [] f.c = "ptr" ->
         IF val.t = "nil" THEN <<>> ELSE ImplElem(f.k, n, val.xs[1], FixPresence)
    [] f.c = "rep" ->
         \* slice elements: tag and length always; the slice codec drops the zig-zag flag and never picks the fixed codecs
         Concat([i \in 1..Len(val.xs) |-> ImplElem(IF FixRepTagged THEN f.k ELSE PlainOf(f.k), n, val.xs[i], TRUE)])
    [] f.c = "map" ->
         IF val.xs = <<>> THEN (IF FixEmptyMap THEN <<>> ELSE <<R(n, 2, "entry", 0, <<>>)>>)
         ELSE [i \in 1..Len(val.xs) |->
                 R(n, 2, "entry", 0, <<R(1, WT(f.mk), f.mk, val.xs[i].v, <<>>)>> \o ImplElem(f.k, 2, val.xs[i].xs[1], FALSE))]

\* unique fields first (wantzero consumed by the first one written), then repeated and map fields
RECURSIVE ImplUnique(_, _, _, _)
ImplUnique(shape, val, i, wz) ==
  IF i > Len(shape) THEN <<>>
  ELSE IF shape[i].c \in {"rep","map"} THEN ImplUnique(shape, val, i + 1, wz)
  ELSE LET w == ImplField(shape[i], Num(shape, i), val.xs[i], wz) IN
       w \o ImplUnique(shape, val, i + 1, wz /\ w = <<>>)
ImplMsg(shape, val, wz) ==
  ImplUnique(shape, val, 1, wz) \o
  Concat([i \in 1..Len(shape) |-> IF shape[i].c \in {"rep","map"}
                                  THEN ImplField(shape[i], Num(shape, i), val.xs[i], FALSE) ELSE <<>>])

ImplWire(shape, val) == ImplMsg(shape, val, FALSE)

-----------------------------------------------------------------------------
(* Standard decoding as a fold over wire records *)
RECURSIVE ZeroMsg(_), DecodeInto(_, _, _), DecodeElem(_, _, _)

ZeroField(f) == CASE f.c = "one" -> (IF f.k \in MsgKinds THEN ZeroMsg(SubShape(f.k)) ELSE S(0))
                  [] f.c = "ptr" -> Nil
                  [] f.c = "rep" -> V("r", 0, <<>>)
                  [] f.c = "map" -> V("m", 0, <<>>)
ZeroMsg(shape) == V("g", 0, [i \in 1..Len(shape) |-> ZeroField(shape[i])])

FieldIndex(shape, n) == IF \E i \in 1..Len(shape) : Num(shape, i) = n
                        THEN CHOOSE i \in 1..Len(shape) : Num(shape, i) = n ELSE 0

\* decode one element from a record, merging into prev when it is a message
DecodeElem(k, rec, prev) ==
  IF k \in MsgKinds THEN DecodeInto(SubShape(k), prev, rec.sub) ELSE S(rec.v)

\* put (key -> x) into a map value: replace an existing entry with the same key, else append
MapPut(mv, key, x) ==
  IF \E i \in 1..Len(mv.xs) : mv.xs[i].v = key
  THEN V("m", 0, [i \in 1..Len(mv.xs) |-> IF mv.xs[i].v = key THEN V("e", key, <<x>>) ELSE mv.xs[i]])
  ELSE V("m", 0, Append(mv.xs, V("e", key, <<x>>)))

EntryKey(sub) == LET ks == SelectSeq(sub, LAMBDA r : r.n = 1) IN IF ks = <<>> THEN 0 ELSE ks[Len(ks)].v
ZeroElem(k)   == IF k \in MsgKinds THEN ZeroMsg(SubShape(k)) ELSE S(0)
RECURSIVE EntryVal(_, _, _)
EntryVal(k, sub, acc) ==
  IF sub = <<>> THEN acc
  ELSE IF Head(sub).n = 2 THEN EntryVal(k, Tail(sub), DecodeElem(k, Head(sub), acc)) ELSE EntryVal(k, Tail(sub), acc)

DecodeField(f, cur, rec) ==
  CASE f.c = "one" -> DecodeElem(f.k, rec, cur)
    [] f.c = "ptr" -> V("p", 0, <<DecodeElem(f.k, rec, IF cur.t = "nil" THEN ZeroElem(f.k) ELSE cur.xs[1])>>)
    [] f.c = "rep" -> V("r", 0, Append(cur.xs, DecodeElem(f.k, rec, ZeroElem(f.k))))
    [] f.c = "map" -> MapPut(cur, EntryKey(rec.sub), EntryVal(f.k, rec.sub, ZeroElem(f.k)))

DecodeInto(shape, val, wire) ==
  IF wire = <<>> THEN val
  ELSE LET rec == Head(wire)
           i   == FieldIndex(shape, rec.n) IN
       IF i = 0 THEN DecodeInto(shape, val, Tail(wire))                 \* unknown field: skipped
       ELSE DecodeInto(shape, [val EXCEPT !.xs[i] = DecodeField(shape[i], val.xs[i], rec)], Tail(wire))

Decode(shape, wire) == DecodeInto(shape, ZeroMsg(shape), wire)

\* value equivalence up to nil-versus-empty of slices and maps (they are both "r"/"m" with no elements here)
\* and up to the order of map entries
RECURSIVE Equiv(_, _)
Equiv(a, b) ==
  IF a.t # b.t \/ Len(a.xs) # Len(b.xs) THEN FALSE
  ELSE IF a.t = "m"
       THEN \A i \in 1..Len(a.xs) : \E j \in 1..Len(b.xs) : a.xs[i].v = b.xs[j].v /\ Equiv(a.xs[i].xs[1], b.xs[j].xs[1])
       ELSE a.v = b.v /\ \A i \in 1..Len(a.xs) : Equiv(a.xs[i], b.xs[i])

-----------------------------------------------------------------------------
(* Generator: build a shape and a value field by field; then optionally re-encode *)
VARIABLES shape, val, wire, step   \* step: "build" | "reenc"

vars == <<shape, val, wire, step>>

FieldChoices ==
  {F(k, c, n, "") : k \in GenKinds, c \in {"one","ptr","rep"}, n \in TagNumbers}
  \cup {F(k, "map", n, mk) : k \in GenKinds, n \in TagNumbers \cap {0, 16}, mk \in MapKeyKinds}

\* shapes the package cannot express are left out: byte arrays and []byte behind a pointer,
\* zigzag / fixed kinds only where a struct tag can request them
TaggedKinds == {"s32","s64","x32","x64"}
Supported(f) ==
  /\ (f.c = "ptr" => f.k \notin {"byt","rawm"} \cup ArrKinds)
  /\ (f.k \in TaggedKinds => f.n # 0 /\ f.c \in {"one","ptr","rep"})
  /\ (f.c = "rep" /\ f.k \in TaggedKinds => RepTagged)

NumbersDistinct(sh) == \A i, j \in 1..Len(sh) : i # j => Num(sh, i) # Num(sh, j)

Init == shape = <<>> /\ val = V("g", 0, <<>>) /\ wire = <<>> /\ step = "build"

AddField ==
  /\ step = "build" /\ Len(shape) < MaxFields
  /\ \E f \in FieldChoices :
       /\ Supported(f)
       /\ NumbersDistinct(Append(shape, f))
       /\ \E x \in FieldValues(f) :
            /\ shape' = Append(shape, f)
            /\ val' = V("g", 0, Append(val.xs, x))
            /\ wire' = Wire(shape', val')
  /\ UNCHANGED step

Next == AddField
Spec == Init /\ [][Next]_vars

-----------------------------------------------------------------------------
(* Design theorems *)
RoundTrip      == shape # <<>> => Equiv(Decode(shape, Wire(shape, val)), val)
ImplRoundTrip  == shape # <<>> => Equiv(Decode(shape, ImplWire(shape, val)), val)
\* unknown fields (numbers the shape does not declare) inserted anywhere are ignored
Unknown == R(4000, 0, "u64", 1, <<>>)
UnknownIgnored ==
  shape # <<>> => \A i \in 0..Len(wire) :
      Equiv(Decode(shape, SubSeq(wire, 1, i) \o <<Unknown>> \o SubSeq(wire, i + 1, Len(wire))), val)
\* moving the last record to the front keeps the value when it belongs to a different field than all others it passes
LastFirstStable ==
  (Len(wire) >= 2 /\ \A i \in 1..(Len(wire) - 1) : wire[i].n # wire[Len(wire)].n)
     => Equiv(Decode(shape, <<wire[Len(wire)]>> \o SubSeq(wire, 1, Len(wire) - 1)), val)
\* a scalar written twice: the later occurrence wins
LaterWins ==
  \A i \in 1..Len(shape) :
     (shape[i].c = "one" /\ shape[i].k \in ScalarKinds)
        => Equiv(Decode(shape, <<R(Num(shape, i), WT(shape[i].k), shape[i].k, 1, <<>>)>> \o wire \o
                                (IF val.xs[i].v = 0 THEN <<R(Num(shape, i), WT(shape[i].k), shape[i].k, 0, <<>>)>> ELSE <<>>)), val)

-----------------------------------------------------------------------------
(* Legal re-encodings of the same message (C12): operators on wire sequences.  Each must decode to  *)
(* the same value (theorem ReencodeStable); the harness sends each through the real Unmarshal.      *)

Nums(w) == {w[i].n : i \in 1..Len(w)}
RECURSIVE ByNumDesc(_, _)
ByNumDesc(w, ns) == IF ns = {} THEN <<>>
                    ELSE LET m == CHOOSE x \in ns : \A y \in ns : y <= x IN
                         SelectSeq(w, LAMBDA r : r.n = m) \o ByNumDesc(w, ns \ {m})
\* stable sort by descending field number: fields in another order, per-field order kept
Reordered(w) == ByNumDesc(w, Nums(w))

\* every plain scalar field written an extra time, first, with another value: the later occurrence wins
OtherId(v) == IF v = 0 THEN 1 ELSE 0
RECURSIVE Bogus(_, _, _)
Bogus(sh, vl, i) ==
  IF i > Len(sh) THEN <<>>
  ELSE (IF sh[i].c = "one" /\ sh[i].k \in ScalarKinds
        THEN <<R(Num(sh, i), WT(sh[i].k), sh[i].k, OtherId(vl.xs[i].v), <<>>)>> ELSE <<>>) \o Bogus(sh, vl, i + 1)
RECURSIVE ExplicitZeros(_, _, _)
ExplicitZeros(sh, vl, i) ==
  IF i > Len(sh) THEN <<>>
  ELSE (IF sh[i].c = "one" /\ sh[i].k \in ScalarKinds /\ vl.xs[i].v = 0
        THEN <<R(Num(sh, i), WT(sh[i].k), sh[i].k, 0, <<>>)>> ELSE <<>>) \o ExplicitZeros(sh, vl, i + 1)
Overridden(sh, vl, w) == Bogus(sh, vl, 1) \o w \o ExplicitZeros(sh, vl, 1)

\* every embedded message of a plain or pointer field split into two occurrences that must be merged
IsSingleMsg(sh, n) == \E i \in 1..Len(sh) : Num(sh, i) = n /\ sh[i].c \in {"one","ptr"} /\ sh[i].k \in MsgKinds
RECURSIVE SplitMsgs(_, _)
SplitMsgs(sh, w) ==
  IF w = <<>> THEN <<>>
  ELSE LET r == Head(w) IN
       (IF IsSingleMsg(sh, r.n)
        THEN LET h == Len(r.sub) \div 2 IN
             <<[r EXCEPT !.sub = SubSeq(r.sub, 1, h)], [r EXCEPT !.sub = SubSeq(r.sub, h + 1, Len(r.sub))]>>
        ELSE <<r>>) \o SplitMsgs(sh, Tail(w))

\* unknown fields of every wire type at every boundary (C07)
UnknownRecs == <<R(4000, 0, "u64", 1, <<>>), R(4001, 1, "x64", 1, <<>>), R(4002, 5, "x32", 1, <<>>),
                 R(4003, 2, "str", 1, <<>>), R(4004, 2, "m1", 0, <<R(1, 0, "i64", 1, <<>>)>>)>>
RECURSIVE Sprinkle(_, _)
Sprinkle(w, j) == IF w = <<>> THEN <<UnknownRecs[(j % 5) + 1]>>
                  ELSE <<UnknownRecs[(j % 5) + 1], Head(w)>> \o Sprinkle(Tail(w), j + 1)

\* ... and at every boundary of every nested message and map entry as well ("anywhere in a message"): an empty nested
\* message then holds nothing but an unknown field
RECURSIVE SprinkleDeep(_, _)
Inside(r, j) == IF r.k \in MsgKinds \cup {"entry"} THEN [r EXCEPT !.sub = SprinkleDeep(r.sub, j)] ELSE r
SprinkleDeep(w, j) == IF w = <<>> THEN <<UnknownRecs[(j % 5) + 1]>>
                      ELSE <<UnknownRecs[(j % 5) + 1], Inside(Head(w), j + 1)>> \o SprinkleDeep(Tail(w), j + 1)

\* unknown fields whose numbers share their low 16 bits with a declared field (a field table indexed by a
\* truncated number would take them for that field): after the message, with the same and another wire type
Aliased(sh, w) == w \o Concat([i \in 1..Len(sh) |-> <<R(Num(sh, i) + 65536, 0, "u64", 1, <<>>),
                                                       R(Num(sh, i) + 65536, 2, "str", 1, <<>>),
                                                       R(Num(sh, i) + 131072, 5, "x32", 1, <<>>)>>])

Reencodings == [reordered |-> Reordered(wire), overridden |-> Overridden(shape, val, wire),
                split |-> SplitMsgs(shape, wire), unknown |-> Sprinkle(wire, Len(shape)),
                aliased |-> Aliased(shape, wire), deep |-> SprinkleDeep(wire, Len(shape))]

ReencodeStable ==
  shape # <<>> => /\ Equiv(Decode(shape, Reencodings.reordered), val)
                  /\ Equiv(Decode(shape, Reencodings.overridden), val)
                  /\ Equiv(Decode(shape, Reencodings.split), val)
                  /\ Equiv(Decode(shape, Reencodings.unknown), val)
                  /\ Equiv(Decode(shape, Reencodings.aliased), val)
                  /\ Equiv(Decode(shape, Reencodings.deep), val)

-----------------------------------------------------------------------------
EmitVector == (Emit /\ shape # <<>>) =>
   PrintT(ToJson([shape |-> shape, val |-> val, wire |-> wire, impl |-> ImplWire(shape, val), re |-> Reencodings]))
EmitLibrary == (Emit /\ shape = <<>>) => PrintT(ToJson([lib |-> [k \in MsgKinds |-> SubShape(k)]]))
=============================================================================
