SPECIFICATION Spec
CONSTANTS
  N = 3
  MaxEdges = 4
  CycleAfter = 2
  TrackOnly = {"ptr", "slice", "map", "iface"}
  Emit = TRUE
CONSTRAINT EmitGraph
CHECK_DEADLOCK FALSE
