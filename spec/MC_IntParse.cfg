SPECIFICATION Spec
CONSTANTS
  Emit = FALSE
  Kinds = {"int8", "int16", "int32", "int64", "uint8", "uint16", "uint32", "uint64"}
  NoLastDigitGuard = FALSE
INVARIANTS TypeOK Refines NoWrap AccIsPrefix
CHECK_DEADLOCK FALSE
