--------------------------- MODULE JsonTokenizer ---------------------------
(***************************************************************************)
(* Generator / design check for json.Tokenizer: runs the definition and    *)
(* the implementation machine of JsonTokenizerOps side by side over every  *)
(* viable prefix of a valid token-level document.  See JsonTokenizerOps.   *)
(***************************************************************************)
EXTENDS JsonTokenizerOps, Json

CONSTANTS MaxTok,        \* longest token history generated
          Emit

VARIABLES toks,            \* history of tokens
          gm, gstk,        \* definition: grammar mode and stack of [typ, cnt]
          tstk, isKey, err,\* implementation: stack of [typ, len], latch, sticky error
          want,            \* per token: what the definition says  [depth, index, iskey]  (or "na")
          got              \* per token: what the implementation machine reports

vars == <<toks, gm, gstk, tstk, isKey, err, want, got>>

-----
Init == /\ toks = <<>> /\ gm = "V" /\ gstk = <<>>
        /\ tstk = <<>> /\ isKey = FALSE /\ err = FALSE
        /\ want = <<>> /\ got = <<>>

\* Read one more token of a document that is still a viable prefix of valid JSON
Read(t) ==
  /\ Len(toks) < MaxTok
  /\ ~err
  /\ LET g == GStep(gm, gstk, t)
         r == TNext(tstk, isKey, t) IN
       /\ g.m # "DEAD"
       /\ toks' = Append(toks, t)
       /\ want' = Append(want, Specified(gm, gstk, t))
       /\ got'  = Append(got, [depth |-> r.depth, index |-> r.index, iskey |-> r.iskey, ret |-> r.ret])
       /\ gm' = g.m /\ gstk' = g.s
       /\ tstk' = r.s /\ isKey' = r.k /\ err' = r.e

Next == \E t \in Tokens : Read(t)
Spec == Init /\ [][Next]_vars

-----------------------------------------------------------------------------
(* Design properties (MC_JsonTokenizer.cfg) *)

\* C17: on valid input the stack machine computes the definition
MachineMatchesDefinition ==
  \A i \in 1..Len(toks) :
     IsSpecified(toks[i]) =>
        /\ got[i].depth = want[i].depth
        /\ got[i].index = want[i].index
        /\ got[i].iskey = want[i].iskey
\* valid input never sets the error and every call returns true
NoErrorOnValid == ~err /\ \A i \in 1..Len(got) : got[i].ret
\* the two stacks have the same shape; implementation len = definition cnt + 1
StacksAgree == /\ Len(tstk) = Len(gstk)
               /\ \A i \in 1..Len(tstk) : tstk[i].typ = gstk[i].typ /\ tstk[i].len = gstk[i].cnt + 1
\* the latch is exactly "a member name is expected next" whenever a scalar could come next
LatchMeaning == (gm \in {"O0","K"} => isKey) /\ (gm \in {"V","A0"} => ~isKey)

-----------------------------------------------------------------------------
(* Vector emission (Gen_JsonTokenizer.cfg): complete documents with the definition's facts *)
EmitVector == (Emit /\ Complete(gm, gstk)) => PrintT(ToJson([t |-> toks, w |-> want]))
=============================================================================
