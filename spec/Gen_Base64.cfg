SPECIFICATION Spec
CONSTANTS
  MaxLen = 3
  ByteSet = {0, 65, 251, 255}
  Reps = {0, 11}
  StrictNewlines = FALSE
  DropTail = FALSE
  Emit = TRUE
CONSTRAINT EmitVector
CHECK_DEADLOCK FALSE
