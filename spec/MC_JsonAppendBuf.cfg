SPECIFICATION Spec
CONSTANTS
  Prefixes = {0, 1, 3}
  MaxOps = 6
  MaxWrite = 2
  Emit = FALSE
INVARIANTS NeverBelowPrefix LengthKeepsPrefix StartsAbovePrefix ResultStartsWithPrefix
CHECK_DEADLOCK FALSE
