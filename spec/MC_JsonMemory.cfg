SPECIFICATION Spec
CONSTANTS
  MaxSteps = 5
  Inputs = {1, 2}
  ZeroCopyAtEnd = FALSE
  Emit = FALSE
INVARIANTS NeverPoolOrDecBuf AliasOnlyOptIn StableWithoutOverwrite MayChangeMonotone
CHECK_DEADLOCK FALSE
