SPECIFICATION Spec
CONSTANTS
  MaxOps = 4
  Variant = "stickyvalue"
  Emit = FALSE
INVARIANTS OutputIsSuccesses ValueErrorsPass FailureIsReported StickyAfterFailure NoTraceOfFailures
CHECK_DEADLOCK FALSE
