SPECIFICATION Spec
CONSTANTS
  Procs = {"g1", "g2", "g3"}
  Types = {"A", "B"}
  MaxCalls = 2
  EarlyUnlock = FALSE
  Registry = FALSE
  Locked = FALSE
INVARIANTS PublishedComplete OneEntryPerType UsesOwnCompleteCodec MutexHeldByBuilder NoLossWhenLocked IdentityStableWhenLocked
PROPERTIES MapsImmutable
CHECK_DEADLOCK FALSE
