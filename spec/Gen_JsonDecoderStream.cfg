SPECIFICATION Spec
CONSTANTS
  MaxRead = 1
  MaxLen = 6
  MaxCalls = 0
  FixSkip = TRUE
  FixDigit = TRUE
  Emit = TRUE
CONSTRAINT EmitVector
CHECK_DEADLOCK FALSE
