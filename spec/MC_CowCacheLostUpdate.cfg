SPECIFICATION Spec
CONSTANTS
  Procs = {"g1", "g2", "g3"}
  Types = {"A", "B"}
  MaxCalls = 2
  EarlyUnlock = FALSE
  Registry = FALSE
  Locked = FALSE
INVARIANTS NoLostUpdate
CHECK_DEADLOCK FALSE
