----------------------------- MODULE JsonString -----------------------------
(***************************************************************************)
(* JSON string literals, both ways (properties C01, C02; also C14, C17).   *)
(*                                                                         *)
(* A Go string is a sequence of UNITS - a byte or a group of bytes that    *)
(* the encoder treats as one thing.  The module states                     *)
(*   EscDef      what the literal for a string is (encoding/json's rules), *)
(*   the escape ALGORITHM of json/encode.go encodeString: a word-at-a-time *)
(*               scan for the first byte that needs a look (escapeIndex:   *)
(*               whole words of W bytes, then the tail byte by byte), a    *)
(*               verbatim copy when there is none, otherwise a loop that   *)
(*               copies spans [i, j) and writes escapes,                   *)
(*   DecDef      what a literal means (escapes, surrogate pairs, lone      *)
(*               surrogates and invalid UTF-8 become U+FFFD),              *)
(*   the unescape ALGORITHM of json/parse.go parseStringUnquote: copy up   *)
(*               to the next backslash, dispatch on the escape letter, a   *)
(*               one-escape lookahead after a surrogate.                   *)
(* and TLC checks: the algorithms refine the definitions; the span copies  *)
(* of the escape loop never cut a rune (UnitAligned); the literal written  *)
(* contains nothing a JSON string may not contain (Grammatical); decoding  *)
(* the literal of s gives s with each invalid byte replaced by U+FFFD      *)
(* (RoundTrip); strings that need no escape are copied in one piece.       *)
(*                                                                         *)
(* The generator emits every unit sequence up to MaxUnits with the literal *)
(* (escape direction) and every literal-unit sequence with its meaning or  *)
(* its rejection (unescape direction).  The harness renders units to bytes *)
(* (several concrete bytes per unit), LIFTS each vector by plain padding   *)
(* so that every unit visits every offset of the 8-byte words of the real  *)
(* scanner and the 8 / 16 byte thresholds, and compares the real package   *)
(* with the predicted bytes on every entry point that writes or reads a    *)
(* string literal.                                                         *)
(***************************************************************************)
EXTENDS Naturals, Sequences, FiniteSets, TLC, Json

CONSTANTS W,          \* bytes per word of the scanner (8 in the code; any W >= 2 exercises the same phases)
          MaxUnits,   \* longest unit sequence explored
          Dirs,       \* subset of {"esc", "unesc"}
          EscUnits,   \* string units explored ({} = all)
          UnescUnits, \* literal units explored ({} = all)
          Variant,    \* "code" = the algorithm as the code has it; "tail1" = a deliberately wrong one (vacuity witness)
          Emit

(*************************** units of a Go string ***************************)
Plain == {"a", "sl", "del"}          \* printable ASCII, '/', 0x7f: never escaped
Short == {"q", "bs", "sc"}           \* '"', '\', and \b \f \n \r \t: two-byte escapes
Ctl   == {"c"}                       \* the other bytes below 0x20: \u00XX
Html  == {"h"}                       \* < > & : \u00XX exactly when EscapeHTML is set
Runes == {"r2", "r3", "r4", "rep"}   \* valid multi-byte runes (rep = U+FFFD itself): verbatim
Seps  == {"ls", "ps"}                \* U+2028, U+2029: always escaped
Bad   == {"x", "tr", "sur"}          \* invalid UTF-8 of 1, 2, 3 bytes, each byte invalid on its own
InUnits == Plain \cup Short \cup Ctl \cup Html \cup Runes \cup Seps \cup Bad

Width(u) == CASE u \in {"r2", "tr"} -> 2
              [] u \in {"r3", "rep", "ls", "ps", "sur"} -> 3
              [] u = "r4" -> 4
              [] OTHER -> 1

(************************* units of a string literal ************************)
\* raw units carry the name of the string unit they are; the others are escapes
RawOK   == Plain \cup Html \cup Runes \cup Seps \cup Bad     \* may stand raw between the quotes
Simple  == {"e_q", "e_bs", "e_sl", "e_c"}                     \* \" \\ \/ and \b \f \n \r \t
UEsc    == {"u_asc", "u_sl", "u_del", "u_q", "u_bsl", "u_sc", "u_ctl", "u_nul", "u_html",
            "u_r2", "u_r3", "u_rep", "u_ls", "u_ps", "u_hi", "u_lo"}  \* \uXXXX by the class of XXXX
Broken  == {"ctlraw", "e_bad", "u_short", "u_nonhex"}         \* not a string literal at all
LitUnits == RawOK \cup Simple \cup UEsc \cup Broken

IsEscape(l) == l \in Simple \cup UEsc \cup {"e_bad", "u_short", "u_nonhex"}   \* begins with a backslash

\* what a \uXXXX escape denotes when it is not a surrogate
UMeaning(l) == CASE l = "u_asc" -> "a" [] l = "u_sl" -> "sl" [] l = "u_del" -> "del" [] l = "u_q" -> "q"
                 [] l = "u_bsl" -> "bs" [] l = "u_sc" -> "sc" [] l = "u_ctl" -> "c" [] l = "u_nul" -> "nul"
                 [] l = "u_html" -> "h" [] l = "u_r2" -> "r2" [] l = "u_r3" -> "r3" [] l = "u_rep" -> "rep"
                 [] l = "u_ls" -> "ls" [] l = "u_ps" -> "ps"
SimpleMeaning(l) == CASE l = "e_q" -> "q" [] l = "e_bs" -> "bs" [] l = "e_sl" -> "sl" [] l = "e_c" -> "sc"

\* raw bytes between the quotes: valid runes stand for themselves, every invalid byte becomes U+FFFD
Coerce(l, i) == CASE l = "x" -> << [r |-> "rep", src |-> i] >>
                  [] l = "tr" -> << [r |-> "rep", src |-> i], [r |-> "rep", src |-> i] >>
                  [] l = "sur" -> << [r |-> "rep", src |-> i], [r |-> "rep", src |-> i], [r |-> "rep", src |-> i] >>
                  [] OTHER -> << [r |-> l, src |-> i] >>

(**************************** escape: definition ****************************)
EscOf(u, i, html) ==
  CASE u \in Plain \cup Runes -> << [k |-> "raw", src |-> i] >>
    [] u = "q"  -> << [k |-> "e_q", src |-> i] >>
    [] u = "bs" -> << [k |-> "e_bs", src |-> i] >>
    [] u = "sc" -> << [k |-> "e_c", src |-> i] >>
    [] u = "c"  -> << [k |-> "u_ctl", src |-> i] >>
    [] u = "h"  -> IF html THEN << [k |-> "u_html", src |-> i] >> ELSE << [k |-> "raw", src |-> i] >>
    [] u = "ls" -> << [k |-> "u_ls", src |-> i] >>
    [] u = "ps" -> << [k |-> "u_ps", src |-> i] >>
    [] u = "x"  -> << [k |-> "u_rep", src |-> i] >>
    [] u = "tr" -> << [k |-> "u_rep", src |-> i], [k |-> "u_rep", src |-> i] >>
    [] u = "sur" -> << [k |-> "u_rep", src |-> i], [k |-> "u_rep", src |-> i], [k |-> "u_rep", src |-> i] >>

RECURSIVE EscFrom(_, _, _)
EscFrom(s, i, html) == IF i > Len(s) THEN <<>> ELSE EscOf(s[i], i, html) \o EscFrom(s, i + 1, html)
EscDef(s, html) == EscFrom(s, 1, html)

\* the literal units an escape output consists of
LitOf(s, out) == [n \in 1..Len(out) |-> IF out[n].k = "raw" THEN s[out[n].src] ELSE out[n].k]

(*************************** unescape: definition ***************************)
RECURSIVE DecFrom(_, _)
DecFrom(lit, p) ==
  IF p > Len(lit) THEN <<>>
  ELSE LET l == lit[p] IN
    CASE l \in RawOK  -> Coerce(l, p) \o DecFrom(lit, p + 1)
      [] l \in Simple -> << [r |-> SimpleMeaning(l), src |-> p] >> \o DecFrom(lit, p + 1)
      [] l = "u_hi" /\ p < Len(lit) /\ lit[p + 1] = "u_lo" -> << [r |-> "r4", src |-> p] >> \o DecFrom(lit, p + 2)
      [] l \in {"u_hi", "u_lo"} -> << [r |-> "rep", src |-> p] >> \o DecFrom(lit, p + 1)
      [] OTHER -> << [r |-> UMeaning(l), src |-> p] >> \o DecFrom(lit, p + 1)
WellFormed(lit) == \A p \in 1..Len(lit) : lit[p] \notin Broken
DecDef(lit) == DecFrom(lit, 1)

\* a string with every invalid byte replaced by U+FFFD, as runes
RECURSIVE SanFrom(_, _)
SanFrom(s, i) == IF i > Len(s) THEN <<>> ELSE Coerce(s[i], i) \o SanFrom(s, i + 1)
Runes_(rs) == [n \in 1..Len(rs) |-> rs[n].r]

(******************************** the state *********************************)
VARIABLES dir, s, html,        \* direction; the string (esc) or the literal (unesc); the EscapeHTML flag
          pc, k, i, j,         \* escape algorithm: phase, word index, span start, byte cursor
          out, copies,         \* escape algorithm: literal written, number of span copies
          p, res, err          \* unescape algorithm: cursor, runes decoded, rejected
vars == <<dir, s, html, pc, k, i, j, out, copies, p, res, err>>

\* byte view of the string: byte n (0-based) belongs to unit UnitAt(n) at offset OffAt(n)
RECURSIVE StartOf(_, _)
StartOf(str, idx) == IF idx = 1 THEN 0 ELSE StartOf(str, idx - 1) + Width(str[idx - 1])
NBytes(str) == StartOf(str, Len(str) + 1)
UnitAt(str, n) == CHOOSE idx \in 1..Len(str) : StartOf(str, idx) <= n /\ n < StartOf(str, idx) + Width(str[idx])
OffAt(str, n) == n - StartOf(str, UnitAt(str, n))
Starts(str) == {StartOf(str, idx) : idx \in 1..(Len(str) + 1)}

\* escapeIndex's per-byte test: outside [0x20, 0x7f], quote, backslash, and with EscapeHTML < > &
Flagged(str, n, h) == LET u == str[UnitAt(str, n)] IN ~(u \in Plain \/ (u = "h" /\ ~h))

\* the units lying in the byte span [a, b): whole units when a and b are unit starts; a span that cuts a
\* unit yields "cut" items (never happens: invariant UnitAligned)
Span(str, a, b) ==
  LET idxs == {idx \in 1..Len(str) : a <= StartOf(str, idx) /\ StartOf(str, idx) < b}
      Whole(idx) == StartOf(str, idx) + Width(str[idx]) <= b
      head == IF a < b /\ a \notin Starts(str) THEN << [k |-> "cut", src |-> UnitAt(str, a)] >> ELSE <<>>
      RECURSIVE Lst(_)
      Lst(idx) == IF idx > Len(str) THEN <<>>
                  ELSE (IF idx \in idxs THEN << [k |-> IF Whole(idx) THEN "raw" ELSE "cut", src |-> idx] >> ELSE <<>>) \o Lst(idx + 1)
  IN head \o Lst(1)

AllSeqs(S, n) == UNION {[1..m -> S] : m \in 0..n}

Init == /\ dir \in Dirs
        /\ s \in (IF dir = "esc" THEN AllSeqs(IF EscUnits = {} THEN InUnits ELSE EscUnits, MaxUnits)
                                   ELSE AllSeqs(IF UnescUnits = {} THEN LitUnits ELSE UnescUnits, MaxUnits))
        /\ html \in (IF dir = "esc" THEN BOOLEAN ELSE {FALSE})
        /\ pc = "start" /\ k = 0 /\ i = 0 /\ j = 0 /\ out = <<>> /\ copies = 0
        /\ p = 1 /\ res = <<>> /\ err = FALSE

(**************************** escape: algorithm *****************************)
N == NBytes(s)
EscVars == <<pc, k, i, j, out, copies>>

EStart == /\ dir = "esc" /\ pc = "start"
          /\ IF N = 0 THEN pc' = "done" /\ UNCHANGED <<k, i, j, out, copies>>          \* `""`
             ELSE IF N >= W THEN pc' = "words" /\ UNCHANGED <<k, i, j, out, copies>>
             ELSE pc' = "loop" /\ UNCHANGED <<k, i, j, out, copies>>

\* escapeIndex, whole words: the lowest flagged byte of word k, else the next word
EWord == /\ dir = "esc" /\ pc = "words"
         /\ IF k < N \div W
            THEN LET hit == {n \in (k * W)..(k * W + W - 1) : Flagged(s, n, html)} IN
                 IF hit # {} THEN /\ j' = CHOOSE n \in hit : \A m \in hit : n <= m
                                  /\ pc' = "loop" /\ UNCHANGED <<k, i, out, copies>>
                 ELSE k' = k + 1 /\ UNCHANGED <<pc, i, j, out, copies>>
            ELSE pc' = "tail" /\ j' = (IF Variant = "tail1" THEN k * W + 1 ELSE k * W) /\ UNCHANGED <<k, i, out, copies>>

\* escapeIndex, the tail byte by byte; -1 = nothing to escape = one verbatim copy
ETail == /\ dir = "esc" /\ pc = "tail"
         /\ IF j < N
            THEN IF Flagged(s, j, html) THEN pc' = "loop" /\ UNCHANGED <<k, i, j, out, copies>>
                 ELSE j' = j + 1 /\ UNCHANGED <<pc, k, i, out, copies>>
            ELSE /\ out' = Span(s, 0, N) /\ copies' = 1 /\ pc' = "done" /\ UNCHANGED <<k, i, j>>

Flush(a, b) == IF a < b THEN Span(s, a, b) ELSE <<>>
Bump(a, b) == IF a < b THEN 1 ELSE 0

ELoop == /\ dir = "esc" /\ pc = "loop"
         /\ IF j >= N
            THEN /\ out' = out \o Flush(i, N) /\ copies' = copies + Bump(i, N) /\ pc' = "done" /\ UNCHANGED <<k, i, j>>
            ELSE LET idx == UnitAt(s, j)  u == s[idx]  o == OffAt(s, j) IN
              IF u \in Plain \/ (u = "h" /\ ~html)
              THEN j' = j + 1 /\ UNCHANGED <<pc, k, i, out, copies>>                 \* fast path of the loop
              ELSE IF u \in Short \cup Ctl \cup Html
              THEN /\ out' = out \o Flush(i, j) \o EscOf(u, idx, html) /\ copies' = copies + Bump(i, j)
                   /\ i' = j + 1 /\ j' = j + 1 /\ UNCHANGED <<pc, k>>
              ELSE IF u \in Bad \/ o # 0                                             \* DecodeRune: RuneError, size 1
              THEN /\ out' = out \o Flush(i, j) \o << [k |-> "u_rep", src |-> idx] >> /\ copies' = copies + Bump(i, j)
                   /\ i' = j + 1 /\ j' = j + 1 /\ UNCHANGED <<pc, k>>
              ELSE IF u \in Seps
              THEN /\ out' = out \o Flush(i, j) \o EscOf(u, idx, html) /\ copies' = copies + Bump(i, j)
                   /\ i' = j + Width(u) /\ j' = j + Width(u) /\ UNCHANGED <<pc, k>>
              ELSE j' = j + Width(u) /\ UNCHANGED <<pc, k, i, out, copies>>          \* a valid rune stays in the span

(*************************** unescape: algorithm ****************************)
NextEscape(from) == LET c == {q \in from..Len(s) : IsEscape(s[q])} IN
                    IF c = {} THEN 0 ELSE CHOOSE q \in c : \A m \in c : q <= m
RECURSIVE CoerceSpan(_, _)
CoerceSpan(a, b) == IF a >= b THEN <<>> ELSE Coerce(s[a], a) \o CoerceSpan(a + 1, b)

\* parseString first: a broken literal is rejected as a whole
UStart == /\ dir = "unesc" /\ pc = "start"
          /\ IF ~WellFormed(s) THEN err' = TRUE /\ pc' = "done" /\ UNCHANGED <<p, res>>
             ELSE pc' = "loop" /\ UNCHANGED <<p, res, err>>

ULoop == /\ dir = "unesc" /\ pc = "loop"
         /\ IF p > Len(s) THEN pc' = "done" /\ UNCHANGED <<p, res, err>>
            ELSE LET q == NextEscape(p) IN
              IF q = 0 THEN res' = res \o CoerceSpan(p, Len(s) + 1) /\ p' = Len(s) + 1 /\ UNCHANGED <<pc, err>>
              ELSE IF q > p THEN res' = res \o CoerceSpan(p, q) /\ p' = q /\ UNCHANGED <<pc, err>>
              ELSE LET l == s[p] IN
                IF l \in Simple THEN res' = Append(res, [r |-> SimpleMeaning(l), src |-> p]) /\ p' = p + 1 /\ UNCHANGED <<pc, err>>
                ELSE IF l \notin {"u_hi", "u_lo"} THEN res' = Append(res, [r |-> UMeaning(l), src |-> p]) /\ p' = p + 1 /\ UNCHANGED <<pc, err>>
                ELSE IF p = Len(s) \/ s[p + 1] \notin UEsc                         \* not followed by `\u`
                THEN res' = Append(res, [r |-> "rep", src |-> p]) /\ p' = p + 1 /\ UNCHANGED <<pc, err>>
                ELSE IF l = "u_hi" /\ s[p + 1] = "u_lo"                              \* utf16.DecodeRune succeeds
                THEN res' = Append(res, [r |-> "r4", src |-> p]) /\ p' = p + 2 /\ UNCHANGED <<pc, err>>
                ELSE res' = Append(res, [r |-> "rep", src |-> p]) /\ p' = p + 1 /\ UNCHANGED <<pc, err>>   \* the second escape is read again

Next == \/ (EStart \/ EWord \/ ETail \/ ELoop) /\ UNCHANGED <<dir, s, html, p, res, err>>
        \/ (UStart \/ ULoop) /\ UNCHANGED <<dir, s, html, k, i, j, out, copies>>
Spec == Init /\ [][Next]_vars

(******************************** properties ********************************)
EscDone == dir = "esc" /\ pc = "done"
EscapeRefines == EscDone => out = EscDef(s, html)
\* the cursors sit on unit starts, or inside an invalid unit (whose bytes are taken one by one)
OnUnit(n) == n \in Starts(s) \/ (n < N /\ s[UnitAt(s, n)] \in Bad)
UnitAligned == (dir = "esc" /\ pc = "loop") => (OnUnit(i) /\ OnUnit(j))
NoCuts == dir = "esc" => \A n \in 1..Len(out) : out[n].k # "cut"
Grammatical == EscDone => \A n \in 1..Len(out) :
                 out[n].k = "raw" => (s[out[n].src] \in RawOK /\ ~(html /\ s[out[n].src] = "h"))
RoundTrip == EscDone => (WellFormed(LitOf(s, out)) /\ Runes_(DecDef(LitOf(s, out))) = Runes_(SanFrom(s, 1)))
NeedsEscape(u, h) == ~(u \in Plain \cup Runes \/ (u = "h" /\ ~h))
OnePiece == (EscDone /\ N >= W /\ \A n \in 1..Len(s) : s[n] \in Plain \/ (s[n] = "h" /\ ~html)) => copies = 1
HtmlOnlyHtml == EscDone => \A n \in 1..Len(out) :
                  (out[n] # EscDef(s, FALSE)[n]) => s[out[n].src] = "h"        \* the flag changes html units only
UnescDone == dir = "unesc" /\ pc = "done"
UnescapeRefines == UnescDone => (err = ~WellFormed(s) /\ (~err => res = DecDef(s)))
NeverSurrogate == dir = "unesc" => \A n \in 1..Len(res) : res[n].r \notin {"u_hi", "u_lo"}

(******************************** generator *********************************)
EmitVector == Emit =>
  /\ pc = "start"
  /\ PrintT(ToJson(IF dir = "esc"
       THEN [dir |-> "esc", s |-> s, html |-> html, out |-> EscDef(s, html), ok |-> TRUE, back |-> SanFrom(s, 1)]
       ELSE [dir |-> "unesc", s |-> s, html |-> FALSE, out |-> <<>>, ok |-> WellFormed(s),
             back |-> IF WellFormed(s) THEN DecDef(s) ELSE <<>>]))
=============================================================================
