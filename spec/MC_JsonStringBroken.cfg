SPECIFICATION Spec
CONSTANTS
  W = 2
  MaxUnits = 3
  Dirs = {"esc"}
  EscUnits = {}
  UnescUnits = {}
  Variant = "tail1"
  Emit = FALSE
INVARIANTS EscapeRefines UnitAligned NoCuts Grammatical RoundTrip OnePiece HtmlOnlyHtml
CHECK_DEADLOCK FALSE
