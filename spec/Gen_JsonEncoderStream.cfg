SPECIFICATION Spec
CONSTANTS
  MaxOps = 4
  Variant = "std"
  Emit = TRUE
CONSTRAINT EmitVector
CHECK_DEADLOCK FALSE
