SPECIFICATION Spec
CONSTANTS
  W = 8
  MaxUnits = 3
  Dirs = {"esc"}
  EscUnits = {}
  UnescUnits = {}
  Variant = "code"
  Emit = TRUE
CONSTRAINT EmitVector
CHECK_DEADLOCK FALSE
