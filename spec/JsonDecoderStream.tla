------------------------- MODULE JsonDecoderStream -------------------------
(***************************************************************************)
(* json.Decoder.readValue (json/json.go) as a state machine: a read buffer *)
(* that is a sliding window over the byte stream delivered by an io.Reader,*)
(* a window `remain` of unparsed bytes inside it, a sticky reader error,   *)
(* and the InputOffset counter.  One action per arm of the loop:           *)
(*                                                                         *)
(*   Call       Decode is called                                           *)
(*   ParseStep  the window holds a complete value or a syntax error        *)
(*   ErrStep    more input is needed but the reader has failed (sticky)    *)
(*   FillStep   allocate / compact / grow, read, skip leading whitespace   *)
(*                                                                         *)
(* Bytes are abstracted to classes:                                        *)
(*   w  whitespace                                                         *)
(*   d  digit: every non-empty run of digits parses as a complete value -  *)
(*      the one JSON value whose end cannot be seen without looking ahead  *)
(*   o x c   opening byte, inner byte, closing byte of a delimited value    *)
(*           (string, array, object, literal)                              *)
(*   g  a byte that cannot start a value                                   *)
(*                                                                         *)
(* POLICY IS NOT PROPERTY: buffer capacity, growth and how much a read     *)
(* returns are nondeterministic here (any capacity up to MaxRead beyond    *)
(* the kept bytes, any read length from 1 to what fits and is available),  *)
(* so the properties are established for every buffering policy and a      *)
(* behaviour-preserving change of the constants in /repo stays a behaviour *)
(* of this specification.                                                  *)
(*                                                                         *)
(* Deviation switches (FALSE = as the pinned code was before the fix:      *)
(* commits):  FixSkip  - whitespace filling the whole buffer is counted;   *)
(*            FixDigit - a digit run reaching the end of the buffer is not *)
(*                       complete while the reader may deliver more.       *)
(***************************************************************************)
EXTENDS Naturals, Sequences, FiniteSets, TLC, Json

CONSTANTS MaxRead,   \* a fill may provide room for 1..MaxRead new bytes
          MaxLen,    \* longest stream
          MaxCalls,  \* Decode calls per behaviour
          FixSkip, FixDigit,
          Emit

Classes == {"w","d","o","x","c","g"}

VARIABLES stream, term,          \* the input: class sequence and how the reader ends ("EOF" | "E")
          rpos,                  \* bytes the reader has delivered
          hasBuf, buf, cap,      \* read buffer (contents, capacity)
          base,                  \* ghost: stream offset of buf[1]
          remOff, remLen,        \* window of unparsed bytes inside buf
          derr,                  \* sticky reader error: "none" | "EOF" | "E"
          ioff,                  \* InputOffset
          pc, calls,             \* "idle" | "loop"
          out,                   \* history of Decode results
          lastEnd                \* ghost: stream offset of the end of the last value returned

vars == <<stream, term, rpos, hasBuf, buf, cap, base, remOff, remLen, derr, ioff, pc, calls, out, lastEnd>>

Min(a, b) == IF a < b THEN a ELSE b
SeqsUpTo(S, n) == UNION {[1..k -> S] : k \in 0..n}

\* streams in which inner and closing bytes only occur inside an open delimited value
RECURSIVE WF(_, _)
WF(s, open) == IF s = <<>> THEN TRUE
               ELSE LET c == Head(s) IN
                    IF open THEN (c \in {"x","c"} /\ WF(Tail(s), c = "x"))
                    ELSE (c \in {"w","d","g","o"} /\ WF(Tail(s), c = "o"))

Remain == SubSeq(buf, remOff + 1, remOff + remLen)

FirstNonSpace(s) == IF \E i \in 1..Len(s) : s[i] # "w"
                    THEN CHOOSE i \in 1..Len(s) : s[i] # "w" /\ \A j \in 1..i-1 : s[j] = "w" ELSE 0
DigitRun(s) == IF \E i \in 1..Len(s) : s[i] # "d"
               THEN (CHOOSE i \in 1..Len(s) : s[i] # "d" /\ \A j \in 1..i-1 : s[j] = "d") - 1 ELSE Len(s)
FirstClose(s) == IF \E i \in 1..Len(s) : s[i] = "c"
                 THEN CHOOSE i \in 1..Len(s) : s[i] = "c" /\ \A j \in 1..i-1 : s[j] # "c" ELSE 0

\* parseValue on a non-empty window
Parse(s) == IF s[1] = "d" THEN [kind |-> "ok", vlen |-> DigitRun(s), num |-> TRUE]
            ELSE IF s[1] = "o"
                 THEN (IF FirstClose(s) = 0 THEN [kind |-> "inc", vlen |-> 0, num |-> FALSE]
                                            ELSE [kind |-> "ok", vlen |-> FirstClose(s), num |-> FALSE])
            ELSE [kind |-> "syn", vlen |-> 0, num |-> FALSE]

\* skipSpacesN: <<offset delta, new length, bytes counted>>
Skip(s) == LET f == FirstNonSpace(s) IN
           IF f = 0 THEN <<0, 0, IF FixSkip THEN Len(s) ELSE 0>> ELSE <<f - 1, Len(s) - (f - 1), f - 1>>

-----------------------------------------------------------------------------
(* Ideal semantics: tokenisation of the whole stream, on absolute offsets *)
NextStart(p) == LET s == SubSeq(stream, p + 1, Len(stream)) IN
                IF FirstNonSpace(s) = 0 THEN Len(stream) ELSE p + FirstNonSpace(s) - 1
IdealRun(p)  == DigitRun(SubSeq(stream, p + 1, Len(stream)))
CloseFrom(p) == LET f == FirstClose(SubSeq(stream, p + 1, Len(stream))) IN IF f = 0 THEN 0 ELSE p + f

RECURSIVE IdealFrom(_)
IdealFrom(p) ==
  LET q == NextStart(p) IN
  IF q = Len(stream) THEN <<[k |-> term, s |-> q, e |-> q]>>                 \* clean end: io.EOF or the reader's error
  ELSE LET c == stream[q + 1] IN
       IF c = "d" THEN <<[k |-> "val", s |-> q, e |-> q + IdealRun(q)]>> \o IdealFrom(q + IdealRun(q))
       ELSE IF c = "o"
            THEN (IF CloseFrom(q) = 0
                  THEN <<[k |-> (IF term = "EOF" THEN "ueof" ELSE term), s |-> q, e |-> Len(stream)]>>  \* ends inside a value
                  ELSE <<[k |-> "val", s |-> q, e |-> CloseFrom(q)]>> \o IdealFrom(CloseFrom(q)))
       ELSE <<[k |-> "syn", s |-> q, e |-> q]>>
Ideal == IdealFrom(0)

-----------------------------------------------------------------------------
Init == /\ stream \in {s \in SeqsUpTo(Classes, MaxLen) : WF(s, FALSE)}
        /\ term \in {"EOF", "E"}
        /\ rpos = 0 /\ hasBuf = FALSE /\ buf = <<>> /\ cap = 0 /\ base = 0
        /\ remOff = 0 /\ remLen = 0 /\ derr = "none" /\ ioff = 0
        /\ pc = "idle" /\ calls = 0 /\ out = <<>> /\ lastEnd = 0

Call == /\ pc = "idle" /\ calls < MaxCalls
        /\ (out # <<>> => out[Len(out)].k = "val")          \* callers stop at the first error
        /\ pc' = "loop" /\ calls' = calls + 1
        /\ UNCHANGED <<stream, term, rpos, hasBuf, buf, cap, base, remOff, remLen, derr, ioff, out, lastEnd>>

Ret(r) == pc' = "idle" /\ out' = Append(out, r)

\* the window holds a number that reaches the end of the buffer while the reader may still deliver bytes
NumberMayContinue(p) == FixDigit /\ p.kind = "ok" /\ p.num /\ p.vlen = remLen /\ derr = "none"

ParseStep ==
  /\ pc = "loop" /\ remLen # 0
  /\ LET p == Parse(Remain) IN
     /\ p.kind # "inc"
     /\ ~NumberMayContinue(p)
     /\ IF p.kind = "ok"
        THEN LET sk == Skip(SubSeq(Remain, p.vlen + 1, remLen)) IN
             /\ remOff' = (IF sk[2] = 0 THEN 0 ELSE remOff + p.vlen + sk[1])
             /\ remLen' = sk[2]
             /\ ioff' = ioff + p.vlen + sk[3]
             /\ lastEnd' = base + remOff + p.vlen
             /\ Ret([k |-> "val", s |-> base + remOff, e |-> base + remOff + p.vlen, off |-> ioff'])
        ELSE /\ Ret([k |-> "syn", s |-> base + remOff, e |-> base + remOff, off |-> ioff])
             /\ UNCHANGED <<remOff, remLen, ioff, lastEnd>>
  /\ UNCHANGED <<stream, term, rpos, hasBuf, buf, cap, base, derr, calls>>

NeedMore == IF remLen = 0 THEN TRUE
            ELSE LET p == Parse(Remain) IN p.kind = "inc" \/ NumberMayContinue(p)

ErrStep ==
  /\ pc = "loop" /\ NeedMore /\ derr # "none"
  /\ Ret([k |-> (IF remLen # 0 /\ derr = "EOF" THEN "ueof" ELSE derr), s |-> 0, e |-> 0, off |-> ioff])
  /\ UNCHANGED <<stream, term, rpos, hasBuf, buf, cap, base, remOff, remLen, derr, ioff, calls, lastEnd>>

FillStep ==
  /\ pc = "loop" /\ NeedMore /\ derr = "none"
  /\ LET b0    == IF hasBuf THEN Remain ELSE <<>>                     \* compaction keeps exactly the window
         base0 == IF hasBuf /\ remLen # 0 THEN base + remOff ELSE rpos
         avail == Len(stream) - rpos IN
     \E cap1 \in (Len(b0) + 1)..(Len(b0) + MaxRead) :                 \* any allocation / growth policy
     \E n \in (IF avail = 0 THEN {0} ELSE 1..Min(cap1 - Len(b0), avail)) :   \* any read length
       LET b1 == b0 \o SubSeq(stream, rpos + 1, rpos + n)
           sk == Skip(b1) IN
       /\ hasBuf' = TRUE /\ buf' = b1 /\ cap' = cap1 /\ base' = base0 /\ rpos' = rpos + n
       /\ remOff' = (IF sk[2] = 0 THEN 0 ELSE sk[1]) /\ remLen' = sk[2]
       /\ ioff' = ioff + sk[3]
       /\ derr' = (IF n > 0 THEN "none" ELSE term)                    \* an error that comes with data is met again on the next read
  /\ UNCHANGED <<stream, term, pc, calls, out, lastEnd>>

Next == Call \/ ParseStep \/ ErrStep \/ FillStep
Spec == Init /\ [][Next]_vars

-----------------------------------------------------------------------------
(* Properties (C11) *)

\* no byte is lost or duplicated: the buffer is a window of the stream ending where the reader stands
BufWindow == hasBuf => /\ buf = SubSeq(stream, base + 1, base + Len(buf))
                       /\ base + Len(buf) = rpos /\ Len(buf) <= cap
                       /\ remOff + remLen <= Len(buf)

\* the results are a prefix of the ideal tokenisation of the whole stream
ResultsIdeal ==
  \A i \in 1..Len(out) :
     /\ i <= Len(Ideal)
     /\ out[i].k = Ideal[i].k
     /\ (out[i].k = "val" => out[i].s = Ideal[i].s /\ out[i].e = Ideal[i].e)

\* InputOffset: monotone, and after a value between its end and the start of the next one
OffsetInRange  == \A i \in 1..Len(out) : out[i].k = "val" => out[i].e <= out[i].off /\ out[i].off <= NextStart(out[i].e)
OffsetMonotone == \A i \in 1..(Len(out) - 1) : out[i].off <= out[i + 1].off

\* Buffered() followed by the unread rest of the reader is the unconsumed input (up to skipped whitespace)
BufferedOK == (pc = "idle" /\ out # <<>> /\ out[Len(out)].k = "val") =>
                 LET k == IF remLen # 0 THEN base + remOff ELSE rpos IN lastEnd <= k /\ k <= NextStart(lastEnd)

\* io.EOF only at a clean end of a stream that ended with io.EOF
EOFOnlyWhenClean == \A i \in 1..Len(out) : out[i].k = "EOF" => term = "EOF" /\ NextStart(lastEnd) = Len(stream)

-----------------------------------------------------------------------------
(* Vector emission (Gen_JsonDecoderStream.cfg): one record per initial state = per (stream, term) *)
EmitVector == (Emit /\ pc = "idle" /\ calls = 0) => PrintT(ToJson([s |-> stream, t |-> term, r |-> Ideal]))
=============================================================================
