SPECIFICATION Spec
CONSTANTS
  MaxSteps = 5
  Inputs = {1, 2}
  ZeroCopyAtEnd = FALSE
  Emit = TRUE
CONSTRAINT EmitHistory
CHECK_DEADLOCK FALSE
