------------------------------ MODULE Iso8601 ------------------------------
(***************************************************************************)
(* iso8601.Valid as a grammar with flags, and the calendar arithmetic of   *)
(* iso8601.Parse's fast path.                                              *)
(*                                                                         *)
(* Part 1 - the grammar                                                    *)
(*   YYYY-MM-DD [ (T|space) hh:mm:ss [ .d{1,9} ] [ Z | [space](+|-)hh[:]mm ] ] *)
(* over character classes  d - T S(space) c(colon) . Z + x(other).         *)
(* Each string has at most one parse; Req(s) is the set of flags that      *)
(* parse needs ("R" = no parse at all), so Valid(s, F) <=> Req(s) \subseteq F. *)
(* ValidF(s, F) is a second, independent definition (a direct recogniser   *)
(* with the flags as parameters); TLC checks that the two agree on every   *)
(* generated string and every one of the 32 flag sets.                     *)
(*   space separator / space before the zone : AllowSpaceSeparator ("sp")  *)
(*   date only                               : AllowMissingTime ("nt")     *)
(*   no fraction                             : AllowMissingSubsecond ("ns")*)
(*   no zone                                 : AllowMissingTimezone ("nz") *)
(*   zone as +hhmm (no colon)                : AllowNumericTimezone ("nc") *)
(* (+hh:mm needs no flag - that is what the package does and documents.)   *)
(*                                                                         *)
(* Part 2 - the calendar: the closed-form day count of the fast path       *)
(* (daysSinceEpoch) against the definition by summation of year and month  *)
(* lengths, walked year by year from 0000 to 9999 (MC_Iso8601Calendar).    *)
(*                                                                         *)
(* The generator (Part 3) starts from every grammatical shape and applies  *)
(* single edits (replace / delete / insert / truncate at every position).  *)
(***************************************************************************)
EXTENDS Integers, Sequences, FiniteSets, TLC, Json

CONSTANTS Fracs,      \* fraction lengths generated (subset of 0..9)
          MaxEdits,   \* 0, 1 or 2 edits applied to a shape
          Emit

Classes == {"d","-","T","S","c",".","Z","+","x"}
Flags   == {"sp","nt","ns","nz","nc"}

-----------------------------------------------------------------------------
(* Part 1a: Req - one deterministic scan.  State: position p and flags needed so far; "R" = reject *)
At(s, p) == IF p <= Len(s) THEN s[p] ELSE "$"
Digits(s, p, n) == \A i \in p..(p + n - 1) : At(s, i) = "d"
RECURSIVE DigitRun(_, _)
DigitRun(s, p) == IF At(s, p) = "d" THEN 1 + DigitRun(s, p + 1) ELSE 0

Rej == [ok |-> FALSE, need |-> {}]
Ok(need) == [ok |-> TRUE, need |-> need]

\* zone starting at p (after the optional space), given flags needed so far
ReqZone(s, p, need) ==
  IF ~(At(s, p) \in {"+","-"}) \/ ~Digits(s, p + 1, 2) THEN Rej
  ELSE IF At(s, p + 3) = "c"
       THEN (IF Digits(s, p + 4, 2) /\ Len(s) = p + 5 THEN Ok(need) ELSE Rej)
       ELSE (IF Digits(s, p + 3, 2) /\ Len(s) = p + 4 THEN Ok(need \cup {"nc"}) ELSE Rej)

\* after the seconds (and fraction): p is the first unread position
ReqTail(s, p, need) ==
  IF p > Len(s) THEN Ok(need \cup {"nz"})
  ELSE IF At(s, p) = "Z" THEN (IF Len(s) = p THEN Ok(need) ELSE Rej)
  ELSE IF At(s, p) = "S" THEN ReqZone(s, p + 1, need \cup {"sp"})
  ELSE ReqZone(s, p, need)

ReqFrac(s, p, need) ==
  IF At(s, p) = "."
  THEN LET n == DigitRun(s, p + 1) IN
       IF n = 0 THEN Rej
       ELSE ReqTail(s, p + 1 + (IF n > 9 THEN 9 ELSE n), need)   \* at most nine digits belong to the fraction
  ELSE ReqTail(s, p, need \cup {"ns"})

Req(s) ==
  IF ~(Digits(s, 1, 4) /\ At(s, 5) = "-" /\ Digits(s, 6, 2) /\ At(s, 8) = "-" /\ Digits(s, 9, 2)) THEN Rej
  ELSE IF Len(s) = 10 THEN Ok({"nt"})
  ELSE IF ~(At(s, 11) \in {"T","S"}) THEN Rej
  ELSE IF ~(Digits(s, 12, 2) /\ At(s, 14) = "c" /\ Digits(s, 15, 2) /\ At(s, 17) = "c" /\ Digits(s, 18, 2)) THEN Rej
  ELSE ReqFrac(s, 20, IF At(s, 11) = "S" THEN {"sp"} ELSE {})

ValidByReq(s, F) == Req(s).ok /\ Req(s).need \subseteq F

(* Part 1b: the direct recogniser, flags as parameters (written from the grammar, option by option) *)
ZoneF(s, p, F) ==
  /\ At(s, p) \in {"+","-"} /\ Digits(s, p + 1, 2)
  /\ \/ (At(s, p + 3) = "c" /\ Digits(s, p + 4, 2) /\ Len(s) = p + 5)
     \/ ("nc" \in F /\ Digits(s, p + 3, 2) /\ Len(s) = p + 4)
TailF(s, p, F) ==
  \/ (p > Len(s) /\ "nz" \in F)
  \/ (At(s, p) = "Z" /\ Len(s) = p)
  \/ ZoneF(s, p, F)
  \/ ("sp" \in F /\ At(s, p) = "S" /\ ZoneF(s, p + 1, F))
FracF(s, p, F) ==
  \/ ("ns" \in F /\ At(s, p) # "." /\ TailF(s, p, F))
  \/ (At(s, p) = "." /\ \E n \in 1..9 : /\ Digits(s, p + 1, n)
                                        /\ (n = 9 \/ At(s, p + 1 + n) # "d")    \* the fraction is maximal (up to 9)
                                        /\ TailF(s, p + 1 + n, F))
ValidF(s, F) ==
  /\ Digits(s, 1, 4) /\ At(s, 5) = "-" /\ Digits(s, 6, 2) /\ At(s, 8) = "-" /\ Digits(s, 9, 2)
  /\ \/ (Len(s) = 10 /\ "nt" \in F)
     \/ /\ (At(s, 11) = "T" \/ ("sp" \in F /\ At(s, 11) = "S"))
        /\ Digits(s, 12, 2) /\ At(s, 14) = "c" /\ Digits(s, 15, 2) /\ At(s, 17) = "c" /\ Digits(s, 18, 2)
        /\ FracF(s, 20, F)

-----------------------------------------------------------------------------
(* Part 3: generator *)
Rep(c, n) == [i \in 1..n |-> c]
Date == <<"d","d","d","d","-","d","d","-","d","d">>
Time == <<"d","d","c","d","d","c","d","d">>
Frac(n) == IF n = 0 THEN <<>> ELSE <<".">> \o Rep("d", n)
Zones == {<<>>, <<"Z">>} \cup
         {sp \o <<sg, "d", "d">> \o col \o <<"d", "d">> : sp \in {<<>>, <<"S">>}, sg \in {"+","-"}, col \in {<<>>, <<"c">>}}
Shapes == {Date} \cup {Date \o <<sep>> \o Time \o Frac(n) \o z : sep \in {"T","S"}, n \in Fracs, z \in Zones}

VARIABLES str, edits
vars == <<str, edits>>

Init == str \in Shapes /\ edits = 0

Replace(i, c) == [str EXCEPT ![i] = c]
Delete(i)     == SubSeq(str, 1, i - 1) \o SubSeq(str, i + 1, Len(str))
Insert(i, c)  == SubSeq(str, 1, i - 1) \o <<c>> \o SubSeq(str, i, Len(str))     \* i in 1..Len+1
Truncate(i)   == SubSeq(str, 1, i - 1)

Edit ==
  /\ edits < MaxEdits
  /\ edits' = edits + 1
  /\ \/ \E i \in 1..Len(str), c \in Classes : c # str[i] /\ str' = Replace(i, c)
     \/ \E i \in 1..Len(str) : str' = Delete(i)
     \/ \E i \in 1..(Len(str) + 1), c \in Classes : str' = Insert(i, c)
     \/ \E i \in 1..Len(str) : str' = Truncate(i)

Next == Edit
Spec == Init /\ [][Next]_vars

\* the two definitions of the grammar agree for all 32 flag sets
DefinitionsAgree == \A F \in SUBSET Flags : ValidF(str, F) = ValidByReq(str, F)
\* every unedited shape has a parse
ShapesParse == edits = 0 => Req(str).ok
\* validity is monotone in the flags
Monotone == \A F \in SUBSET Flags : ValidF(str, F) => ValidF(str, Flags)

EmitVector == Emit => PrintT(ToJson([s |-> str, ok |-> Req(str).ok, req |-> Req(str).need]))

=============================================================================
