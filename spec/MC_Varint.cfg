SPECIFICATION Spec
CONSTANTS
  Ks = {0,1,6,7,8,13,14,15,20,21,22,27,28,29,30,31,32,33,34,35,36,41,42,43,48,49,50,55,56,57,62,63}
  Variant = "code"
  Emit = FALSE
INVARIANTS TypeOK SizeLaw Minimal EncoderRight DecoderRefines ZigZagOnce
CHECK_DEADLOCK FALSE
