SPECIFICATION Spec
CONSTANTS
  MaxFields = 1
  TagNumbers = {0, 15, 16, 2047, 2048, 65535, 70000}
  MaxId = 2
  GenKinds = {"bool","int","i32","i64","s32","s64","uint","u32","u64","x32","x64","flt","dbl","str","byt","arr","arr7","arr15","arr16","rawm","pmsg","cmsg","m1","m2","m3","m4"}
  FixPresence = TRUE
  FixEmptyMap = TRUE
  RepTagged = TRUE
  FixRepTagged = TRUE
  Emit = FALSE
INVARIANTS RoundTrip ImplRoundTrip UnknownIgnored LastFirstStable LaterWins ReencodeStable
CHECK_DEADLOCK FALSE
