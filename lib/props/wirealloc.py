"""spec/WireAlloc.tla: memory reserved for sizes read from the wire (C08: thrift lists, maps, byte strings; C07: proto repeated fields)."""
import vlib


def add(ck, vec):
    mc = vlib.must_hold(vlib.tlc("WireAlloc", "MC_WireAlloc.cfg", workers=4), "WireAlloc: the reserve follows the bytes present")
    ck.add_mc(mc, "MC_WireAlloc")
    for cfg, what in (("MC_WireAllocTrusting.cfg", "reserving what the header announces"), ("MC_WireAllocEager.cfg", "growing by all that is announced"),
                      ("MC_WireAllocChunk.cfg", "growing by a fixed amount")):
        w = vlib.tlc("WireAlloc", cfg, workers=4, expect_violation=True)
        if w.ok or w.violation != "Bounded":
            raise vlib.Infra("WireAlloc with the policy of %s (%s) should violate Bounded: the model is vacuous" % (cfg, what))
        ck.add_mc(w, cfg[:-4] + "(vacuity witness)")
    with open(vec, "a") as sink:
        g = vlib.must_hold(vlib.tlc("WireAlloc", "Gen_WireAlloc.cfg", workers=4, sink=sink), "announced against present sizes")
    ck.add_mc(g, "Gen_WireAlloc")
    ck.notes["alloc_vectors"] = g.vectors
