"""Shared pipeline of the proto properties that replay spec/ProtoCodec.tla vectors."""
import os, random
import vlib

ALL_KINDS = ["bool", "int", "i32", "i64", "s32", "s64", "uint", "u32", "u64", "x32", "x64", "flt", "dbl", "str", "byt",
             "arr", "arr7", "arr15", "arr16", "rawm", "pmsg", "cmsg", "m1", "m2", "m3", "m4"]


def tla_set(xs):
    return "{" + ",".join('"%s"' % x if isinstance(x, str) else str(x) for x in xs) + "}"


def generate(ck, prop, tier, seed):
    thorough = tier == "thorough"
    mc = vlib.must_hold(vlib.tlc("ProtoCodec", "MC_ProtoCodec.cfg", workers=8), "ProtoCodec theorems (1 field, all kinds)")
    ck.add_mc(mc, "MC_ProtoCodec")
    rnd = random.Random(seed)
    # seeded subset of kinds for multi-field shapes: exhaustive within the subset
    scal = [k for k in ALL_KINDS if not k.startswith("m")]
    sub = sorted(rnd.sample(scal, 3 if not thorough else 6) + rnd.sample(["m1", "m2", "m3", "m4"], 1 if not thorough else 2))
    mc2 = vlib.must_hold(vlib.tlc("ProtoCodec", "MC_ProtoCodec.cfg", workers=vlib.NCPU, tag="ProtoCodec-mc2",
                                  defines={"MaxFields": 2, "GenKinds": tla_set(sub), "MaxId": 1,
                                           "TagNumbers": "{0, 16}"}, timeout=3000),
                         "ProtoCodec theorems (2 fields, kinds %s)" % sub)
    ck.add_mc(mc2, "MC_ProtoCodec(2 fields)")
    vec = vlib.vecpath(prop, "gen")
    with open(vec, "w") as sink:
        g1 = vlib.must_hold(vlib.tlc("ProtoCodec", "Gen_ProtoCodec.cfg", workers=8, sink=sink), "generation (1 field)")
        ck.add_mc(g1, "Gen_ProtoCodec(1 field, all kinds)")
        ck.notes["first_part"] = g1.vectors
        g2 = vlib.must_hold(vlib.tlc("ProtoCodec", "Gen_ProtoCodec.cfg", workers=vlib.NCPU, sink=sink, tag="ProtoCodec-gen2",
                                     # (three fields: 1.6 M shapes x values already for 3 kinds - measured; two fields over more kinds instead)
                                     defines={"MaxFields": 2, "GenKinds": tla_set(sub), "MaxId": 1,
                                              "TagNumbers": "{0, 16}"}, timeout=3000),
                            "generation (multi-field)")
        ck.add_mc(g2, "Gen_ProtoCodec(2 fields, kinds %s)" % ",".join(sub))
        # one Go type under two encodings in the same message (tagged and plain), in both orders and every cardinality:
        # codecs are cached by Go type while they are built
        twins = [("x32", "u32"), ("x64", "u64"), ("s32", "i32"), ("s64", "i64")]
        if not thorough:
            twins = [twins[seed % 4], twins[(seed + 1) % 4]]
        nt = 0
        for a, b in twins:
            gt = vlib.must_hold(vlib.tlc("ProtoCodec", "Gen_ProtoCodec.cfg", workers=8, sink=sink, tag="ProtoCodec-twins-" + a,
                                         defines={"MaxFields": 2, "GenKinds": tla_set([a, b]), "MaxId": 1, "TagNumbers": "{0, 16}"}, timeout=3000),
                                "generation (twin kinds %s / %s)" % (a, b))
            ck.add_mc(gt, "Gen_ProtoCodec(2 fields, twin kinds %s,%s)" % (a, b))
            nt += gt.vectors
        ck.notes["twin_vectors"] = nt
    if g1.vectors + g2.vectors == 0:
        raise vlib.Infra("no vectors")
    ck.notes["kinds_subset"] = sub
    return vec


def run(prop, tier, seed, rule, assumptions, shards=4, isolate=False, vlimit_kb=None, timeout=3000, extra_vec=None, post=None):
    ck = vlib.Check(prop, tier, seed)
    vec = generate(ck, prop, tier, seed)
    kept, total = vlib.cap_vectors(vec, 400000 if tier == "thorough" else 40000, seed, keep_first=ck.notes.get("first_part", 0))
    ck.notes["vectors_generated"], ck.notes["vectors_replayed"] = total, kept
    ck.exhaustive_replay = kept == total
    if extra_vec:
        extra_vec(ck, vec)      # further vectors, never sampled away
    ck.binary = vlib.build_harness()
    rr = vlib.run_harness(ck.binary, prop, vec, seed=seed, tier=tier, shards=shards, timeout=timeout,
                          isolate=isolate, vlimit_kb=vlimit_kb)
    ck.absorb(rr)
    for cr in rr.crashes:
        ck.violations.append(({"t": "div", "prop": prop, "api": "process", "want": "no fatal error",
                               "got": "fatal: " + cr["stderr"][:300], "case": {"vector_index": cr["index"]}}, 1))
    ck.triage(rr.divs, vlimit_kb=vlimit_kb, rerun=rr.again)
    os.unlink(vec)
    if post:
        post(ck)
    ck.exhaustive = getattr(ck, "exhaustive_replay", True)
    ck.rule = rule
    ck.assumptions = assumptions
    return ck.finish()
