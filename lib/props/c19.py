"""C19 - proto rewriters replace exactly the templated fields."""
import os, random
import vlib
from props import protocommon
from props.common import generic_replay

PROP = "C19"


def run(tier, seed):
    ck = vlib.Check(PROP, tier, seed)
    thorough = tier == "thorough"
    mc = vlib.must_hold(vlib.tlc("ProtoRewrite", "MC_ProtoRewrite.cfg", workers=8),
                        "ProtoRewrite: the algorithm refines the definition (1 field, all kinds)")
    ck.add_mc(mc, "MC_ProtoRewrite")
    # the algorithm as the code has it (switches off) must violate exactly the theorems behind the open findings
    for sw, inv, fid in (("FixSplit", "RefinesSplit", "F-C19-2"), ("FixOrLast", "Refines", "F-C19-6")):
        w = vlib.tlc("ProtoRewrite", "MC_ProtoRewrite.cfg", workers=8, defines={sw: "FALSE"}, tag="ProtoRewrite-asis-" + sw)
        if w.ok or w.violation != inv:
            raise vlib.Infra("ProtoRewrite with %s = FALSE should violate %s (finding %s): the model is vacuous" % (sw, inv, fid))
        ck.add_mc(w, "MC_ProtoRewrite(%s=FALSE: counterexample behind %s)" % (sw, fid))
    rnd = random.Random(seed)
    scal = [k for k in protocommon.ALL_KINDS if not k.startswith("m") and k not in ("rawm", "pmsg", "cmsg")]   # (templates for types with methods of their own are not generated)
    sub = sorted(rnd.sample(scal, 3 if thorough else 2) + rnd.sample(["m1", "m2", "m3", "m4"], 2 if thorough else 1))
    # the rewriter tracks the fields it has seen in a bitmap of 64-bit words (256 bits preallocated): explicit numbers around those sizes
    big = rnd.choice([255, 256, 300, 320])
    two = {"MaxFields": 2, "GenKinds": protocommon.tla_set(sub), "TagNumbers": "{0, %d}" % big}
    mc2 = vlib.must_hold(vlib.tlc("ProtoRewrite", "MC_ProtoRewrite.cfg", workers=vlib.NCPU, defines=two, tag="ProtoRewrite-mc2",
                                  timeout=3000), "ProtoRewrite theorems (2 fields, kinds %s)" % sub)
    ck.add_mc(mc2, "MC_ProtoRewrite(2 fields)")
    vec = vlib.vecpath(PROP, "gen")
    with open(vec, "w") as sink:
        g1 = vlib.must_hold(vlib.tlc("ProtoRewrite", "Gen_ProtoRewrite.cfg", workers=8, sink=sink), "generation (1 field)")
        ck.add_mc(g1, "Gen_ProtoRewrite(1 field)")
        g2 = vlib.must_hold(vlib.tlc("ProtoRewrite", "Gen_ProtoRewrite.cfg", workers=vlib.NCPU, sink=sink, defines=two,
                                     tag="ProtoRewrite-gen2", timeout=3000), "generation (2 fields)")
        ck.add_mc(g2, "Gen_ProtoRewrite(2 fields, kinds %s)" % ",".join(sub))
    ck.notes["kinds_subset"] = sub
    ck.notes["two_field_numbers"] = [0, big]
    kept, total = vlib.cap_vectors(vec, 400000 if thorough else 40000, seed, keep_first=g1.vectors)
    ck.notes["vectors_generated"], ck.notes["vectors_replayed"] = total, kept
    ck.binary = vlib.build_harness()
    rr = vlib.run_harness(ck.binary, PROP, vec, seed=seed, tier=tier, shards=4, timeout=3000)
    ck.absorb(rr)
    ck.triage(rr.divs, rerun=rr.again)
    os.unlink(vec)
    ck.exhaustive = kept == total
    ck.rule = ("TLC enumerates (shape, value, template) triples of spec/ProtoRewrite.tla (every 1-field shape, all 2-field shapes over a "
               "seeded subset of kinds; templates set scalars, replace repeated and map fields, rewrite nested messages, and bit-or integer fields through RewriterRules / BitOr, nested rules included) with the "
               "expected value and five encodings of the input (standard, reordered, overridden, unknown fields, split); the real "
               "ParseRewriteTemplate (with RewriterRules where the template has bit-or entries) / MessageRewriter (with BitOrRewriter) rewrite each and the result is decoded by the package and by the reference "
               "implementation. distinct_nontrivial = distinct vectors")
    ck.assumptions = ["the reference implementation decodes the specification's own rewrite (RewriteAlg) to the expected value on every vector",
                      "templates that name a nested message name at least one of its fields; map templates only for string keys (others are rejected by ParseRewriteTemplate)"]
    return ck.finish()


def replay(path, seed):
    return generic_replay(PROP, path, seed)
