import vlib
from props import jsoncommon
from props.common import generic_replay

PROP = "C15"
RULE = ("spec/JsonAppendBuf.tla: the buffer discipline (enter / write in place or grow / rewrite / rollback / leave) model-checked for every "
        "operation sequence up to the bound (Reserve: room made at once, as encodeBytes does, with the deviation of a capacity counted from the "
        "start of the buffer as witness), and the configuration lattice prefix length {0,1,7,8,9,31} and, for long texts (7..4097 bytes: plain, escaped, "
        "base64, member names, raw, ,string), prefixes relative to the text's size {n/4, n, n+n/4, n+n/4+2, n+n/2, 2n} x spare capacity {0, n-1, n, n+1, big} x 8 "
        "AppendFlags subsets; spec/JsonTypes.tla shapes: every boundary value (values that make the encoder fail in the middle included) appended "
        "into a window of a guarded array for every configuration; AppendEscape / AppendUnescape on the string values")
ASSUME = ["n is measured per value and flag set from Append(nil, v, flags)", "deeper shapes contribute a seeded third of their values"]


def extra(ck, vec):
    mc = vlib.must_hold(vlib.tlc("JsonAppendBuf", "MC_JsonAppendBuf.cfg", workers=8, defines={"MaxOps": 8 if ck.tier == "thorough" else 6}),
                        "JsonAppendBuf invariants")
    ck.add_mc(mc, "MC_JsonAppendBuf")
    w = vlib.tlc("JsonAppendBuf", "MC_JsonAppendBufFromStart.cfg", workers=4, expect_violation=True)
    if w.ok or w.violation not in ("NoPanic", "RoomAfterReserve"):
        raise vlib.Infra("JsonAppendBuf with a reservation counted from the start of the buffer should violate NoPanic / RoomAfterReserve: the model is vacuous")
    ck.add_mc(w, "MC_JsonAppendBufFromStart(deviation witness)")
    with open(vec, "a") as sink:
        g = vlib.must_hold(vlib.tlc("JsonAppendBuf", "Gen_JsonAppendBuf.cfg", workers=2, sink=sink), "configurations")
    ck.add_mc(g, "Gen_JsonAppendBuf")


def run(tier, seed):
    return jsoncommon.run(PROP, tier, seed, RULE, ASSUME, fields=False, extra_vec=extra)


def replay(path, seed):
    return generic_replay(PROP, path, seed)
