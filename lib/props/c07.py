import vlib
from props import protocommon, wirealloc, varint
from props.common import generic_replay

PROP = "C07"
RULE = {
 "C03": "TLC enumerates (shape, value) pairs of spec/ProtoCodec.tla: every single-field shape over 20 kinds x 4 cardinalities x tag numbers x value ids, and all multi-field shapes over a seeded subset of kinds; each is materialised with reflect.StructOf under 2 boundary-value liftings, by value and by pointer, plus repeated fields stretched to 9..41 and ~1000 elements; Marshal/Size/Unmarshal are compared with the property's relation. distinct_nontrivial = distinct vectors",
 "C12": "same vectors; encoder direction: the reference implementation (dynamicpb over a generated descriptor) must decode proto.Marshal's bytes to the value; decoder direction: the standard encoding, the reference's own encoding and the specification's legal re-encodings (reordered, overridden scalars, split messages), each also with non-minimal varints, must decode to the value",
 "C16": "same vectors; MarshalTo into every destination length 0..Size+3 with guard bytes behind the destination",
 "C07": "same vectors; the valid encoding, the encoding sprinkled with unknown fields of every wire type at every boundary, every prefix of both, and seeded mutations (length damage, over-long varints, group wire types) through Unmarshal, Parse, Scan and RawValue accessors with an allocation meter; plus the append kind of spec/WireAlloc.tla: repeated fields of up to 80 thousand elements (varints, strings, messages, one packed run) arriving one by one, allocation within a constant factor of the input",
}[PROP]
ASSUME = ["google.golang.org/protobuf v1.25.0 (dynamicpb) validates the specification's wire semantics on every vector (disagreement = exit 2)",
          "scalar value ids are lifted to the boundary tables in harness/protoshape.go"]


def deep_probe(ck):
    # open finding F-C07-1: a message nested a few hundred thousand levels deep into a recursive target overflows the stack
    # (runs alone, with a 64 MiB stack cap: it is expected to die)
    import subprocess
    probe = subprocess.run([ck.binary, "c07deep"], stdout=subprocess.PIPE, stderr=subprocess.PIPE, text=True, env=vlib.GOENV, timeout=600)
    if "C07DEEP-OK" in probe.stdout:
        return
    if "stack overflow" in probe.stderr or "goroutine stack exceeds" in probe.stderr:
        if ck.findings.get("F-C07-1", {}).get("status") == "open":
            ck.known["F-C07-1"] = 1
            return
        ck.violations.append(({"t": "div", "prop": PROP, "api": "proto.Unmarshal(400000 nested messages, *deepNode)", "want": "an error or a value",
                               "got": "fatal error: stack overflow", "case": {"kind": "c07deep"}}, 1))
        return
    raise vlib.Infra("c07deep probe: neither a result nor a stack overflow: " + probe.stderr[-800:])


def run(tier, seed):
    return protocommon.run(PROP, tier, seed, RULE + varint.RULES.get(PROP, ""), ASSUME, shards=4, isolate=(PROP in ("C03", "C07")), extra_vec=(varint.both(wirealloc.add, varint.adder(tier)) if PROP == "C07" else None),
                           post=(deep_probe if PROP == "C07" else None))


def replay(path, seed):
    return generic_replay(PROP, path, seed)
