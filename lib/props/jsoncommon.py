"""Shared generation for the json type-driven properties (C01, C02, C14, C15)."""
import os, random
import vlib

LEAVES = ["bool", "int", "int8", "int16", "int32", "int64", "uint", "uint8", "uint16", "uint32", "uint64", "float32", "float64",
          "string", "bytes", "number", "raw", "time", "any", "nany", "iface", "M_val", "M_ptr", "TM_val", "TM_ptr", "MU_both", "TMK", "MI", "TS", "TI", "MB", "NPI"]
WRAPPERS = ["ptr", "slice", "array2", "array1", "mapstr", "mapint", "maptm", "mapts", "mapkm", "struct1", "structopt"]


def tla_set(xs):
    return "{" + ",".join('"%s"' % x for x in xs) + "}"


def generate(ck, prop, tier, seed, fields=True, sink=None):
    thorough = tier == "thorough"
    vec = vlib.vecpath(prop, "gen")
    with (sink or open(vec, "w")) as sink:
        # every leaf kind under every constructor, two levels deep
        mc = vlib.must_hold(vlib.tlc("JsonTypes", "MC_JsonTypes.cfg", workers=8), "JsonTypes (depth 2, all kinds)")
        ck.add_mc(mc, "MC_JsonTypes")
        g1 = vlib.must_hold(vlib.tlc("JsonTypes", "Gen_JsonTypes.cfg", workers=8, sink=sink), "shape generation (depth 2)")
        ck.add_mc(g1, "Gen_JsonTypes(depth 2, all kinds)")
        # depth 3 (thorough: 4) over a seeded subset of leaf kinds
        rnd = random.Random(seed)
        sub = sorted(rnd.sample(LEAVES, 6 if thorough else 4))
        deep = {"MaxDepth": 4 if thorough else 3, "LeafKinds": tla_set(sub)}
        g2 = vlib.must_hold(vlib.tlc("JsonTypes", "Gen_JsonTypes.cfg", workers=vlib.NCPU, sink=sink, defines=deep, tag="JsonTypes-deep",
                                     timeout=3000), "shape generation (deep)")
        ck.add_mc(g2, "Gen_JsonTypes(depth %d, kinds %s)" % (deep["MaxDepth"], ",".join(sub)))
        ck.notes["leaf_subset"] = sub
        if fields:
            mf = vlib.must_hold(vlib.tlc("JsonFields", "MC_JsonFields.cfg", workers=8, defines={"MaxEmbeds": 4 if thorough else 3}),
                                "JsonFields: properties of field resolution")
            ck.add_mc(mf, "MC_JsonFields")
            gf = vlib.must_hold(vlib.tlc("JsonFields", "Gen_JsonFields.cfg", workers=8, sink=sink,
                                         defines={"MaxEmbeds": 4 if thorough else 3}), "embedding scenarios")
            ck.add_mc(gf, "Gen_JsonFields")
    return vec


def run(prop, tier, seed, rule, assumptions, shards=4, isolate=True, fields=True, extra_vec=None, timeout=3000):
    ck = vlib.Check(prop, tier, seed)
    vec = generate(ck, prop, tier, seed, fields=fields)
    if extra_vec:
        extra_vec(ck, vec)
    kept, total = vlib.cap_vectors(vec, 400000 if tier == "thorough" else 60000, seed, keep_first=1600)
    ck.notes["vectors_generated"], ck.notes["vectors_replayed"] = total, kept
    ck.binary = vlib.build_harness()
    rr = vlib.run_harness(ck.binary, prop, vec, seed=seed, tier=tier, shards=shards, timeout=timeout, isolate=isolate)
    ck.absorb(rr)
    for cr in rr.crashes:
        ck.violations.append(({"t": "div", "prop": prop, "api": "process", "want": "no fatal error",
                               "got": "fatal: " + cr["stderr"][:400], "case": {"vector_index": cr["index"]}}, 1))
    ck.triage(rr.divs, rerun=rr.again)
    os.unlink(vec)
    ck.exhaustive = kept == total
    ck.rule = rule
    ck.assumptions = assumptions
    return ck.finish()


def base64_defines(thorough):
    """constants of spec/Base64.tla per tier"""
    return {"MaxLen": 4 if thorough else 3, "Reps": "{0, 11, 22}" if thorough else "{0, 11}"}
