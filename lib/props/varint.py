"""spec/Varint.tla: base-128 integers at the level of bits and bytes (C03, C12, C07: proto; C13: thrift compact)."""
import vlib

RULES = {
 "C03": "; plus spec/Varint.tla: every pattern of the bit lattice (2^k, 2^k+-1, complements, alternating and staircase patterns cut at every k) under every "
        "presentation (plain, zig-zag 64 / 32) is written by Marshal for a field of every integer kind that has the presentation exactly as the "
        "specification's encoder writes it, Size agrees, and the bytes come back as the value",
 "C12": "; plus spec/Varint.tla: the package writes the specification's bytes for every integer kind, and every legal presentation of them (padded to "
        "up to ten bytes) decodes to the same value as a scalar, as elements of a repeated field and as a length prefix",
 "C07": "; plus spec/Varint.tla: every presentation of every pattern of the bit lattice, the illegal ones included (a tenth byte beyond bit 63, eleven "
        "bytes, every proper prefix), through Unmarshal as a scalar, a repeated element and a length prefix",
 "C13": "; plus spec/Varint.tla: the compact protocol's zig-zag varints of i16 / i32 / i64 fields are the specification's bytes for every pattern of the "
        "bit lattice, and come back as the value",
}

ALL = "{" + ",".join(str(k) for k in range(64)) + "}"


def adder(tier):
    defs = {"Ks": ALL} if tier == "thorough" else None

    def add(ck, vec):
        mc = vlib.must_hold(vlib.tlc("Varint", "MC_Varint.cfg", workers=4, defines=defs),
                            "Varint: size law, minimality, the decoder's verdicts, zig-zag laws")
        ck.add_mc(mc, "MC_Varint")
        for cfg, inv, what in (("MC_VarintDup28.cfg", "EncoderRight", "a seven-byte case that writes bits 21..27 twice"),
                               ("MC_VarintLax.cfg", "DecoderRefines", "a decoder without the test on the tenth byte")):
            w = vlib.tlc("Varint", cfg, workers=4, expect_violation=True)
            if w.ok or w.violation != inv:
                raise vlib.Infra("Varint with %s (%s) should violate %s: the model is vacuous" % (cfg, what, inv))
            ck.add_mc(w, cfg[:-4] + "(vacuity witness)")
        with open(vec, "a") as sink:
            g = vlib.must_hold(vlib.tlc("Varint", "Gen_Varint.cfg", workers=4, sink=sink, defines=defs), "varints of the bit lattice")
        ck.add_mc(g, "Gen_Varint")
        ck.notes["varint_vectors"] = g.vectors
    return add


def both(first, second):
    def add(ck, vec):
        first(ck, vec)
        second(ck, vec)
    return add
