"""C18 - iso8601.Parse agrees with time.Parse(RFC3339Nano); Valid is its grammar."""
import os
import vlib
from props.common import generic_replay

PROP = "C18"


def run(tier, seed):
    ck = vlib.Check(PROP, tier, seed)
    thorough = tier == "thorough"
    cal = vlib.must_hold(vlib.tlc("Iso8601Calendar", "MC_Iso8601Calendar.cfg", workers=1),
                         "closed-form day count = summation for every month of years 0000..9999")
    ck.add_mc(cal, "MC_Iso8601Calendar")
    fr = "{0, 1, 2, 3, 5, 8, 9}" if thorough else "{0, 1, 9}"
    mc = vlib.must_hold(vlib.tlc("Iso8601", "MC_Iso8601.cfg", defines={"Fracs": fr}, timeout=3000),
                        "the two definitions of the Valid grammar agree for all 32 flag sets")
    ck.add_mc(mc, "MC_Iso8601")
    vec = vlib.vecpath(PROP, "gen")
    with open(vec, "w") as sink:
        gen = vlib.must_hold(vlib.tlc("Iso8601", "Gen_Iso8601.cfg", sink=sink, defines={"Fracs": fr}, timeout=3000), "generation")
    ck.add_mc(gen, "Gen_Iso8601")
    if gen.vectors == 0:
        raise vlib.Infra("no vectors")
    ck.binary = vlib.build_harness()
    rr = vlib.run_harness(ck.binary, PROP, vec, seed=seed, tier=tier, shards=4, timeout=3000)
    ck.absorb(rr)
    ck.triage(rr.divs, rerun=rr.again)
    os.unlink(vec)
    ck.exhaustive = True
    ck.rule = ("TLC enumerates every grammatical timestamp shape (T/space, fraction lengths, Z / +hh:mm / +hhmm / space-prefixed / none, "
               "date only) and every single edit of it (replace by each class, delete, insert, truncate at every position) with the flag set "
               "its parse needs; each is lifted twice (plausible digits, random digits/bytes) and checked: Valid under all 32 flag sets "
               "against the specification, Parse and json.Unmarshal(time.Time) against time.Parse. Vector-independent sweeps: all 256 byte "
               "values at every position of the 20..30-byte fast-path shapes, the calendar 0000..9999 incl. impossible days, the seconds of "
               "a day, fraction lengths 0..10, AllocsPerRun(Valid)=0. distinct_nontrivial = distinct class strings")
    ck.assumptions = ["time.Parse(time.RFC3339Nano, s) is the oracle for Parse, as the property states",
                      "+hh:mm needs no flag (the documented behaviour of Valid); the colon-less form needs AllowNumericTimezone"]
    return ck.finish()


def replay(path, seed):
    return generic_replay(PROP, path, seed)
