"""C20 - ascii predicates equal their byte-wise definitions at every length."""
import os
import vlib
from props.common import generic_replay

PROP = "C20"


def run(tier, seed):
    ck = vlib.Check(PROP, tier, seed)
    thorough = tier == "thorough"
    mc = vlib.must_hold(vlib.tlc("Ascii", "MC_Ascii.cfg", defines={"MaxLen": 3}), "class lemmas of the byte-wise definitions")
    ck.add_mc(mc, "MC_Ascii")
    vec = vlib.vecpath(PROP, "gen")
    with open(vec, "w") as sink:
        gen = vlib.must_hold(vlib.tlc("Ascii", "Gen_Ascii.cfg", sink=sink, defines={"MaxLen": 3 if thorough else 2}), "generation")
    ck.add_mc(gen, "Gen_Ascii")
    for tags in ("verif", "verif,purego"):
        binary = vlib.build_harness(tags=tags)
        ck.binary = binary
        rr = vlib.run_harness(binary, PROP, vec, seed=seed, tier=tier, shards=4, timeout=3000)
        ck.absorb(rr)
        def label(res, tags=tags):
            for d in res.divs:
                d["got"] = "%s [%s build]" % (d.get("got"), "purego" if "purego" in tags else "default")
            return res
        label(rr)
        ck.triage(rr.divs, binary=binary, rerun=lambda again=rr.again: label(again()))
    os.unlink(vec)
    ck.exhaustive = True
    ck.rule = ("TLC enumerates pairs of strings of length <= MaxLen over the base byte with one or two deviations from 16 representative "
               "bytes (class boundaries, the 0x20-apart non-letter pairs) with the definitions' answers; each is checked as is and lifted to "
               "lengths 7..272 at several alignments with the deviations spread, packed at the start and packed at the end; plus the whole "
               "byte/rune domain and every (length, position) single deviation up to 272; both the default and the purego build")
    ck.assumptions = ["the vectorised kernels live in github.com/segmentio/asm (outside /repo); only the wrappers and their wiring are in scope",
                      "the fold family is only specified for ASCII inputs"]
    return ck.finish()


def replay(path, seed):
    return generic_replay(PROP, path, seed)
