"""C06 - json never panics, faults, overflows the stack or hangs."""
import os, subprocess
import vlib
from props import jsoncommon
from props.common import generic_replay

PROP = "C06"


def run(tier, seed):
    ck = vlib.Check(PROP, tier, seed)
    thorough = tier == "thorough"
    mc = vlib.must_hold(vlib.tlc("JsonCycle", "MC_JsonCycle.cfg", workers=8, defines={"N": 3, "MaxEdges": 5 if thorough else 4}, timeout=3000),
                        "JsonCycle: the walk terminates and reports an error iff the heap is cyclic")
    ck.add_mc(mc, "MC_JsonCycle")
    was = vlib.tlc("JsonCycle", "MC_JsonCycleAsWas.cfg", workers=4, tag="JsonCycle-aswas")
    if was.ok:
        raise vlib.Infra("tracking pointers only should not terminate on every heap: the model is vacuous")
    ck.add_mc(was, "MC_JsonCycleAsWas(non-termination witness)")
    vec = vlib.vecpath(PROP, "gen")
    with open(vec, "w") as sink:
        g = vlib.must_hold(vlib.tlc("JsonCycle", "Gen_JsonCycle.cfg", workers=8, sink=sink, defines={"N": 3, "MaxEdges": 4 if thorough else 3}), "heaps")
        ck.add_mc(g, "Gen_JsonCycle")
        gg = vlib.must_hold(vlib.tlc("JsonGrammar", "Gen_JsonGrammar.cfg", workers=vlib.NCPU, sink=sink, tag="JsonGrammar-c06",
                                     defines={"MaxLen": 6 if thorough else 5, "MaxWS": 1}, timeout=3000), "documents")
        ck.add_mc(gg, "Gen_JsonGrammar(for C06)")
        gt = vlib.must_hold(vlib.tlc("JsonTypes", "Gen_JsonTypes.cfg", workers=8, sink=sink, tag="JsonTypes-c06"), "shapes")
        ck.add_mc(gt, "Gen_JsonTypes(for C06)")
        # three (thorough: four) constructors deep over a seeded subset of leaf kinds: how a value sits in an interface
        # word (by value / by pointer) depends on the whole chain of single-field structs, arrays and pointers
        import random
        from props import jsoncommon
        sub = sorted(random.Random(seed).sample(jsoncommon.LEAVES, 5 if thorough else 3))
        gd = vlib.must_hold(vlib.tlc("JsonTypes", "Gen_JsonTypes.cfg", workers=vlib.NCPU, sink=sink, tag="JsonTypes-c06deep", timeout=3000,
                                     defines={"MaxDepth": 4 if thorough else 3, "LeafKinds": jsoncommon.tla_set(sub)}), "shapes (deep)")
        ck.add_mc(gd, "Gen_JsonTypes(for C06, depth %d, kinds %s)" % (4 if thorough else 3, ",".join(sub)))
        # string literals: every pair (thorough: triple over a subset) of the 37 literal-unit classes of JsonString, well formed or broken
        gs = vlib.must_hold(vlib.tlc("JsonString", "Gen_JsonStringUnesc.cfg", workers=8, sink=sink, tag="JsonString-c06"), "literal units (2)")
        ck.add_mc(gs, "Gen_JsonStringUnesc(for C06, 2 units)")
        if thorough:
            gs3 = vlib.must_hold(vlib.tlc("JsonString", "Gen_JsonStringUnesc.cfg", workers=8, sink=sink, tag="JsonString-c06-3", timeout=3000,
                                          defines={"MaxUnits": 3, "UnescUnits": '{"a","r3","x","tr","e_c","e_bs","u_asc","u_hi","u_lo","u_r3","u_sc"}'}), "literal units (3)")
            ck.add_mc(gs3, "Gen_JsonStringUnesc(for C06, 3 units)")
    # de-duplicate (the heap generator reports each graph once per way of building it)
    seen, out = set(), []
    for line in open(vec):
        if line not in seen:
            seen.add(line)
            out.append(line)
    open(vec, "w").writelines(out)
    ck.binary = vlib.build_harness()
    rr = vlib.run_harness(ck.binary, PROP, vec, seed=seed, tier=tier, shards=8, timeout=3000, isolate=True,
                          extra_args=["-maxstack", "512"])
    ck.absorb(rr)
    for cr in rr.crashes:
        ck.violations.append(({"t": "div", "prop": PROP, "api": "process", "want": "no fatal error",
                               "got": "fatal: " + cr["stderr"][:500], "case": {"vector_index": cr["index"], "shard": cr["shard"]}}, 1))
    ck.triage(rr.divs, rerun=rr.again)
    os.unlink(vec)
    # open finding F-C06-1: a self-referential map or slice type overflows the stack while its codec is built
    probe = subprocess.run([ck.binary, "c06rectype"], stdout=subprocess.PIPE, stderr=subprocess.PIPE, text=True, env=vlib.GOENV)
    if "stack overflow" in probe.stderr or "goroutine stack exceeds" in probe.stderr:
        if ck.findings.get("F-C06-1", {}).get("status") == "open":
            ck.known["F-C06-1"] = 1
        else:
            ck.violations.append(({"t": "div", "prop": PROP, "api": "json.Marshal(type M map[string]M)", "want": "a returned error at worst",
                                   "got": "fatal error: stack overflow", "case": {"kind": "rectype"}}, 1))
    # open finding F-C06-5: a map keyed by pointers whose type has MarshalText: the key's pointer word is taken for the address of the
    # key (reads of unrelated memory; with this witness an allocation of an absurd size, which is fatal)
    probe = subprocess.run([ck.binary, "c06ptrkey"], stdout=subprocess.PIPE, stderr=subprocess.PIPE, text=True, env=vlib.GOENV, timeout=600)
    if "C06PTRKEY-OK" not in probe.stdout:
        if ck.findings.get("F-C06-5", {}).get("status") == "open":
            ck.known["F-C06-5"] = 1
        else:
            ck.violations.append(({"t": "div", "prop": PROP, "api": "json.Marshal(map[*K]int, *K with MarshalText)", "want": "what encoding/json writes",
                                   "got": (probe.stdout + probe.stderr)[:300], "case": {"kind": "ptrkey"}}, 1))
    # fixed finding F-C06-6: slices of a byte kind whose element type has value-receiver unmarshal methods
    probe = subprocess.run([ck.binary, "c06bytekinds"], stdout=subprocess.PIPE, stderr=subprocess.PIPE, text=True, env=vlib.GOENV, timeout=600)
    if "C06BYTEKINDS-OK" not in probe.stdout:
        ck.violations.append(({"t": "div", "prop": PROP, "api": "json.Unmarshal(*[]B, B of kind uint8 with a value-receiver UnmarshalJSON)", "want": "what encoding/json does",
                               "got": (probe.stdout + probe.stderr)[:300], "case": {"kind": "bytekinds"}}, 1))
    ck.exhaustive = True
    ck.rule = ("TLC enumerates every heap of 3 nodes and up to 3-4 reference edges (pointer / slice / map / interface) with the verdict cyclic or not; "
               "each is built from map[string]any, []any, *map and interface values and marshalled by value and by pointer through Marshal, Append and "
               "Encoder; chains and cycles of length 1..2500 around the detector's threshold, also through a self-referential struct type; every "
               "JsonGrammar document with its completion truncated at every offset and corrupted, into 9 targets through Valid, Tokenizer, Unmarshal, "
               "Parse and Decoder; nesting depths 10^2..10^6(10^7); every JsonTypes shape value by value and by pointer. Monitors: recover, a 20 s "
               "watchdog, a 512 MiB stack cap, and the supervisor attributing fatal errors to single vectors")
    ck.assumptions = ["absence of panics / faults / hangs is shown for the explored inputs only",
                      "RawValue.Unquote / AppendUnquote are documented to panic and are not called on malformed input"]
    return ck.finish()


def replay(path, seed):
    return generic_replay(PROP, path, seed)
