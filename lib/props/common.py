import json, os, sys
import vlib


def generic_replay(prop, path, seed, **kw):
    """Re-run one stored divergence alone against the real code."""
    binary = vlib.build_harness()
    d = json.load(open(path))
    divs, crash = vlib.replay_case(binary, prop, d["case"], seed=seed, **kw)
    if crash is not None and not divs:
        print("replay: process died:\n" + crash)
        print("VIOLATION property=%s replay=%s" % (prop, path))
        return 1
    hit = [x for x in divs if x.get("api") == d.get("api")] or divs
    if hit:
        for x in hit[:3]:
            print("reproduced: api=%s want=%s got=%s" % (x.get("api"), x.get("want"), x.get("got")))
        print("VIOLATION property=%s replay=%s" % (prop, path))
        return 1
    print("not reproduced on the current tree")
    return 0
