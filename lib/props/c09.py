"""C09 - all packages are safe and deterministic under concurrent first use."""
import os, json, subprocess, re
import vlib

PROP = "C09"


def stress(binary, seed, g, rounds, procs, trace=None, timeout=900):
    cmd = [binary, "c09stress", "-seed", str(seed), "-g", str(g), "-rounds", str(rounds), "-procs", str(procs)]
    if trace:
        cmd += ["-trace", trace]
    try:
        p = subprocess.run(cmd, stdout=subprocess.PIPE, stderr=subprocess.PIPE, text=True, env=vlib.GOENV, timeout=timeout)
    except subprocess.TimeoutExpired:
        # the harness reports calls that do not return by itself (no progress for a minute = "fatal error"); a run that is still
        # making progress after this long is a machine too slow for a verdict
        raise vlib.Infra("c09stress still running after %d s" % timeout)
    divs, summ = [], None
    for line in p.stdout.splitlines():
        if line.startswith('{"t":"div"'):
            divs.append(json.loads(line))
        elif line.startswith('{"t":"sum"'):
            summ = json.loads(line)
    return p.returncode, divs, summ, p.stderr


def one_run(ck, binary, seed, g, rounds, procs, label):
    tr = vlib.vecpath(PROP, "trace-%s" % label)
    rc, divs, summ, err = stress(binary, seed, g, rounds, procs, trace=tr)
    if rc != 0 or summ is None:
        # a fatal runtime error (concurrent map read and map write, ...) is a verdict, a missing binary is not
        if "fatal error" in err or "panic" in err or "DATA RACE" in err:
            return [{"t": "div", "prop": PROP, "api": "process(%s)" % label, "want": "no fatal error", "got": err[-600:],
                     "case": {"seed": seed, "g": g, "rounds": rounds, "procs": procs}}], 0, None
        raise vlib.Infra("c09stress failed rc=%s: %s" % (rc, err[-2000:]))
    ck.evals += summ["evals"]
    rejected = None
    if os.path.exists(tr):
        ok, rej, res = vlib.validate_trace("TraceConcurrency", "Trace_Concurrency.cfg", tr, timeout=900)
        ck.add_mc(res, "Trace_Concurrency(%s, %d events)" % (label, summ["events"]))
        ck.notes["trace_events"] = ck.notes.get("trace_events", 0) + summ["events"]
        if ok:
            ck.traces += 1
        else:
            lines = open(tr).read().splitlines()
            rejected = {"at": rej, "events": lines[max(0, (rej or 1) - 6):(rej or 1)]}
        os.unlink(tr)
    return divs, summ["events"], rejected


def run(tier, seed):
    ck = vlib.Check(PROP, tier, seed)
    thorough = tier == "thorough"
    for cfg, what in (("MC_CowCache.cfg", "copy-on-write cache, lock-free (json, proto codec, thrift)"),
                      ("MC_CowCacheLocked.cfg", "copy-on-write cache behind a mutex with a second check (proto.TypeOf)")):
        r = vlib.must_hold(vlib.tlc("CowCache", cfg, timeout=3000, tag="CowCache-" + cfg[:-4],
                                    defines={"MaxCalls": 3 if thorough and "Locked" in cfg else 2}), what)
        ck.add_mc(r, cfg[:-4])
    # vacuity witness: in the lock-free variant a lost update IS reachable (so the model exercises the race it tolerates)
    lu = vlib.tlc("CowCache", "MC_CowCacheLostUpdate.cfg", timeout=600, tag="CowCache-lu")
    if lu.ok or lu.violation != "NoLostUpdate":
        raise vlib.Infra("the lost-update interleaving is not reachable in CowCache: the model is vacuous")
    ck.add_mc(lu, "MC_CowCacheLostUpdate(reachability witness)")
    # deviation witness: a mutex that only covers the second load loses entries and identities
    eu = vlib.tlc("CowCache", "MC_CowCacheEarlyUnlock.cfg", timeout=600, tag="CowCache-eu")
    if eu.ok or eu.violation not in ("NoLossWhenLocked", "IdentityStableWhenLocked"):
        raise vlib.Infra("CowCache with EarlyUnlock should lose an entry or an identity: the model is vacuous")
    ck.add_mc(eu, "MC_CowCacheEarlyUnlock(deviation witness)")
    # deviation witness: builders entered in a shared registry before their codecs are built hand out half-built codecs
    rg = vlib.tlc("CowCache", "MC_CowCacheRegistry.cfg", timeout=600, tag="CowCache-reg")
    if rg.ok or rg.violation not in ("PublishedComplete", "UsesOwnCompleteCodec"):
        raise vlib.Infra("CowCache with Registry should publish or use an incomplete codec: the model is vacuous")
    ck.add_mc(rg, "MC_CowCacheRegistry(deviation witness)")
    ck.binary = vlib.build_harness()
    race = vlib.build_harness(race=True)
    # TLC enumerates the interleavings of the visible cache steps; each is forced on real goroutines (gated replay)
    sched = vlib.vecpath(PROP, "sched")
    raw = sched + ".raw"
    with open(raw, "w") as sink:
        for locked in ("FALSE", "TRUE"):
            for calls in ((1, 2) if thorough or locked == "FALSE" else (1,)):
                g = vlib.must_hold(vlib.tlc("CowCacheSched", "Gen_CowCacheSched.cfg", sink=sink, timeout=1500,
                                            tag="CowCacheSched-%s-%d" % (locked, calls),
                                            defines={"Locked": locked, "MaxCalls": calls}), "schedule generation")
                ck.add_mc(g, "Gen_CowCacheSched(Locked=%s, MaxCalls=%d)" % (locked, calls))
    uniq = sorted(set(open(raw).read().splitlines()))
    os.unlink(raw)
    with open(sched, "w") as f:
        f.write("".join(x + "\n" for x in uniq))
    kept, total = vlib.cap_vectors(sched, 4000 if thorough else 700, seed)
    ck.notes["schedules"] = {"distinct": total, "replayed": kept}
    # schedules of the early-unlock deviation that the mutex forbids: the replay must prove them infeasible on the real
    # goroutines (a goroutine sent to its locked load while another sits between its locked load and its store must
    # not arrive), and whatever happens TypeOf must hand out one Type per Go type
    import json as _json
    import random as _random
    allowed = set(_json.dumps(_json.loads(x)["sched"]) for x in uniq if '"locked":true' in x)
    forb = []
    for calls in ((1, 2) if thorough else (1,)):
        with open(raw, "w") as sink:
            g = vlib.must_hold(vlib.tlc("CowCacheSched", "Gen_CowCacheSched.cfg", sink=sink, timeout=1500, tag="CowCacheSched-early-%d" % calls,
                                        defines={"Locked": "TRUE", "EarlyUnlock": "TRUE", "MaxCalls": calls}), "schedules of the early-unlock deviation")
        ck.add_mc(g, "Gen_CowCacheSched(EarlyUnlock, MaxCalls=%d)" % calls)
        for x in sorted(set(open(raw).read().splitlines())):
            d = _json.loads(x)
            if _json.dumps(d["sched"]) not in allowed:
                d["forbidden"] = True
                forb.append(_json.dumps(d))
        os.unlink(raw)
    if not forb:
        raise vlib.Infra("the early-unlock deviation has no schedule that the mutex forbids: the probe is vacuous")
    _random.Random(seed).shuffle(forb)
    forb = forb[:(150 if thorough else 16)]
    with open(sched, "a") as f:
        f.write("".join(x + "\n" for x in forb))
    ck.notes["schedules"]["forbidden_probed"] = len(forb)
    drift = None
    for b in (ck.binary, race):
        rr = vlib.run_harness(b, PROP, sched, seed=seed, tier=tier, shards=1, timeout=2400, isolate=True)
        ck.triage(rr.divs, binary=b)
        try:
            ck.absorb(rr)
        except vlib.Infra as e:
            # the code left the protocol of the model: no verdict from the model - unless this run, here or in the
            # stress below, also shows the property itself broken (wrong result, published map mutated)
            drift = drift or e
    os.unlink(sched)
    rounds = 40 if thorough else 12
    for procs in (1, 2, 4, 16):
        for k in range(3 if thorough else 1):
            label = "p%d-%d" % (procs, k)
            divs, events, rejected = one_run(ck, ck.binary, seed * 100 + procs * 10 + k, 4 if procs < 16 else 8, rounds, procs, label)
            for d in divs:
                ck.violations.append((d, 1))
            if rejected:
                # reproduce: the same parameters again (schedules differ; up to 5 attempts)
                again = None
                for attempt in range(5):
                    d2, e2, r2 = one_run(ck, ck.binary, seed * 100 + procs * 10 + k, 4 if procs < 16 else 8, rounds, procs, label + "-re%d" % attempt)
                    if r2:
                        again = r2
                        break
                if again:
                    ck.violations.append(({"t": "div", "prop": PROP, "api": "caches/pools(trace)", "want": "a behaviour of TraceConcurrency",
                                           "got": "event %s not explained: %s" % (again["at"], again["events"][-1] if again["events"] else "?"),
                                           "case": {"seed": seed, "procs": procs, "events": again["events"]}}, 1))
                else:
                    ck.unconfirmed += 1
    # the same schedule generator under the race detector
    for procs in ((4, 16) if not thorough else (2, 4, 16)):
        rc, divs, summ, err = stress(race, seed * 7 + procs, 8, rounds, procs)
        ck.notes["race_detector_runs"] = ck.notes.get("race_detector_runs", 0) + 1
        if "DATA RACE" in err or "fatal error" in err:
            ck.violations.append(({"t": "div", "prop": PROP, "api": "race detector", "want": "no data race", "got": err[:800],
                                   "case": {"seed": seed, "procs": procs, "race": True}}, 1))
        elif rc != 0 or summ is None:
            raise vlib.Infra("race build failed: " + err[-1500:])
        else:
            ck.evals += summ["evals"]
            for d in divs:
                ck.violations.append((d, 1))
    if drift is not None and not ck.violations:
        raise drift
    ck.distinct += ck.traces + ck.notes.get("race_detector_runs", 0)
    ck.samples = [{"trace_event": '{"seq":2,"ev":"store","cache":"thrift.encoder","g":1,"id":1,"n":1}'},
                  {"schedule": "G goroutines x 3 fresh types x 8 entry points behind a barrier, GOMAXPROCS 1/2/4/16"}]
    ck.rule = ("TLC explores all interleavings of 3 goroutines x 2 types x 2 calls of the copy-on-write cache model (lock-free and mutex variants) "
               "and shows the tolerated lost update reachable; TLC enumerates every interleaving of the visible cache steps (load, load behind "
               "the mutex, store) of 2 goroutines x 2 types x 1..2 calls (spec/CowCacheSched.tla) and each is forced on real goroutines "
               "through blocking cache hooks on json, proto codec, proto.TypeOf, thrift encoder and decoder caches - the steps must be "
               "reachable in that order, the results right and the published map afterwards (hits of follow-up calls) the model's, lost "
               "updates included, also under the race detector; the real packages are stressed with fresh reflect.StructOf types behind a barrier "
               "at GOMAXPROCS 1/2/4/16 (each round begins with every goroutine's first call on one big fresh type - 36 fields over six nested "
               "struct types - and on a type that holds it, let go together: the deviation Registry of the model), every result compared with the same call made alone, the cache/pool hook trace validated by TLC against "
               "spec/TraceConcurrency.tla, and the same workload run under the race detector. distinct_nontrivial = traces validated + race runs")
    ck.assumptions = ["free-running schedules are sampled, not enumerated: absence of races is shown for the explored executions only",
                      "map and object identities are addresses; GC is off while a trace is recorded so that addresses are not reused"]
    return ck.finish()


def replay(path, seed):
    d = json.load(open(path))
    c = d.get("case", {})
    if "vec" in c:
        from props.common import generic_replay
        return generic_replay(PROP, path, seed)
    binary = vlib.build_harness(race=bool(c.get("race")))
    ck = vlib.Check(PROP, "quick", seed)
    for attempt in range(5):
        divs, events, rejected = one_run(ck, binary, c.get("seed", seed), 8, 20, c.get("procs", 4), "replay%d" % attempt)
        if divs or rejected:
            print("VIOLATION property=%s replay=%s" % (PROP, path))
            return 1
    print("not reproduced on the current tree in 5 attempts")
    return 0
