"""C10 - json memory ownership: inputs untouched, results stable, aliasing opt-in."""
import os
import vlib
from props.common import generic_replay

PROP = "C10"


def run(tier, seed):
    ck = vlib.Check(PROP, tier, seed)
    thorough = tier == "thorough"
    steps = 5 if thorough else 4
    mc = vlib.must_hold(vlib.tlc("JsonMemory", "MC_JsonMemory.cfg", workers=8, defines={"MaxSteps": steps}), "JsonMemory invariants")
    ck.add_mc(mc, "MC_JsonMemory")
    w = vlib.tlc("JsonMemory", "MC_JsonMemoryAtEnd.cfg", workers=2, expect_violation=True)
    if w.ok or w.violation != "NeverPoolOrDecBuf":
        raise vlib.Infra("JsonMemory with values decoded in place at the end of the buffered data should violate NeverPoolOrDecBuf: the model is vacuous")
    ck.add_mc(w, "MC_JsonMemoryAtEnd(vacuity witness)")
    vec = vlib.vecpath(PROP, "gen")
    with open(vec, "w") as sink:
        g = vlib.must_hold(vlib.tlc("JsonMemory", "Gen_JsonMemory.cfg", workers=8, sink=sink, defines={"MaxSteps": steps}, timeout=3000), "histories")
    ck.add_mc(g, "Gen_JsonMemory")
    ck.notes["histories"] = g.vectors
    # wide mode: the ownership clauses on every type shape of JsonTypes with its documents and values
    with open(vec, "a") as sink:
        gt = vlib.must_hold(vlib.tlc("JsonTypes", "Gen_JsonTypes.cfg", workers=8, sink=sink, tag="JsonTypes-c10"), "shapes")
    ck.add_mc(gt, "Gen_JsonTypes(for C10)")
    ck.binary = vlib.build_harness()
    rr = vlib.run_harness(ck.binary, PROP, vec, seed=seed, tier=tier, shards=4, timeout=3000)
    ck.absorb(rr)
    ck.triage(rr.divs, rerun=rr.again)
    os.unlink(vec)
    ck.exhaustive = True
    ck.rule = ("TLC enumerates every history of %d steps over marshal / unmarshal(input, zero-copy or not) / decode(kind of target; the value ends inside "
               "the Decoder's buffered data, or exactly where it ends while more input is to come - the harness cuts the stream into pieces accordingly) / "
               "tokstring / overwrite(input) / churn with 2 lent inputs and predicts after each step which results may have changed; each history is executed on the real package "
               "with snapshots of every result (strings, Numbers, RawMessages, []byte, map keys, interface contents, Encoder output) and of every "
               "lent input; plus, for every type shape of spec/JsonTypes.tla (depth 2, all kinds) and each of its documents (valid, mutated, null at "
               "every position, quoted numbers with leading zeros and escapes) and values: the lent input is unchanged after Parse (flag subsets) / "
               "Unmarshal / Tokenizer / Valid, decoded values keep their contents under further calls and (without zero-copy flags) under overwriting "
               "of the input, and the results of Marshal / Append / Encoder.Encode - outputs above 64 KiB included - keep theirs. "
               "distinct_nontrivial = histories + shapes replayed" % steps)
    ck.assumptions = ["a Decoder is only used without zero-copy flags (with them its own read buffer is 'the input', which the property leaves open)",
                      "churn = 64 Marshal calls, 8 Encoder.Encode calls and up to 9 further Decodes incl. a value larger than the read buffer"]
    return ck.finish()


def replay(path, seed):
    return generic_replay(PROP, path, seed)
