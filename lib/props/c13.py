from props import thriftcommon, varint
from props.common import generic_replay

PROP = "C13"
RULE = {
 "C13": "TLC enumerates struct layouts (field ids incl. 15/16/17, 70, 300, 32767; every thrift type; required / pointer options) x values and computes, from the protocol specifications written in spec/ThriftWire.tla, the prescribed bytes for the binary and compact protocols (structure as literal bytes, scalars as symbolic leaves), the long-form alternative, and the same under the recorded as-is switches; plus all message headers. The real Writers, Marshal, Readers and Unmarshal are compared byte for byte. distinct_nontrivial = distinct vectors",
 "C04": "same layouts x values: Marshal/Unmarshal round trip in binary strict, binary non-strict and compact, by value and by pointer, lists stretched across the 14/15-element short form, and Encoder/Decoder Reset/SetStrict histories compared with fresh ones",
 "C08": "same layouts x values: the content re-written with unknown fields of every thrift type and nesting around the target's ids, every prefix of the encoding (crash points), a trailing byte, each required field dropped, each field written with another wire type (strict), and seeded size/length damage with an allocation meter",
}[PROP]
ASSUME = ["no reference implementation of Thrift is available offline: only clauses of the published protocol specifications that are certain are encoded (bool elements inside compact containers are not generated)",
          "scalar ids are lifted to the boundary tables in harness/thriftshape.go"]


def run(tier, seed):
    return thriftcommon.run(PROP, tier, seed, RULE + varint.RULES[PROP], ASSUME, shards=4, isolate=(PROP != "C13"),
                            vlimit_kb=(6000000 if PROP == "C08" else None),
                            map_entries=(1 if PROP == "C13" else 2), extra_vec=varint.adder(tier))   # byte-exact comparison needs a fixed member order


def replay(path, seed):
    return generic_replay(PROP, path, seed, vlimit_kb=(6000000 if PROP == "C08" else None))
