from props import jsoncommon
from props.common import generic_replay

PROP = "C01"
RULE = ("TLC enumerates type shapes of spec/JsonTypes.tla (25 leaf kinds incl. Number, RawMessage, time.Time, interface{}, named types with "
        "Marshaler / TextMarshaler methods on value and pointer receivers; pointer, slice, array, three map key families, plain and option-"
        "carrying structs as constructors; depth 2 over all kinds, deeper over a seeded subset) and the embedding scenarios of "
        "spec/JsonFields.tla with the predicted visible fields; each shape is materialised with reflect and a bounded list of boundary "
        "values is encoded by value and by pointer through Marshal, Append, Encoder x {EscapeHTML} x {indent/prefix}, MarshalIndent and "
        "Escape/AppendEscape and compared byte for byte with encoding/json. distinct_nontrivial = distinct shapes / scenarios")
ASSUME = ["encoding/json is the oracle of record (the property is defined as agreement with it); it must agree with JsonFields.Visible",
          "time.Duration (the sanctioned difference) is not generated"]


def run(tier, seed):
    return jsoncommon.run(PROP, tier, seed, RULE, ASSUME)


def replay(path, seed):
    return generic_replay(PROP, path, seed)
