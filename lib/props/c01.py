import os
from props import jsoncommon
from props.common import generic_replay

PROP = "C01"
RULE = ("TLC enumerates type shapes of spec/JsonTypes.tla (25 leaf kinds incl. Number, RawMessage, time.Time, interface{}, named types with "
        "Marshaler / TextMarshaler methods on value and pointer receivers; pointer, slice, array, three map key families, plain and option-"
        "carrying structs as constructors; depth 2 over all kinds, deeper over a seeded subset) and the embedding scenarios of "
        "spec/JsonFields.tla with the predicted visible fields; each shape is materialised with reflect and a bounded list of boundary "
        "values is encoded by value and by pointer through Marshal, Append, Encoder x {EscapeHTML} x {indent/prefix}, MarshalIndent and "
        "Escape/AppendEscape and compared byte for byte with encoding/json; plus spec/JsonString.tla: the escape algorithm (word scan, tail, span "
        "copies) refines the definition of a string literal for all unit sequences (17 unit classes: plain, quote, backslash, short and other "
        "controls, html, 2/3/4-byte runes, U+FFFD, U+2028/9, invalid bytes and truncated / surrogate sequences), and every sequence of up to "
        "3 (thorough 4) units x EscapeHTML, rendered with several concrete bytes per unit and padded so that each unit visits every offset of "
        "the scanner's 8-byte words, must be written as the predicted literal by Marshal, Append, AppendEscape, Escape, Encoder and MarshalIndent, "
        "as a value, element, field value, map key and map value; plus spec/JsonEncoderStream.tla: every history of up to 4 (thorough 5) calls on "
        "one Encoder (values that can and cannot be encoded, SetEscapeHTML, SetIndent, a writer that refuses a Write) replayed into the Encoder and "
        "into encoding/json's, returns and bytes compared per call with the specification's; plus spec/Base64.tla: the text its writer produces for "
        "every byte string of up to 3 (thorough 4) bytes over {0, 65, 251, 255} behind 0, 11 (and 22) fixed groups is what Marshal, Append, Encoder and "
        "MarshalIndent write for the bytes as a value, named type, behind a pointer, as a field, element, map value and in an interface. distinct_nontrivial = distinct shapes / scenarios / unit sequences")
ASSUME = ["encoding/json is the oracle of record (the property is defined as agreement with it); it must agree with JsonFields.Visible",
          "time.Duration (the sanctioned difference) is not generated"]


def extra(ck, vec):
    # string literals: the escape algorithm against its definition, then every unit sequence with the literal the definition gives
    import vlib
    thorough = ck.tier == "thorough"
    mc = vlib.must_hold(vlib.tlc("JsonString", "MC_JsonString.cfg", workers=8, defines={"MaxUnits": 5 if thorough else 4,
                                                                                      "EscUnits": STR_SUB if thorough else "{}"}),
                        "JsonString: escape algorithm refines the definition")
    ck.add_mc(mc, "MC_JsonString")
    w = vlib.tlc("JsonString", "MC_JsonStringBroken.cfg", workers=4, expect_violation=True)
    if w.ok:
        raise vlib.Infra("JsonString with a tail scan that starts one byte late should violate its invariants: the model is vacuous")
    ck.add_mc(w, "MC_JsonStringBroken(vacuity witness)")
    with open(vec, "a") as sink:
        g = vlib.must_hold(vlib.tlc("JsonString", "Gen_JsonString.cfg", workers=8, sink=sink, defines={"MaxUnits": 4 if thorough else 3},
                                    timeout=3000), "string literals (escape)")
    ck.add_mc(g, "Gen_JsonString")
    ck.notes["string_unit_sequences"] = g.vectors
    # one Encoder over a history of calls: values that cannot be encoded, settings changed on the way, a writer that refuses a Write
    ops = {"MaxOps": 5 if thorough else 4}
    mc = vlib.must_hold(vlib.tlc("JsonEncoderStream", "MC_JsonEncoderStream.cfg", workers=4, defines=ops),
                        "JsonEncoderStream: output is the successes, value errors pass, write errors are reported and stick")
    ck.add_mc(mc, "MC_JsonEncoderStream")
    for cfg, inv, what in (("MC_JsonEncoderStreamShadow.cfg", "OutputIsSuccesses", "a failed Write reported as success"),
                           ("MC_JsonEncoderStreamSticky.cfg", "ValueErrorsPass", "an encoding error that sticks")):
        w = vlib.tlc("JsonEncoderStream", cfg, workers=4, expect_violation=True)
        if w.ok or w.violation != inv:
            raise vlib.Infra("JsonEncoderStream with %s (%s) should violate %s: the model is vacuous" % (cfg, what, inv))
        ck.add_mc(w, cfg[:-4] + "(vacuity witness)")
    with open(vec, "a") as sink:
        g = vlib.must_hold(vlib.tlc("JsonEncoderStream", "Gen_JsonEncoderStream.cfg", workers=4, sink=sink, defines=ops), "encoder histories")
    ck.add_mc(g, "Gen_JsonEncoderStream")
    ck.notes["encoder_histories"] = g.vectors
    # the text of a []byte: the writer of spec/Base64.tla, one group per step (the reader's half is decided in C02)
    b64 = jsoncommon.base64_defines(thorough)
    mc = vlib.must_hold(vlib.tlc("Base64", "MC_Base64.cfg", workers=8, defines=b64, timeout=3000),
                        "Base64: length and padding laws, round trip, line breaks invisible, damaged padding rejected")
    ck.add_mc(mc, "MC_Base64")
    w = vlib.tlc("Base64", "MC_Base64DropTail.cfg", workers=4, expect_violation=True)
    if w.ok or w.violation != "RoundTrip":
        raise vlib.Infra("Base64 with a writer that forgets the last group should violate RoundTrip: the model is vacuous")
    ck.add_mc(w, "MC_Base64DropTail(vacuity witness)")
    raw = vec + ".b64"
    with open(raw, "w") as sink:
        g = vlib.must_hold(vlib.tlc("Base64", "Gen_Base64.cfg", workers=8, sink=sink, defines=b64, timeout=3000), "base64 texts")
    ck.add_mc(g, "Gen_Base64")
    n = 0
    with open(vec, "a") as sink:
        for line in open(raw):
            if '"b64":"canon"' in line:
                sink.write(line)
                n += 1
    os.unlink(raw)
    ck.notes["base64_texts"] = n


STR_SUB = '{"a", "q", "sc", "c", "h", "r2", "r4", "ls", "x", "tr"}'


def run(tier, seed):
    return jsoncommon.run(PROP, tier, seed, RULE, ASSUME, extra_vec=extra)


def replay(path, seed):
    return generic_replay(PROP, path, seed)
