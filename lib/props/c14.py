import vlib
from props import jsoncommon
from props.common import generic_replay

PROP = "C14"
RULE = ("spec/JsonFlags.tla: the table number class x {UseNumber, UseBigInt, UseInt64, UseUint64} subsets -> dynamic type (96 rows, each with "
        "boundary literals, bare and inside arrays/objects), the configuration lattice, and the fault table (8 faults - a raw message or a marshal "
        "method's output that is not JSON, failing methods, a channel, an infinity, a Number that is none - x 6 places x 8 flag subsets with the "
        "verdict fails / does not fail and the domain of the property; invariant ErrorParity; witness: a TrustRawMessage that covers method output); spec/JsonTypes.tla shapes: every boundary value encoded "
        "under all 8 AppendFlags subsets (error iff default errors, valid JSON, same generic value, exact bytes of encoding/json's Encoder without "
        "HTML escaping, permutation when unsorted), Encoder setters, and the default output parsed back under all 16 subsets of the copy / case flags; "
        "spec/JsonString.tla: unit sequences (17 classes) with each unit at every offset of the encoder's 8-byte words, under all 8 subsets, byte for "
        "byte against encoding/json's Encoder with the same EscapeHTML setting")
ASSUME = ["TrustRawMessage subsets are only run on values whose default encoding succeeds", "generic values are compared after decoding with encoding/json and UseNumber"]


def extra(ck, vec):
    mc = vlib.must_hold(vlib.tlc("JsonFlags", "MC_JsonFlags.cfg", workers=4), "JsonFlags decision table properties")
    ck.add_mc(mc, "MC_JsonFlags")
    w = vlib.tlc("JsonFlags", "MC_JsonFlagsTrustAll.cfg", workers=2, expect_violation=True)
    if w.ok or w.violation != "ErrorParity":
        raise vlib.Infra("JsonFlags with a TrustRawMessage that also switches off the check of marshal methods should violate ErrorParity: the model is vacuous")
    ck.add_mc(w, "MC_JsonFlagsTrustAll(vacuity witness)")
    with open(vec, "a") as sink:
        g = vlib.must_hold(vlib.tlc("JsonFlags", "Gen_JsonFlags.cfg", workers=4, sink=sink), "flag tables")
    ck.add_mc(g, "Gen_JsonFlags")
    # strings: every sequence of up to 2 (thorough 3) of the 17 string-unit classes of spec/JsonString.tla, each unit at every offset
    # of the scanner's words, under every flag subset
    with open(vec, "a") as sink:
        gs = vlib.must_hold(vlib.tlc("JsonString", "Gen_JsonString.cfg", workers=8, sink=sink, tag="JsonString-c14", timeout=3000,
                                     defines={"MaxUnits": 3 if ck.tier == "thorough" else 2}), "string units")
    ck.add_mc(gs, "Gen_JsonString(for C14)")


def run(tier, seed):
    return jsoncommon.run(PROP, tier, seed, RULE, ASSUME, fields=False, extra_vec=extra)


def replay(path, seed):
    return generic_replay(PROP, path, seed)
