import vlib
from props import jsoncommon
from props.common import generic_replay

PROP = "C14"
RULE = ("spec/JsonFlags.tla: the table number class x {UseNumber, UseBigInt, UseInt64, UseUint64} subsets -> dynamic type (96 rows, each with "
        "boundary literals, bare and inside arrays/objects) and the configuration lattice; spec/JsonTypes.tla shapes: every boundary value encoded "
        "under all 8 AppendFlags subsets (error iff default errors, valid JSON, same generic value, exact bytes of encoding/json's Encoder without "
        "HTML escaping, permutation when unsorted), Encoder setters, and the default output parsed back under all 16 subsets of the copy / case flags")
ASSUME = ["TrustRawMessage subsets are only run on values whose default encoding succeeds", "generic values are compared after decoding with encoding/json and UseNumber"]


def extra(ck, vec):
    mc = vlib.must_hold(vlib.tlc("JsonFlags", "MC_JsonFlags.cfg", workers=4), "JsonFlags decision table properties")
    ck.add_mc(mc, "MC_JsonFlags")
    with open(vec, "a") as sink:
        g = vlib.must_hold(vlib.tlc("JsonFlags", "Gen_JsonFlags.cfg", workers=4, sink=sink), "flag tables")
    ck.add_mc(g, "Gen_JsonFlags")


def run(tier, seed):
    return jsoncommon.run(PROP, tier, seed, RULE, ASSUME, fields=False, extra_vec=extra)


def replay(path, seed):
    return generic_replay(PROP, path, seed)
