"""C17 - json.Tokenizer enumerates exactly the tokens of the document."""
import os, json, subprocess
import vlib
from props.common import generic_replay

PROP = "C17"


def record(binary, seed, n, out, idx, vec=None, only=None):
    cmd = [binary, "c17trace", "-seed", str(seed), "-n", str(n), "-out", out, "-index", idx]
    if vec:
        cmd += ["-vec", vec]
    if only is not None:
        cmd += ["-only", str(only)]
    p = subprocess.run(cmd, stdout=subprocess.PIPE, stderr=subprocess.PIPE, text=True, env=vlib.GOENV)
    if p.returncode != 0:
        raise vlib.Infra("c17trace failed: " + p.stderr[-2000:])
    return json.loads(p.stdout.strip().splitlines()[-1])


def check_trace(ck, binary, seed, n, vec):
    tr = vlib.vecpath(PROP, "trace")
    idx = tr + ".idx"
    info = record(binary, seed, n, tr, idx, vec)
    ok, rej, res = vlib.validate_trace("TraceJsonTokenizer", "Trace_JsonTokenizer.cfg", tr)
    ck.add_mc(res, "Trace_JsonTokenizer(%d events)" % info["events"])
    ck.notes["trace_events"] = ck.notes.get("trace_events", 0) + info["events"]
    if ok:
        ck.traces += n
        os.unlink(tr); os.unlink(idx)
        return
    # locate the history containing the first unexplained event, re-record it alone, validate again
    hist = None
    for line in open(idx):
        h = json.loads(line)
        if rej is not None and h["first"] <= rej <= h["last"]:
            hist = h
    events = open(tr).read().splitlines()
    os.unlink(tr); os.unlink(idx)
    if hist is None:
        raise vlib.Infra("trace rejected at %s but no history matches" % rej)
    tr2 = vlib.vecpath(PROP, "trace1")
    record(binary, seed, n, tr2, tr2 + ".idx", vec, only=hist["h"])
    ok2, rej2, res2 = vlib.validate_trace("TraceJsonTokenizer", "Trace_JsonTokenizer.cfg", tr2)
    ev2 = open(tr2).read().splitlines()
    os.unlink(tr2); os.unlink(tr2 + ".idx")
    if ok2:
        ck.unconfirmed += 1
        vlib.log("trace rejection not reproduced for history %s" % hist)
        return
    d = {"t": "div", "prop": PROP, "api": "Tokenizer(trace)", "want": "a behaviour of TraceJsonTokenizer",
         "got": "event %d not explained: %s" % (rej2, ev2[rej2 - 1] if 0 < rej2 <= len(ev2) else "?"),
         "case": {"kind": "trace", "seed": seed, "n": n, "h": hist["h"], "hist": hist["hist"], "events": ev2[:rej2]}}
    ck.violations.append((d, 1))


def run(tier, seed):
    ck = vlib.Check(PROP, tier, seed)
    thorough = tier == "thorough"
    mc = vlib.must_hold(vlib.tlc("JsonTokenizer", "MC_JsonTokenizer.cfg", workers=8,
                                 defines={"MaxTok": 14 if thorough else 12}), "JsonTokenizer design invariants")
    ck.add_mc(mc, "MC_JsonTokenizer")
    vec = vlib.vecpath(PROP, "gen")
    with open(vec, "w") as sink:
        gen = vlib.must_hold(vlib.tlc("JsonTokenizer", "Gen_JsonTokenizer.cfg", workers=8, sink=sink,
                                      defines={"MaxTok": 14 if thorough else 12}), "JsonTokenizer generation")
    ck.add_mc(gen, "Gen_JsonTokenizer")
    if gen.vectors == 0:
        raise vlib.Infra("no vectors")
    ck.binary = vlib.build_harness()
    rr = vlib.run_harness(ck.binary, PROP, vec, seed=seed, tier=tier, shards=2)
    ck.absorb(rr)
    ck.triage(rr.divs, rerun=rr.again)
    # string tokens in depth: the literal units of spec/JsonString.tla with the meaning the definition gives
    lit = vlib.vecpath(PROP, "literals")
    with open(lit, "w") as sink:
        g2 = vlib.must_hold(vlib.tlc("JsonString", "Gen_JsonStringUnesc.cfg", workers=8, sink=sink, tag="JsonString-c17-2"), "literal units (2)")
        sub = '{"a","r3","x","tr","e_c","e_bs","u_asc","u_hi","u_lo","u_r3","u_sc"}' if not thorough else "{}"
        g3 = vlib.must_hold(vlib.tlc("JsonString", "Gen_JsonStringUnesc.cfg", workers=8, sink=sink, tag="JsonString-c17-3",
                                     defines={"MaxUnits": 3, "UnescUnits": sub}, timeout=3000), "literal units (3)")
    ck.add_mc(g2, "Gen_JsonStringUnesc(2 units)")
    ck.add_mc(g3, "Gen_JsonStringUnesc(3 units)")
    rr2 = vlib.run_harness(ck.binary, PROP, lit, seed=seed, tier=tier, shards=2, extra_args=["-noextra"])
    ck.absorb(rr2)
    ck.triage(rr2.divs, rerun=rr2.again)
    os.unlink(lit)
    # code -> spec: recorded traces of the real Tokenizer validated by TLC
    for k in range(4 if thorough else 1):
        check_trace(ck, ck.binary, seed * 1000 + k, 3000 if thorough else 1500, vec)
    os.unlink(vec)
    ck.exhaustive = True
    ck.rule = ("TLC enumerates every complete token-level JSON document up to MaxTok tokens with the definition's "
               "Depth/Index/IsKey; each is lifted to bytes 4-8 ways (scalar variants, whitespace) and the real Tokenizer "
               "is stepped through it; plus TLC trace validation of recorded executions over arbitrary byte strings and "
               "Reset histories; plus the literal-unit sequences of spec/JsonString.tla as string tokens (alone, element, member name and value): "
               "String / RawValue.Unquote give the meaning the definition gives. distinct_nontrivial = distinct token documents replayed")
    ck.assumptions = ["encoding/json's Decoder.Token stream cross-checks the definition on every document (disagreement = exit 2)"]
    return ck.finish()


def replay(path, seed):
    d = json.load(open(path))
    if d.get("case", {}).get("kind") == "trace":
        binary = vlib.build_harness()
        c = d["case"]
        tr = vlib.vecpath(PROP, "replay")
        record(binary, c["seed"], c["n"], tr, tr + ".idx", None, only=c["h"])
        ok, rej, res = vlib.validate_trace("TraceJsonTokenizer", "Trace_JsonTokenizer.cfg", tr)
        os.unlink(tr); os.unlink(tr + ".idx")
        if ok:
            print("not reproduced on the current tree")
            return 0
        print("VIOLATION property=%s replay=%s" % (PROP, path))
        return 1
    return generic_replay(PROP, path, seed)
