"""C05 - json.Valid and every syntax-only path accept exactly RFC 8259 JSON."""
import os
import vlib
from props.common import generic_replay

PROP = "C05"


def run(tier, seed):
    ck = vlib.Check(PROP, tier, seed)
    thorough = tier == "thorough"
    # 1. design: the recogniser's own invariants and lifting lemmas (exhaustive, small constants)
    mc = vlib.must_hold(vlib.tlc("JsonGrammar", "MC_JsonGrammar.cfg", workers=8,
                                 defines={"MaxLen": 7 if thorough else 6, "MaxWS": 2}),
                        "JsonGrammar invariants")
    ck.add_mc(mc, "MC_JsonGrammar")
    # 2. behaviours: every viable prefix up to MaxLen with verdict, killing classes, completion
    vec = vlib.vecpath(PROP, "gen")
    with open(vec, "w") as sink:
        gen = vlib.must_hold(vlib.tlc("JsonGrammar", "Gen_JsonGrammar.cfg", workers=vlib.NCPU, sink=sink,
                                      defines={"MaxLen": 8 if thorough else 6, "MaxWS": 1}, timeout=3000),
                             "JsonGrammar generation")
    ck.add_mc(gen, "Gen_JsonGrammar")
    if gen.vectors == 0:
        raise vlib.Infra("generator emitted no vectors")
    # 2b. string literals in depth: the literal units of spec/JsonString.tla (escapes by class of code point, surrogates and what
    # may follow them, broken escapes) with the verdict WellFormed
    with open(vec, "a") as sink:
        g2 = vlib.must_hold(vlib.tlc("JsonString", "Gen_JsonStringUnesc.cfg", workers=8, sink=sink, tag="JsonString-c05-2"), "literal units (2)")
        sub = '{"a","x","e_c","e_bad","u_asc","u_hi","u_lo","u_short","u_nonhex","ctlraw"}' if not thorough else "{}"
        g3 = vlib.must_hold(vlib.tlc("JsonString", "Gen_JsonStringUnesc.cfg", workers=8, sink=sink, tag="JsonString-c05-3",
                                     defines={"MaxUnits": 3, "UnescUnits": sub}, timeout=3000), "literal units (3)")
    ck.add_mc(g2, "Gen_JsonStringUnesc(2 units)")
    ck.add_mc(g3, "Gen_JsonStringUnesc(3 units)")
    # 3. replay every behaviour through every syntax-only consumer of the real package
    ck.binary = vlib.build_harness()
    rr = vlib.run_harness(ck.binary, PROP, vec, seed=seed, tier=tier, shards=8 if thorough else 4, timeout=3000)
    ck.absorb(rr)
    ck.triage(rr.divs, rerun=rr.again)
    os.unlink(vec)
    ck.exhaustive = True
    ck.rule = ("TLC enumerates every viable prefix of the RFC 8259 language over 30 byte classes up to the bound "
               "(one vector each: verdict, killing classes, completion, 4 wrapped verdicts); each is lifted to bytes "
               "(canonical, seeded representatives, string bodies stretched past the 8/16-byte scans), every killing "
               "class is appended with every representative byte; distinct_nontrivial = number of distinct prefixes "
               "(spec states) replayed; evaluations = consumer calls compared with the spec verdict; plus the literal-unit sequences of "
               "spec/JsonString.tla (37 unit classes: raw bytes, simple escapes, \\uXXXX by class of code point incl. surrogates, four broken "
               "forms) as a document, element, member value and member name with the verdict WellFormed")
    ck.assumptions = ["encoding/json.Valid is cross-checked against the specification on every document (a disagreement aborts with exit 2)",
                      "bytes of one class behave alike up to the representatives listed in harness/c05.go"]
    return ck.finish()


def replay(path, seed):
    return generic_replay(PROP, path, seed)
