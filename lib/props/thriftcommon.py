"""Shared pipeline of the thrift properties that replay spec/ThriftWire.tla vectors."""
import os, random
import vlib

ALL_TYPES = ["BOOL", "I8", "I16", "I32", "I64", "DOUBLE", "BINARY", "STRUCT", "LIST", "SET", "MAP", "ENUM"]
ALL_IDS = [1, 2, 5, 15, 16, 17, 64, 70, 300, 8192, 32767]   # 64 and 8192: the zig-zag of the id crosses a varint byte boundary


def tla_set(xs):
    return "{" + ",".join('"%s"' % x if isinstance(x, str) else str(x) for x in xs) + "}"


def generate(ck, prop, tier, seed, map_entries=2):
    thorough = tier == "thorough"
    one = {"MaxMapEntries": map_entries}
    mc = vlib.must_hold(vlib.tlc("ThriftWire", "MC_ThriftWire.cfg", workers=8, defines=one), "ThriftWire invariants (1 field)")
    ck.add_mc(mc, "MC_ThriftWire")
    # multi-field layouts: exhaustive within a seeded subset of types and ids; the thorough tier takes six subsets
    # (three fields at once: 1.6 M layouts x values for 4 types - measured - so more subsets of two fields instead)
    vec = vlib.vecpath(prop, "gen")
    subsets = []
    with open(vec, "w") as sink:
        g1 = vlib.must_hold(vlib.tlc("ThriftWire", "Gen_ThriftWire.cfg", workers=8, sink=sink, defines=one), "generation (1 field)")
        ck.add_mc(g1, "Gen_ThriftWire(1 field, all types, all ids)")
        ck.notes["first_part"] = g1.vectors
        # an enum-tagged field next to plain fields of the same integer kind (both orders, every option): what one field's tag
        # says must not reach the other uses of its Go type (codecs are cached by Go type while a struct's codec is built);
        # these belong to the part that is never sampled away
        widths = ["I8", "I16", "I32", "I64"]
        if not thorough:
            widths = [widths[seed % 4], widths[(seed + 1) % 4]]
        for w in widths:
            twin = {"MaxMapEntries": map_entries, "MaxFields": 2, "GenTypes": tla_set([w, "ENUM"]), "FieldIds": "{1, 16, 70}", "MaxId": 1}
            gt = vlib.must_hold(vlib.tlc("ThriftWire", "Gen_ThriftWire.cfg", workers=8, sink=sink, defines=twin, tag="ThriftWire-twin-" + w, timeout=3000),
                                "generation (an enum field and plain fields of kind %s)" % w)
            ck.add_mc(gt, "Gen_ThriftWire(2 fields, types %s and ENUM)" % w)
            ck.notes["first_part"] += gt.vectors
            ck.notes["enum_twin_vectors"] = ck.notes.get("enum_twin_vectors", 0) + gt.vectors
        for round_ in range(6 if thorough else 1):
            rnd = random.Random(seed + 1000 * round_)
            types = sorted(rnd.sample(ALL_TYPES, 3))   # (4 types with two-entry maps: over 2 GiB of vectors - measured)
            if "BOOL" not in types:
                types[0] = "BOOL"      # bools interact with deltas in the compact field header: always in
            # always in: 1 and 70 (an id range wider than one bitmap word), 16 and 17 (a long-form header followed by a short delta)
            ids = sorted(set(rnd.sample(ALL_IDS, 1) + [1, 16, 17, 70]))
            multi = {"MaxMapEntries": map_entries, "MaxFields": 2, "GenTypes": tla_set(sorted(set(types))), "FieldIds": tla_set(sorted(set(ids))), "MaxId": 1}
            if round_ == 0:
                mc2 = vlib.must_hold(vlib.tlc("ThriftWire", "MC_ThriftWire.cfg", workers=vlib.NCPU, defines=multi, tag="ThriftWire-mc2", timeout=3000),
                                     "ThriftWire invariants (multi-field)")
                ck.add_mc(mc2, "MC_ThriftWire(multi)")
            g2 = vlib.must_hold(vlib.tlc("ThriftWire", "Gen_ThriftWire.cfg", workers=vlib.NCPU, sink=sink, defines=multi,
                                         tag="ThriftWire-gen2", timeout=3000, max_vectors=400000), "generation (multi-field)")
            ck.add_mc(g2, "Gen_ThriftWire(2 fields, types %s, ids %s%s)" % (",".join(sorted(set(types))), sorted(set(ids)),
                                                                            ", the first %d in breadth-first order (budget: 400000 vectors / 1 GiB)" % g2.vectors if getattr(g2, "truncated", False) else ""))
            subsets.append({"types": sorted(set(types)), "ids": sorted(set(ids))})
    ck.notes["subsets"] = subsets
    return vec


def run(prop, tier, seed, rule, assumptions, shards=4, isolate=False, vlimit_kb=None, map_entries=2, extra_vec=None):
    ck = vlib.Check(prop, tier, seed)
    vec = generate(ck, prop, tier, seed, map_entries=map_entries)
    kept, total = vlib.cap_vectors(vec, 400000 if tier == "thorough" else 40000, seed, keep_first=ck.notes.get("first_part", 0))
    ck.notes["vectors_generated"], ck.notes["vectors_replayed"] = total, kept
    ck.exhaustive_replay = kept == total
    if extra_vec:
        extra_vec(ck, vec)      # further vectors, never sampled away
    ck.binary = vlib.build_harness()
    rr = vlib.run_harness(ck.binary, prop, vec, seed=seed, tier=tier, shards=shards, timeout=3000, isolate=isolate, vlimit_kb=vlimit_kb)
    ck.absorb(rr)
    for cr in rr.crashes:
        ck.violations.append(({"t": "div", "prop": prop, "api": "process", "want": "no fatal error",
                               "got": "fatal: " + cr["stderr"][:400], "case": {"vector_index": cr["index"]}}, 1))
    ck.triage(rr.divs, vlimit_kb=vlimit_kb, rerun=rr.again)
    os.unlink(vec)
    ck.exhaustive = getattr(ck, "exhaustive_replay", True)
    ck.rule = rule
    ck.assumptions = assumptions
    return ck.finish()
