"""C11 - json.Decoder yields the same value stream however the bytes arrive."""
import os, json, glob
import vlib
from props.common import generic_replay

PROP = "C11"


def validate_traces(ck, files, label):
    """Concatenate recorded traces and let TLC validate them against TraceJsonDecoder."""
    cat = vlib.vecpath(PROP, "trace-" + label)
    idx = []
    n = 0
    with open(cat, "w") as out:
        for f in files:
            base = n
            for line in open(f):
                out.write(line)
                n += 1
            for line in open(f + ".idx"):
                o = json.loads(line)
                o["first"] += base
                o["last"] += base
                idx.append(o)
    if n == 0:
        os.unlink(cat)
        return None
    ok, rej, res = vlib.validate_trace("TraceJsonDecoder", "Trace_JsonDecoder.cfg", cat, timeout=1500)
    ck.add_mc(res, "Trace_JsonDecoder(%d events, %d traces)" % (n, len(idx)))
    ck.notes["trace_events"] = ck.notes.get("trace_events", 0) + n
    if ok:
        ck.traces += len(idx)
        os.unlink(cat)
        return None
    events = open(cat).read().splitlines()
    os.unlink(cat)
    if rej is None or rej < 0:
        rej = res.generated  # an invariant failed at the last state reached
    hit = [o for o in idx if o["first"] <= rej <= o["last"]]
    if not hit:
        raise vlib.Infra("trace rejected at event %s, no trace matches" % rej)
    return hit[0], events[hit[0]["first"] - 1:rej], res.violation


def confirm_trace(ck, case):
    """Re-record the single case in a fresh process and validate its trace alone."""
    tr = vlib.vecpath(PROP, "confirm") 
    c = dict(case)
    c["trace"] = True
    divs, crash = vlib.replay_case(ck.binary, PROP, c, seed=ck.seed, env_extra={"VERIF_TRACE_OUT": tr})
    if not os.path.exists(tr):
        return False, []
    ok, rej, res = vlib.validate_trace("TraceJsonDecoder", "Trace_JsonDecoder.cfg", tr)
    ev = open(tr).read().splitlines()
    os.unlink(tr)
    if os.path.exists(tr + ".idx"):
        os.unlink(tr + ".idx")
    return (not ok), ev[:(rej if rej and rej > 0 else len(ev))]


def run(tier, seed):
    ck = vlib.Check(PROP, tier, seed)
    thorough = tier == "thorough"
    mc = vlib.must_hold(vlib.tlc("JsonDecoderStream", "MC_JsonDecoderStream.cfg",
                                 defines={"MaxLen": 7 if thorough else 6, "MaxRead": 3, "MaxCalls": 4}, timeout=3000),
                        "JsonDecoderStream invariants (every buffering policy)")
    ck.add_mc(mc, "MC_JsonDecoderStream")
    vec = vlib.vecpath(PROP, "gen")
    with open(vec, "w") as sink:
        gen = vlib.must_hold(vlib.tlc("JsonDecoderStream", "Gen_JsonDecoderStream.cfg", workers=8, sink=sink,
                                      defines={"MaxLen": 7 if thorough else 6}), "stream generation")
    ck.add_mc(gen, "Gen_JsonDecoderStream")
    if gen.vectors == 0:
        raise vlib.Infra("no vectors")
    ck.binary = vlib.build_harness()
    trbase = vlib.vecpath(PROP, "tr").replace(".ndjson", "")
    rr = vlib.run_harness(ck.binary, PROP, vec, seed=seed, tier=tier, shards=4, timeout=3000,
                          env_extra={"VERIF_TRACE_OUT": trbase, "VERIF_TRACE_PCT": "30" if thorough else "12"})
    ck.absorb(rr)
    ck.triage(rr.divs, rerun=rr.again)
    os.unlink(vec)
    files = sorted(glob.glob(trbase + ".*.ndjson"))
    try:
        bad = validate_traces(ck, files, "all")
    finally:
        for f in files:
            os.unlink(f)
            if os.path.exists(f + ".idx"):
                os.unlink(f + ".idx")
    if bad is not None:
        hit, events, why = bad
        again, ev2 = confirm_trace(ck, hit["case"])
        if again:
            d = {"t": "div", "prop": PROP, "api": "Decoder.readValue(trace)",
                 "want": "a behaviour of TraceJsonDecoder", "got": "rejected (%s) at: %s" % (why, (ev2 or events)[-1]),
                 "case": dict(hit["case"], trace=True, events=(ev2 or events)[-12:])}
            ck.violations.append((d, 1))
        else:
            ck.unconfirmed += 1
    ck.exhaustive = True
    ck.rule = ("TLC enumerates every well-formed abstract stream (classes w d o x c g) up to MaxLen x terminal error with the "
               "ideal result sequence; each is lifted to real sizes (1-byte symbols; a pivot symbol straddling 4096/32768/65536 "
               "by -2..+2 and +-4096; several large symbols) and delivered under several chunk schedules (zero-length reads, "
               "data together with the error); traces of the hooks in readValue are validated by TLC. "
               "distinct_nontrivial = distinct (stream, term) vectors replayed")
    ck.assumptions = ["encoding/json's Decoder given the same bytes in one read cross-checks the ideal sequence (disagreement = exit 2)",
                      "for a reader that fails with a non-EOF error any prefix of the ideal values followed by that error is accepted, as the property states"]
    return ck.finish()


def replay(path, seed):
    d = json.load(open(path))
    if d.get("api", "").endswith("(trace)"):
        ck = vlib.Check(PROP, "quick", seed)
        ck.binary = vlib.build_harness()
        again, ev = confirm_trace(ck, d["case"])
        if again:
            print("VIOLATION property=%s replay=%s" % (PROP, path))
            return 1
        print("not reproduced on the current tree")
        return 0
    return generic_replay(PROP, path, seed)
