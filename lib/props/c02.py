import vlib
from props import jsoncommon
from props.common import generic_replay

PROP = "C02"
RULE = ("same shapes and embedding scenarios as C01; for each shape the documents are encoding/json's encodings of the shape's boundary values, "
        "token-level mutations of them (every scalar token replaced by tokens of each type and every integer/float width boundary as a digit "
        "string incl. the wrap-around multiples of 2^64, quoted numbers, escapes and lone surrogates, case variants and unicode look-alikes of keys, "
        "duplicate and unknown members, surplus array elements) and null; plus every viable prefix of the JSON language from spec/JsonGrammar.tla "
        "(valid, near-valid, completed) decoded into 21 target types; plus histories of two or three decodes into the same variable. "
        "Unmarshal, Parse(0) and Decoder x {UseNumber, DisallowUnknownFields} are compared with encoding/json: error presence, deep equality; "
        "plus spec/JsonString.tla read backwards: sequences of literal units (raw bytes incl. invalid UTF-8, the simple escapes, \\uXXXX by "
        "class of code point incl. high and low surrogates, and four kinds of broken escapes) with the meaning the definition gives (pairs "
        "combined, lone surrogates and invalid bytes replaced by U+FFFD) or the rejection, padded to every offset of an 8-byte word, read as a "
        "value, element, field value, map key, through Unmarshal, Parse with the copy flags, Decoder, Unescape / AppendUnescape, "
        "RawValue.Unquote and Tokenizer.String")
ASSUME = ["encoding/json is the oracle of record; after a failed decode both variables are reset (partial content is outside the guarantee)",
          "time.Time values are compared as instants with equal zone offsets"]


def extra(ck, vec):
    # grammar documents: the C05 generator, appended to the same vector file
    with open(vec, "a") as sink:
        g = vlib.must_hold(vlib.tlc("JsonGrammar", "Gen_JsonGrammar.cfg", workers=vlib.NCPU, sink=sink,
                                    defines={"MaxLen": 6 if ck.tier == "thorough" else 5, "MaxWS": 1}, tag="JsonGrammar-c02", timeout=3000),
                           "grammar documents")
    ck.add_mc(g, "Gen_JsonGrammar(for C02)")
    # string literals read back: the unescape algorithm against its definition, then literal-unit sequences with their meaning
    mc = vlib.must_hold(vlib.tlc("JsonString", "MC_JsonStringUnesc.cfg", workers=8), "JsonString: unescape algorithm refines the definition")
    ck.add_mc(mc, "MC_JsonStringUnesc")
    with open(vec, "a") as sink:
        g2 = vlib.must_hold(vlib.tlc("JsonString", "Gen_JsonStringUnesc.cfg", workers=8, sink=sink, tag="JsonString-unesc2"), "string literals (all units, 2)")
        sub = '{"a","r3","x","tr","e_c","e_bs","u_asc","u_hi","u_lo","u_r3","u_sc","ctlraw"}' if ck.tier != "thorough" else "{}"
        g3 = vlib.must_hold(vlib.tlc("JsonString", "Gen_JsonStringUnesc.cfg", workers=8, sink=sink, tag="JsonString-unesc3",
                                     defines={"MaxUnits": 3, "UnescUnits": sub}, timeout=3000), "string literals (3 units)")
    ck.add_mc(g2, "Gen_JsonStringUnesc(2 units, all 37 literal units)")
    ck.add_mc(g3, "Gen_JsonStringUnesc(3 units)")
    ck.notes["literal_unit_sequences"] = g2.vectors + g3.vectors


def run(tier, seed):
    return jsoncommon.run(PROP, tier, seed, RULE, ASSUME, extra_vec=extra)


def replay(path, seed):
    return generic_replay(PROP, path, seed)
