import vlib
from props import jsoncommon
from props.common import generic_replay

PROP = "C02"
RULE = ("same shapes and embedding scenarios as C01; for each shape the documents are encoding/json's encodings of the shape's boundary values, "
        "token-level mutations of them (every scalar token replaced by tokens of each type and every integer/float width boundary as a digit "
        "string incl. the wrap-around multiples of 2^64, quoted numbers, escapes and lone surrogates, case variants and unicode look-alikes of keys, "
        "duplicate and unknown members, surplus array elements) and null; plus every viable prefix of the JSON language from spec/JsonGrammar.tla "
        "(valid, near-valid, completed) decoded into 21 target types; plus histories of two or three decodes into the same variable. "
        "Unmarshal, Parse(0) and Decoder x {UseNumber, DisallowUnknownFields} are compared with encoding/json: error presence, deep equality; "
        "plus spec/JsonString.tla read backwards: sequences of literal units (raw bytes incl. invalid UTF-8, the simple escapes, \\uXXXX by "
        "class of code point incl. high and low surrogates, and four kinds of broken escapes) with the meaning the definition gives (pairs "
        "combined, lone surrogates and invalid bytes replaced by U+FFFD) or the rejection, padded to every offset of an 8-byte word, read as a "
        "value, element, field value, map key, through Unmarshal, Parse with the copy flags, Decoder, Unescape / AppendUnescape, "
        "RawValue.Unquote and Tokenizer.String; plus spec/Base64.tla: the text of every byte string of up to 3 (thorough 4) bytes over {0, 65, 251, 255} "
        "behind 0, 11 (and 22) fixed groups in each presentation (as written; LF, CR, CRLF put in; a space; a character outside the alphabet; a pad in "
        "the place of a sextet; one pad more, one less, none; trailing bits set; a group after the padding; cut short) with the verdict and bytes of "
        "the specification's reader, read into 10 targets (plain, named, behind pointers, field, map value merged, elements; some holding earlier "
        "content) through Unmarshal, Parse and Decoder x {UseNumber + DisallowUnknownFields}, line breaks written as \\n and as \\u000a; "
        "plus spec/IntParse.tla: every digit string that follows one of the 12 bounds of the integer kinds for its first i digits, then goes one below, along or "
        "one above, filled with 0s or 9s to the bound's length or one more, with and without a sign, fraction or exponent, into each of the 8 kinds as a "
        "value, field, element, map value and behind a pointer (verdict and value of the specification's parser) and as a map key and `,string` field "
        "(verdict of encoding/json)")
ASSUME = ["encoding/json is the oracle of record; after a failed decode both variables are reset (partial content is outside the guarantee)",
          "time.Time values are compared as instants with equal zone offsets"]


def extra(ck, vec):
    # grammar documents: the C05 generator, appended to the same vector file
    with open(vec, "a") as sink:
        g = vlib.must_hold(vlib.tlc("JsonGrammar", "Gen_JsonGrammar.cfg", workers=vlib.NCPU, sink=sink,
                                    defines={"MaxLen": 6 if ck.tier == "thorough" else 5, "MaxWS": 1}, tag="JsonGrammar-c02", timeout=3000),
                           "grammar documents")
    ck.add_mc(g, "Gen_JsonGrammar(for C02)")
    # string literals read back: the unescape algorithm against its definition, then literal-unit sequences with their meaning
    mc = vlib.must_hold(vlib.tlc("JsonString", "MC_JsonStringUnesc.cfg", workers=8), "JsonString: unescape algorithm refines the definition")
    ck.add_mc(mc, "MC_JsonStringUnesc")
    with open(vec, "a") as sink:
        g2 = vlib.must_hold(vlib.tlc("JsonString", "Gen_JsonStringUnesc.cfg", workers=8, sink=sink, tag="JsonString-unesc2"), "string literals (all units, 2)")
        sub = '{"a","r3","x","tr","e_c","e_bs","u_asc","u_hi","u_lo","u_r3","u_sc","ctlraw"}' if ck.tier != "thorough" else "{}"
        g3 = vlib.must_hold(vlib.tlc("JsonString", "Gen_JsonStringUnesc.cfg", workers=8, sink=sink, tag="JsonString-unesc3",
                                     defines={"MaxUnits": 3, "UnescUnits": sub}, timeout=3000), "string literals (3 units)")
    ck.add_mc(g2, "Gen_JsonStringUnesc(2 units, all 37 literal units)")
    ck.add_mc(g3, "Gen_JsonStringUnesc(3 units)")
    ck.notes["literal_unit_sequences"] = g2.vectors + g3.vectors
    # the text of a []byte read back: the reader of spec/Base64.tla, one symbol per step, over every presentation of the writer's text
    b64 = jsoncommon.base64_defines(ck.tier == "thorough")
    mc = vlib.must_hold(vlib.tlc("Base64", "MC_Base64.cfg", workers=8, defines=b64, timeout=3000),
                        "Base64: length and padding laws, round trip, line breaks invisible, damaged padding rejected")
    ck.add_mc(mc, "MC_Base64")
    w = vlib.tlc("Base64", "MC_Base64Strict.cfg", workers=4, expect_violation=True)
    if w.ok or w.violation != "NewlinesInvisible":
        raise vlib.Infra("Base64 with a reader that rejects line breaks should violate NewlinesInvisible: the model is vacuous")
    ck.add_mc(w, "MC_Base64Strict(vacuity witness)")
    with open(vec, "a") as sink:
        g = vlib.must_hold(vlib.tlc("Base64", "Gen_Base64.cfg", workers=8, sink=sink, defines=b64, timeout=3000), "base64 texts and their presentations")
    ck.add_mc(g, "Gen_Base64")
    ck.notes["base64_presentations"] = g.vectors
    # integer literals: the loops of parseInt / parseUint with their overflow guards, one digit per step, against the definition
    mc = vlib.must_hold(vlib.tlc("IntParse", "MC_IntParse.cfg", workers=8, timeout=3000),
                        "IntParse: the guarded loops refine the definition of an integer literal in the range of its kind; the accumulator never wraps")
    ck.add_mc(mc, "MC_IntParse")
    w = vlib.tlc("IntParse", "MC_IntParseNoGuard.cfg", workers=4, expect_violation=True)
    if w.ok or w.violation != "Refines":
        raise vlib.Infra("IntParse without the test of the last digit should violate Refines: the model is vacuous")
    ck.add_mc(w, "MC_IntParseNoGuard(vacuity witness)")
    with open(vec, "a") as sink:
        g = vlib.must_hold(vlib.tlc("IntParse", "Gen_IntParse.cfg", workers=8, sink=sink, timeout=3000), "integer literals along the bounds of the kinds")
    ck.add_mc(g, "Gen_IntParse")
    ck.notes["integer_literals"] = g.vectors


def run(tier, seed):
    return jsoncommon.run(PROP, tier, seed, RULE, ASSUME, extra_vec=extra)


def replay(path, seed):
    return generic_replay(PROP, path, seed)
