import vlib
from props import jsoncommon
from props.common import generic_replay

PROP = "C02"
RULE = ("same shapes and embedding scenarios as C01; for each shape the documents are encoding/json's encodings of the shape's boundary values, "
        "token-level mutations of them (every scalar token replaced by tokens of each type and every integer/float width boundary as a digit "
        "string incl. the wrap-around multiples of 2^64, quoted numbers, escapes and lone surrogates, case variants and unicode look-alikes of keys, "
        "duplicate and unknown members, surplus array elements) and null; plus every viable prefix of the JSON language from spec/JsonGrammar.tla "
        "(valid, near-valid, completed) decoded into 21 target types; plus histories of two or three decodes into the same variable. "
        "Unmarshal, Parse(0) and Decoder x {UseNumber, DisallowUnknownFields} are compared with encoding/json: error presence, deep equality")
ASSUME = ["encoding/json is the oracle of record; after a failed decode both variables are reset (partial content is outside the guarantee)",
          "time.Time values are compared as instants with equal zone offsets"]


def extra(ck, vec):
    # grammar documents: the C05 generator, appended to the same vector file
    with open(vec, "a") as sink:
        g = vlib.must_hold(vlib.tlc("JsonGrammar", "Gen_JsonGrammar.cfg", workers=vlib.NCPU, sink=sink,
                                    defines={"MaxLen": 6 if ck.tier == "thorough" else 5, "MaxWS": 1}, tag="JsonGrammar-c02", timeout=3000),
                           "grammar documents")
    ck.add_mc(g, "Gen_JsonGrammar(for C02)")


def run(tier, seed):
    return jsoncommon.run(PROP, tier, seed, RULE, ASSUME, extra_vec=extra)


def replay(path, seed):
    return generic_replay(PROP, path, seed)
