"""Shared driver for the /verif checks: TLC runs, harness build, sharded replay,
triage against known findings, evidence.  One process per `bin/check` call."""
import os, sys, json, re, time, subprocess, shutil, hashlib, glob, gzip, signal, tempfile

ROOT = os.path.dirname(os.path.dirname(os.path.abspath(__file__)))
REPO = os.environ.get("VERIF_REPO", "/repo")
WORK = os.environ.get("VERIF_WORK", os.path.join(ROOT, ".work"))
SPEC = os.path.join(ROOT, "spec")
NCPU = os.cpu_count() or 4
TLA_CP = "/opt/veriftools/tla/tla2tools.jar:/opt/veriftools/tla/CommunityModules-deps.jar"

GOENV = dict(os.environ, GOFLAGS="-mod=mod", GOPROXY="off", GOSUMDB="off", GOTOOLCHAIN="local",
             CGO_ENABLED=os.environ.get("CGO_ENABLED", "1"))


class Infra(Exception):
    """Failure of the machinery itself (exit 2) - never a verdict about /repo."""


def log(*a):
    print(*a, file=sys.stderr, flush=True)


def sh(cmd, **kw):
    return subprocess.run(cmd, shell=isinstance(cmd, str), **kw)


# ---------------------------------------------------------------- TLC

class TLCResult:
    def __init__(self):
        self.generated = 0
        self.distinct = 0
        self.ok = False
        self.violation = None      # name of violated invariant / property
        self.rc = None
        self.log = []
        self.vectors = 0
        self.wall = 0.0
        self.trace = []            # counterexample states (text) if any
        self.coverage_zero = []
        self.truncated = False


def _unquote_tla(line):
    # TLC prints a TLA+ string value: "…" with \" and \\ escapes.
    try:
        return json.loads(line)
    except Exception:
        return None


MAX_VECTOR_BYTES = 2 << 30   # one generator run may not write more than 2 GiB of vectors (disk is limited)


def tlc(module, cfg, *, workers=None, sink=None, simulate=None, depth=None, seed=None,
        timeout=1800, dfs=False, extra=(), files=(), xss=None, heap=None, keep=False, tag=None,
        coverage=False, expect_violation=False, defines=None, postcond_ok=True, young=None, max_vectors=None):
    """Run TLC on spec/<module>.tla with spec/<cfg> in a scratch copy.
    Lines printed by the spec through PrintT(ToJson(..)) (TLA+ string values) are
    unquoted and written to `sink` (an open text file) and counted."""
    res = TLCResult()
    t0 = time.time()
    tagname = tag or (module + "-" + os.path.splitext(os.path.basename(cfg))[0])
    run = os.path.join(WORK, "tlc", "%s-%d" % (tagname, os.getpid()))
    shutil.rmtree(run, ignore_errors=True)
    os.makedirs(run)
    for f in glob.glob(os.path.join(SPEC, "*.tla")):
        shutil.copy(f, run)
    cfgsrc = cfg if os.path.isabs(cfg) else os.path.join(SPEC, cfg)
    cfgtxt = open(cfgsrc).read()
    if defines:
        for k, v in defines.items():
            cfgtxt, n = re.subn(r"(?m)^(\s*%s\s*=\s*).*$" % re.escape(k), lambda m: m.group(1) + str(v), cfgtxt)
            if n == 0:
                raise Infra("cfg %s has no constant %s" % (cfg, k))
    open(os.path.join(run, "run.cfg"), "w").write(cfgtxt)
    for src in files:
        shutil.copy(src, run)
    w = workers or NCPU
    # small young generation: page faults are very expensive in this VM, so eden pages must be reused
    jopts = ["-XX:+UseParallelGC", "-Xmx" + (heap or "8g"), "-Xmn" + (young or "256m")]
    if xss:
        jopts.append("-Xss" + xss)
    if dfs:
        jopts.append("-Dtlc2.tool.queue.IStateQueue=StateDeque")
    cmd = ["java"] + jopts + ["-cp", TLA_CP, "tlc2.TLC", "-config", "run.cfg", "-workers", str(w),
                              "-metadir", os.path.join(run, "meta"), "-noGenerateSpecTE"]
    if simulate is not None:
        cmd += ["-simulate", "num=%d" % simulate]
        if depth:
            cmd += ["-depth", str(depth)]
    if seed is not None:
        cmd += ["-seed", str(seed)]
    if coverage:
        cmd += ["-coverage", "1"]
    cmd += list(extra) + [module + ".tla"]
    env = dict(os.environ)
    env.pop("JAVA_TOOL_OPTIONS", None)
    for attempt in (1, 2):
        res.log = []
        res.vectors = 0
        p = subprocess.Popen(cmd, cwd=run, stdout=subprocess.PIPE, stderr=subprocess.STDOUT, text=True,
                             env=env, errors="replace")
        killed = [False]

        def onalarm(signum, frame):
            killed[0] = True
            p.kill()
        old = signal.signal(signal.SIGALRM, onalarm)
        signal.alarm(int(timeout))
        intrace = False
        outbytes, toobig = 0, False
        try:
            for line in p.stdout:
                if line.startswith('"'):
                    s = _unquote_tla(line.strip())
                    if s is not None:
                        res.vectors += 1
                        if sink is not None:
                            sink.write(s)
                            sink.write("\n")
                            outbytes += len(s) + 1
                            if max_vectors and (res.vectors >= max_vectors or outbytes > (1 << 30)):
                                res.truncated = True      # a budgeted generator: the first max_vectors of the breadth-first order
                                p.kill()
                                break
                            if outbytes > MAX_VECTOR_BYTES:
                                toobig = True
                                p.kill()
                                break
                        continue
                line = line.rstrip("\n")
                if len(res.log) < 4000:
                    res.log.append(line)
                m = re.search(r"^(\d+) states generated, (\d+) distinct states found", line)
                if m:
                    res.generated, res.distinct = int(m.group(1)), int(m.group(2))
                m = re.search(r"Invariant (\S+) is violated", line)
                if m:
                    res.violation = m.group(1)
                m = re.search(r"Action property (\S+) is violated|Temporal properties were violated", line)
                if m:
                    res.violation = m.group(1) or "temporal"
                if re.search(r"Postcondition \S+ .*is false", line):
                    res.violation = res.violation or "postcondition"
                if "Deadlock reached" in line:
                    res.violation = res.violation or "deadlock"
                if line.startswith("Generated ") and "traces" in line:
                    m = re.search(r"and (\d+) traces", line)
        finally:
            signal.alarm(0)
            signal.signal(signal.SIGALRM, old)
        res.rc = p.wait()
        if getattr(res, "truncated", False):
            res.rc = 0
        if killed[0]:
            raise Infra("TLC timeout after %ss: %s %s" % (timeout, module, cfg))
        if toobig:
            raise Infra("TLC generator %s/%s wrote more than %d MB of vectors: its constants are out of bounds" % (module, cfg, MAX_VECTOR_BYTES >> 20))
        txt = "\n".join(res.log)
        if res.rc != 0 and res.generated == 0 and res.violation is None and attempt == 1 and \
                ("Error occurred during initialization of VM" in txt or txt.strip() == ""):
            continue   # JVM start failure: retry once
        break
    res.wall = time.time() - t0
    res.ok = (res.rc == 0 and res.violation is None)
    log("tlc %s %s: %d generated, %d distinct, %d vectors, %.1fs%s" % (module, os.path.basename(cfg), res.generated, res.distinct, res.vectors,
                                                                      res.wall, "" if res.ok else " [" + str(res.violation) + "]"))
    if coverage:
        for line in res.log:
            m = re.match(r"\s*<(\w+) line .*>: (\d+):(\d+)$", line)
            if m and m.group(2) == "0":
                res.coverage_zero.append(m.group(1))
    if res.rc not in (0, 12, 13) and res.violation is None and simulate is None:
        tail = "\n".join(res.log[-40:])
        raise Infra("TLC failed rc=%s on %s/%s:\n%s" % (res.rc, module, cfg, tail))
    if res.rc not in (0, 12, 13) and simulate is not None and res.violation is None:
        tail = "\n".join(res.log[-40:])
        raise Infra("TLC simulate failed rc=%s on %s/%s:\n%s" % (res.rc, module, cfg, tail))
    if not keep:
        shutil.rmtree(run, ignore_errors=True)
    else:
        res.rundir = run
    return res


def must_hold(res, what):
    """A design-level model-checking run must pass; if it does not, the *specification*
    is wrong (or its constants) - that is an infrastructure error, not a verdict on /repo."""
    if not res.ok:
        raise Infra("TLC: %s failed (%s)\n%s" % (what, res.violation, "\n".join(res.log[-60:])))
    return res


# ---------------------------------------------------------------- harness

_built = {}


def build_harness(tags="verif", race=False, name=None):
    """Always rebuild from the repository's current working tree (go's build cache makes this cheap).
    The repository is /repo unless VERIF_REPO points elsewhere (development: a scratch worktree with a
    seeded change); the harness sources are then built from a private copy so that go.mod can name it."""
    key = (tags, race)
    if key in _built:
        return _built[key]
    os.makedirs(os.path.join(WORK, "bin"), exist_ok=True)
    suffix = "" if REPO == "/repo" else "-" + hashlib.sha1(REPO.encode()).hexdigest()[:8]
    out = os.path.join(WORK, "bin", name or ("vh-" + tags.replace(",", "_") + ("-race" if race else "") + suffix))
    hdir = os.path.join(ROOT, "harness")
    if REPO != "/repo":
        priv = os.path.join(WORK, "harness" + suffix)
        shutil.rmtree(priv, ignore_errors=True)
        os.makedirs(priv)
        for f in glob.glob(os.path.join(hdir, "*.go")):
            shutil.copy(f, priv)
        gm = open(os.path.join(hdir, "go.mod")).read().replace("=> /repo", "=> " + REPO)
        open(os.path.join(priv, "go.mod"), "w").write(gm)
        hdir = priv
    # go.sum is the union of the repository's own sums (fresh copy every time, the repo may have changed)
    sums = set()
    for f in (os.path.join(REPO, "go.sum"), os.path.join(REPO, "proto/fixtures/go.sum")):
        if os.path.exists(f):
            sums.update(l for l in open(f).read().splitlines() if l.strip())
    open(os.path.join(hdir, "go.sum"), "w").write("\n".join(sorted(sums)) + "\n")
    cmd = ["go", "build", "-tags", tags, "-o", out]
    if race:
        cmd.append("-race")
    cmd.append(".")
    t0 = time.time()
    p = sh(cmd, cwd=hdir, env=GOENV, stdout=subprocess.PIPE, stderr=subprocess.STDOUT, text=True)
    if p.returncode != 0:
        raise Infra("harness build failed (tags=%s):\n%s" % (tags, p.stdout[-6000:]))
    log("built harness %s in %.1fs" % (os.path.basename(out), time.time() - t0))
    _built[key] = out
    return out


class RunResult:
    def __init__(self):
        self.divs = []
        self.sums = []
        self.crashes = []   # (vector index, stderr tail)
        self.spec_errors = 0
        self.stderr = ""


def _run_shard(binary, prop, vecfile, seed, tier, shard, extra_args, env, timeout, progress, frm=0, only=None):
    cmd = [binary, "run", "-prop", prop, "-seed", str(seed), "-tier", tier, "-shard", shard, "-from", str(frm)]
    if vecfile:
        cmd += ["-in", vecfile]
    if progress:
        cmd += ["-progress"]
    if only is not None:
        cmd += ["-only", str(only)]
    cmd += list(extra_args)
    return subprocess.Popen(cmd, stdout=subprocess.PIPE, stderr=subprocess.PIPE, env=env, cwd=ROOT)


def run_harness(binary, prop, vecfile, *, seed=1, tier="quick", shards=1, extra_args=(), timeout=1500,
                isolate=False, vlimit_kb=None, env_extra=None):
    """Run the property driver over the vector file, in `shards` processes.
    With isolate=True each shard runs vectors one at a time, announcing the index on stderr,
    so that a fatal runtime error (stack overflow, OOM, throw) is attributed to one vector,
    recorded as a crash, and the shard resumes after it."""
    env = dict(GOENV)
    if env_extra:
        env.update(env_extra)
    rr = RunResult()
    t_h = time.time()
    pending = [("%d/%d" % (i, shards), 0) for i in range(shards)]
    procs = []
    deadline = time.time() + timeout

    def start(shard, frm):
        pre = None
        cmd = [binary, "run", "-prop", prop, "-seed", str(seed), "-tier", tier, "-shard", shard, "-from", str(frm)]
        if vecfile:
            cmd += ["-in", vecfile]
        if isolate:
            cmd += ["-progress"]
        cmd += list(extra_args)
        if frm > 0:
            cmd += ["-noextra"]
        if vlimit_kb:
            cmd = ["bash", "-c", "ulimit -v %d; exec \"$@\"" % vlimit_kb, "vh"] + cmd
        fo = tempfile.TemporaryFile()
        fe = tempfile.TemporaryFile()
        p = subprocess.Popen(cmd, stdout=fo, stderr=fe, env=env, cwd=ROOT)
        return (p, fo, fe, shard, frm)

    rr.again = lambda: run_harness(binary, prop, vecfile, seed=seed, tier=tier, shards=shards, extra_args=extra_args, timeout=timeout,
                                   isolate=isolate, vlimit_kb=vlimit_kb, env_extra=env_extra)
    running = [start(s, f) for s, f in pending]
    restarts = 0
    while running:
        nxt = []
        for (p, fo, fe, shard, frm) in running:
            try:
                p.wait(timeout=max(1, deadline - time.time()))
            except subprocess.TimeoutExpired:
                p.kill()
                for q in running:
                    q[0].kill()
                raise Infra("harness timeout after %ss (prop %s shard %s)" % (timeout, prop, shard))
            fo.seek(0)
            fe.seek(0)
            out = fo.read().decode("utf-8", "replace")
            err = fe.read().decode("utf-8", "replace")
            fo.close()
            fe.close()
            gotsum = False
            for line in out.splitlines():
                if not line.startswith("{"):
                    continue
                try:
                    o = json.loads(line)
                except Exception:
                    continue
                if o.get("t") == "div":
                    rr.divs.append(o)
                elif o.get("t") == "sum":
                    rr.sums.append(o)
                    gotsum = True
            rr.spec_errors += err.count("SPEC-ERROR")
            if p.returncode != 0 or not gotsum:
                idxs = re.findall(r"(?m)^@(\d+)$", err)
                if isolate and re.search(r"(?m)^@extra$", err):
                    tail = re.sub(r"(?m)^@\w+\n", "", err)
                    rr.crashes.append({"index": -1, "shard": shard, "stderr": tail[:3000], "rc": p.returncode, "where": "extra"})
                elif isolate and idxs:
                    bad = int(idxs[-1])
                    tail = re.sub(r"(?m)^@\d+\n", "", err)
                    rr.crashes.append({"index": bad, "shard": shard, "stderr": tail[:3000], "rc": p.returncode})
                    restarts += 1
                    if restarts <= 24:
                        nxt.append(start(shard, bad + 1))
                    # beyond 24 fatal errors the run is cut short: the crashes already recorded are the verdict
                else:
                    raise Infra("harness died rc=%s (prop %s shard %s):\n%s" % (p.returncode, prop, shard, err[-4000:]))
            else:
                rr.stderr += "\n".join(l for l in err.splitlines() if not l.startswith("@"))[-4000:]
        running = nxt
    log("harness %s: %d divergences, %d crashes, %.1fs" % (prop, len(rr.divs), len(rr.crashes), time.time() - t_h))
    return rr


def replay_case(binary, prop, case, *, seed=1, timeout=300, vlimit_kb=None, env_extra=None, maxstack=None):
    """Re-execute one case alone in a fresh process. Returns (divs, crashed_stderr_or_None)."""
    os.makedirs(os.path.join(WORK, "tmp"), exist_ok=True)
    fd, path = tempfile.mkstemp(dir=os.path.join(WORK, "tmp"), suffix=".json")
    with os.fdopen(fd, "w") as f:
        json.dump(case, f)
    cmd = [binary, "replay", "-prop", prop, "-case", path, "-seed", str(seed)]
    if vlimit_kb:
        cmd = ["bash", "-c", "ulimit -v %d; exec \"$@\"" % vlimit_kb, "vh"] + cmd
    env = dict(GOENV)
    if env_extra:
        env.update(env_extra)
    try:
        p = subprocess.run(cmd, stdout=subprocess.PIPE, stderr=subprocess.PIPE, env=env, cwd=ROOT, timeout=timeout)
    except subprocess.TimeoutExpired:
        os.unlink(path)
        return [], "timeout"
    os.unlink(path)
    divs = []
    for line in p.stdout.decode("utf-8", "replace").splitlines():
        if line.startswith("{"):
            try:
                o = json.loads(line)
            except Exception:
                continue
            if o.get("t") == "div":
                divs.append(o)
    if p.returncode != 0:
        return divs, p.stderr.decode("utf-8", "replace")[-3000:]
    return divs, None


# ---------------------------------------------------------------- findings / triage

def load_findings():
    p = os.path.join(ROOT, "known_findings.json")
    if not os.path.exists(p):
        return {}
    d = json.load(open(p))
    return {f["id"]: f for f in d.get("findings", [])}


class Check:
    """One invocation of `bin/check <id> <tier>`."""

    def __init__(self, prop, tier, seed, level="model_checking"):
        self.prop, self.tier, self.seed, self.level = prop, tier, seed, level
        self.t0 = time.time()
        self.states = 0
        self.transitions = 0
        self.traces = 0
        self.evals = 0
        self.distinct = 0
        self.samples = []
        self.rule = ""
        self.assumptions = []
        self.notes = {}
        self.violations = []     # confirmed, unknown
        self.known = {}          # finding id -> count
        self.unconfirmed = 0
        self.findings = load_findings()
        self.exhaustive = False
        self.binary = None
        self.mc_runs = []

    # -- model checking bookkeeping
    def add_mc(self, res, name):
        self.states += res.distinct
        self.transitions += res.generated
        self.mc_runs.append({"run": name, "generated": res.generated, "distinct": res.distinct,
                             "wall_s": round(res.wall, 1), "vectors": res.vectors})

    def absorb(self, rr):
        for s in rr.sums:
            self.evals += s.get("evals", 0)
            self.distinct += s.get("distinct_nontrivial", 0)
            self.traces += s.get("cases", 0)
            for x in s.get("samples") or []:
                if len(self.samples) < 8:
                    self.samples.append(x)
            for k, v in (s.get("extra") or {}).items():
                if k != "wall_ms":
                    self.notes[k] = self.notes.get(k, 0) + v
            for k, v in (s.get("suppressed") or {}).items():
                sup = self.notes.setdefault("divergences_counted_only", {})
                sup[k] = sup.get(k, 0) + v
                if k in self.findings and self.findings[k].get("status") == "open":
                    self.known[k] = self.known.get(k, 0) + v
            tags = self.notes.setdefault("tags", {})
            for k, v in (s.get("tags") or {}).items():
                tags[k] = tags.get(k, 0) + v
        if rr.spec_errors:
            raise Infra("%d specification/oracle disagreements (see stderr): the machinery is wrong, no verdict\n%s"
                        % (rr.spec_errors, rr.stderr[-3000:]))

    # -- triage
    @staticmethod
    def _group(divs):
        groups = {}
        for d in divs:
            sig = re.sub(r'"[^"]*"|[0-9]+', "#", (d.get("want") or "") + "|" + (d.get("got") or ""))[:60]
            key = (d.get("api"), sig) if not d.get("finding") else (d.get("finding"),)
            groups.setdefault(key, []).append(d)
        return groups

    def triage(self, divs, *, replay=True, max_confirm=6, vlimit_kb=None, env_extra=None, binary=None, rerun=None):
        """Group divergences by (api, finding, want/got class); confirm representatives by
        re-running them alone; sort into known findings and violations.  A group that does not
        reproduce alone may depend on what the run did before it (state kept by the library between
        calls): with `rerun` the whole run is repeated once, and a group that shows up again at the same
        vectors is confirmed as such."""
        groups = self._group(divs)
        second = None
        for key, ds in groups.items():
            fid = ds[0].get("finding") or ""
            f = self.findings.get(fid)
            if f is not None and f.get("status") == "open":
                self.known[fid] = self.known.get(fid, 0) + len(ds)
                continue
            confirmed = None
            for d in ds[:max_confirm]:
                if not replay:
                    confirmed = d
                    break
                rdivs, crash = replay_case(binary or self.binary, self.prop, d["case"], seed=self.seed,
                                           vlimit_kb=vlimit_kb, env_extra=env_extra)
                if crash is not None and d.get("got", "").startswith(("fatal", "crash", "timeout")):
                    confirmed = d
                    break
                if any(r.get("api") == d.get("api") for r in rdivs):
                    confirmed = d
                    break
            if confirmed is None and rerun is not None:
                if second is None:
                    log("a divergence group does not reproduce alone: repeating the whole run once")
                    second = self._group(rerun().divs)
                again = second.get(key)
                if again:
                    confirmed = dict(ds[0])
                    confirmed["got"] = (confirmed.get("got") or "") + " [depends on the calls made before it in the run: reproduced by repeating the whole run, %d and %d occurrences]" % (len(ds), len(again))
            if confirmed is None:
                self.unconfirmed += len(ds)
                log("UNCONFIRMED divergence group %s (%d) - not reported" % (key, len(ds)))
                continue
            self.violations.append((confirmed, len(ds)))

    def finish(self):
        os.makedirs(os.path.join(ROOT, "evidence"), exist_ok=True)
        os.makedirs(os.path.join(ROOT, "replays"), exist_ok=True)
        lines = []
        for fid, n in sorted(self.known.items()):
            f = self.findings[fid]
            print("KNOWN-FINDING: property=%s %s: %s (%d divergences this run)" % (self.prop, fid, f.get("what", ""), n))
        self.violations.sort(key=lambda x: -x[1])
        if len(self.violations) > 8:
            print("(%d further violation groups not listed)" % (len(self.violations) - 8))
        for d, n in self.violations[:8]:
            h = hashlib.sha1(json.dumps(d, sort_keys=True).encode()).hexdigest()[:12]
            path = os.path.join(ROOT, "replays", "%s-%s.json" % (self.prop, h))
            d = dict(d)
            d["count"] = n
            d["seed"] = self.seed
            d["tier"] = self.tier
            d["replay_cmd"] = "bin/check %s --replay %s" % (self.prop, path)
            json.dump(d, open(path, "w"), indent=1)
            print("VIOLATION property=%s replay=%s" % (self.prop, path))
            print("  api=%s want=%s got=%s (x%d)" % (d.get("api"), d.get("want"), d.get("got"), n))
        cov = {
            "states": int(self.states), "transitions": int(self.transitions),
            "traces_validated_against_impl": int(self.traces),
            "evaluations": int(self.evals), "distinct_nontrivial": int(self.distinct),
            "rule": self.rule, "samples": self.samples[:8] or ["(none)"],
            "exhaustive": bool(self.exhaustive), "mc_runs": self.mc_runs,
            "known_findings_seen": self.known, "unconfirmed_divergences": self.unconfirmed,
        }
        cov.update({k: v for k, v in self.notes.items()})
        ev = {"property_id": self.prop, "tier": self.tier if self.tier in ("quick", "thorough") else "quick",
              "seed": int(self.seed), "level": self.level, "coverage": cov, "assumptions": self.assumptions,
              "wall_s": round(time.time() - self.t0, 1), "violations": len(self.violations)}
        json.dump(ev, open(os.path.join(ROOT, "evidence", self.prop + ".json"), "w"), indent=1)
        sys.stdout.flush()
        if not self.violations and self.unconfirmed:
            # something diverged but could not be reproduced alone: no verdict (never a violation, never "held")
            print("INFRA-ERROR property=%s: %d divergence(s) were seen but not reproduced in isolation (see UNCONFIRMED lines): no verdict"
                  % (self.prop, self.unconfirmed))
            return 2
        return 1 if self.violations else 0


def cap_vectors(path, maxn, seed, keep_first=0):
    """Bound the number of vectors replayed: keep the first keep_first lines and a seeded sample of the rest.
    Returns (kept, total)."""
    import random
    lines = open(path).read().splitlines(True)
    total = len(lines)
    if total <= maxn:
        return total, total
    head, rest = lines[:keep_first], lines[keep_first:]
    rnd = random.Random(seed)
    k = max(maxn - len(head), 0)
    idx = sorted(rnd.sample(range(len(rest)), min(k, len(rest))))
    with open(path, "w") as f:
        f.writelines(head)
        f.writelines(rest[i] for i in idx)
    return len(head) + len(idx), total


def vecpath(prop, name):
    d = os.path.join(WORK, "vec")
    os.makedirs(d, exist_ok=True)
    return os.path.join(d, "%s-%s-%d.ndjson" % (prop, name, os.getpid()))


def spec_hash(*mods):
    h = hashlib.sha1()
    for m in mods:
        h.update(open(os.path.join(SPEC, m), "rb").read())
    return h.hexdigest()[:16]


# ---------------------------------------------------------------- trace validation

def validate_trace(module, cfg, tracefile, *, extra_files=(), timeout=900, dfs=False, tag=None):
    """Run a Trace* specification over a recorded ndjson trace (copied as trace.ndjson).
    Returns (accepted, rejected_at_event_or_None, TLCResult)."""
    run_files = []
    tmp = os.path.join(WORK, "tmp")
    os.makedirs(tmp, exist_ok=True)
    dst = os.path.join(tmp, "trace-%d" % os.getpid())
    os.makedirs(dst, exist_ok=True)
    tf = os.path.join(dst, "trace.ndjson")
    shutil.copy(tracefile, tf)
    try:
        res = tlc(module, cfg, workers=1, files=[tf] + list(extra_files), timeout=timeout, dfs=dfs, tag=tag)
    finally:
        shutil.rmtree(dst, ignore_errors=True)
    rej = None
    for line in res.log:
        m = re.search(r'TRACE-REJECTED-AT", (\d+)', line)
        if m:
            rej = int(m.group(1))
    if res.ok:
        return True, None, res
    if rej is None:
        if res.violation and res.violation not in ("postcondition",):
            # an invariant of the spec failed on a state reached by the real execution
            return False, -1, res
        raise Infra("trace validation failed without a rejection point:\n" + "\n".join(res.log[-40:]))
    return False, rej, res
