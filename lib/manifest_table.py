"""Source of MANIFEST.json (bin/mkmanifest writes it)."""
CHECKS = {
 "C05": dict(
   level="model_checking", ref="DESIGN.md section 5, C05",
   text="The RFC 8259 recogniser is an explicit TLA+ push-down automaton (spec/JsonGrammar.tla). TLC checks its invariants and lifting lemmas and enumerates every viable prefix of the language up to the bound with the spec's verdict; each behaviour is replayed through every syntax-only consumer of the real package, and encoding/json.Valid cross-checks the specification.",
   note="Exhaustive over byte classes up to the length bound; bytes of one class are represented by the listed representatives; longer documents only through stretched strings/whitespace (justified by stutter lemmas checked in TLC).",
   technique="TLA+ spec + TLC exhaustive enumeration, spec-to-code replay (conformance), std oracle cross-check"),
 "C17": dict(
   level="model_checking", ref="DESIGN.md section 5, C17",
   text="spec/JsonTokenizerOps.tla holds the definition of Depth/Index/IsKey (grammar over tokens) next to the Tokenizer's stack machine (one action per Next); TLC proves they agree on every valid token document up to the bound, enumerates those documents for step-by-step replay on the real Tokenizer, and validates recorded traces of the real Tokenizer (arbitrary bytes, Reset/reuse histories) against TraceJsonTokenizer.tla.",
   note="Token classes are lifted to a fixed list of scalar variants; traces are recorded through the public fields of Tokenizer (no hook needed); encoding/json's token stream cross-checks the definition.",
   technique="TLA+ spec + TLC model checking, spec-to-code replay and code-to-spec trace validation"),
 "C11": dict(
   level="model_checking", ref="DESIGN.md section 5, C11",
   text="spec/JsonDecoderStream.tla models Decoder.readValue (buffer window, compaction, growth, sticky error, InputOffset) with nondeterministic buffering policy; TLC proves no byte is lost or duplicated, the results are the ideal tokenisation, InputOffset/Buffered stay in range for every policy, and enumerates all abstract streams x terminal errors. Each is lifted to the real 4 KiB / 32 KiB thresholds under many reader schedules and replayed; the hooks in readValue give traces that TLC validates against spec/TraceJsonDecoder.tla.",
   note="Abstract byte classes (w d o x c g) are lifted to spaces, digit runs and strings; array/object values are covered by C05 framing; encoding/json's Decoder cross-checks the ideal sequence.",
   technique="TLA+ spec + TLC model checking (policy-free), spec-to-code replay at real thresholds, trace validation of hook events"),
 "C03": dict(
   level="model_checking", ref="DESIGN.md section 5, C03",
   text="spec/ProtoCodec.tla defines the Go-type -> message mapping: shapes, values, the standard encoding with explicit pointer presence (Wire), the package's own elision policy (ImplWire, with the wantzero flag) and standard decoding as a fold over wire records. TLC proves Decode(Wire(v)) ~ v and Decode(ImplWire(v)) ~ v on every generated (shape, value) - with the as-is switch it predicts the values the package cannot represent - and enumerates the pairs; each is materialised with reflect.StructOf and Marshal/Size/Unmarshal are checked by the property's relation.",
   note="Scalar values are abstract ids lifted to boundary tables; nesting through a fixed library of 4 sub-messages; types with marshalling methods of their own are three fixed ones (proto.RawMessage, a struct implementing proto.Message, a struct implementing the gogo-style custom interface) as plain, pointer, repeated and map-value fields and as top-level arguments; string leaves are also run at every length that takes an enclosing record across the 128 / 16384 varint boundaries; every round trip is also run after failed decodes of damaged encodings of other values of the same type.",
   technique="TLA+ spec + TLC model checking and enumeration of programs/inputs, spec-to-code replay, reference-implementation cross-check of the spec"),
 "C07": dict(
   level="model_checking", ref="DESIGN.md section 5, C07",
   text="Same specification: TLC proves that unknown fields inserted at every boundary do not change Decode and emits each message with unknown fields of every wire type sprinkled in; the harness adds every prefix (crash points) and seeded wire damage and runs Unmarshal, Parse, Scan and the RawValue accessors with recover and an allocation meter; Scan must list exactly the top-level records.",
   note="Absence of panics is shown for the explored inputs only; allocation bound 256 x len + 64 KiB measured on a second call under an exclusive lock.",
   technique="TLA+ spec + TLC (unknown-field invariance theorem, enumeration), fault enumeration over prefixes/mutations replayed on the code"),
 "C12": dict(
   level="model_checking", ref="DESIGN.md section 5, C12",
   text="Same specification: TLC proves that the legal re-encodings it defines (fields reordered, scalars overridden by a later occurrence, embedded messages split, unknown fields) decode to the same value and emits them; the harness sends them, also with non-minimal varints, through the real Unmarshal, and has the reference implementation (dynamicpb over a generated descriptor) decode proto.Marshal's bytes.",
   note="google.golang.org/protobuf v1.25.0 is the reference; packed encodings excluded as the property says.",
   technique="TLA+ spec + TLC theorems over re-encodings, spec-to-code replay, differential against the reference implementation"),
 "C16": dict(
   level="model_checking", ref="DESIGN.md section 5, C16",
   text="Same (shape, value) enumeration; for every value MarshalTo is run for every destination length from 0 to Size+3 with guard bytes behind the destination: exact count and bytes when it fits, io.ErrShortBuffer without panic and without a write beyond len(b) when it does not.",
   note="The buffer-length dimension is exhausted in the harness (it is a plain loop), the value dimension by TLC.",
   technique="TLC enumeration of programs/inputs + exhaustive fault enumeration over buffer lengths"),
 "C19": dict(
   level="model_checking", ref="DESIGN.md section 5, C19",
   text="spec/ProtoRewrite.tla defines the property (the decoded value with exactly the templated fields replaced) next to the algorithm of MessageRewriter.Rewrite on wire records (first occurrence replaced, later ones dropped, absent fields appended, nested templates rewritten in place). TLC proves that the algorithm refines the definition and carries untemplated records over unchanged for the standard encoding and for every legal re-encoding - with the as-is switches it finds the split-message inputs that lose data and the repeated-occurrence inputs on which a bit-or rule combines the mask with the wrong occurrence - and enumerates (shape, value, template, inputs); each is run through ParseRewriteTemplate / a hand-built MessageRewriter and decoded by the package and by the reference implementation.",
   note="Templates set scalars to ids 0/1, replace repeated/map fields, rewrite nested messages one level deep and bit-or integer fields (plain, pointer and nested, through RewriterRules / BitOr / BitOrRewriter; masks from a table incl. bits 30 and 40); bit-or rules on repeated fields and user-defined Rewriterer rules are not generated.",
   technique="TLA+ refinement check (algorithm vs definition) with TLC, spec-to-code replay, reference-implementation cross-check"),
 "C13": dict(
   level="model_checking", ref="DESIGN.md section 5, C13",
   text="spec/ThriftWire.tla writes the binary and compact protocol specifications down as functions from logical content to bytes (type codes, big/little endian, stop byte, delta and long field headers with bools in the type nibble, short/long list headers, the one-byte empty map, strict / non-strict / compact message headers), with switches for every place the pinned code deviates. TLC checks structural invariants and enumerates layouts x values with the prescribed bytes, the long-form alternatives and the as-is dialect; the real Writers, Marshal, Readers and Unmarshal are compared byte for byte, and a divergence is a known finding only if it equals the as-is dialect exactly.",
   note="No Thrift reference implementation is available offline; only certain clauses are encoded (bool elements in compact containers excluded). Scalars are symbolic leaves expanded by encoding/binary.",
   technique="TLA+ spec of the protocol as an encoding function, TLC enumeration, byte-exact spec-to-code replay with as-is/as-specified dual expectation"),
 "C04": dict(
   level="model_checking", ref="DESIGN.md section 5, C04",
   text="Same layouts x values from spec/ThriftWire.tla (ids in any order, gaps over 15, ranges over 64, required / pointer options, every type incl. sets and maps): Marshal/Unmarshal round trip under the three protocol variants, by value and by pointer, lists stretched over the compact short-form boundary, and Reset/SetStrict histories of one Encoder/Decoder compared with fresh ones.",
   note="Round trip and Reset equivalence are black-box relations; the specification supplies the programs (layouts) and inputs, incl. the enum option on 8/16/32/64-bit integer fields and union structs (an interface field tagged union: at most one field set, the interface field points at it after decoding); a Marshal of a union with two fields set is not exercised.",
   technique="TLC enumeration of programs/inputs from the TLA+ spec, spec-to-code replay of round trips and Reset histories"),
 "C08": dict(
   level="model_checking", ref="DESIGN.md section 5, C08",
   text="Same layouts x values: the content re-written with unknown fields of every thrift type and nesting, every prefix of the encoding (expected: unexpected-EOF class, io.EOF only for empty input), trailing bytes, each required field dropped (MissingField), each field written with another wire type under strict decoding (TypeMismatch), and seeded size/length damage (negative, 2^31-1) under recover, an allocation meter and an address-space limit.",
   note="Inputs are produced in the package's own wire dialect (Marshal of a superset struct), so the check is independent of the open C13 findings; absence of panics shown for explored inputs only.",
   technique="TLC enumeration + fault enumeration (prefixes, mutations, unknown-field insertion) replayed on the code under a supervisor"),
 "C18": dict(
   level="model_checking", ref="DESIGN.md section 5, C18",
   text="spec/Iso8601.tla gives two independent definitions of the Valid grammar over character classes (a deterministic scan computing the flag set the only parse needs, and a recogniser with the flags as parameters); TLC proves them equal for all 32 flag sets on every shape and every single edit, and enumerates those strings. spec/Iso8601Calendar.tla transcribes the fast path's closed-form day count and TLC proves it equal to the summation of year and month lengths for every month of years 0000..9999. The harness checks Valid for all 32 flag sets against the spec, Parse against time.Parse, and sweeps every byte value at every fast-path position, the whole calendar and the seconds of a day.",
   note="time.Parse(RFC3339Nano) is the oracle of record for Parse; digits are lifted from a plausible template and at random.",
   technique="TLA+ spec (two definitions proved equal by TLC, calendar lemma by TLC), enumeration, spec-to-code replay, std oracle"),
 "C20": dict(
   level="model_checking", ref="DESIGN.md section 5, C20",
   text="spec/Ascii.tla states the byte-wise definitions (bytes as naturals) and TLC checks the class lemmas that justify stretching (the predicates depend only on the set of bytes present / the per-position fold classes; Fold identifies only a letter with its other case) and enumerates one- and two-deviation string pairs over 16 representative bytes with the definitions' answers; the harness lifts them to lengths 7..272, every block boundary, several alignments and three placements, and sweeps the whole byte/rune domain, for the default and the purego build.",
   note="The vectorised kernels are in github.com/segmentio/asm, outside /repo: only wrapper/wiring changes are detectable. Negative runes are not checked (not code points).",
   technique="TLA+ definitions + TLC lemmas and enumeration, lifted spec-to-code replay on two builds"),
 "C01": dict(
   level="model_checking", ref="DESIGN.md section 5, C01",
   text="spec/JsonTypes.tla generates the programs - type shapes over 25 leaf kinds and 8 constructors (pointers, slices, arrays, three map key families, plain and option-carrying structs), depth 2 over everything and deeper over a seeded subset - and spec/JsonFields.tla holds encoding/json's field resolution (shallowest wins, then the single tagged one, else annihilation) with TLC-checked properties and enumerates embedding scenarios with the predicted winner per name. Every shape is materialised with reflect and boundary values are encoded through every encoder entry point and setting and compared byte for byte with encoding/json; the scenarios are checked against the specification's prediction (and encoding/json must agree with the spec).",
   note="Values per kind come from tables in harness/jsonshape.go (boundaries, NaN/Inf, invalid UTF-8, invalid Number/RawMessage, years outside 0..9999); encoding/json is the oracle of record.",
   technique="TLA+ spec of programs + exact sub-procedure (field resolution) checked by TLC, enumeration, differential replay against the named oracle"),
 "C02": dict(
   level="model_checking", ref="DESIGN.md section 5, C02",
   text="Same shapes and scenarios; documents are the encodings of the shape's boundary values, token-level mutations (type confusion, width boundaries as digit strings incl. 2^64 wrap-arounds, quoted numbers, key case variants, duplicate/unknown members, surplus elements), every viable prefix of the JSON language from spec/JsonGrammar.tla into 21 target types, and histories of 2-3 decodes into the same variable; Unmarshal, Parse and Decoder x {UseNumber, DisallowUnknownFields} are compared with encoding/json (error presence, deep equality).",
   note="encoding/json is the oracle of record; after a failed decode both variables are reset, as partial content is outside the guarantee.",
   technique="TLA+ specs as generators of programs and documents, TLC enumeration, differential replay incl. histories against the named oracle"),
 "C14": dict(
   level="model_checking", ref="DESIGN.md section 5, C14",
   text="spec/JsonFlags.tla is the decision table for the dynamic type of numbers in interfaces (6 number classes x 16 subsets of UseNumber/UseBigInt/UseInt64/UseUint64, documented precedence with overflow fall-through) with TLC-checked properties (the chosen type always holds the number, precedence, float64 only by default) and the configuration lattice with what each AppendFlags subset may change. The table is replayed with boundary literals (bare, in arrays, in objects: type and exact numeric value); every shape value from JsonTypes is encoded under all 8 AppendFlags subsets and parsed back under all 16 copy/case flag subsets.",
   note="For subsets without EscapeHTML the reference generic value is encoding/json's own unescaped output (the ,string option nests JSON text, so escaping changes the outer value for both packages).",
   technique="TLA+ decision table checked by TLC, enumeration of configurations, spec-to-code replay with encoding/json as reference decoder"),
 "C15": dict(
   level="model_checking", ref="DESIGN.md section 5, C15",
   text="spec/JsonAppendBuf.tla models the destination buffer discipline of the encoders (nested starts, in-place write or grow-copy, in-place rewrite, rollback to start) and TLC checks on every operation sequence up to the bound that nothing is written below the caller's prefix, the length never drops below it and the result starts with it; it also emits the configuration lattice. The real Append is run for every shape value (failing values included) in every configuration inside a guarded array.",
   note="The model shows the discipline is sufficient; that the code follows it is shown by the replay (guard bytes, prefix snapshot), not by trace validation.",
   technique="TLA+ state machine of buffer operations model-checked with TLC, configuration enumeration, guarded replay"),
 "C09": dict(
   level="model_checking", ref="DESIGN.md section 5, C09",
   text="spec/CowCache.tla models the copy-on-write codec caches (load a published map value, hit or build privately, store snapshot + own type, use), lock-free and behind a mutex with a second check; TLC explores every interleaving of 3 goroutines x 2 types x 2 calls: published maps are immutable, only completely built codecs are ever published or used, the mutex variant loses nothing and keeps identities - and the tolerated lost update of the lock-free variant is shown reachable. spec/CowCacheSched.tla projects the model on its visible steps (load, load behind the mutex, store) and TLC enumerates every interleaving of 2 goroutines x 2 types x 1..2 calls; each schedule is forced on real goroutines through blocking cache hooks (json, proto codec, proto.TypeOf, thrift encoder, thrift decoder caches): the steps must be reachable in that order, every result must equal the call made alone, no published map may change size after publication, and follow-up calls must hit exactly the types the model's published map holds (lost updates included); the same gated replay runs under the race detector. The real packages are also stressed on never-before-seen reflect.StructOf types behind a barrier at GOMAXPROCS 1/2/4/16; every result is compared with the same call made alone; the cache and pool hooks (globally sequenced after each Load / before each Store and Put) give a trace that TLC validates against spec/TraceConcurrency.tla; the same workload runs under the race detector.",
   note="The gated replay enumerates interleavings of the cache steps only (pools and codec construction run freely between the gates); if the code leaves the model's protocol without breaking a result or mutating a published map the check reports model drift (exit 2), not a violation. Free-running stress schedules are sampled; pool ownership is checked per object (exclusive holder, same-goroutine Put, no double Put, scratch emptied).",
   technique="TLA+ model of the caches checked exhaustively with TLC, gated replay of every TLC-enumerated interleaving on real goroutines, trace validation of hook events from stressed real executions, race detector as monitor"),
 "C10": dict(
   level="model_checking", ref="DESIGN.md section 5, C10",
   text="spec/JsonMemory.tla models which memory region every handed-out result may be backed by (fresh memory; the caller's input only with zero-copy flags or Tokenizer.String; never a pooled buffer or a Decoder's read buffer) and enumerates every history of marshal / unmarshal (with and without zero-copy) / decode / tokstring / overwrite(input) / churn up to the bound with, after each step, the set of earlier results that may have changed. Each history is executed on the real package with snapshots of every result and every lent input.",
   note="Aliasing is observed through contents (overwrite the input with a sentinel, re-acquire pooled buffers, compact and regrow the Decoder buffer), not through addresses; a Decoder is only used without zero-copy flags.",
   technique="TLA+ ownership model, TLC enumeration of histories with predicted observations, spec-to-code replay"),
 "C06": dict(
   level="model_checking", ref="DESIGN.md section 5, C06",
   text="spec/JsonCycle.tla models heaps (nodes linked through pointers, slices, maps, interfaces) and the encoder's walk with its depth counter and seen-set; TLC proves that the walk terminates and reports an error iff a cycle is reachable when every kind of reference is tracked, and shows non-termination when only pointers are (as the code was). The heaps are built as real values and marshalled by value and by pointer; chains and cycles are lifted to the detector's real threshold (999/1000/1001, 2500). Decode side: every JsonGrammar document with its completion truncated at every offset and corrupted, 9 targets, every entry point; nesting depths 10^2..10^7. Oracle = monitors: recover, watchdog, stack cap, supervisor attributing fatal errors.",
   note="Absence of panics, faults and hangs is shown for the explored inputs only.",
   technique="TLA+ model of the cycle detector checked by TLC (termination, iff-cyclic), enumeration of heaps, supervised replay with monitors"),
}

# what later rounds added to each check (appended to the text above by bin/mkmanifest)
EXTENSIONS = {
 "C01": "spec/JsonString.tla adds the escape algorithm of the string encoder (word scan, tail, span copies) refined against the definition of a literal over 17 unit classes, with every unit sequence up to 3 (4) replayed through every writer of a string; a lattice of numbers (powers of ten and their neighbours per integer kind, the float notation cut-offs) and shared-but-acyclic values below depth 1000 are compared with encoding/json.",
 "C02": "spec/JsonString.tla read backwards: literal-unit sequences (37 classes incl. surrogates, invalid bytes, broken escapes) with the meaning or rejection of the definition, at every word offset, cut by buffer refills and behind 33000 plain bytes, through every reader of a string; targets also hold nil pointers and non-pointers in their interfaces before the decode; named empty interface types and an interface type with a method are leaf kinds.",
 "C03": "Maps keyed by messages (plain, nested, self-marshalling) with every kind of value get a round-trip check of their own; one Go type under two encodings (tagged and plain twin kinds) is generated in both orders.",
 "C05": "The literal units of spec/JsonString.tla with the verdict WellFormed as document, element, member value and member name through every syntax-only consumer.",
 "C06": "Every shape value is also appended to destinations with n-3..n+1 spare bytes; heaps are also built from typed nodes (generic map codec) and placed below a chain of 1001 pointers, where the cycle detector records what it visits; truncated documents go into targets with decoders of their own (Duration, Time, []byte, Number, text and JSON unmarshalers, integer and text map keys, ,string fields).",
 "C07": "Unknown fields are also written with padded tags, lengths and varints; spec/WireAlloc.tla (kind append) drives repeated fields of up to 80 thousand elements through a quiet allocation meter.",
 "C08": "spec/WireAlloc.tla models the reservation policies for sizes read from the wire (lists, maps / sets, byte strings; invariant: all memory ever allocated within a constant factor of what was consumed; three wrong policies as vacuity witnesses); every (kind, announced, present) triple, lifted to 1024 / 4096 and announced sizes up to 2^31-1, is decoded on both protocols: unexpected-EOF class error, bounded allocation.",
 "C09": "The stress also marshals a fresh type with pointer-receiver methods on its fields by value, by pointer and inside interfaces (judged against encoding/json), and nested sorted maps after failed encodes of each kind of map.",
 "C10": "Encoder histories (settings changed between Encode calls) with a writer that makes further library calls, on this and another goroutine, while it holds the bytes it was handed.",
 "C11": "Negative numbers (the sign alone is no value) and numbers that start just before, at and behind a buffer boundary.",
 "C12": "One Go type under two encodings (tagged and plain twin kinds) in both orders.",
 "C14": "The number table is decoded with the interface in every position: slice, array, map, field, pointer, named empty interface types, interfaces holding pointers.",
 "C15": "A lattice of numbers (powers of ten and neighbours per integer kind, float cut-offs) through the whole prefix x spare-capacity grid; 70-element slices.",
 "C16": "After every call that fails for want of room the zero value of the same type is encoded again and compared with its encoding from before.",
 "C18": "The allocation clause is checked under every flag subset on every combination of the optional parts, also cut short and followed by 40 more bytes.",
 "C20": "Every length up to 80 x every position x deviation for the bytes and string variants of all predicates, the fold family position by position.",
}
NOT_APPLICABLE = []
HOOK_COMMITS = ["0806904", "096f248", "90a2273"]
