"""Source of MANIFEST.json (bin/mkmanifest writes it)."""
CHECKS = {
 "C05": dict(
   level="model_checking", ref="DESIGN.md section 5, C05",
   text="The RFC 8259 recogniser is an explicit TLA+ push-down automaton (spec/JsonGrammar.tla). TLC checks its invariants and lifting lemmas and enumerates every viable prefix of the language up to the bound with the spec's verdict; each behaviour is replayed through every syntax-only consumer of the real package, and encoding/json.Valid cross-checks the specification.",
   note="Exhaustive over byte classes up to the length bound; bytes of one class are represented by the listed representatives; longer documents only through stretched strings/whitespace (justified by stutter lemmas checked in TLC).",
   technique="TLA+ spec + TLC exhaustive enumeration, spec-to-code replay (conformance), std oracle cross-check"),
 "C17": dict(
   level="model_checking", ref="DESIGN.md section 5, C17",
   text="spec/JsonTokenizerOps.tla holds the definition of Depth/Index/IsKey (grammar over tokens) next to the Tokenizer's stack machine (one action per Next); TLC proves they agree on every valid token document up to the bound, enumerates those documents for step-by-step replay on the real Tokenizer, and validates recorded traces of the real Tokenizer (arbitrary bytes, Reset/reuse histories) against TraceJsonTokenizer.tla.",
   note="Token classes are lifted to a fixed list of scalar variants; traces are recorded through the public fields of Tokenizer (no hook needed); encoding/json's token stream cross-checks the definition.",
   technique="TLA+ spec + TLC model checking, spec-to-code replay and code-to-spec trace validation"),
 "C11": dict(
   level="model_checking", ref="DESIGN.md section 5, C11",
   text="spec/JsonDecoderStream.tla models Decoder.readValue (buffer window, compaction, growth, sticky error, InputOffset) with nondeterministic buffering policy; TLC proves no byte is lost or duplicated, the results are the ideal tokenisation, InputOffset/Buffered stay in range for every policy, and enumerates all abstract streams x terminal errors. Each is lifted to the real 4 KiB / 32 KiB thresholds under many reader schedules and replayed; the hooks in readValue give traces that TLC validates against spec/TraceJsonDecoder.tla.",
   note="Abstract byte classes (w d o x c g) are lifted to spaces, digit runs and strings; array/object values are covered by C05 framing; encoding/json's Decoder cross-checks the ideal sequence.",
   technique="TLA+ spec + TLC model checking (policy-free), spec-to-code replay at real thresholds, trace validation of hook events"),
}
NOT_APPLICABLE = []
HOOK_COMMITS = ["0806904"]
