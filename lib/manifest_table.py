"""Source of MANIFEST.json (bin/mkmanifest writes it)."""
CHECKS = {
 "C05": dict(
   level="model_checking", ref="DESIGN.md section 5, C05",
   text="The RFC 8259 recogniser is an explicit TLA+ push-down automaton (spec/JsonGrammar.tla). TLC checks its invariants and lifting lemmas and enumerates every viable prefix of the language up to the bound with the spec's verdict; each behaviour is replayed through every syntax-only consumer of the real package, and encoding/json.Valid cross-checks the specification.",
   note="Exhaustive over byte classes up to the length bound; bytes of one class are represented by the listed representatives; longer documents only through stretched strings/whitespace (justified by stutter lemmas checked in TLC).",
   technique="TLA+ spec + TLC exhaustive enumeration, spec-to-code replay (conformance), std oracle cross-check"),
 "C17": dict(
   level="model_checking", ref="DESIGN.md section 5, C17",
   text="spec/JsonTokenizerOps.tla holds the definition of Depth/Index/IsKey (grammar over tokens) next to the Tokenizer's stack machine (one action per Next); TLC proves they agree on every valid token document up to the bound, enumerates those documents for step-by-step replay on the real Tokenizer, and validates recorded traces of the real Tokenizer (arbitrary bytes, Reset/reuse histories) against TraceJsonTokenizer.tla.",
   note="Token classes are lifted to a fixed list of scalar variants; traces are recorded through the public fields of Tokenizer (no hook needed); encoding/json's token stream cross-checks the definition.",
   technique="TLA+ spec + TLC model checking, spec-to-code replay and code-to-spec trace validation"),
}
NOT_APPLICABLE = []
HOOK_COMMITS = []
