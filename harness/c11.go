package main

// C11 - json.Decoder yields the same value stream however the bytes arrive.
//
// Spec -> code: vectors from spec/JsonDecoderStream.tla are (abstract stream,
// terminal error) pairs with the IDEAL result sequence (value spans, final
// error).  Each is lifted to concrete bytes at the implementation's real sizes
// (4 KiB read quantum, 32 KiB initial buffer) and delivered through readers
// with many chunk schedules; the real Decoder must produce the ideal sequence,
// keep InputOffset in range, and Buffered+unread must be the unconsumed input.
// encoding/json's Decoder (one read) cross-checks the ideal sequence.
//
// Code -> spec: the hooks in Decoder.readValue (build tag verif) record every
// transition; the events, with ghost fields from the harness, are written to a
// trace that TLC validates against spec/TraceJsonDecoder.tla.

import (
	"bufio"
	"bytes"
	stdjson "encoding/json"
	"errors"
	"fmt"
	"io"
	"os"
	"strings"
	"sync"

	"github.com/segmentio/encoding/json"
)

type streamVec struct {
	S []string `json:"s"`
	T string   `json:"t"`
	R []struct {
		K string `json:"k"`
		S int    `json:"s"`
		E int    `json:"e"`
	} `json:"r"`
}

type c11Case struct {
	S     []string `json:"s"`
	T     string   `json:"t"`
	Lens  []int    `json:"lens"`     // concrete length of each abstract symbol
	Sched []int    `json:"sched"`    // chunk sizes (cycled); 0 = zero-length read
	WithE bool     `json:"with_err"` // the last data chunk is returned together with the terminal error
	Pat   int      `json:"pat"`      // what the inner bytes of strings are made of (0 letters, 1 escaped quotes first, 2 escaped quotes last, 3 UTF-8, 4 backslashes, 5 literals true/false/null where the lengths fit, 6 digit runs with a fraction, 7 with fraction and exponent)
	Ideal [][3]int `json:"ideal"`    // kind (0 val,1 EOF,2 E,3 ueof,4 syn), start, end in abstract offsets
	Trace bool     `json:"trace,omitempty"`
	// which error value stands for the reader's error "E": 0 an error of the harness's own, 1 io.ErrUnexpectedEOF itself,
	// 2 an error that wraps io.EOF (the Decoder compares errors with its own sentinels: none of them is the reader's)
	EV int `json:"ev,omitempty"`
}

var errReader = errors.New("verif: reader failed")
var c11ErrVariants = []error{errReader, io.ErrUnexpectedEOF, fmt.Errorf("verif: reader failed: %w", io.EOF)}

type schedReader struct {
	data  []byte
	pos   int
	sched []int
	i     int
	term  error
	withE bool
	done  bool // terminal error has been reported at least once
	calls int
}

func (r *schedReader) Read(p []byte) (int, error) {
	r.calls++
	if r.pos >= len(r.data) {
		r.done = true
		return 0, r.term
	}
	n := len(p)
	if len(r.sched) > 0 {
		n = r.sched[r.i%len(r.sched)]
		r.i++
	}
	if n > len(p) {
		n = len(p)
	}
	if n > len(r.data)-r.pos {
		n = len(r.data) - r.pos
	}
	copy(p, r.data[r.pos:r.pos+n])
	r.pos += n
	if r.withE && r.pos == len(r.data) {
		r.done = true
		return n, r.term
	}
	return n, nil
}

func liftStream(s []string, lens []int, pat int) (data []byte, cum []int) {
	cum = make([]int, len(s)+1)
	// pattern 5: a delimited value whose symbols are one byte each and whose length is that of a literal is
	// lifted to true / null / false (complete, or cut anywhere) instead of a string: literals are delimited
	// values too (complete exactly at their last byte), parsed by code of their own
	lit := map[int]byte{}
	if pat == 5 {
		for i := 0; i < len(s); i++ {
			if s[i] != "o" || lens[i] != 1 {
				continue
			}
			j, ok := i+1, true
			for j < len(s) && s[j] == "x" {
				ok = ok && lens[j] == 1
				j++
			}
			closed := j < len(s) && s[j] == "c"
			n := j - i // bytes before the closing one
			var word string
			switch {
			case closed && n == 4:
				word = "false"
			case closed && n == 3:
				word = []string{"true", "null"}[i%2]
			case !closed && j == len(s) && n <= 4:
				word = []string{"false", "true", "null"}[(i+n)%3]
				if n == 4 {
					word = "false"
				}
			}
			if ok && word != "" {
				for k := 0; k < n; k++ {
					lit[i+k] = word[k]
				}
				if closed {
					lit[j] = word[n]
				}
			}
			i = j
		}
	}
	for i, c := range s {
		cum[i] = len(data)
		n := lens[i]
		if b, ok := lit[i]; ok {
			data = append(data, b)
			continue
		}
		switch c {
		case "w":
			for k := 0; k < n; k++ {
				if pat == 8 || pat == 3 {
					data = append(data, ' ') // runs of one and the same white space byte (scanned a word at a time)
				} else {
					data = append(data, " \n\t\r"[(k*7+i)%4])
				}
			}
		case "d":
			start := len(data)
			for k := 0; k < n; k++ {
				data = append(data, byte('1'+(k+i)%9))
			}
			// patterns 6 and 7: the digit run is a number with a fraction (and an exponent): still one value that is
			// complete after every digit behind the point, parsed by other code than integers
			if (pat == 6 || pat == 7) && n >= 3 && (i == 0 || s[i-1] != "d") && (i+1 >= len(s) || s[i+1] != "d") {
				run := data[start:]
				run[1] = '.'
				if pat == 7 && n >= 6 {
					run[n-3] = 'e'
				}
			}
		case "o", "c":
			data = append(data, '"')
		case "x":
			// inner bytes of a string: the run is n bytes whatever the pattern (two-byte units, padded with a letter)
			start := len(data)
			for k := 0; k < n; k++ {
				data = append(data, byte('a'+(k+i)%26))
			}
			run := data[start:]
			unit := map[int]string{1: `\"`, 2: `\"`, 3: "\u00c3\u00a9", 4: `\\`}[pat]
			if pat == 3 {
				unit = "\xc3\xa9"
			}
			if unit != "" && n >= 2 {
				units := min(n/2, 40)
				at := 0
				if pat == 2 {
					at = n - 2*units
				}
				for u := 0; u < units; u++ {
					copy(run[at+2*u:], unit[:2])
				}
			}
		default:
			data = append(data, '!')
		}
	}
	cum[len(s)] = len(data)
	// patterns 8 and 9: a digit run of two or more bytes that starts a value becomes a negative number (9: with a
	// fraction as well) - the sign alone is no value yet, whatever follows it
	if pat == 8 || pat == 9 {
		for i := 0; i < len(data); {
			if data[i] < '1' || data[i] > '9' {
				i++
				continue
			}
			j := i
			for j < len(data) && data[j] >= '1' && data[j] <= '9' {
				j++
			}
			// only a run that starts a value: at the start, after white space or after the garbage class
			startsValue := i == 0 || data[i-1] == ' ' || data[i-1] == '\n' || data[i-1] == '\t' || data[i-1] == '\r'
			if startsValue && j-i >= 2 && !inString(data, i) {
				data[i] = '-'
				if pat == 9 && j-i >= 4 {
					data[i+2] = '.'
				}
			}
			i = j
		}
	}
	return
}

// inString: whether offset i of the lifted stream lies between two quotes (the liftings use no escaped quotes
// in patterns 8 and 9)
func inString(data []byte, i int) bool {
	in := false
	for k := 0; k < i; k++ {
		if data[k] == '"' {
			in = !in
		}
	}
	return in
}

// ---- trace recording through the verif hook

type decTrace struct {
	rd     *schedReader
	events []string
	nval   int
	vals   [][3]int // ideal vs, ve, nns per value (concrete offsets)
}

var (
	decTraces sync.Map // *json.Decoder -> *decTrace
	hookOnce  sync.Once
)

func installDecoderHook() {
	hookOnce.Do(func() {
		json.VerifDecoderHook = func(dec *json.Decoder, ev string, n, blen, bcap, roff, rlen int, ioff int64, errc string) {
			v, ok := decTraces.Load(dec)
			if !ok {
				return
			}
			t := v.(*decTrace)
			extra := ""
			if ev == "value" {
				vs, ve, nns := 0, 0, 0
				if t.nval < len(t.vals) {
					vs, ve, nns = t.vals[t.nval][0], t.vals[t.nval][1], t.vals[t.nval][2]
				}
				t.nval++
				extra = fmt.Sprintf(`,"vs":%d,"ve":%d,"nns":%d`, vs, ve, nns)
			}
			t.events = append(t.events, fmt.Sprintf(`{"ev":%q,"n":%d,"blen":%d,"bcap":%d,"roff":%d,"rlen":%d,"ioff":%d,"err":%q,"rpos":%d,"rdone":%v%s}`,
				ev, n, blen, bcap, roff, rlen, ioff, errc, t.rd.pos, t.rd.done, extra))
		}
	})
}

var (
	traceMu   sync.Mutex
	traceFile *bufio.Writer
	traceIdx  *bufio.Writer
	traceN    int
)

func traceSink() bool {
	traceMu.Lock()
	defer traceMu.Unlock()
	if traceFile != nil {
		return true
	}
	p := os.Getenv("VERIF_TRACE_OUT")
	if p == "" {
		return false
	}
	if !strings.HasSuffix(p, ".ndjson") {
		p = fmt.Sprintf("%s.%d.ndjson", p, os.Getpid())
	}
	f, err := os.Create(p)
	if err != nil {
		return false
	}
	g, _ := os.Create(p + ".idx")
	traceFile = bufio.NewWriter(f)
	traceIdx = bufio.NewWriter(g)
	return true
}

func flushTraceSink() {
	traceMu.Lock()
	defer traceMu.Unlock()
	if traceFile != nil {
		traceFile.Flush()
		traceIdx.Flush()
	}
}

func writeTrace(header string, events []string, kase any) {
	traceMu.Lock()
	defer traceMu.Unlock()
	first := traceN + 1
	traceFile.WriteString(header)
	traceFile.WriteByte('\n')
	traceN++
	for _, e := range events {
		traceFile.WriteString(e)
		traceFile.WriteByte('\n')
		traceN++
	}
	b, _ := stdjson.Marshal(map[string]any{"first": first, "last": traceN, "case": kase})
	traceIdx.Write(b)
	traceIdx.WriteByte('\n')
}

// ---- running one case

func errKind(err error) string {
	switch {
	case err == nil:
		return "val"
	case err == io.EOF:
		return "EOF"
	case err == errReader:
		return "E"
	}
	return "other:" + fmt.Sprintf("%T", err)
}

func c11Run(c *Ctx, k c11Case) (events []string, header string) {
	data, cum := liftStream(k.S, k.Lens, k.Pat)
	var term error = io.EOF
	if k.T == "E" {
		term = c11ErrVariants[k.EV%len(c11ErrVariants)]
	}
	errKind := func(err error) string {
		if k.T == "E" && err != nil && err == term {
			return "E"
		}
		return errKind(err)
	}
	fail := func(api, want, got string) { c.Diverge("C11", api, want, got, "", k) }

	// REF: encoding/json's Decoder on the same bytes in one read must yield the ideal values
	var stdVals [][3]int // vs, ve, nns
	{
		dec := stdjson.NewDecoder(bytes.NewReader(data))
		for {
			var raw stdjson.RawMessage
			if err := dec.Decode(&raw); err != nil {
				break
			}
			ve := int(dec.InputOffset())
			vs := ve - len(raw)
			nns := ve
			for nns < len(data) && strings.IndexByte(" \n\t\r", data[nns]) >= 0 {
				nns++
			}
			stdVals = append(stdVals, [3]int{vs, ve, nns})
		}
		nv := 0
		for _, r := range k.Ideal {
			if r[0] != 0 {
				break
			}
			if nv >= len(stdVals) || stdVals[nv][0] != cum[r[1]] || stdVals[nv][1] != cum[r[2]] {
				c.SpecError("C11", fmt.Sprintf("ideal value %d disagrees with encoding/json", nv), k)
				return
			}
			nv++
		}
		if nv != len(stdVals) {
			c.SpecError("C11", "encoding/json yields more values than the ideal sequence", k)
			return
		}
	}

	// Parse on the whole input: the remainder is exactly what follows the first value and its trailing whitespace
	if len(k.Sched) == 0 {
		in := append([]byte(nil), data...)
		var raw json.RawMessage
		var rest []byte
		var perr error
		c.Eval(1)
		if pn := protect(func() { rest, perr = json.Parse(in, &raw, 0) }); pn != "" {
			fail("json.Parse", "no panic", pn)
		} else if len(stdVals) > 0 {
			vs, ve, nns := stdVals[0][0], stdVals[0][1], stdVals[0][2]
			if perr != nil {
				fail("json.Parse", fmt.Sprintf("value data[%d:%d], remainder data[%d:]", vs, ve, nns), "error: "+perr.Error())
			} else if len(rest) != len(data)-nns || (len(rest) > 0 && &rest[0] != &in[nns]) || !bytes.Equal(raw, data[vs:ve]) {
				fail("json.Parse", fmt.Sprintf("value data[%d:%d], remainder data[%d:] (%d bytes)", vs, ve, nns, len(data)-nns),
					fmt.Sprintf("value %d bytes, remainder %d bytes", len(raw), len(rest)))
			}
		} else if len(k.Ideal) > 0 && (k.Ideal[0][0] == 3 || k.Ideal[0][0] == 4) && perr == nil {
			fail("json.Parse", "an error (no complete value at the start)", fmt.Sprintf("nil error, value %q", clipS(string(raw))))
		}
	}

	rd := &schedReader{data: data, sched: k.Sched, term: term, withE: k.WithE}
	dec := json.NewDecoder(rd)
	var tr *decTrace
	if k.Trace {
		installDecoderHook()
		tr = &decTrace{rd: rd, vals: stdVals}
		decTraces.Store(dec, tr)
		defer decTraces.Delete(dec)
	}
	orig := append([]byte(nil), data...)
	var lastOff int64
	p := protect(func() {
		for i, want := range k.Ideal {
			var raw json.RawMessage
			err := dec.Decode(&raw)
			c.Eval(1)
			got := errKind(err)
			off := dec.InputOffset()
			if off < lastOff {
				fail("Decoder.InputOffset", fmt.Sprintf("monotone (>= %d)", lastOff), fmt.Sprint(off))
			}
			lastOff = off
			switch want[0] {
			case 0: // value
				vs, ve := cum[want[1]], cum[want[2]]
				if got == "E" && k.T == "E" {
					return // a prefix of the values followed by the reader's error is what the property allows
				}
				if got != "val" {
					fail("Decoder.Decode", fmt.Sprintf("value %d = stream[%d:%d]", i, vs, ve), got)
					return
				}
				if !bytes.Equal(raw, data[vs:ve]) {
					fail("Decoder.Decode", fmt.Sprintf("value %d = stream[%d:%d] (%d bytes)", i, vs, ve, ve-vs),
						fmt.Sprintf("%d bytes %.40q", len(raw), string(raw)))
					return
				}
				nns := ve
				for nns < len(data) && strings.IndexByte(" \n\t\r", data[nns]) >= 0 {
					nns++
				}
				if int(off) < ve || int(off) > nns {
					fail("Decoder.InputOffset", fmt.Sprintf("in [%d,%d] after value %d", ve, nns, i), fmt.Sprint(off))
				}
				// Buffered() followed by the unread remainder of the reader = the unconsumed input
				buffered, _ := io.ReadAll(dec.Buffered())
				rest := append(buffered, data[rd.pos:]...)
				start := len(data) - len(rest)
				if start < ve || start > nns || !bytes.Equal(rest, data[start:]) {
					fail("Decoder.Buffered", fmt.Sprintf("Buffered+unread = stream[p:], p in [%d,%d]", ve, nns),
						fmt.Sprintf("%d bytes, p=%d, equal=%v", len(rest), start, start >= 0 && start <= len(data) && bytes.Equal(rest, data[max(start, 0):])))
				}
			case 1: // clean end, io.EOF
				if got != "EOF" {
					fail("Decoder.Decode", "io.EOF at clean end of input", got)
				}
				return
			case 2: // the reader's error
				if got != "E" {
					fail("Decoder.Decode", "the reader's error", got)
				}
				return
			case 3, 4: // input ends inside a value / syntax error: an error other than io.EOF
				if got == "val" || got == "EOF" {
					fail("Decoder.Decode", map[int]string{3: "an error other than io.EOF (input ends inside a value)", 4: "a syntax error"}[want[0]], got)
				}
				return
			}
		}
	})
	if p != "" {
		fail("Decoder.Decode", "no panic", p)
	}
	if !bytes.Equal(orig, data) {
		fail("Decoder(input)", "reader data untouched", "modified")
	}
	if tr != nil {
		return tr.events, fmt.Sprintf(`{"ev":"new","term":%q,"total":%d}`, k.T, len(data))
	}
	return nil, ""
}

var tracePct = func() int {
	n := 25
	fmt.Sscanf(os.Getenv("VERIF_TRACE_PCT"), "%d", &n)
	return n
}()

var idealKinds = map[string]int{"val": 0, "EOF": 1, "E": 2, "ueof": 3, "syn": 4}

func c11Vector(c *Ctx, raw stdjson.RawMessage) {
	var v streamVec
	if err := stdjson.Unmarshal(raw, &v); err != nil {
		c.SpecError("C11", "bad vector", string(raw))
		return
	}
	c.Nontrivial()
	r := newRng(c.Seed, string(raw))
	ideal := make([][3]int, 0, len(v.R))
	for _, x := range v.R {
		ideal = append(ideal, [3]int{idealKinds[x.K], x.S, x.E})
	}
	ext := func(i int) bool { return v.S[i] == "w" || v.S[i] == "d" || v.S[i] == "x" }
	tracing := traceSink() && r.intn(100) < tracePct
	forcePat := -1
	run := func(lens, sched []int, withE bool, trace bool) {
		pat := r.intn(10)
		if forcePat >= 0 {
			pat = forcePat
		}
		k := c11Case{S: v.S, T: v.T, Lens: lens, Sched: sched, WithE: withE, Ideal: ideal, Trace: trace && tracing, Pat: pat}
		if !k.Trace {
			k.EV = r.intn(len(c11ErrVariants))
		}
		c.Case()
		ev, hdr := c11Run(c, k)
		if k.Trace && hdr != "" {
			writeTrace(hdr, ev, k)
		}
	}
	small := make([]int, len(v.S))
	for i := range small {
		small[i] = 1
	}
	// A. every symbol one byte: all at once, byte by byte, irregular chunks with zero-length reads, data+error
	run(small, nil, false, true)
	run(small, []int{1}, false, true)
	run(small, []int{0, 2, 1, 0, 3}, true, true)
	// ... and the same with literals where the lengths fit
	forcePat = 5
	run(small, nil, false, false)
	run(small, []int{1}, true, false)
	run(small, []int{0, 2, 1, 0, 3}, true, false)
	// ... and with negative numbers where digit runs are long enough
	forcePat = 8
	run(small, []int{1}, true, false)
	run(small, []int{0, 2, 1, 0, 3}, true, false)
	forcePat = -1
	c.Sample(map[string]any{"stream": v.S, "term": v.T, "ideal": v.R})
	// B. a pivot symbol stretched so that it straddles the first buffer boundary (32768) by every small delta
	var cands []int
	for i := range v.S {
		if ext(i) {
			cands = append(cands, i)
		}
	}
	big := 2
	if c.Tier == "thorough" {
		big = 6
	}
	if len(cands) > 0 {
		for rep := 0; rep < big; rep++ {
			pv := cands[r.intn(len(cands))]
			lens := make([]int, len(v.S))
			pre := 0
			for i := range lens {
				lens[i] = 1
				if ext(i) && i != pv {
					lens[i] = 1 + r.intn(3)
				}
			}
			for i := 0; i < pv; i++ {
				pre += lens[i]
			}
			bound := []int{32768, 32768, 32768, 65536, 4096}[r.intn(5)]
			delta := []int{-2, -1, 0, 1, 2, 3, 4095, 4096, 4097}[r.intn(9)]
			if n := bound - pre + delta; n >= 1 {
				lens[pv] = n
			}
			sched := [][]int{nil, {4096}, {1000, 0, 3096}, {32768}, {5000}, {1, 4095, 8192}}[r.intn(6)]
			run(lens, sched, r.intn(3) == 0, rep == 0)
		}
		// D. a number that starts just before, at and just behind a buffer boundary (its sign, its first digit or its
		// point is the last byte that has arrived): the stretchable symbol in front of a digit run is the pivot
		for pv := 0; pv+1 < len(v.S); pv++ {
			if !ext(pv) || v.S[pv] == "d" || v.S[pv+1] != "d" {
				continue
			}
			for _, delta := range []int{-3, -2, -1, 0} {
				lens := make([]int, len(v.S))
				pre := 0
				for i := range lens {
					lens[i] = 1
					if v.S[i] == "d" {
						lens[i] = 5
					}
				}
				for i := 0; i < pv; i++ {
					pre += lens[i]
				}
				if n := 32768 - pre + delta; n >= 1 {
					lens[pv] = n
				}
				forcePat = 8 + (pv+delta+4)%2
				run(lens, [][]int{nil, {4096}, {32768}}[(pv+delta+4)%3], delta == -1, false)
				forcePat = -1
			}
			break // one pivot per stream
		}
		// C. several large symbols: later buffer boundaries, growth (doubling), values longer than the buffer
		for rep := 0; rep < big; rep++ {
			lens := make([]int, len(v.S))
			total := 0
			for i := range lens {
				lens[i] = 1
				if ext(i) {
					lens[i] = []int{1, 2, 100, 4095, 4096, 4097, 30000, 32767, 32768, 32769, 70000}[r.intn(11)]
				}
				total += lens[i]
			}
			if total > 400000 {
				continue
			}
			sched := [][]int{nil, {4096}, {7, 0, 4089}, {65536}, {3000, 3000, 1}}[r.intn(5)]
			run(lens, sched, r.intn(3) == 0, rep == 0)
		}
	}
}

func c11Replay(c *Ctx, raw stdjson.RawMessage) {
	var k c11Case
	if stdjson.Unmarshal(raw, &k) != nil {
		return
	}
	if k.Trace {
		// re-record the trace of this single case for TLC (VERIF_TRACE_OUT must be set)
		if traceSink() {
			ev, hdr := c11Run(c, k)
			if hdr != "" {
				writeTrace(hdr, ev, k)
			}
			flushTraceSink()
			return
		}
		k.Trace = false
	}
	c11Run(c, k)
}

func init() {
	register("C11", &Driver{Vector: c11Vector, Replay: c11Replay, Finish: func(c *Ctx) { flushTraceSink() }})
}
