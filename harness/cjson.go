package main

// C01, C02 - json.Marshal / json.Unmarshal against encoding/json over the type
// shapes of spec/JsonTypes.tla and the embedding scenarios of spec/JsonFields.tla.

import (
	"bytes"
	stdjson "encoding/json"
	"fmt"
	"math"
	"math/big"
	"reflect"
	"sort"
	"strconv"
	"strings"
	"time"

	"github.com/segmentio/encoding/json"
)

type jsonVec struct {
	Shape     *jShape `json:"shape"`
	HasEmpty  bool    `json:"hasempty"`
	StringOpt bool    `json:"stringopt"`
	// embedding scenarios (JsonFields)
	Own    []string `json:"own"`
	Embeds []struct {
		E   string `json:"e"`
		Ptr bool   `json:"ptr"`
	} `json:"embeds"`
	Visible []struct {
		Name string `json:"name"`
		Path string `json:"path"`
	} `json:"visible"`
	Hidden []string `json:"hidden"`
}

type jsonCase struct {
	Shape   *jShape  `json:"shape,omitempty"`
	VI      int      `json:"vi"`
	Seed    int64    `json:"seed"`
	Limit   int      `json:"limit"`
	Ptr     bool     `json:"ptr,omitempty"`
	Setting string   `json:"setting,omitempty"`
	Doc     string   `json:"doc,omitempty"`
	Docs    []string `json:"docs,omitempty"`
	Scen    *jsonVec `json:"scenario,omitempty"`
	Nils    int      `json:"nils,omitempty"`
	Prefill int      `json:"prefill,omitempty"` // the interfaces of the target hold pointers before the decode (variant)
	At      int      `json:"at,omitempty"`      // Decoder(refill): how many bytes of the document arrive with the first fill of the buffer
}

const jLimit = 8

func shapeValues(s *jShape, seed int64, limit int) []reflect.Value {
	return valuesOf(s, newRng(seed, s.String()), limit)
}

func errStr(err error) string {
	if err == nil {
		return "nil"
	}
	s := err.Error()
	if len(s) > 120 {
		s = s[:120]
	}
	return "error(" + s + ")"
}

// ---------------------------------------------------------------- C01

func c01Compare(c *Ctx, k jsonCase, api string, wantB []byte, wantErr error, gotB []byte, gotErr error, finding string) bool {
	c.Eval(1)
	if (wantErr == nil) != (gotErr == nil) {
		c.Diverge("C01", api, errStr(wantErr)+" "+clipS(string(wantB)), errStr(gotErr)+" "+clipS(string(gotB)), finding, k)
		return false
	}
	if wantErr == nil && !bytes.Equal(wantB, gotB) {
		c.Diverge("C01", api, clipS(string(wantB)), clipS(string(gotB)), finding, k)
		return false
	}
	return true
}

func clipS(s string) string {
	if len(s) > 160 {
		return s[:160] + "…"
	}
	return s
}

func c01Value(c *Ctx, k jsonCase, v reflect.Value) {
	x := v.Interface()
	if k.Ptr {
		p := reflect.New(v.Type())
		p.Elem().Set(v)
		x = p.Interface()
	}
	finding := c01Finding(k, v)
	var wb, gb []byte
	var we, ge error
	if p := protect(func() { wb, we = stdjson.Marshal(x) }); p != "" {
		return // encoding/json itself panics on this value: nothing to agree with
	}
	if p := protect(func() { gb, ge = json.Marshal(x) }); p != "" {
		c.Diverge("C01", "json.Marshal", errStr(we)+" "+clipS(string(wb)), p, finding, k)
		return
	}
	if !c01Compare(c, k, "json.Marshal", wb, we, gb, ge, finding) {
		return
	}
	gb, ge = json.Append([]byte(nil), x, json.EscapeHTML|json.SortMapKeys)
	c01Compare(c, k, "json.Append(default flags)", wb, we, gb, ge, finding)
	// Encoder under every SetEscapeHTML / SetIndent setting
	for _, html := range []bool{true, false} {
		for _, ind := range [][2]string{{"", ""}, {"", "  "}, {">", "\t"}} {
			var w1, w2 bytes.Buffer
			e1 := stdjson.NewEncoder(&w1)
			e1.SetEscapeHTML(html)
			e1.SetIndent(ind[0], ind[1])
			e2 := json.NewEncoder(&w2)
			e2.SetEscapeHTML(html)
			e2.SetIndent(ind[0], ind[1])
			we = e1.Encode(x)
			ge = e2.Encode(x)
			f := finding
			if !html && f == "" {
				f = c01FindingNoHTML(k, v)
			}
			c01Compare(c, k, fmt.Sprintf("Encoder.Encode(escapeHTML=%v,indent=%q/%q)", html, ind[0], ind[1]), w1.Bytes(), we, w2.Bytes(), ge, f)
		}
	}
	wb, we = stdjson.MarshalIndent(x, "p", " ")
	gb, ge = json.MarshalIndent(x, "p", " ")
	c01Compare(c, k, "json.MarshalIndent", wb, we, gb, ge, finding)
	if s, ok := x.(string); ok {
		wb, _ = stdjson.Marshal(s)
		c01Compare(c, k, "json.Escape", wb, nil, json.Escape(s), nil, "")
		c01Compare(c, k, "json.AppendEscape(EscapeHTML)", wb, nil, json.AppendEscape(nil, s, json.EscapeHTML), nil, "")
		var w1 bytes.Buffer
		e1 := stdjson.NewEncoder(&w1)
		e1.SetEscapeHTML(false)
		e1.Encode(s)
		c01Compare(c, k, "json.AppendEscape(0)", bytes.TrimSuffix(w1.Bytes(), []byte("\n")), nil, json.AppendEscape(nil, s, 0), nil, "")
	}
}

// known findings of C01 (narrow predicates; see known_findings.json)
func c01Finding(k jsonCase, v reflect.Value) string       { return "" }
func c01FindingNoHTML(k jsonCase, v reflect.Value) string { return "" }

func c01Vector(c *Ctx, raw stdjson.RawMessage) {
	if encStreamDispatch(c, raw) || b64Dispatch(c, "C01", raw) {
		return
	}
	if strDispatch(c, raw) {
		return
	}
	var v jsonVec
	if err := stdjson.Unmarshal(raw, &v); err != nil {
		return
	}
	if v.Shape == nil {
		if len(v.Own)+len(v.Embeds) > 0 {
			c.Nontrivial()
			c01Scenario(c, &v)
		}
		return
	}
	c.Nontrivial()
	vals := shapeValues(v.Shape, c.Seed, jLimit)
	for i, val := range vals {
		for _, ptr := range []bool{false, true} {
			c.Case()
			c01Value(c, jsonCase{Shape: v.Shape, VI: i, Seed: c.Seed, Limit: jLimit, Ptr: ptr}, val)
		}
	}
	c.Sample(map[string]any{"shape": v.Shape.String(), "values": len(vals)})
}

// c01Number: one number text as every kind that can hold it, against encoding/json (the integer formatter sizes its
// output by the number of digits; the float formatter switches notation at 1e21 and 1e-6 and differs for float32)
func c01Number(c *Ctx, text string) {
	k := jsonCase{Setting: "number:" + text}
	var xs []any
	if n, err := strconv.ParseInt(text, 10, 64); err == nil {
		xs = append(xs, n, int(n), []int64{n, n}, map[string]int64{"k": n}, struct{ A int64 }{n}, &n)
		if int64(int32(n)) == n {
			xs = append(xs, int32(n))
		}
		if int64(int16(n)) == n {
			xs = append(xs, int16(n))
		}
		if int64(int8(n)) == n {
			xs = append(xs, int8(n))
		}
	}
	if n, err := strconv.ParseUint(text, 10, 64); err == nil {
		xs = append(xs, n, uint(n), uintptr(n), []uint64{n}, map[uint64]string{n: "v"})
		if uint64(uint32(n)) == n {
			xs = append(xs, uint32(n))
		}
		if uint64(uint16(n)) == n {
			xs = append(xs, uint16(n))
		}
		if uint64(uint8(n)) == n {
			xs = append(xs, uint8(n))
		}
	}
	if f, err := strconv.ParseFloat(text, 64); err == nil {
		xs = append(xs, f, float32(f), []float64{f, -f}, []float32{float32(f)}, map[string]any{"f": f}, struct {
			F float32 `json:",string"`
			G float64 `json:",omitempty"`
		}{float32(f), f})
	}
	for _, x := range xs {
		c.Case()
		wb, we := stdjson.Marshal(x)
		var gb []byte
		var ge error
		if p := protect(func() { gb, ge = json.Marshal(x) }); p != "" {
			c.Diverge("C01", fmt.Sprintf("json.Marshal(%T)", x), clipS(string(wb)), p, "", k)
			continue
		}
		c01Compare(c, k, fmt.Sprintf("json.Marshal(%T)", x), wb, we, gb, ge, "")
		gb, ge = json.Append(make([]byte, 0, 64), x, json.EscapeHTML|json.SortMapKeys)
		c01Compare(c, k, fmt.Sprintf("json.Append(%T, roomy destination)", x), wb, we, gb, ge, "")
	}
}

// c01Deep: values with sharing but no cycle, at the top and below the depth from which the encoders start recording
// what they visit (1000): an error exactly when encoding/json has one, else the same bytes
func c01Deep(c *Ctx) {
	for _, depth := range []int{0, 998, 999, 1000, 1001, 1500} {
		leaf := &hnode{V: 3}
		shared := &hnode{V: 2, M: map[string]*hnode{"k": leaf}, S: []*hnode{leaf}}
		roots := []any{
			deepen(&hnode{V: 1, P: shared, S: []*hnode{shared, shared}}, depth),
			deepen(&hnode{V: 1, M: map[string]*hnode{"a": shared, "b": shared}, I: shared}, depth),
			deepen(&hnode{V: 1, I: []any{shared.M, shared.M, map[string]any{"x": shared.S, "y": shared.S}}}, depth),
		}
		for i, x := range roots {
			k := jsonCase{Setting: fmt.Sprintf("deep:%d:%d", depth, i)}
			c.Case()
			wb, we := stdjson.Marshal(x)
			var gb []byte
			var ge error
			if p := protect(func() { gb, ge = json.Marshal(x) }); p != "" {
				c.Diverge("C01", "json.Marshal(shared, no cycle)", errStr(we), p, "", k)
				continue
			}
			c01Compare(c, k, "json.Marshal(shared, no cycle)", wb, we, gb, ge, "")
		}
	}
}

// c01Times: instants around the two ends of the RFC 3339 year range in zones east and west of UTC (the year that counts
// is the one the time shows in its own location), sub-second digits, zone offsets with seconds
func c01Times(c *Ctx) {
	zones := []*time.Location{time.UTC, time.FixedZone("w", -3600), time.FixedZone("e", 3600), time.FixedZone("far", 14*3600), time.FixedZone("odd", -(9*3600 + 30*60)), time.FixedZone("sec", 3601)}
	var ts []time.Time
	for _, z := range zones {
		for _, y := range []int{-1, 0, 1, 9999, 10000} {
			ts = append(ts, time.Date(y, 1, 1, 0, 30, 0, 0, z), time.Date(y, 12, 31, 23, 30, 0, 0, z), time.Date(y, 6, 15, 12, 0, 0, 123456789, z))
		}
		ts = append(ts, time.Date(2021, 3, 25, 21, 36, 12, 500000000, z), time.Date(2021, 3, 25, 21, 36, 12, 1, z), time.Date(2021, 3, 25, 21, 36, 12, 120000000, z))
	}
	for i, t := range ts {
		k := jsonCase{Setting: fmt.Sprintf("time:%d", i)}
		for _, x := range []any{t, &t, []time.Time{t}, map[string]time.Time{"t": t}, struct {
			T time.Time  `json:"t,omitempty"`
			P *time.Time `json:"p"`
		}{t, &t}, map[string]any{"t": t}} {
			c.Case()
			wb, we := stdjson.Marshal(x)
			var gb []byte
			var ge error
			if p := protect(func() { gb, ge = json.Marshal(x) }); p != "" {
				c.Diverge("C01", fmt.Sprintf("json.Marshal(%T)", x), errStr(we)+" "+clipS(string(wb)), p, "", k)
				continue
			}
			c01Compare(c, k, fmt.Sprintf("json.Marshal(%T holding a time)", x), wb, we, gb, ge, "")
		}
	}
}

// durLattice: durations around every power of ten of nanoseconds (the text changes unit at 1e3, 1e6, 1e9 and gains
// minutes and hours at 6e10 and 3.6e12), both signs, the extremes
func durLattice() []time.Duration {
	ds := []time.Duration{0, math.MaxInt64, math.MinInt64, time.Hour, 90 * time.Minute, 1500 * time.Millisecond, -123456, 59*time.Second + 999*time.Millisecond,
		time.Minute - 1, time.Minute, time.Hour - 1, 24 * time.Hour, 100*time.Hour + 1}
	for e := int64(1); e > 0 && e <= math.MaxInt64/10; e *= 10 {
		for _, d := range []int64{-1, 0, 1} {
			ds = append(ds, time.Duration(e+d), -time.Duration(e+d))
		}
	}
	return ds
}

// c01Durations: the sanctioned difference, pinned down - a time.Duration is written as the quoted text of its String
// method, wherever it stands
func c01Durations(c *Ctx) {
	for _, d := range durLattice() {
		k := jsonCase{Setting: "duration:" + strconv.FormatInt(int64(d), 10)}
		want := strconv.Quote(d.String())
		for _, x := range []any{d, &d, []time.Duration{d}, map[string]time.Duration{"d": d}, struct {
			D time.Duration `json:"d,omitempty"`
		}{d}, []any{d}} {
			c.Case()
			c.Eval(1)
			var gb []byte
			var ge error
			if p := protect(func() { gb, ge = json.Marshal(x) }); p != "" || ge != nil {
				c.Diverge("C01", fmt.Sprintf("json.Marshal(%T holding a duration)", x), want, fmt.Sprintf("%v %s", ge, p), "", k)
				continue
			}
			if !strings.Contains(string(gb), want) && !(d == 0 && strings.Contains(string(gb), "{}")) {
				c.Diverge("C01", fmt.Sprintf("json.Marshal(%T holding a duration)", x), want, clipS(string(gb)), "", k)
			}
		}
	}
}

// c01NumberTexts: json.Number holds text - valid number literals are written verbatim, everything else is an error,
// exactly where encoding/json has one (the grammar of a number: sign, leading zero, fraction, exponent)
func c01NumberTexts(c *Ctx) {
	texts := []string{"0", "-0", "1", "-1", "10", "01", "-01", "-007", "-00", "00", "007", "+1", "-", "", " 1", "1 ", "1.", "1.0", ".5", "-.5", "0.5", "1e", "1e5", "1E5", "1e+5", "1e-5",
		"1e+", "1.5e", "1.e5", "1.5e5x", "0x10", "1_000", "1,5", "NaN", "Infinity", "-Infinity", "null", "true", "\"1\"", "1.0000000000000000000000001", "123456789012345678901234567890",
		"-0.0", "0e0", "0.0e-0", "-0e-0", "9e999", "１", "1\u0030"}
	for _, tx := range texts {
		k := jsonCase{Setting: "numbertext:" + tx}
		n1, n2 := stdjson.Number(tx), json.Number(tx)
		type both struct {
			A stdjson.Number
			S stdjson.Number `json:",string"`
			O stdjson.Number `json:",omitempty"`
		}
		for _, pair := range [][2]any{{n1, n2}, {&n1, &n2}, {[]stdjson.Number{n1}, []json.Number{n2}}, {map[string]stdjson.Number{"n": n1}, map[string]json.Number{"n": n2}},
			{both{n1, n1, n1}, both{n2, n2, n2}}, {[]any{n1}, []any{n2}}, {map[stdjson.Number]int{n1: 1}, map[json.Number]int{n2: 1}}} {
			c.Case()
			wb, we := stdjson.Marshal(pair[0])
			var gb []byte
			var ge error
			if p := protect(func() { gb, ge = json.Marshal(pair[1]) }); p != "" {
				c.Diverge("C01", fmt.Sprintf("json.Marshal(%T holding a Number)", pair[1]), errStr(we)+" "+clipS(string(wb)), p, "", k)
				continue
			}
			c01Compare(c, k, fmt.Sprintf("json.Marshal(%T holding a Number)", pair[1]), wb, we, gb, ge, "")
		}
	}
}

// c01EncoderStreams: one Encoder fed a stream in which some values cannot be encoded (NaN, a channel, an invalid
// Number, a Marshaler that fails): each Encode returns what encoding/json's returns and the writer has received the
// same bytes - an encoding error concerns its value only
func c01EncoderStreams(c *Ctx) {
	stream := []any{1, "a<b", math.NaN(), map[string]any{"k": make(chan int)}, []int{1, 2}, stdjson.Number("1e"), struct{ A, B int }{1, 2}, math.Inf(-1),
		map[string]string{"z": "y", "a": "b"}, failingMarshaler{}, nil, true, []any{func() {}}, "end"}
	for _, html := range []bool{true, false} {
		for _, ind := range [][2]string{{"", ""}, {"", "  "}, {">", "\t"}} {
			k := jsonCase{Setting: fmt.Sprintf("encoderstream:%v:%q", html, ind)}
			var w1, w2 bytes.Buffer
			e1, e2 := stdjson.NewEncoder(&w1), json.NewEncoder(&w2)
			e1.SetEscapeHTML(html)
			e2.SetEscapeHTML(html)
			e1.SetIndent(ind[0], ind[1])
			e2.SetIndent(ind[0], ind[1])
			for i, v := range stream {
				c.Case()
				c.Eval(1)
				r1 := e1.Encode(v)
				var r2 error
				if p := protect(func() { r2 = e2.Encode(v) }); p != "" {
					c.Diverge("C01", "Encoder.Encode(stream)", errStr(r1), p, "", k)
					return
				}
				if (r1 == nil) != (r2 == nil) || !bytes.Equal(w1.Bytes(), w2.Bytes()) {
					c.Diverge("C01", "Encoder.Encode(stream with values that cannot be encoded)", fmt.Sprintf("value %d: %s, %d bytes written so far", i, errStr(r1), w1.Len()),
						fmt.Sprintf("%s, %d bytes: %s", errStr(r2), w2.Len(), clipS(w2.String()[min(w2.Len(), max(0, w1.Len()-40)):])), "", k)
					return
				}
			}
		}
	}
}

type failingMarshaler struct{}

func (failingMarshaler) MarshalJSON() ([]byte, error) { return nil, fmt.Errorf("no") }

func c01Numbers(c *Ctx) {
	c01MoreTypes(c)
	c01Orders(c)
	c01EncoderStreams(c)
	c01NumberTexts(c)
	c01Durations(c)
	c01Times(c)
	c01Deep(c)
	pow := new(big.Int).SetInt64(1)
	ten := big.NewInt(10)
	for e := 0; e <= 20; e++ {
		for _, d := range []int64{-1, 0, 1} {
			v := new(big.Int).Add(pow, big.NewInt(d))
			c01Number(c, v.String())
			c01Number(c, new(big.Int).Neg(v).String())
		}
		if e >= 2 {
			c01Number(c, new(big.Int).Add(pow, new(big.Int).Exp(ten, big.NewInt(int64(e/2)), nil)).String())
		}
		pow.Mul(pow, ten)
	}
	for _, f := range []string{"1e20", "1e21", "9.999999999999999e20", "999999999999999900000", "1e-6", "1e-7", "9.999999e-7", "0.000001", "123456789.125",
		"5e-324", "1.7976931348623157e308", "3.4028234663852886e38", "1e-45", "1.401298464324817e-45", "16777216", "16777217", "0.1", "0.30000000000000004",
		"1.00000005960464477539062500001", "100", "1e2", "12345678901234567890", "4.9406564584124654e-324", "2.2250738585072014e-308", "1e23", "8.41e21"} {
		c01Number(c, f)
		c01Number(c, "-"+f)
	}
}

func c01Replay(c *Ctx, raw stdjson.RawMessage) {
	if encStreamDispatch(c, raw) || b64Dispatch(c, "C01", raw) {
		return
	}
	if strDispatch(c, raw) {
		return
	}
	var k jsonCase
	if stdjson.Unmarshal(raw, &k) != nil {
		return
	}
	if strings.HasPrefix(k.Setting, "order:") {
		c01Orders(c)
		return
	}
	if strings.HasPrefix(k.Setting, "moretypes:") {
		c01MoreTypes(c)
		return
	}
	if strings.HasPrefix(k.Setting, "deep:") {
		c01Deep(c)
		return
	}
	if strings.HasPrefix(k.Setting, "time:") {
		c01Times(c)
		return
	}
	if strings.HasPrefix(k.Setting, "duration:") {
		c01Durations(c)
		return
	}
	if strings.HasPrefix(k.Setting, "encoderstream:") {
		c01EncoderStreams(c)
		return
	}
	if strings.HasPrefix(k.Setting, "numbertext:") {
		c01NumberTexts(c)
		return
	}
	if strings.HasPrefix(k.Setting, "number:") {
		c01Number(c, strings.TrimPrefix(k.Setting, "number:"))
		return
	}
	if k.Scen != nil {
		c01Scenario(c, k.Scen)
		return
	}
	vals := shapeValues(k.Shape, k.Seed, k.Limit)
	if k.VI < len(vals) {
		c01Value(c, k, vals[k.VI])
	}
}

// ---------------------------------------------------------------- embedding scenarios (JsonFields)

type E1 struct{ X, Y int }
type E2 struct{ X int }
type E3 struct {
	X int `json:"X"`
}
type E4 struct{ E2 }
type E5 struct {
	Y int `json:"X"`
}
type E6 struct {
	Z int
	x int
}
type E7 struct {
	E1
	E3
}

// the same embedded types with omitempty on every field, and fields of other kinds next to the integers (what counts as
// empty is looked up in the memory of the field: for a field promoted through an embedded pointer that memory is behind
// the pointer)
type O1 struct {
	X, Y int    `json:",omitempty"`
	S    string `json:"s1,omitempty"`
	P    *int   `json:"p1,omitempty"`
}
type O2 struct {
	X int `json:",omitempty"`
}
type O3 struct {
	X int `json:"X,omitempty"`
}
type O4 struct{ O2 }
type O5 struct {
	Y int `json:"X,omitempty"`
}
type O6 struct {
	Z int            `json:",omitempty"`
	x int            //nolint
	M map[string]int `json:"m6,omitempty"`
	L []int          `json:"l6,omitempty"`
	B bool           `json:"b6,omitempty"`
	F float64        `json:"f6,omitempty"`
	I any            `json:"i6,omitempty"`
}
type O7 struct {
	O1
	O3
}

var embedOptTypes = map[string]reflect.Type{"E1": reflect.TypeOf(O1{}), "E2": reflect.TypeOf(O2{}), "E3": reflect.TypeOf(O3{}),
	"E4": reflect.TypeOf(O4{}), "E5": reflect.TypeOf(O5{}), "E6": reflect.TypeOf(O6{}), "E7": reflect.TypeOf(O7{})}

// scenarioOptType: the scenario with omitempty on every field
func scenarioOptType(v *jsonVec) reflect.Type {
	var fs []reflect.StructField
	own := append([]string(nil), v.Own...)
	sort.Strings(own)
	for _, o := range own {
		switch o {
		case "OX":
			fs = append(fs, reflect.StructField{Name: "X", Type: reflect.TypeOf(0), Tag: `json:",omitempty"`})
		case "OT":
			fs = append(fs, reflect.StructField{Name: "W", Type: reflect.TypeOf(0), Tag: `json:"X,omitempty"`})
		case "OY":
			fs = append(fs, reflect.StructField{Name: "Y", Type: reflect.TypeOf(0), Tag: `json:",omitempty"`})
		}
	}
	for _, e := range v.Embeds {
		base := embedOptTypes[e.E]
		t := base
		if e.Ptr {
			t = reflect.PointerTo(base)
		}
		fs = append(fs, reflect.StructField{Name: base.Name(), Type: t, Anonymous: true})
	}
	return reflect.StructOf(fs)
}

// allocEmbedded sets every embedded struct pointer (at any depth) to a new zero struct; with fill every integer field
// gets a value
func allocEmbedded(v reflect.Value, fill bool, n *int) {
	for v.Kind() == reflect.Ptr {
		if v.IsNil() {
			if !v.CanSet() {
				return
			}
			v.Set(reflect.New(v.Type().Elem()))
		}
		v = v.Elem()
	}
	if v.Kind() != reflect.Struct {
		return
	}
	for i := 0; i < v.NumField(); i++ {
		f := v.Field(i)
		sf := v.Type().Field(i)
		if sf.Anonymous {
			allocEmbedded(f, fill, n)
			continue
		}
		if !fill || !f.CanSet() {
			continue
		}
		*n++
		switch f.Kind() {
		case reflect.Int:
			f.SetInt(int64(*n))
		case reflect.String:
			f.SetString("s" + strconv.Itoa(*n))
		case reflect.Bool:
			f.SetBool(true)
		case reflect.Float64:
			f.SetFloat(float64(*n) + 0.5)
		case reflect.Slice:
			f.Set(reflect.ValueOf([]int{*n}))
		case reflect.Map:
			f.Set(reflect.ValueOf(map[string]int{"k": *n}))
		case reflect.Interface:
			f.Set(reflect.ValueOf(*n))
		case reflect.Ptr:
			x := *n
			f.Set(reflect.ValueOf(&x))
		}
	}
}

var embedTypes = map[string]reflect.Type{"E1": reflect.TypeOf(E1{}), "E2": reflect.TypeOf(E2{}), "E3": reflect.TypeOf(E3{}),
	"E4": reflect.TypeOf(E4{}), "E5": reflect.TypeOf(E5{}), "E6": reflect.TypeOf(E6{}), "E7": reflect.TypeOf(E7{})}

// every leaf field gets a distinct value so the winner can be told from the output
var pathValue = map[string]int{"X": 1, "W": 2, "Y": 3, "E1.X": 11, "E1.Y": 12, "E2.X": 21, "E3.X": 31, "E4.E2.X": 41, "E5.Y": 51, "E6.Z": 61,
	"E7.E1.X": 71, "E7.E1.Y": 72, "E7.E3.X": 73}

func scenarioType(v *jsonVec) reflect.Type {
	var fs []reflect.StructField
	own := append([]string(nil), v.Own...)
	sort.Strings(own)
	for _, o := range own {
		switch o {
		case "OX":
			fs = append(fs, reflect.StructField{Name: "X", Type: reflect.TypeOf(0)})
		case "OT":
			fs = append(fs, reflect.StructField{Name: "W", Type: reflect.TypeOf(0), Tag: `json:"X"`})
		case "OY":
			fs = append(fs, reflect.StructField{Name: "Y", Type: reflect.TypeOf(0)})
		}
	}
	for _, e := range v.Embeds {
		t := embedTypes[e.E]
		if e.Ptr {
			t = reflect.PointerTo(t)
		}
		fs = append(fs, reflect.StructField{Name: e.E, Type: t, Anonymous: true})
	}
	return reflect.StructOf(fs)
}

func setPath(v reflect.Value, path string) {
	parts := strings.Split(path, ".")
	for _, p := range parts {
		for v.Kind() == reflect.Ptr {
			if v.IsNil() {
				v.Set(reflect.New(v.Type().Elem()))
			}
			v = v.Elem()
		}
		v = v.FieldByName(p)
	}
	v.SetInt(int64(pathValue[path]))
}

func c01Scenario(c *Ctx, v *jsonVec) {
	k := jsonCase{Scen: v}
	var t reflect.Type
	if p := protect(func() { t = scenarioType(v) }); p != "" {
		return // reflect.StructOf cannot express this scenario
	}
	val := reflect.New(t).Elem()
	for _, f := range v.Visible {
		setPath(val, f.Path)
	}
	for _, h := range v.Hidden {
		setPath(val, h)
	}
	want := map[string]int{}
	for _, f := range v.Visible {
		want[f.Name] = pathValue[f.Path]
	}
	wantS := fmt.Sprint(want)
	check := func(api string, b []byte, err error, isRef bool) {
		c.Eval(1)
		got := map[string]int{}
		if err == nil {
			err = stdjson.Unmarshal(b, &got)
		}
		if err != nil || fmt.Sprint(got) != wantS {
			if isRef {
				c.SpecError("C01", fmt.Sprintf("encoding/json disagrees with JsonFields.Visible: want %s got %s err=%v", wantS, string(b), err), v)
			} else {
				c.Diverge("C01", api, wantS, fmt.Sprintf("%s err=%v", string(b), err), "", k)
			}
		}
	}
	sb, serr := stdjson.Marshal(val.Interface())
	check("encoding/json", sb, serr, true)
	var gb []byte
	var gerr error
	if p := protect(func() { gb, gerr = json.Marshal(val.Interface()) }); p != "" {
		c.Diverge("C01", "json.Marshal(embedded fields)", wantS, p, "", k)
		return
	}
	c.Case()
	check("json.Marshal(embedded fields)", gb, gerr, false)
	// the same scenario with omitempty on every field: nothing set (embedded pointers nil), embedded pointers set to
	// zero structs, every field set - byte for byte against encoding/json
	var ot reflect.Type
	if p := protect(func() { ot = scenarioOptType(v) }); p == "" {
		for _, fill := range []string{"nothing set", "embedded pointers allocated, fields zero", "every field set"} {
			ov := reflect.New(ot).Elem()
			n := 0
			if fill != "nothing set" {
				allocEmbedded(ov, fill == "every field set", &n)
			}
			wb, we := stdjson.Marshal(ov.Interface())
			var ob []byte
			var oe error
			c.Case()
			if p := protect(func() { ob, oe = json.Marshal(ov.Interface()) }); p != "" {
				c.Diverge("C01", "json.Marshal(embedded fields with omitempty)", clipS(string(wb)), p+" ("+fill+")", "", k)
				continue
			}
			c01Compare(c, k, "json.Marshal(embedded fields with omitempty: "+fill+")", wb, we, ob, oe, "")
			wb2, we2 := stdjson.Marshal(ov.Addr().Interface())
			if p := protect(func() { ob, oe = json.Marshal(ov.Addr().Interface()) }); p != "" {
				c.Diverge("C01", "json.Marshal(&embedded fields with omitempty)", clipS(string(wb2)), p+" ("+fill+")", "", k)
				continue
			}
			c01Compare(c, k, "json.Marshal(&embedded fields with omitempty: "+fill+")", wb2, we2, ob, oe, "")
		}
	}
	// decoding direction (C02's relation, same scenario): every name set; the same fields must receive it
	doc := []byte(`{"X":101,"Y":102,"Z":103,"x":104,"W":105}`)
	t1, t2 := reflect.New(t), reflect.New(t)
	e1 := stdjson.Unmarshal(doc, t1.Interface())
	var e2 error
	if p := protect(func() { e2 = json.Unmarshal(doc, t2.Interface()) }); p != "" {
		c.Diverge("C02", "json.Unmarshal(embedded fields)", "no panic", p, "", k)
		return
	}
	c.Eval(1)
	if (e1 == nil) != (e2 == nil) || (e1 == nil && !deepEq(t1.Elem(), t2.Elem())) {
		c.Diverge("C02", "json.Unmarshal(embedded fields)", fmt.Sprintf("%s err=%v", showVal(t1.Elem()), e1), fmt.Sprintf("%s err=%v", showVal(t2.Elem()), e2), "", k)
	}
	// null, a value of the wrong kind and an empty object addressed to each name alone (embedded pointers are allocated, or
	// refused, on the way to the field - before the value is looked at), into fresh targets and into the ones just filled
	for _, name := range []string{"X", "Y", "Z", "x", "W", "Q", "y", "z", "w", "q", "\u0058", "\u017f"} {
		for _, val := range []string{"null", "7", `"s"`, "{}"} {
			d := []byte(`{"` + name + `":` + val + `}`)
			for _, fresh := range []bool{true, false} {
				u1, u2 := t1, t2
				if fresh {
					u1, u2 = reflect.New(t), reflect.New(t)
				}
				f1 := stdjson.Unmarshal(d, u1.Interface())
				var f2 error
				if p := protect(func() { f2 = json.Unmarshal(d, u2.Interface()) }); p != "" {
					c.Diverge("C02", "json.Unmarshal(embedded fields, one member)", errStr(f1), p+" doc="+string(d), "", k)
					return
				}
				c.Eval(1)
				if (f1 == nil) != (f2 == nil) || (f1 == nil && !deepEq(u1.Elem(), u2.Elem())) {
					c.Diverge("C02", "json.Unmarshal(embedded fields, one member)", fmt.Sprintf("%s err=%v doc=%s", showVal(u1.Elem()), f1, d),
						fmt.Sprintf("%s err=%v", showVal(u2.Elem()), f2), "", k)
					return
				}
				if f1 != nil { // after a failed decode the targets may differ: start again from equal ones
					t1, t2 = reflect.New(t), reflect.New(t)
				}
			}
		}
	}
}

func init() {
	register("C01", &Driver{Vector: c01Vector, Replay: c01Replay, Extra: c01Numbers})
}

// ---------------------------------------------------------------- C02

type span struct {
	s, e  int
	isKey bool
}

// scalarSpans lists the scalar tokens of a JSON document (strings, numbers, literals)
func scalarSpans(b []byte) []span {
	var out []span
	for i := 0; i < len(b); {
		c := b[i]
		switch {
		case c == '"':
			j := i + 1
			for j < len(b) && b[j] != '"' {
				if b[j] == '\\' {
					j++
				}
				j++
			}
			j++
			k := j
			for k < len(b) && (b[k] == ' ' || b[k] == '\n') {
				k++
			}
			out = append(out, span{i, min(j, len(b)), k < len(b) && b[k] == ':'})
			i = j
		case c == '-' || (c >= '0' && c <= '9') || c == 't' || c == 'f' || c == 'n':
			j := i
			for j < len(b) && strings.IndexByte(",]}: \n\t", b[j]) < 0 {
				j++
			}
			out = append(out, span{i, j, false})
			i = j
		default:
			i++
		}
	}
	return out
}

var c02Tokens = []string{"null", "true", "false", `"str"`, `""`, `"12"`, `"-1.5"`, `"true"`, `"null"`, "0", "-0", "12", "-1", "1.5", "1e2", "1E-2", "0.0",
	"127", "128", "-129", "255", "256", "32768", "65536", "2147483648", "-2147483649", "4294967296", "9223372036854775807", "9223372036854775808",
	"-9223372036854775808", "-9223372036854775809", "18446744073709551615", "18446744073709551616", "108446744073709551616", "36893488147419103232",
	"1e400", "-1e400", "1e-400", "123456789012345678901234567890", "0.1e1", "1.0", "3.4028236e38", "1.7976931348623159e308",
	// literals around the midpoints between adjacent float32 / float64 values (one rounding, to the width of the target)
	"1.00000005960464477539062500001", "1.000000059604644775390625", "1.00000005960464477539062499999", "1.00000017881393432617187499999",
	"16777217.0000000000001", "16777217", "3.40282356779733661637539395458142568447e38", "3.4028235677973366e38", "7.006492321624085e-46", "7.006492321624086e-46",
	"9007199254740993", "9007199254740993.0000000000001", "1.00000000000000011102230246251565404236316680908203125",
	"1.00000000000000011102230246251565404236316680908203124", "1.00000000000000011102230246251565404236316680908203126",
	"2.4703282292062327e-324", "2.4703282292062328e-324", "1.797693134862315807e308", "1.7976931348623158e308", "0.000000000000000000000000000000000000000000001",
	"{}", "[]", `{"A":1}`, `[1]`, `[null]`, `{"a":null}`, `"2021-03-25T21:36:12Z"`, `"2021-03-25T21:36:12,5Z"`, `"aGVsbG8="`, `"a"`, `"é😀"`, `"\ud800"`, `"\u0000"`,
	`"tm:x"`, `[1,2,3]`, `["a","b","c"]`, `{"x":{"y":[]}}`, " 7 ", `"\/"`}

func c02Docs(shape *jShape, seed int64, r *rng, tier string) []string {
	seen := map[string]bool{}
	var docs []string
	add := func(d string) {
		if !seen[d] && len(d) < 4096 {
			seen[d] = true
			docs = append(docs, d)
		}
	}
	var bases []string
	for _, v := range shapeValues(shape, seed, jLimit) {
		if b, err := stdjson.Marshal(v.Interface()); err == nil {
			add(string(b))
			bases = append(bases, string(b))
		}
	}
	add("null")
	add(" null ")
	nm := 40
	if tier == "thorough" {
		nm = 160
	}
	for _, base := range bases {
		sp := scalarSpans([]byte(base))
		if len(sp) == 0 {
			for i := 0; i < 6; i++ {
				add(c02Tokens[r.intn(len(c02Tokens))])
			}
			continue
		}
		// null at every value position (null leaves a target as it is: whatever an earlier member or element put
		// into shared scratch must not show), and the neighbouring literals swapped
		for _, s := range sp {
			if !s.isKey && len(sp) <= 12 {
				add(base[:s.s] + "null" + base[s.e:])
			}
		}
		// every way of nearly spelling a member name (the first keys of the document): other case, a NUL or a
		// space behind it, an escaped spelling, a prefix, a longer name
		nk := 0
		for _, s := range sp {
			if !s.isKey || nk >= 2 || s.e-s.s < 3 {
				continue
			}
			nk++
			name := base[s.s+1 : s.e-1]
			for _, alt := range []string{name + `\u0000`, name + `\u0000\u0000`, name + " ", " " + name, name[:len(name)-1], name + "x",
				fmt.Sprintf(`\u%04x`, name[0]) + name[1:], strings.ToUpper(name), strings.ToLower(name)} {
				add(base[:s.s] + `"` + alt + `"` + base[s.e:])
			}
		}
		for m := 0; m < nm/len(bases)+2; m++ {
			s := sp[r.intn(len(sp))]
			var rep string
			if s.isKey {
				key := base[s.s:s.e]
				rep = []string{strings.ToLower(key), strings.ToUpper(key), `"zz"`, key, `"A"`, `"a"`, `"ſ"`, `"K"`, `"k"`}[r.intn(9)]
			} else {
				rep = c02Tokens[r.intn(len(c02Tokens))]
			}
			add(base[:s.s] + rep + base[s.e:])
		}
		// duplicate / unknown members for objects
		if strings.HasPrefix(base, "{") && len(base) > 2 {
			add(`{"unknown":1,` + base[1:])
			add(base[:len(base)-1] + `,` + base[1:])
			add(base[:len(base)-1] + `,"Unknown":{"deep":[1,{"x":null}]}}`)
		}
		if strings.HasPrefix(base, "[") && len(base) > 2 {
			add(base[:len(base)-1] + `,` + base[1:])
			add(`[` + base[1:len(base)-1] + `,1,"x",null]`)
		}
	}
	return docs
}

// prefillAny puts a non-nil pointer into every interface the target can reach (allocating one element of
// nil pointers, slices and maps on the way): encoding/json decodes through such pointers
func prefillAny(v reflect.Value, variant, depth int) {
	if depth > 6 {
		return
	}
	switch v.Kind() {
	case reflect.Interface:
		if !v.CanSet() {
			return
		}
		if v.NumMethod() != 0 {
			if v.Type() == reflect.TypeOf((*IFace)(nil)).Elem() {
				v.Set(reflect.ValueOf(&IP{B: "old"})) // decoded through, like any pointer held by an interface
			}
			return
		}
		switch variant % 8 {
		case 6:
			v.Set(reflect.ValueOf((*string)(nil))) // a nil pointer is not decoded through: replaced
		case 7:
			v.Set(reflect.ValueOf("old")) // nor is anything that is not a pointer
		case 0:
			s := "old"
			v.Set(reflect.ValueOf(&s))
		case 1:
			m := map[string]any{"old": 1.0}
			v.Set(reflect.ValueOf(&m))
		case 2:
			l := []any{"old"}
			v.Set(reflect.ValueOf(&l))
		case 3:
			var inner any = "old"
			v.Set(reflect.ValueOf(&inner))
		case 4:
			v.Set(reflect.ValueOf(&struct {
				A string
				B any
			}{A: "old"}))
		default:
			f := 1.5
			v.Set(reflect.ValueOf(&f))
		}
	case reflect.Pointer:
		if v.IsNil() && v.CanSet() {
			v.Set(reflect.New(v.Type().Elem()))
		}
		if !v.IsNil() {
			prefillAny(v.Elem(), variant, depth+1)
		}
	case reflect.Struct:
		for i := 0; i < v.NumField(); i++ {
			prefillAny(v.Field(i), variant+i, depth+1)
		}
	case reflect.Slice:
		if v.CanSet() && v.Type().Elem().Kind() != reflect.Uint8 {
			v.Set(reflect.MakeSlice(v.Type(), 1, 2))
			prefillAny(v.Index(0), variant, depth+1)
		}
	case reflect.Array:
		for i := 0; i < v.Len(); i++ {
			prefillAny(v.Index(i), variant+i, depth+1)
		}
	case reflect.Map:
		if v.CanSet() && v.Type().Key().Kind() == reflect.String {
			v.Set(reflect.MakeMap(v.Type()))
			e := reflect.New(v.Type().Elem()).Elem()
			prefillAny(e, variant, depth+1)
			v.SetMapIndex(reflect.ValueOf("a").Convert(v.Type().Key()), e)
		}
	}
}

func c02Decode(c *Ctx, k jsonCase, t reflect.Type, docs []string, mode string) {
	t1, t2 := reflect.New(t), reflect.New(t)
	if k.Prefill > 0 {
		prefillAny(t1.Elem(), k.Prefill, 0)
		prefillAny(t2.Elem(), k.Prefill, 0)
	}
	for i, doc := range docs {
		var e1, e2 error
		b := []byte(doc)
		orig := append([]byte(nil), b...)
		switch mode {
		case "Unmarshal":
			e1 = stdjson.Unmarshal(b, t1.Interface())
			if p := protect(func() { e2 = json.Unmarshal(b, t2.Interface()) }); p != "" {
				c.Diverge("C02", "json.Unmarshal", errStr(e1), p, "", k)
				return
			}
		case "Parse":
			e1 = stdjson.Unmarshal(b, t1.Interface())
			if p := protect(func() {
				var rest []byte
				rest, e2 = json.Parse(b, t2.Interface(), 0)
				if e2 == nil && len(rest) != 0 {
					e2 = fmt.Errorf("trailing bytes")
				}
			}); p != "" {
				c.Diverge("C02", "json.Parse", errStr(e1), p, "", k)
				return
			}
		case "Decoder(refill)":
			// the document arrives in two fills of the Decoder's buffer: a first value takes up all of the first
			// 32 KiB but k.At bytes
			const fill = 32768
			pad := make([]byte, 0, fill+len(b))
			pad = append(pad, '"')
			for len(pad) < fill-k.At-2 {
				pad = append(pad, 'a')
			}
			pad = append(pad, '"', '\n')
			stream := append(pad, b...)
			d1 := stdjson.NewDecoder(bytes.NewReader(stream))
			d2 := json.NewDecoder(bytes.NewReader(stream))
			var r1 stdjson.RawMessage
			var r2 json.RawMessage
			if d1.Decode(&r1) != nil || d2.Decode(&r2) != nil {
				continue
			}
			e1 = d1.Decode(t1.Interface())
			if p := protect(func() { e2 = d2.Decode(t2.Interface()) }); p != "" {
				c.Diverge("C02", "Decoder.Decode(refill)", errStr(e1), p, "", k)
				return
			}
		default: // Decoder with options
			d1 := stdjson.NewDecoder(bytes.NewReader(b))
			d2 := json.NewDecoder(bytes.NewReader(b))
			if strings.Contains(mode, "UseNumber") {
				d1.UseNumber()
				d2.UseNumber()
			}
			if strings.Contains(mode, "Disallow") {
				d1.DisallowUnknownFields()
				d2.DisallowUnknownFields()
			}
			e1 = d1.Decode(t1.Interface())
			if p := protect(func() { e2 = d2.Decode(t2.Interface()) }); p != "" {
				c.Diverge("C02", "Decoder.Decode("+mode+")", errStr(e1), p, "", k)
				return
			}
		}
		c.Eval(1)
		api := "json." + mode
		if mode != "Unmarshal" && mode != "Parse" {
			api = "Decoder.Decode(" + mode + ")"
		}
		if len(docs) > 1 {
			api += fmt.Sprintf("[decode %d of %d into the same variable]", i+1, len(docs))
		}
		if !bytes.Equal(b, orig) {
			c.Diverge("C10", api, "input unchanged", "input modified", "", k)
		}
		// the input was lent for the call: the caller has it back and writes over it; what was decoded is compared
		// afterwards (encoding/json never keeps a reference to its input; no zero-copy flag is set here)
		if mode == "Unmarshal" || mode == "Parse" {
			for j := range b {
				b[j] = 'X'
			}
		}
		if (e1 == nil) != (e2 == nil) {
			c.Diverge("C02", api, errStr(e1)+" "+showVal(t1.Elem()), errStr(e2)+" "+showVal(t2.Elem()), c02Finding(k, doc, t), k)
			return
		}
		if e1 != nil {
			// whatever partial content is left in the target after a failed decode is not part of the guarantee:
			// restart both from a fresh variable
			t1, t2 = reflect.New(t), reflect.New(t)
			continue
		}
		if !deepEq(t1.Elem(), t2.Elem()) {
			c.Diverge("C02", api, showVal(t1.Elem()), showVal(t2.Elem()), c02Finding(k, doc, t), k)
			return
		}
	}
}

// c02Finding: F-C02-1 - a json.Number field carrying the ",string" option: encoding/json stores whatever
// the quoted string holds without checking that it is a number ("because it's already been tokenized"),
// the package rejects non-numbers.
func c02Finding(k jsonCase, doc string, t reflect.Type) string {
	if k.Shape != nil {
		s := k.Shape.String()
		if strings.Contains(s, "structopt(number)") || strings.Contains(s, "structopt(ptr(number))") {
			return "F-C02-1"
		}
	}
	return ""
}

var c02Modes = []string{"Unmarshal", "Parse", "Decoder", "UseNumber", "Disallow", "UseNumber+Disallow"}

func c02Vector(c *Ctx, raw stdjson.RawMessage) {
	if b64Dispatch(c, "C02", raw) || intDispatch(c, raw) || strDispatch(c, raw) {
		return
	}
	var gv grammarVec
	if stdjson.Unmarshal(raw, &gv) == nil && gv.M != "" {
		c02Grammar(c, &gv, raw)
		return
	}
	var v jsonVec
	if err := stdjson.Unmarshal(raw, &v); err != nil || v.Shape == nil {
		if len(v.Own)+len(v.Embeds) > 0 {
			c.Nontrivial()
			c01Scenario(c, &v)
		}
		return
	}
	c.Nontrivial()
	r := newRng(c.Seed, v.Shape.String())
	t := jTypeOf(v.Shape)
	docs := c02Docs(v.Shape, c.Seed, r, c.Tier)
	for i, doc := range docs {
		mode := c02Modes[0]
		if i%3 == 1 {
			mode = c02Modes[1+r.intn(len(c02Modes)-1)]
		}
		c.Case()
		c02Decode(c, jsonCase{Shape: v.Shape, Seed: c.Seed, Docs: []string{doc}, Setting: mode}, t, []string{doc}, mode)
		// the Decoder again, the document cut by a refill of its buffer: at every offset for short documents
		if i%3 == 2 && len(doc) > 1 {
			ats := []int{1 + r.intn(len(doc)-1), 1 + r.intn(len(doc)-1)}
			if len(doc) <= 12 {
				ats = ats[:0]
				for a := 1; a < len(doc); a++ {
					ats = append(ats, a)
				}
			}
			for _, at := range ats {
				c.Case()
				c02Decode(c, jsonCase{Shape: v.Shape, Seed: c.Seed, Docs: []string{doc}, Setting: "Decoder(refill)", At: at}, t, []string{doc}, "Decoder(refill)")
			}
		}
	}
	// histories: two or three decodes into the same variable
	nh := 12
	if c.Tier == "thorough" {
		nh = 60
	}
	for h := 0; h < nh && len(docs) > 1; h++ {
		hist := []string{docs[r.intn(len(docs))], docs[r.intn(len(docs))]}
		if r.intn(2) == 0 {
			hist = append(hist, docs[r.intn(len(docs))])
		}
		mode := c02Modes[r.intn(len(c02Modes))]
		if mode != "Unmarshal" && mode != "Parse" {
			mode = "Unmarshal"
		}
		c.Case()
		c02Decode(c, jsonCase{Shape: v.Shape, Seed: c.Seed, Docs: hist, Setting: mode}, t, hist, mode)
	}
	// prior state: the interfaces of the target already hold pointers (to a string, a map, a slice, an interface, a
	// struct, a float): the decode goes through them as encoding/json's does
	if strings.Contains(v.Shape.String(), "any") {
		for i, doc := range docs {
			if i%2 == 1 && c.Tier != "thorough" {
				continue
			}
			mode := c02Modes[r.intn(len(c02Modes))]
			c.Case()
			c02Decode(c, jsonCase{Shape: v.Shape, Seed: c.Seed, Docs: []string{doc}, Setting: mode, Prefill: 1 + r.intn(8)}, t, []string{doc}, mode)
		}
	}
	c.Sample(map[string]any{"shape": v.Shape.String(), "docs": len(docs), "doc": docs[len(docs)/2]})
}

// grammar documents (valid and near-valid, from spec/JsonGrammar.tla) into a fixed set of target types
var c02GrammarTargets = []*jShape{
	{K: "any"}, {K: "int"}, {K: "uint8"}, {K: "float64"}, {K: "string"}, {K: "bool"}, {K: "bytes"}, {K: "number"}, {K: "raw"}, {K: "time"},
	{K: "slice", D: 1, E: &jShape{K: "any"}}, {K: "slice", D: 1, E: &jShape{K: "int"}}, {K: "array2", D: 1, E: &jShape{K: "string"}},
	{K: "mapstr", D: 1, E: &jShape{K: "any"}}, {K: "mapint", D: 1, E: &jShape{K: "int"}}, {K: "struct1", D: 1, E: &jShape{K: "any"}},
	{K: "structopt", D: 1, E: &jShape{K: "int"}}, {K: "ptr", D: 1, E: &jShape{K: "string"}}, {K: "MU_both"}, {K: "TM_ptr"},
	{K: "mapstr", D: 2, E: &jShape{K: "slice", D: 1, E: &jShape{K: "string"}}},
}

func c02Grammar(c *Ctx, gv *grammarVec, raw stdjson.RawMessage) {
	r := newRng(c.Seed, string(raw))
	c.Nontrivial()
	pick := func(i int, alts []byte) byte { return alts[r.intn(len(alts))] }
	docs := []string{string(liftDoc(gv.D, nil, 0, 'x')), string(liftDoc(gv.D, pick, 0, 'x'))}
	if gv.A {
		docs = append(docs, string(liftDoc(gv.D, pick, 9+r.intn(12), 'x')))
	} else if len(gv.C) > 0 {
		docs = append(docs, docs[0]+string(liftDoc(gv.C, nil, 0, 'x'))) // the completion: a valid document
	}
	// every killing class appended (with the completion): near-valid documents that are not JSON
	comp := string(liftDoc(gv.C, nil, 0, 'x'))
	for _, kcls := range gv.K {
		alts := classBytes[kcls]
		docs = append(docs, docs[0]+string(alts[r.intn(len(alts))])+comp)
	}
	for _, doc := range docs {
		for _, sh := range c02GrammarTargets {
			c.Case()
			c02Decode(c, jsonCase{Shape: sh, Docs: []string{doc}, Setting: "Unmarshal"}, jTypeOf(sh), []string{doc}, "Unmarshal")
		}
	}
}

func c02Replay(c *Ctx, raw stdjson.RawMessage) {
	if b64Dispatch(c, "C02", raw) || intDispatch(c, raw) || strDispatch(c, raw) {
		return
	}
	var k jsonCase
	if stdjson.Unmarshal(raw, &k) != nil {
		return
	}
	if k.Setting == "ptrptr" || k.Setting == "durationdoc" || k.Setting == "casefold" || k.Setting == "timetext" || k.Setting == "depthlimit" || strings.HasPrefix(k.Setting, "moretypes:") {
		c02PtrPtr(c)
		return
	}
	if k.Scen != nil {
		c01Scenario(c, k.Scen)
		return
	}
	c02Decode(c, k, jTypeOf(k.Shape), k.Docs, k.Setting)
}

// c02PtrPtr: null (and values) decoded into targets that hold non-nil pointers to pointers - JsonTypes generates one
// level of pointers only.  Open finding F-C02-11: on null the package clears the inner pointer, encoding/json the
// first settable one; exactly that shape of difference carries the finding's id, any other is a violation.
// c02Durations: a time.Duration target takes a JSON number as encoding/json's int64 does, and a quoted string as
// time.ParseDuration reads it (the sanctioned addition)
func c02Durations(c *Ctx) {
	var docs []string
	for _, d := range durLattice() {
		docs = append(docs, strconv.Quote(d.String()), strconv.FormatInt(int64(d), 10))
	}
	docs = append(docs, `"1h2m3.5s"`, `"-1.5h"`, `"0"`, `"1"`, `"+5ms"`, `".5s"`, `"1.s"`, `"1e3s"`, `"1x"`, `""`, `"h"`, `" 1s"`, `"1s "`, `"1 s"`, `"1µs"`, `"1μs"`, `"1us"`,
		`"9223372036854775807ns"`, `"9223372036854775808ns"`, `"2562047h47m16.854775807s"`, `"2562047h47m16.854775808s"`, `1.5`, `1e3`, `-0`, `9223372036854775808`, `null`, `true`, `[1]`, `{}`)
	for _, doc := range docs {
		k := jsonCase{Setting: "durationdoc", Doc: doc}
		var want time.Duration
		var werr error
		if strings.HasPrefix(doc, `"`) {
			var s string
			if werr = stdjson.Unmarshal([]byte(doc), &s); werr == nil {
				want, werr = time.ParseDuration(s)
			}
		} else {
			var n int64
			werr = stdjson.Unmarshal([]byte(doc), &n)
			want = time.Duration(n)
		}
		type holder struct {
			D time.Duration
			P *time.Duration
			L []time.Duration
			M map[string]time.Duration
		}
		var got time.Duration
		var h holder
		var e1, e2 error
		c.Case()
		c.Eval(2)
		if p := protect(func() {
			e1 = json.Unmarshal([]byte(doc), &got)
			e2 = json.Unmarshal([]byte(`{"D":`+doc+`,"P":`+doc+`,"L":[`+doc+`],"M":{"k":`+doc+`}}`), &h)
		}); p != "" {
			c.Diverge("C02", "json.Unmarshal(*time.Duration)", fmt.Sprintf("%v err=%v", want, werr), p, "", k)
			continue
		}
		if (e1 == nil) != (werr == nil) || (werr == nil && got != want) {
			c.Diverge("C02", "json.Unmarshal(*time.Duration)", fmt.Sprintf("%d err=%v", want, werr), fmt.Sprintf("%d err=%v", got, e1), "", k)
		}
		if doc == "null" {
			continue
		}
		if (e2 == nil) != (werr == nil) || (werr == nil && (h.D != want || h.P == nil || *h.P != want || len(h.L) != 1 || h.L[0] != want || h.M["k"] != want)) {
			c.Diverge("C02", "json.Unmarshal(durations in a struct)", fmt.Sprintf("%d err=%v", want, werr), fmt.Sprintf("%+v err=%v", h, e2), "", k)
		}
	}
}

// c02CaseFold: member names that match no field exactly go to the first field, in encoding/json's field order, whose
// name equals them ignoring case - whatever the depth of embedding the candidates sit at
type cfBase struct {
	UserID int `json:"userID"`
	Name   string
}
type cfDeep struct{ cfBase }
type cfEmbedFirst struct {
	cfBase
	UserId int `json:"UserId"`
	NAME   string
}
type cfDirectFirst struct {
	UserId int `json:"UserId"`
	NAME   string
	cfBase
}
type cfDeepFirst struct {
	cfDeep
	USERID int
	Name2  string `json:"name"`
}
type cfPtr struct {
	*cfBase
	Userid int
	NaMe   string
}

func c02CaseFold(c *Ctx) {
	keys := []string{"userid", "USERID", "UserID", "userID", "UserId", "uSERiD", "Userid", "name", "NAME", "Name", "nAME", "NaMe", "\u0075serid", "u\u017ferid", "na\u212ae"}
	targets := []func() any{func() any { return new(cfEmbedFirst) }, func() any { return new(cfDirectFirst) }, func() any { return new(cfDeepFirst) }, func() any { return new(cfPtr) },
		func() any { return new(cfDeep) }, func() any { return &[]cfEmbedFirst{{}} }, func() any { return &map[string]cfDeepFirst{} }}
	for ti, mk := range targets {
		for _, key := range keys {
			for _, val := range []string{"7", `"s"`} {
				doc := `{"` + key + `":` + val + `}`
				switch ti {
				case 5:
					doc = "[" + doc + "]"
				case 6:
					doc = `{"m":` + doc + `}`
				}
				k := jsonCase{Setting: "casefold", Doc: doc, VI: ti}
				a, b := mk(), mk()
				e1 := stdjson.Unmarshal([]byte(doc), a)
				var e2 error
				c.Case()
				c.Eval(1)
				if p := protect(func() { e2 = json.Unmarshal([]byte(doc), b) }); p != "" {
					c.Diverge("C02", "json.Unmarshal(names in another case, embedded structs)", errStr(e1), p, "", k)
					continue
				}
				if (e1 == nil) != (e2 == nil) || (e1 == nil && !deepEq(reflect.ValueOf(a).Elem(), reflect.ValueOf(b).Elem())) {
					c.Diverge("C02", "json.Unmarshal(names in another case, embedded structs)", fmt.Sprintf("%s err=%v", showVal(reflect.ValueOf(a).Elem()), e1),
						fmt.Sprintf("%s err=%v", showVal(reflect.ValueOf(b).Elem()), e2), "", k)
				}
			}
		}
	}
}

// c02TimeTexts: time.Time targets take exactly the quoted texts encoding/json takes (RFC 3339 as time.Time's
// UnmarshalJSON reads it): valid timestamps of every fraction length and zone form, and each of them with every byte
// position overwritten by the neighbours of the digits (/ and :), other digits, separators and letters
func c02TimeTexts(c *Ctx) {
	bases := []string{"2021-03-25T21:36:12Z", "2021-03-25T21:36:12.5Z", "2021-03-25T21:36:12.123456789Z", "2021-03-25T21:36:12.123456Z", "2021-03-25T21:36:12+07:00",
		"2021-03-25T21:36:12.25-11:30", "0000-01-01T00:00:00Z", "9999-12-31T23:59:59.999999999Z", "2020-02-29T23:59:60Z", "2021-02-29T00:00:00Z", "2021-03-25t21:36:12z",
		"2021-03-25T21:36:12", "2021-03-25", "2021-03-25T21:36Z", "2021-03-25T24:00:00Z", "2021-03-25T21:36:12.Z", "2021-03-25T21:36:12,5Z", "2021-3-25T21:36:12Z", "+2021-03-25T21:36:12Z",
		"2021-03-25T21:36:12.1234567891Z", "2021-03-25 21:36:12Z", "", "Z"}
	subs := []byte{'/', ':', '0', '9', '5', 'a', ' ', '-', '+', '.', 'Z', 'T', ',', 0xc3}
	seen := map[string]bool{}
	var texts []string
	add := func(t string) {
		if !seen[t] {
			seen[t] = true
			texts = append(texts, t)
		}
	}
	for bi, b := range bases {
		add(b)
		if bi > 5 {
			continue
		}
		for i := 0; i < len(b); i++ {
			for _, sb := range subs {
				add(b[:i] + string(sb) + b[i+1:])
			}
			add(b[:i] + b[i+1:])
		}
	}
	type holder struct {
		T time.Time
		P *time.Time
		L []time.Time
		M map[string]time.Time
	}
	for _, t := range texts {
		q, _ := stdjson.Marshal(t)
		if strings.Contains(t, "\xc3") {
			q = []byte(`"` + t + `"`) // the invalid byte as it is
		}
		doc := string(q)
		k := jsonCase{Setting: "timetext", Doc: doc}
		var w1, g1 time.Time
		var w2, g2 holder
		full := `{"T":` + doc + `,"P":` + doc + `,"L":[` + doc + `],"M":{"k":` + doc + `}}`
		we1 := stdjson.Unmarshal([]byte(doc), &w1)
		we2 := stdjson.Unmarshal([]byte(full), &w2)
		var ge1, ge2 error
		c.Case()
		c.Eval(2)
		if p := protect(func() {
			ge1 = json.Unmarshal([]byte(doc), &g1)
			ge2 = json.Unmarshal([]byte(full), &g2)
		}); p != "" {
			c.Diverge("C02", "json.Unmarshal(*time.Time)", fmt.Sprintf("%v err=%v", w1, we1), p, "", k)
			continue
		}
		if (we1 == nil) != (ge1 == nil) || (we1 == nil && !(w1.Equal(g1) && w1.String() == g1.String())) {
			c.Diverge("C02", "json.Unmarshal(*time.Time)", fmt.Sprintf("%v err=%v", w1, we1), fmt.Sprintf("%v err=%v", g1, ge1), "", k)
			continue
		}
		if (we2 == nil) != (ge2 == nil) || (we2 == nil && !(w2.T.Equal(g2.T) && g2.P != nil && w2.P.Equal(*g2.P) && len(g2.L) == 1 && w2.L[0].Equal(g2.L[0]) && w2.M["k"].Equal(g2.M["k"]) && w2.T.String() == g2.T.String())) {
			c.Diverge("C02", "json.Unmarshal(time.Time as field, pointer, element, map value)", fmt.Sprintf("%v err=%v", w2.T, we2), fmt.Sprintf("%+v err=%v", g2.T, ge2), "", k)
		}
	}
}

// c02DepthLimit: encoding/json refuses documents nested deeper than 10000 whatever the target; every level counts,
// also the levels of targets the decoder has fast paths for
type depthT struct {
	N *depthT                    `json:"n,omitempty"`
	S map[string]string          `json:"s,omitempty"`
	B map[string]bool            `json:"b,omitempty"`
	L map[string][]string        `json:"l,omitempty"`
	R map[string]json.RawMessage `json:"r,omitempty"`
	A map[string]any             `json:"a,omitempty"`
	I any                        `json:"i,omitempty"`
	V []int                      `json:"v,omitempty"`
	G map[int]depthT             `json:"g,omitempty"`
	Q []depthT                   `json:"q,omitempty"`
}

func c02DepthLimit(c *Ctx) {
	inners := []string{`"s":{"k":"v"}`, `"b":{"k":true}`, `"l":{"k":["x"]}`, `"r":{"k":1}`, `"r":{"k":{"j":[]}}`, `"a":{"k":[[]]}`, `"i":{"k":{}}`,
		`"v":[1]`, `"g":{"1":{"v":[]}}`, `"q":[{"s":{}}]`, `"x":{"y":[]}`, `"n":null`}
	for _, inner := range inners {
		for _, k := range []int{9997, 9998, 9999} {
			doc := strings.Repeat(`{"n":`, k) + "{" + inner + "}" + strings.Repeat("}", k)
			kk := jsonCase{Setting: "depthlimit", Doc: inner, VI: k}
			var a, b depthT
			e1 := stdjson.Unmarshal([]byte(doc), &a)
			var e2 error
			c.Case()
			c.Eval(1)
			if p := protect(func() { e2 = json.Unmarshal([]byte(doc), &b) }); p != "" {
				c.Diverge("C02", "json.Unmarshal(document at the nesting limit)", errStr(e1), p, "", kk)
				continue
			}
			if (e1 == nil) != (e2 == nil) {
				c.Diverge("C02", "json.Unmarshal(document at the nesting limit)", fmt.Sprintf("%d levels around {%s}: err=%v", k, inner, e1), fmt.Sprintf("err=%v", e2), "", kk)
			}
		}
	}
}

func c02PtrPtr(c *Ctx) {
	c02MoreTypes(c)
	c02DepthLimit(c)
	c02CaseFold(c)
	c02Durations(c)
	c02TimeTexts(c)
	type S struct {
		O **int
		P ***string
	}
	mk := func() []any {
		i1, i2 := 1, 2
		p1, p2 := &i1, &i2
		pp2 := &p2
		ppp := &pp2
		s := "s"
		ps := &s
		pps := &ps
		return []any{&S{O: &p1, P: &pps}, ppp, &[]**int{&p1}, &map[string]**int{"k": &p1}, &S{}}
	}
	docs := [][]string{
		{`{"o":0,"o":null}`, `{"O":null}`, `{"O":5,"P":"x"}`, `{"P":null}`, `null`},
		{`null`, `7`},
		{`[null]`, `[3]`, `null`},
		{`{"k":null}`, `{"k":4}`},
		{`{"O":null,"P":null}`, `{"O":1}`},
	}
	for ti := range docs {
		for _, doc := range docs[ti] {
			a, b := mk()[ti], mk()[ti]
			k := jsonCase{Setting: "ptrptr", Doc: doc, VI: ti}
			e1 := stdjson.Unmarshal([]byte(doc), a)
			var e2 error
			c.Case()
			c.Eval(1)
			if p := protect(func() { e2 = json.Unmarshal([]byte(doc), b) }); p != "" {
				c.Diverge("C02", "json.Unmarshal(pointers to pointers)", errStr(e1), p, "", k)
				continue
			}
			wa, _ := stdjson.Marshal(a)
			wb, _ := stdjson.Marshal(b)
			if (e1 == nil) != (e2 == nil) || (e1 == nil && (string(wa) != string(wb) || !deepEq(reflect.ValueOf(a).Elem(), reflect.ValueOf(b).Elem()))) {
				finding := ""
				if e1 == nil && e2 == nil && string(wa) == string(wb) && strings.Contains(doc, "null") {
					finding = "F-C02-11" // same JSON view (null either way): only which pointer of the chain is nil differs
				}
				c.Diverge("C02", "json.Unmarshal(pointers to pointers)", fmt.Sprintf("%s err=%v %s", wa, e1, showVal(reflect.ValueOf(a).Elem())),
					fmt.Sprintf("%s err=%v %s", wb, e2, showVal(reflect.ValueOf(b).Elem())), finding, k)
			}
		}
	}
}

func init() {
	register("C02", &Driver{Vector: c02Vector, Replay: c02Replay, Extra: c02PtrPtr})
}
