//go:build verif

package main

// Histories of spec/JsonEncoderStream.tla replayed into a json.Encoder and into encoding/json's Encoder over a writer
// that refuses a Write when the history says so: every call returns what the specification says (nil, the value's
// error, the writer's error) and the writer has received what encoding/json's has.

import (
	"bytes"
	stdjson "encoding/json"
	"errors"
	"fmt"
	"math"

	"github.com/segmentio/encoding/json"
)

type encOp struct {
	Op     string `json:"op"`
	Arg    string `json:"arg"`
	Ret    string `json:"ret"`
	Wrote  bool   `json:"wrote"`
	Failed bool   `json:"failed"`
}

type encVec struct {
	Encstream []encOp `json:"encstream"`
	Out       [][]any `json:"out"`
}

type encCase struct {
	EncVec *encVec `json:"encstream_vec"`
}

var errWriterBroken = errors.New("the writer refuses this Write")

type breakingWriter struct {
	buf    bytes.Buffer
	broken bool
}

func (w *breakingWriter) Write(p []byte) (int, error) {
	if w.broken {
		w.broken = false
		return 0, errWriterBroken
	}
	return w.buf.Write(p)
}

type encNested struct {
	A []int          `json:"a"`
	M map[string]any `json:"m"`
	S string         `json:"s,omitempty"`
}

func encValue(arg string) any {
	switch arg {
	case "num":
		return 1
	case "html":
		return "a<b&c >"
	case "nested":
		return encNested{A: []int{1, 2}, M: map[string]any{"k": []any{}, "j": map[string]any{"<": nil}}}
	case "map":
		return map[string]string{"z": "y", "a": "<", "m": ""}
	case "nan":
		return math.NaN()
	case "chan":
		return map[string]any{"k": make(chan int)}
	case "marshaler":
		return failingMarshaler{}
	case "number":
		return stdjson.Number("1e")
	}
	return nil
}

func encIndent(i string) (string, string) {
	switch i {
	case "spaces":
		return "", "  "
	case "prefixed":
		return ">", "\t"
	}
	return "", ""
}

func encClass(err error) string {
	switch {
	case err == nil:
		return "nil"
	case errors.Is(err, errWriterBroken):
		return "werr"
	}
	return "verr"
}

func encStreamRun(c *Ctx, v *encVec) {
	k := encCase{EncVec: v}
	var w1, w2 breakingWriter
	e1, e2 := stdjson.NewEncoder(&w1), json.NewEncoder(&w2)
	c.Case()
	for i, op := range v.Encstream {
		at := fmt.Sprintf("call %d: %s(%s)", i+1, op.Op, op.Arg)
		switch op.Op {
		case "escape":
			e1.SetEscapeHTML(op.Arg == "on")
			e2.SetEscapeHTML(op.Arg == "on")
		case "indent":
			p, in := encIndent(op.Arg)
			e1.SetIndent(p, in)
			e2.SetIndent(p, in)
		case "break":
			w1.broken, w2.broken = true, true
		case "encode":
			val := encValue(op.Arg)
			n1 := w1.buf.Len()
			r1 := e1.Encode(val)
			// REF: encoding/json's Encoder is what the specification describes
			if encClass(r1) != op.Ret || (w1.buf.Len() > n1) != op.Wrote {
				c.SpecError("C01", fmt.Sprintf("JsonEncoderStream.tla disagrees with encoding/json at %s: returned %v, wrote %v", at, r1, w1.buf.Len() > n1), k)
				return
			}
			var r2 error
			c.Eval(1)
			if p := protect(func() { r2 = e2.Encode(val) }); p != "" {
				c.Diverge("C01", "Encoder.Encode(history of calls)", op.Ret, p+" at "+at, "", k)
				return
			}
			if encClass(r2) != op.Ret {
				c.Diverge("C01", "Encoder.Encode(history of calls)", fmt.Sprintf("%s returns %s (%v)", at, op.Ret, r1), fmt.Sprintf("%s (%v)", encClass(r2), r2), "", k)
				return
			}
			if !bytes.Equal(w1.buf.Bytes(), w2.buf.Bytes()) {
				c.Diverge("C01", "Encoder.Encode(history of calls)", fmt.Sprintf("after %s the writer holds %s", at, clipS(w1.buf.String()[n1:])),
					clipS(w2.buf.String()[min(n1, w2.buf.Len()):]), "", k)
				return
			}
		}
	}
	// the specification's account of the output: one rendering per record, under the record's settings
	var want bytes.Buffer
	for _, rec := range v.Out {
		if len(rec) != 3 {
			c.SpecError("C01", "bad output record", k)
			return
		}
		e := stdjson.NewEncoder(&want)
		e.SetEscapeHTML(rec[1] == true)
		e.SetIndent(encIndent(fmt.Sprint(rec[2])))
		e.Encode(encValue(fmt.Sprint(rec[0])))
	}
	if !bytes.Equal(want.Bytes(), w1.buf.Bytes()) {
		c.SpecError("C01", "JsonEncoderStream.tla's output records are not what encoding/json's Encoder wrote", k)
	}
}

func encStreamDispatch(c *Ctx, raw stdjson.RawMessage) bool {
	if !bytes.Contains(raw, []byte(`"encstream`)) {
		return false
	}
	var k encCase
	if stdjson.Unmarshal(raw, &k) == nil && k.EncVec != nil {
		encStreamRun(c, k.EncVec)
		return true
	}
	var v encVec
	if stdjson.Unmarshal(raw, &v) == nil && len(v.Encstream) > 0 {
		c.Nontrivial()
		encStreamRun(c, &v)
		return true
	}
	return false
}
