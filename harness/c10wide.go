package main

// C10, wide mode: the ownership clauses on the whole corpus of types and documents (spec/JsonTypes.tla
// shapes with their valid, near-valid and mutated documents) instead of the one target of the
// history replay:
//   - no entry point writes to the input it was lent (errors included);
//   - what was decoded without zero-copy flags keeps its contents when the input is overwritten and
//     further calls are made; with zero-copy flags it keeps them as long as the input is left alone;
//   - what Marshal / Append / Encoder returned keeps its contents when further calls are made - small
//     outputs and outputs larger than any pooled buffer's initial size (64 KiB and more).

import (
	"bytes"
	"encoding/base64"
	stdjson "encoding/json"
	"errors"
	"fmt"
	"io"
	"reflect"
	"sort"
	"strconv"
	"strings"
	"sync"
	"unicode/utf8"

	"github.com/segmentio/encoding/json"
)

type c10WideCase struct {
	Shape *jShape `json:"shape"`
	Seed  int64   `json:"seed"`
	Doc   string  `json:"doc,omitempty"`
	Doc2  string  `json:"doc2,omitempty"`
	Flags int     `json:"flags"`
	API   string  `json:"api"`
	Val   int     `json:"val,omitempty"`
}

// deepDump renders a value with everything it points to (a snapshot of its contents)
func deepDump(sb *strings.Builder, v reflect.Value, depth int) {
	if depth > 12 {
		sb.WriteString("…")
		return
	}
	switch v.Kind() {
	case reflect.Invalid:
		sb.WriteString("<invalid>")
	case reflect.Pointer, reflect.Interface:
		if v.IsNil() {
			sb.WriteString("nil")
			return
		}
		sb.WriteString("&")
		deepDump(sb, v.Elem(), depth+1)
	case reflect.Struct:
		if v.CanInterface() {
			if s, ok := v.Interface().(fmt.Stringer); ok && v.Type().PkgPath() == "time" {
				sb.WriteString(s.String())
				return
			}
		}
		sb.WriteString("{")
		for i := 0; i < v.NumField(); i++ {
			deepDump(sb, v.Field(i), depth+1)
			sb.WriteString(";")
		}
		sb.WriteString("}")
	case reflect.Map:
		if v.IsNil() {
			sb.WriteString("nilmap")
			return
		}
		var es []string
		it := v.MapRange()
		for it.Next() {
			var e strings.Builder
			deepDump(&e, it.Key(), depth+1)
			e.WriteString(":")
			deepDump(&e, it.Value(), depth+1)
			es = append(es, e.String())
		}
		sort.Strings(es)
		sb.WriteString("map[" + strings.Join(es, ",") + "]")
	case reflect.Slice:
		if v.IsNil() {
			sb.WriteString("nilslice")
			return
		}
		fallthrough
	case reflect.Array:
		if v.Type().Elem().Kind() == reflect.Uint8 {
			b := make([]byte, v.Len())
			reflect.Copy(reflect.ValueOf(b), v)
			fmt.Fprintf(sb, "%q", b)
			return
		}
		sb.WriteString("[")
		for i := 0; i < v.Len(); i++ {
			deepDump(sb, v.Index(i), depth+1)
			sb.WriteString(",")
		}
		sb.WriteString("]")
	case reflect.String:
		fmt.Fprintf(sb, "%q", v.String())
	default:
		fmt.Fprintf(sb, "%v", v)
	}
}

func dumpOf(v reflect.Value) string {
	var sb strings.Builder
	deepDump(&sb, v, 0)
	return sb.String()
}

var bigPad = strings.Repeat("p", 70000)

// further library calls on this goroutine: pooled buffers are re-acquired and rewritten
func c10Churn(k int) {
	for i := 0; i < 6; i++ {
		json.Marshal(map[string]any{"churn": i + k, "pad": strings.Repeat("c", i*97+k%13)})
	}
	json.Marshal([]string{bigPad[:66000+k%1000], "x"})
	var w bytes.Buffer
	e := json.NewEncoder(&w)
	e.Encode([]string{strings.Repeat("e", 900)})
	var skip any
	json.Unmarshal([]byte(`{"a":["b",{"c":"d\n"}],"e":"f","`+strings.Repeat("g", 40)+`":1}`), &skip)
}

var c10FlagSets = []json.ParseFlags{0, json.ZeroCopy, json.DontCopyString, json.DontCopyNumber, json.DontCopyRawMessage,
	// the number flags choose the dynamic type of numbers in interfaces; none of them is a zero-copy flag
	json.UseNumber | json.UseInt64, json.UseNumber | json.UseUint64, json.UseNumber | json.UseBigInt | json.UseInt64 | json.UseUint64, json.UseBigInt, json.UseInt64 | json.UseUint64,
	json.UseNumber, json.DontMatchCaseInsensitiveStructFields | json.DisallowUnknownFields}

// quoted variants put where a base document has a string value: ",string" fields parse them as numbers
var c10Quoted = []string{`"007"`, `"-00042"`, `"00"`, `"-0"`, `"0012.50"`, `"12"`, `"0x10"`, `" 1"`, `"1e2"`, `"0001e2"`, `"é007"`, `"true"`}

func c10Docs(shape *jShape, seed int64, r *rng, tier string) []string {
	docs := c02Docs(shape, seed, r, tier)
	seen := map[string]bool{}
	for _, d := range docs {
		seen[d] = true
	}
	n := len(docs)
	for i := 0; i < n && i < 6; i++ {
		base := docs[i]
		for _, s := range scalarSpans([]byte(base)) {
			if !s.isKey && base[s.s] == '"' {
				for _, q := range c10Quoted {
					if d := base[:s.s] + q + base[s.e:]; !seen[d] {
						seen[d] = true
						docs = append(docs, d)
					}
				}
				break
			}
		}
	}
	return docs
}

func c10WideDecode(c *Ctx, k c10WideCase, t reflect.Type) {
	fail := func(w, g string) { c.Diverge("C10", k.API, w, g, "", k) }
	in := make([]byte, len(k.Doc))
	copy(in, k.Doc)
	flags := json.ParseFlags(k.Flags)
	target := reflect.New(t)
	var err error
	c.Eval(1)
	p := protect(func() {
		switch k.API {
		case "json.Unmarshal":
			err = json.Unmarshal(in, target.Interface())
		case "Tokenizer":
			tok := json.NewTokenizer(in)
			var kept [][]byte
			var snaps []string
			for round := 0; round < 2; round++ { // the second round on a Reset tokenizer
				for tok.Next() {
					_ = tok.Kind()
					if tok.Kind().Class() == json.String {
						b := tok.String()
						kept = append(kept, b)
						snaps = append(snaps, string(b))
					}
				}
				tok.Reset(in)
			}
			for i := range kept {
				if string(in) == k.Doc && string(kept[i]) != snaps[i] {
					fail("a Tokenizer.String result unchanged by later calls: "+clipS(snaps[i]), clipS(string(kept[i])))
					break
				}
			}
			err = fmt.Errorf("no value")
		case "json.Valid":
			json.Valid(in)
			err = fmt.Errorf("no value")
		default:
			_, err = json.Parse(in, target.Interface(), flags)
		}
	})
	if p != "" {
		return // C06's business
	}
	if string(in) != k.Doc {
		fail("the lent input unchanged: "+clipS(k.Doc), clipS(string(in)))
		return
	}
	if err != nil {
		return
	}
	zeroCopy := flags&(json.DontCopyString|json.DontCopyNumber|json.DontCopyRawMessage) != 0
	snap := dumpOf(target)
	c10Churn(len(k.Doc))
	if cur := dumpOf(target); cur != snap {
		fail("decoded value unchanged by further library calls: "+clipS(snap), clipS(cur))
		return
	}
	if string(in) != k.Doc {
		fail("the lent input unchanged by further library calls: "+clipS(k.Doc), clipS(string(in)))
		return
	}
	if !zeroCopy {
		for i := range in {
			in[i] = 'X'
		}
		c10Churn(len(k.Doc) + 1)
		if cur := dumpOf(target); cur != snap {
			fail("decoded value (no zero-copy flag) unchanged when the input is overwritten: "+clipS(snap), clipS(cur))
		}
	}
}

// collectBytes gathers every RawMessage / []byte reachable from v (the slice headers as they are now)
func collectBytes(v reflect.Value, out *[][]byte, depth int) {
	if depth > 8 {
		return
	}
	switch v.Kind() {
	case reflect.Pointer, reflect.Interface:
		if !v.IsNil() {
			collectBytes(v.Elem(), out, depth+1)
		}
	case reflect.Struct:
		for i := 0; i < v.NumField(); i++ {
			collectBytes(v.Field(i), out, depth+1)
		}
	case reflect.Map:
		it := v.MapRange()
		for it.Next() {
			collectBytes(it.Value(), out, depth+1)
		}
	case reflect.Slice:
		if v.Type().Elem().Kind() == reflect.Uint8 {
			if v.Len() > 0 {
				*out = append(*out, v.Bytes())
			}
			return
		}
		fallthrough
	case reflect.Array:
		for i := 0; i < v.Len(); i++ {
			collectBytes(v.Index(i), out, depth+1)
		}
	}
}

// c10SameDestination: two decodes into the same variable.  The byte slices (RawMessages, []byte) handed out by
// the first keep their contents through the second, and an input lent to the first with a zero-copy flag is not
// written to by the second.
func c10SameDestination(c *Ctx, k c10WideCase, t reflect.Type, doc2 string) {
	fail := func(w, g string) { c.Diverge("C10", k.API, w, g, "", k) }
	for _, zc := range []bool{false, true} {
		in1 := []byte(k.Doc)
		in2 := []byte(doc2)
		target := reflect.New(t)
		var flags json.ParseFlags
		if zc {
			flags = json.DontCopyRawMessage | json.DontCopyString | json.DontCopyNumber
		}
		var err error
		c.Eval(1)
		if p := protect(func() { _, err = json.Parse(in1, target.Interface(), flags) }); p != "" || err != nil {
			return
		}
		var held [][]byte
		collectBytes(target, &held, 0)
		snaps := make([]string, len(held))
		for i, b := range held {
			snaps[i] = string(b)
		}
		if p := protect(func() { err = json.Unmarshal(in2, target.Interface()) }); p != "" {
			return
		}
		if string(in1) != k.Doc {
			fail("the input lent to the first decode unchanged by a second decode into the same variable: "+clipS(k.Doc), clipS(string(in1)))
			return
		}
		if string(in2) != doc2 {
			fail("the lent input unchanged: "+clipS(doc2), clipS(string(in2)))
			return
		}
		for i, b := range held {
			if string(b) != snaps[i] {
				fail("a RawMessage / []byte handed out by the first decode unchanged by the second decode into the same variable: "+clipS(snaps[i]), clipS(string(b)))
				return
			}
		}
		// the second decode used no zero-copy flag: what it left in the variable - also where it merged into what the
		// first one had put there (members of a map that were already present, elements reused) - owes nothing to its input
		if err == nil && !zc {
			before := dumpOf(target)
			for i := range in2 {
				in2[i] = 'X'
			}
			c10Churn(len(in2))
			if after := dumpOf(target); after != before {
				fail("values left by a second decode into the same variable (no zero-copy flag) unchanged when its input is overwritten: "+clipS(before), clipS(after))
				return
			}
		}
	}
}

func c10WideEncode(c *Ctx, k c10WideCase, v reflect.Value) {
	fail := func(w, g string) { c.Diverge("C10", k.API, w, g, "", k) }
	x := v.Interface()
	var out []byte
	var err error
	c.Eval(1)
	p := protect(func() {
		switch k.API {
		case "json.Marshal":
			out, err = json.Marshal(x)
		case "json.Marshal(large)":
			out, err = json.Marshal([]any{x, bigPad, x})
		case "json.Append":
			out, err = json.Append(make([]byte, 0, 16), x, json.EscapeHTML|json.SortMapKeys)
		case "json.Append(large)":
			out, err = json.Append(nil, []any{bigPad, x}, json.EscapeHTML|json.SortMapKeys)
		case "Encoder.Encode":
			var w bytes.Buffer
			err = json.NewEncoder(&w).Encode(x)
			out = w.Bytes()
		}
	})
	if p != "" || err != nil {
		return
	}
	snap := string(out)
	c10Churn(len(out))
	c10Churn(len(out) + 7)
	if string(out) != snap {
		i := 0
		for i < len(snap) && out[i] == snap[i] {
			i++
		}
		fail("result unchanged by further library calls", fmt.Sprintf("%d bytes, first difference at offset %d: %q became %q", len(snap), i, clipS(snap[i:]), clipS(string(out[i:]))))
	}
}

// outputs around and above one and four MiB (a pooled buffer that grew that large is a candidate for special
// treatment): once per process
var c10HugeOnce sync.Once

func c10Huge(c *Ctx) {
	for _, n := range []int{1<<20 - 64, 1 << 20, 1<<20 + 64, 4<<20 + 1} {
		pad := strings.Repeat("h", n)
		for _, api := range []string{"json.Marshal", "json.Append", "Encoder.Encode"} {
			x := []any{n, pad, "end"}
			want, _ := stdjson.Marshal(x)
			var out []byte
			var err error
			c.Eval(1)
			switch api {
			case "json.Marshal":
				out, err = json.Marshal(x)
			case "json.Append":
				out, err = json.Append(nil, x, json.EscapeHTML|json.SortMapKeys)
			default:
				var w bytes.Buffer
				err = json.NewEncoder(&w).Encode(x)
				out = bytes.TrimSuffix(w.Bytes(), []byte("\n"))
			}
			for i := 0; i < 3; i++ {
				c10Churn(n + i)
			}
			if err != nil || !bytes.Equal(out, want) {
				i := 0
				for i < len(out) && i < len(want) && out[i] == want[i] {
					i++
				}
				c.Diverge("C10", api+"(output of "+fmt.Sprint(len(want))+" bytes)", "result unchanged by further library calls",
					fmt.Sprintf("err=%v, first difference at offset %d of %d", err, i, len(out)), "", c10WideCase{API: api, Val: n})
			}
		}
	}
}

// c10Writer is the writer of an Encoder under observation: while it holds the bytes it was handed, further library
// calls are made (on this goroutine and on another one), and the bytes must still be what they were
type c10Writer struct {
	bad string
	out bytes.Buffer
}

func (w *c10Writer) Write(p []byte) (int, error) {
	snap := string(p)
	var wg sync.WaitGroup
	wg.Add(1)
	go func() { defer wg.Done(); c10Churn(len(p) + 3) }()
	c10Churn(len(p))
	// outputs of the same size with other content, through the same kinds of calls
	other := strings.Repeat("#", max(len(p)-8, 0))
	json.Marshal(other)
	var sink bytes.Buffer
	e := json.NewEncoder(&sink)
	e.Encode(other)
	e.SetIndent("", " ")
	e.Encode([]string{other})
	wg.Wait()
	if string(p) != snap && w.bad == "" {
		i := 0
		for i < len(snap) && p[i] == snap[i] {
			i++
		}
		w.bad = fmt.Sprintf("%d bytes, first difference at offset %d: %q became %q", len(snap), i, clipS(snap[i:]), clipS(string(p[i:])))
	}
	w.out.WriteString(snap)
	return len(p), nil
}

// c10EncoderHistories: every sequence of up to three Encode calls of one Encoder under changing settings (plain,
// indented, prefixed; HTML escaping on and off) with small, medium and large values
func c10EncoderHistories(c *Ctx) {
	type setting struct {
		prefix, indent string
		html           bool
	}
	settings := []setting{{"", "", true}, {"", "  ", true}, {">", "\t", false}, {"", "", false}}
	values := []any{map[string]any{"k": "v<>"}, []string{strings.Repeat("m", 5000)}, []any{1, bigPad, "end"}}
	var seqs [][]int
	for a := range settings {
		seqs = append(seqs, []int{a})
		for b := range settings {
			seqs = append(seqs, []int{a, b})
			for d := range settings {
				seqs = append(seqs, []int{a, b, d})
			}
		}
	}
	for _, seq := range seqs {
		for vi, val := range values {
			w := &c10Writer{}
			var ref bytes.Buffer
			e, r := json.NewEncoder(w), stdjson.NewEncoder(&ref)
			var err error
			for _, si := range seq {
				st := settings[si]
				e.SetIndent(st.prefix, st.indent)
				e.SetEscapeHTML(st.html)
				r.SetIndent(st.prefix, st.indent)
				r.SetEscapeHTML(st.html)
				c.Eval(1)
				if p := protect(func() { err = e.Encode(val) }); p != "" || err != nil {
					w.bad = fmt.Sprintf("err=%v %s", err, p)
					break
				}
				r.Encode(val)
			}
			if w.bad == "" && !bytes.Equal(w.out.Bytes(), ref.Bytes()) {
				w.bad = "the bytes handed to the writer are not the encoding: " + clipS(w.out.String())
			}
			if w.bad != "" {
				c.Diverge("C10", "Encoder.Encode(settings changed between calls; the writer makes further library calls)",
					"the bytes handed to the writer unchanged while it holds them", fmt.Sprintf("settings %v value %d: %s", seq, vi, w.bad), "", c10WideCase{API: "Encoder histories", Val: -7})
				return
			}
		}
	}
}

// c10DecoderStreams: a Decoder without zero-copy flags over a stream several times its buffer; what each Decode
// handed out - a RawMessage, a string, a Number, bytes, a map with its keys, a value in an interface - is kept, and
// when the stream is at its end (the buffer was compacted, refilled and grown many times on the way) every kept
// value still is what it was when it was handed out
// c10EncodedRaw: a RawMessage the caller owns (decoded before, with or without DontCopyRawMessage - then it lies in
// the caller's input buffer with the rest of the input behind it) goes through Marshal, Append and an Encoder under
// every combination of TrustRawMessage / AppendNewline / EscapeHTML / indent: afterwards, and after further library
// calls, the RawMessage and the input buffer hold what they held, and the writer got the encoding
func c10EncodedRaw(c *Ctx) {
	texts := []string{`{"k":[1,2,3],"s":"abc"}`, `[1,"two",{"3":null}]`, `"just a string of some length"`, `12345`, `{"a":"<b>"}`, `{"k": [1, 2]}`, `"` + strings.Repeat("r", 5000) + `"`}
	for ti, text := range texts {
		for _, zero := range []bool{false, true} {
			for mask := 0; mask < 16; mask++ {
				trust, newline, html, indent := mask&1 != 0, mask&2 != 0, mask&4 != 0, mask&8 != 0
				k := c10WideCase{API: fmt.Sprintf("encoded raw text=%d zerocopy=%v trust=%v newline=%v html=%v indent=%v", ti, zero, trust, newline, html, indent), Val: -9}
				input := []byte(`{"R":` + text + `,"tail":"TAILTAILTAILTAIL"} trailing bytes of the caller's buffer`)
				snapIn := string(input)
				var holder struct{ R json.RawMessage }
				fl := json.ParseFlags(0)
				if zero {
					fl = json.DontCopyRawMessage
				}
				if _, err := json.Parse(input, &holder, fl); err != nil {
					continue
				}
				snapR := string(holder.R)
				w := &c10Writer{}
				e := json.NewEncoder(w)
				e.SetTrustRawMessage(trust)
				e.SetAppendNewline(newline)
				e.SetEscapeHTML(html)
				if indent {
					e.SetIndent("", " ")
				}
				var ref bytes.Buffer
				r := stdjson.NewEncoder(&ref)
				r.SetEscapeHTML(html)
				if indent {
					r.SetIndent("", " ")
				}
				r.Encode(stdjson.RawMessage(snapR))
				want := ref.String()
				if !newline {
					want = strings.TrimSuffix(want, "\n")
				}
				c.Case()
				c.Eval(1)
				var err error
				if p := protect(func() { err = e.Encode(holder.R) }); p != "" || err != nil {
					c.Diverge("C10", "Encoder.Encode(a RawMessage the caller owns)", "nil error", fmt.Sprintf("%v %s", err, p), "", k)
					continue
				}
				flags := json.AppendFlags(0)
				if trust {
					flags |= json.TrustRawMessage
				}
				if html {
					flags |= json.EscapeHTML
				}
				json.Append(nil, holder.R, flags)
				json.Marshal(&holder.R)
				for i := 0; i < 3; i++ {
					c10Churn(ti + i)
				}
				bad := ""
				switch {
				case w.bad != "":
					bad = w.bad
				case string(holder.R) != snapR:
					bad = "the RawMessage has changed: " + clipS(string(holder.R))
				case string(input) != snapIn:
					bad = "the buffer the RawMessage was decoded from has changed: " + clipS(string(input))
				case w.out.String() != want && !(trust && !html):
					// (a trusted raw message is written as it is: only compared when the text is compact anyway)
					bad = "the writer got " + clipS(w.out.String()) + " instead of " + clipS(want)
				}
				if bad != "" {
					c.Diverge("C10", "Encoder.Encode(a RawMessage the caller owns)", "the caller's memory unchanged, the writer's bytes the encoding", bad, "", k)
				}
			}
		}
	}
}

// c10LongKeys: member names of every length around the decoder's 64-byte scratch buffer, with upper-case letters and
// other foldable runes, that match a field only case-insensitively or not at all: the input bytes are the caller's
func c10LongKeys(c *Ctx) {
	type tgt struct {
		A     int
		Alpha int `json:"aBcDeFgHiJkLmNoPqRsTuVwXyZaBcDeFgHiJkLmNoPqRsTuVwXyZaBcDeFgHiJkLmNoPqRsTuVwXyZ0123456789"`
	}
	for _, n := range []int{1, 8, 63, 64, 65, 66, 88, 100, 128, 129, 300} {
		for _, alphabet := range []string{"AbCdEfGhIjKlMnOpQrStUvWxYz", "ABCDEFGHIJKLMNOPQRSTUVWXYZ", "ÀÉÎK", "abcdefghijklmnopqrstuvwxyz"} {
			name := ""
			for len(name) < n {
				name += alphabet
			}
			name = name[:n]
			for !utf8.ValidString(name) {
				name = name[:len(name)-1]
			}
			for _, doc := range []string{`{"` + name + `":1,"A":2}`, `{"A":1,"` + strings.ToUpper("aBcDeFgHiJkLmNoPqRsTuVwXyZaBcDeFgHiJkLmNoPqRsTuVwXyZaBcDeFgHiJkLmNoPqRsTuVwXyZ0123456789") + `":3,"` + name + `":{"` + name + `":[]}}`} {
				for fi, fl := range []json.ParseFlags{0, json.ZeroCopy, json.DontMatchCaseInsensitiveStructFields, json.DontCopyString} {
					in := []byte(doc)
					k := c10WideCase{API: fmt.Sprintf("long keys n=%d flags=%d", n, fi), Val: -10}
					var t tgt
					c.Case()
					c.Eval(1)
					if p := protect(func() { json.Parse(in, &t, fl) }); p != "" {
						c.Diverge("C10", "json.Parse(member names around the scratch buffer)", "no panic", p, "", k)
						continue
					}
					if string(in) != doc {
						c.Diverge("C10", "json.Parse(member names around the scratch buffer)", "lent input unchanged", "input modified: "+clipS(string(in)), "", k)
					}
				}
				in := []byte(doc)
				var t tgt
				json.Unmarshal(in, &t)
				var t2 tgt
				d := json.NewDecoder(bytes.NewReader(in))
				d.Decode(&t2)
				if string(in) != doc {
					c.Diverge("C10", "json.Unmarshal / Decoder(member names around the scratch buffer)", "lent input unchanged", "input modified: "+clipS(string(in)), "", c10WideCase{API: fmt.Sprintf("long keys n=%d", n), Val: -10})
				}
			}
		}
	}
}

// pieceReader hands out its pieces one per Read (a piece longer than the caller's buffer in several parts)
type pieceReader struct {
	pieces  [][]byte
	withErr bool
}

var errTransient = errors.New("try again")

func (r *pieceReader) Read(p []byte) (int, error) {
	if len(r.pieces) == 0 {
		return 0, io.EOF
	}
	n := copy(p, r.pieces[0])
	if n == len(r.pieces[0]) {
		r.pieces = r.pieces[1:]
	} else {
		r.pieces[0] = r.pieces[0][n:]
	}
	if r.withErr && len(r.pieces) > 0 {
		return n, errTransient
	}
	return n, nil
}

func c10DecoderStreams(c *Ctx) {
	type kept struct {
		v    reflect.Value
		snap string
	}
	targets := []func() any{
		func() any { return new(json.RawMessage) }, func() any { return new(string) }, func() any { return new(any) },
		func() any { return new([]byte) }, func() any { return new(map[string]string) }, func() any { return new([]json.RawMessage) },
		func() any { return new(struct{ R json.RawMessage }) }, func() any { return new(json.Number) },
	}
	docFor := func(ti, i int) string {
		n := []int{3, 40, 700, 5000, 33000}[i%5]
		if i%97 == 96 {
			n = 70000
		}
		body := strings.Repeat(string(rune('a'+i%26)), n)
		switch ti {
		case 0, 2:
			return []string{`"` + body + `"`, `{"k":"` + body + `","n":[` + strconv.Itoa(i) + `]}`, `[` + strconv.Itoa(i) + `,"` + body + `"]`}[i%3]
		case 1:
			return `"` + body + `\n"`
		case 3:
			return `"` + base64.StdEncoding.EncodeToString([]byte(body)) + `"`
		case 4:
			return `{"` + body + `":"` + body + `","k` + strconv.Itoa(i) + `":"v"}`
		case 5:
			return `[1,"` + body + `",{"a":"` + body + `"}]`
		case 6:
			return `{"R":["` + body + `"]}`
		}
		return strconv.Itoa(i) + strings.Repeat("0", n%300) + ".5"
	}
	for ti, mk := range targets {
		for _, sep := range []string{"\n", "", " \t "} {
			var stream bytes.Buffer
			var pieces [][]byte
			count := 120
			for i := 0; i < count; i++ {
				at := stream.Len()
				stream.WriteString(docFor(ti, i))
				if sep == "" && (ti == 7 || ti == 1 || ti == 3) {
					stream.WriteString(" ") // scalars need a separator
				}
				stream.WriteString(sep)
				pieces = append(pieces, append([]byte(nil), stream.Bytes()[at:]...))
			}
			// chunk -1: every Read delivers one document and what separates it from the next, so that each value ends
			// where the buffered data ends while more is to come; -2: two documents per Read
			// -3: every document and the white space behind it padded to a multiple of 4096 bytes, so that documents end where
			// the Decoder's buffer (32768 bytes, doubled when a document needs it) ends; -4: as -1, each Read also returns an
			// error of the transient kind next to its data, which ends the Decoder's attempt to fill its buffer
			for _, chunk := range []int{0, 1000, 4096, -1, -2, -3, -4} {
				var src io.Reader = bytes.NewReader(stream.Bytes())
				if chunk > 0 {
					src = onlyRead{src, chunk}
				} else if chunk == -3 {
					var padded bytes.Buffer
					for _, pc := range pieces {
						padded.Write(pc)
						padded.WriteString(strings.Repeat(" ", (4096-len(pc)%4096)%4096))
					}
					src = bytes.NewReader(padded.Bytes())
				} else if chunk == -4 {
					src = &pieceReader{pieces: append([][]byte(nil), pieces...), withErr: true}
				} else if chunk < 0 {
					pr := &pieceReader{}
					for i := 0; i < len(pieces); i += -chunk {
						var b []byte
						for j := i; j < i-chunk && j < len(pieces); j++ {
							b = append(b, pieces[j]...)
						}
						pr.pieces = append(pr.pieces, b)
					}
					src = pr
				}
				d := json.NewDecoder(src)
				var all []kept
				k := c10WideCase{API: fmt.Sprintf("Decoder stream target=%d sep=%q chunk=%d", ti, sep, chunk), Val: -8}
				c.Case()
				bad := ""
				for i := 0; i < count; i++ {
					x := mk()
					var err error
					c.Eval(1)
					if p := protect(func() { err = d.Decode(x) }); p != "" || err != nil {
						bad = fmt.Sprintf("value %d: err=%v %s", i, err, p)
						break
					}
					all = append(all, kept{reflect.ValueOf(x).Elem(), dumpOf(reflect.ValueOf(x).Elem())})
				}
				c10Churn(ti)
				for i, kv := range all {
					if bad != "" {
						break
					}
					if now := dumpOf(kv.v); now != kv.snap {
						bad = fmt.Sprintf("value %d of %d handed out by Decode has changed by the time the stream is at its end: was %s, is %s", i, count, clipS(kv.snap), clipS(now))
					}
				}
				if bad != "" {
					c.Diverge("C10", "Decoder.Decode(a stream longer than the buffer, every result kept)", "what a Decode handed out keeps its contents", bad, "", k)
				}
			}
		}
	}
}

func c10Wide(c *Ctx, shape *jShape) {
	c10HugeOnce.Do(func() { c10Huge(c); c10EncoderHistories(c); c10DecoderStreams(c); c10EncodedRaw(c); c10LongKeys(c) })
	t := jTypeOf(shape)
	r := newRng(c.Seed, "c10wide"+shape.String())
	docs := c10Docs(shape, c.Seed, r, c.Tier)
	apis := []string{"json.Parse", "json.Parse", "json.Unmarshal", "json.Parse", "Tokenizer", "json.Valid"}
	for i, doc := range docs {
		api := apis[i%len(apis)]
		fl := c10FlagSets[r.intn(len(c10FlagSets))]
		if i%len(apis) == 0 {
			fl = 0
		}
		c.Case()
		c10WideDecode(c, c10WideCase{Shape: shape, Seed: c.Seed, Doc: doc, Flags: int(fl), API: api}, t)
	}
	// two decodes into the same variable (types that can hold byte slices)
	if strings.Contains(shape.String(), "raw") || strings.Contains(shape.String(), "bytes") || strings.Contains(shape.String(), "any") || strings.Contains(shape.String(), "map") {
		for i := 0; i+1 < len(docs) && i < 6; i++ {
			c.Case()
			c10SameDestination(c, c10WideCase{Shape: shape, Seed: c.Seed, Doc: docs[i], Doc2: docs[i+1], API: "two decodes into the same variable"}, t, docs[i+1])
			c.Case()
			c10SameDestination(c, c10WideCase{Shape: shape, Seed: c.Seed, Doc: docs[i+1], Doc2: docs[i], API: "two decodes into the same variable"}, t, docs[i])
			if i < 4 { // the same document twice: every member, key and element is already there the second time
				c.Case()
				c10SameDestination(c, c10WideCase{Shape: shape, Seed: c.Seed, Doc: docs[i], Doc2: docs[i], API: "two decodes into the same variable"}, t, docs[i])
			}
		}
	}
	eapis := []string{"json.Marshal", "json.Append", "Encoder.Encode", "json.Marshal(large)", "json.Append(large)"}
	for i, v := range shapeValues(shape, c.Seed, jLimit) {
		for j, api := range eapis {
			if j >= 3 && i > 1 {
				continue // large outputs: two values per shape
			}
			c.Case()
			c10WideEncode(c, c10WideCase{Shape: shape, Seed: c.Seed, API: api, Val: i}, v)
		}
	}
}

func c10WideReplay(c *Ctx, k c10WideCase) {
	if k.Shape == nil {
		if k.Val == -7 {
			c10EncoderHistories(c)
		}
		if k.Val == -8 {
			c10DecoderStreams(c)
		}
		if k.Val == -9 {
			c10EncodedRaw(c)
		}
		if k.Val == -10 {
			c10LongKeys(c)
		}
		if k.Val > 100000 {
			c10Huge(c)
		}
		return
	}
	if k.Doc2 != "" {
		c10SameDestination(c, k, jTypeOf(k.Shape), k.Doc2)
		return
	}
	if k.Doc != "" || k.API == "Tokenizer" || k.API == "json.Valid" || strings.HasPrefix(k.API, "json.Parse") || k.API == "json.Unmarshal" {
		c10WideDecode(c, k, jTypeOf(k.Shape))
		return
	}
	vals := shapeValues(k.Shape, k.Seed, jLimit)
	if k.Val < len(vals) {
		c10WideEncode(c, k, vals[k.Val])
	}
}

var _ = stdjson.Valid
