package main

// C14 - json flags change representation or copying, never meaning.
//
// spec/JsonFlags.tla supplies the decision table (number class x Use* flags ->
// dynamic type) and the configuration lattice with what each AppendFlags subset
// may change; spec/JsonTypes.tla supplies the shapes whose values are encoded
// under all 8 AppendFlags subsets and parsed back under all 16 copy/case flag
// subsets.

import (
	"bytes"
	stdjson "encoding/json"
	"fmt"
	"math"
	"math/big"
	"reflect"
	"sort"
	"strings"

	"github.com/segmentio/encoding/json"
)

type flagsVec struct {
	Cls      string   `json:"cls"`
	Flags    []string `json:"flags"`
	Type     string   `json:"type"`
	Append   []string `json:"append"`
	Parse    []string `json:"parse"`
	May      []string `json:"may"`
	Fault    string   `json:"fault,omitempty"`
	Place    string   `json:"place,omitempty"`
	Fails    bool     `json:"fails,omitempty"`
	InDomain bool     `json:"indomain,omitempty"`
}

type c14Case struct {
	Kind  string   `json:"kind"`
	Num   string   `json:"num,omitempty"`
	Flags []string `json:"flags,omitempty"`
	Want  string   `json:"want,omitempty"`
	Shape *jShape  `json:"shape,omitempty"`
	VI    int      `json:"vi"`
	Seed  int64    `json:"seed"`
	A     int      `json:"append_flags"`
	P     int      `json:"parse_flags"`
}

var numFlagBits = map[string]json.ParseFlags{"UseNumber": json.UseNumber, "UseBigInt": json.UseBigInt, "UseInt64": json.UseInt64, "UseUint64": json.UseUint64}
var appendFlagBits = map[string]json.AppendFlags{"EscapeHTML": json.EscapeHTML, "SortMapKeys": json.SortMapKeys, "TrustRawMessage": json.TrustRawMessage}
var copyFlagList = []json.ParseFlags{json.DontCopyString, json.DontCopyNumber, json.DontCopyRawMessage, json.DontMatchCaseInsensitiveStructFields}

var numClassReps = map[string][]string{
	"u63":     {"0", "7", "9223372036854775807", "4294967296"},
	"u64":     {"9223372036854775808", "18446744073709551615"},
	"neg":     {"-1", "-9223372036854775808", "-0", "-129"},
	"posover": {"18446744073709551616", "123456789012345678901234567890", "108446744073709551616"},
	"negover": {"-9223372036854775809", "-123456789012345678901234567890"},
	"flt":     {"1.5", "1e2", "-2.5E-3", "0.0", "12.0e+1"},
}

func dynTypeName(x any) string {
	switch x.(type) {
	case float64:
		return "float64"
	case json.Number:
		return "number"
	case *big.Int:
		return "bigint"
	case int64:
		return "int64"
	case uint64:
		return "uint64"
	}
	return fmt.Sprintf("%T", x)
}

func numericValue(x any) *big.Float {
	switch v := x.(type) {
	case float64:
		return new(big.Float).SetPrec(400).SetFloat64(v)
	case json.Number:
		f, _, _ := big.ParseFloat(string(v), 10, 400, big.ToNearestEven)
		return f
	case *big.Int:
		return new(big.Float).SetPrec(400).SetInt(v)
	case int64:
		return new(big.Float).SetPrec(400).SetInt64(v)
	case uint64:
		return new(big.Float).SetPrec(400).SetUint64(v)
	}
	return new(big.Float)
}

func c14Number(c *Ctx, k c14Case) {
	var fl json.ParseFlags
	for _, f := range k.Flags {
		fl |= numFlagBits[f]
	}
	check := func(api string, doc string, pick func(any) any) {
		var x any
		var err error
		c.Eval(1)
		if p := protect(func() { _, err = json.Parse([]byte(doc), &x, fl) }); p != "" || err != nil {
			c.Diverge("C14", api, k.Want, fmt.Sprintf("err=%v %s", err, p), "", k)
			return
		}
		v := pick(x)
		if got := dynTypeName(v); got != k.Want {
			c.Diverge("C14", api, k.Want+" for "+k.Num, got, "", k)
			return
		}
		// never the numeric value: compare with the exact value of the literal (float64 may round)
		exact, _, _ := big.ParseFloat(k.Num, 10, 400, big.ToNearestEven)
		got := numericValue(v)
		if k.Want == "float64" {
			f, _ := exact.Float64()
			exact = new(big.Float).SetPrec(400).SetFloat64(f)
		}
		if exact.Cmp(got) != 0 {
			c.Diverge("C14", api+"(value)", exact.Text('g', 30), got.Text('g', 30), "", k)
		}
	}
	// every place an interface can sit: the dynamic type is decided by the flags alone
	type named interface{}
	typed := func(api, doc string, target any, pick func() any) {
		var err error
		c.Eval(1)
		if p := protect(func() { _, err = json.Parse([]byte(doc), target, fl) }); p != "" || err != nil {
			c.Diverge("C14", api, k.Want, fmt.Sprintf("err=%v %s", err, p), "", k)
			return
		}
		v := pick()
		if got := dynTypeName(v); got != k.Want {
			c.Diverge("C14", api, k.Want+" for "+k.Num, got, "", k)
			return
		}
		exact, _, _ := big.ParseFloat(k.Num, 10, 400, big.ToNearestEven)
		if k.Want == "float64" {
			f, _ := exact.Float64()
			exact = new(big.Float).SetPrec(400).SetFloat64(f)
		}
		if got := numericValue(v); exact.Cmp(got) != 0 {
			c.Diverge("C14", api+"(value)", exact.Text('g', 30), got.Text('g', 30), "", k)
		}
	}
	{
		var sl []any
		typed("json.Parse([number] into []any)", "["+k.Num+"]", &sl, func() any { return sl[0] })
		var ar [2]any
		typed("json.Parse([1,number] into [2]any)", "[1,"+k.Num+"]", &ar, func() any { return ar[1] })
		var m map[string]any
		typed("json.Parse({\"k\":number} into map[string]any)", `{"k":`+k.Num+`}`, &m, func() any { return m["k"] })
		var st struct{ F any }
		typed("json.Parse({\"F\":number} into struct{F any})", `{"F":`+k.Num+`}`, &st, func() any { return st.F })
		var pp *any
		typed("json.Parse(number into **any)", k.Num, &pp, func() any { return *pp })
		var n named
		typed("json.Parse(number into a named empty interface type)", k.Num, &n, func() any { return n })
		var ns []named
		typed("json.Parse([number] into a slice of a named empty interface type)", "["+k.Num+"]", &ns, func() any { return ns[0] })
		var nm map[string]named
		typed("json.Parse({\"k\":number} into a map of a named empty interface type)", `{"k":`+k.Num+`}`, &nm, func() any { return nm["k"] })
		var nst struct{ F named }
		typed("json.Parse({\"F\":number} into struct{F named})", `{"F":`+k.Num+`}`, &nst, func() any { return nst.F })
		// an interface that holds a pointer before the decode: the value goes where the pointer points
		inner := new(any)
		var held any = inner
		typed("json.Parse(number into an interface holding *any)", k.Num, &held, func() any {
			if *inner == nil { // wherever the value landed: only its dynamic type is at stake here
				return held
			}
			return *inner
		})
		innerS := &struct{ F any }{}
		var heldS any = innerS
		typed("json.Parse({\"F\":number} into an interface holding *struct{F any})", `{"F":`+k.Num+`}`, &heldS, func() any {
			if m, ok := heldS.(map[string]any); ok {
				return m["F"]
			}
			return innerS.F
		})
		innerN := new(named)
		var heldN named = innerN
		typed("json.Parse(number into a named interface holding a pointer)", k.Num, &heldN, func() any {
			if *innerN == nil {
				return heldN
			}
			return *innerN
		})
	}
	check("json.Parse(number into any)", k.Num, func(x any) any { return x })
	check("json.Parse([number] into any)", "["+k.Num+"]", func(x any) any { return x.([]any)[0] })
	check("json.Parse({\"k\":number} into any)", `{"k":`+k.Num+`}`, func(x any) any { return x.(map[string]any)["k"] })
}

func subsetFlags(mask int) (json.AppendFlags, []string) {
	var f json.AppendFlags
	var names []string
	for i, n := range []string{"EscapeHTML", "SortMapKeys", "TrustRawMessage"} {
		if mask&(1<<i) != 0 {
			f |= appendFlagBits[n]
			names = append(names, n)
		}
	}
	return f, names
}

func genericOf(b []byte) (any, error) {
	d := stdjson.NewDecoder(bytes.NewReader(b))
	d.UseNumber()
	var x any
	err := d.Decode(&x)
	return x, err
}

func sortedBytes(b []byte) string {
	c := append([]byte(nil), b...)
	sort.Slice(c, func(i, j int) bool { return c[i] < c[j] })
	return string(c)
}

func c14Value(c *Ctx, k c14Case, v reflect.Value) {
	x := v.Interface()
	def, defErr := json.Append(nil, x, json.EscapeHTML|json.SortMapKeys)
	var defGen any
	if defErr == nil {
		var gerr error
		if defGen, gerr = genericOf(def); gerr != nil {
			return // the default output itself is C01's business
		}
	}
	for mask := 0; mask < 8; mask++ {
		fl, names := subsetFlags(mask)
		if fl&json.TrustRawMessage != 0 && defErr != nil {
			continue // TrustRawMessage is only promised for values whose raw messages are valid
		}
		k.A = mask
		var out []byte
		var err error
		c.Eval(1)
		if p := protect(func() { out, err = json.Append(nil, x, fl) }); p != "" {
			c.Diverge("C14", "json.Append("+strings.Join(names, "|")+")", "no panic", p, "", k)
			continue
		}
		api := "json.Append(" + strings.Join(names, "|") + ")"
		if (err == nil) != (defErr == nil) {
			c.Diverge("C14", api, "error iff the default flags error: "+errStr(defErr), errStr(err)+" "+clipS(string(out)), "", k)
			continue
		}
		if err != nil {
			continue
		}
		if !stdjson.Valid(out) {
			c.Diverge("C14", api, "valid JSON", clipS(string(out)), "", k)
			continue
		}
		gen, gerr := genericOf(out)
		refGen, refText := defGen, def
		if fl&json.EscapeHTML == 0 {
			// the ,string option nests one JSON text in another: there HTML escaping changes the outer
			// value, for encoding/json too; the reference for the no-escape subsets is encoding/json's
			// own output without HTML escaping
			var w bytes.Buffer
			e := stdjson.NewEncoder(&w)
			e.SetEscapeHTML(false)
			if e.Encode(x) == nil {
				if g, ge := genericOf(w.Bytes()); ge == nil {
					refGen, refText = g, w.Bytes()
				}
			}
		}
		if gerr != nil || !reflect.DeepEqual(gen, refGen) {
			c.Diverge("C14", api, "decodes to the same generic value as "+clipS(string(refText)), clipS(string(out)), "", k)
			continue
		}
		if fl&json.EscapeHTML == 0 && fl&json.SortMapKeys != 0 {
			var w bytes.Buffer
			e := stdjson.NewEncoder(&w)
			e.SetEscapeHTML(false)
			if e.Encode(x) == nil {
				if want := bytes.TrimSuffix(w.Bytes(), []byte("\n")); !bytes.Equal(want, out) {
					c.Diverge("C14", api, clipS(string(want)), clipS(string(out)), "", k)
				}
			}
		}
		if fl&json.SortMapKeys == 0 {
			sorted, serr := json.Append(nil, x, fl|json.SortMapKeys)
			if serr == nil && sortedBytes(sorted) != sortedBytes(out) {
				c.Diverge("C14", api, "a permutation of "+clipS(string(sorted)), clipS(string(out)), "", k)
			}
		}
	}
	// Encoder setters set exactly their flag
	if defErr == nil {
		for _, tc := range []struct {
			name string
			set  func(*json.Encoder)
			fl   json.AppendFlags
			nl   bool
		}{
			{"SetSortMapKeys(false)", func(e *json.Encoder) { e.SetSortMapKeys(false) }, json.EscapeHTML, true},
			{"SetTrustRawMessage(true)", func(e *json.Encoder) { e.SetTrustRawMessage(true) }, json.EscapeHTML | json.SortMapKeys | json.TrustRawMessage, true},
			{"SetAppendNewline(false)", func(e *json.Encoder) { e.SetAppendNewline(false) }, json.EscapeHTML | json.SortMapKeys, false},
			{"SetEscapeHTML(false)", func(e *json.Encoder) { e.SetEscapeHTML(false) }, json.SortMapKeys, true},
		} {
			var w bytes.Buffer
			e := json.NewEncoder(&w)
			tc.set(e)
			if e.Encode(x) != nil {
				continue
			}
			want, _ := json.Append(nil, x, tc.fl)
			if tc.nl {
				want = append(want, '\n')
			}
			c.Eval(1)
			got := w.Bytes()
			if tc.fl&json.SortMapKeys == 0 {
				if sortedBytes(got) != sortedBytes(want) {
					c.Diverge("C14", "Encoder."+tc.name, clipS(string(want)), clipS(string(got)), "", k)
				}
			} else if !bytes.Equal(got, want) {
				c.Diverge("C14", "Encoder."+tc.name, clipS(string(want)), clipS(string(got)), "", k)
			}
		}
	}
	// parsing the default output back under every subset of the copy / case flags
	if defErr != nil {
		return
	}
	t := v.Type()
	ref := reflect.New(t)
	if _, err := json.Parse(append([]byte(nil), def...), ref.Interface(), 0); err != nil {
		return // C02's business
	}
	for mask := 1; mask < 16; mask++ {
		var fl json.ParseFlags
		for i, f := range copyFlagList {
			if mask&(1<<i) != 0 {
				fl |= f
			}
		}
		k.P = mask
		in := append([]byte(nil), def...)
		got := reflect.New(t)
		var err error
		c.Eval(1)
		if p := protect(func() { _, err = json.Parse(in, got.Interface(), fl) }); p != "" || err != nil {
			c.Diverge("C14", fmt.Sprintf("json.Parse(copy flags %04b)", mask), "same value as with no flags", fmt.Sprintf("err=%v %s", err, p), "", k)
			continue
		}
		if !deepEq(ref.Elem(), got.Elem()) {
			c.Diverge("C14", fmt.Sprintf("json.Parse(copy flags %04b)", mask), showVal(ref.Elem()), showVal(got.Elem()), "", k)
		}
		if !bytes.Equal(in, def) {
			c.Diverge("C14", fmt.Sprintf("json.Parse(copy flags %04b)", mask), "input unchanged", "input modified", "", k)
		}
	}
}

// c14String: a string of spec/JsonString.tla's units (each unit at every offset of the scanner's 8-byte words, and in
// the tail behind the last whole word) under every subset of the AppendFlags: with EscapeHTML the bytes are
// encoding/json's, without it those of its Encoder with SetEscapeHTML(false) - as a value, an element, a member name
// and value, a field
func c14String(c *Ctx, k strCase) {
	units := renderUnits(k.Str.S, k.Var)
	if units == nil || len(k.Pads) != len(units)+1 {
		c.SpecError("C14", "unknown string unit", k)
		return
	}
	var sb strings.Builder
	for i, u := range units {
		sb.WriteString(strings.Repeat(strPad, k.Pads[i]))
		sb.WriteString(u)
	}
	sb.WriteString(strings.Repeat(strPad, k.Pads[len(units)]))
	s := sb.String()
	values := []any{s, []string{"", s}, map[string]string{s: s}, struct {
		F string `json:"f"`
		G any
	}{s, s}, map[string]any{"k": []any{s}}}
	for mask := 0; mask < 8; mask++ {
		fl, _ := subsetFlags(mask)
		for vi, x := range values {
			var ref bytes.Buffer
			enc := stdjson.NewEncoder(&ref)
			enc.SetEscapeHTML(fl&json.EscapeHTML != 0)
			werr := enc.Encode(x)
			want := bytes.TrimSuffix(ref.Bytes(), []byte("\n"))
			var got []byte
			var err error
			c.Eval(1)
			if p := protect(func() { got, err = json.Append(nil, x, fl) }); p != "" {
				c.Diverge("C14", "json.Append(string units at every word offset)", "no panic", p, "", k)
				return
			}
			if (err == nil) != (werr == nil) || (err == nil && !bytes.Equal(got, want)) {
				c.Diverge("C14", "json.Append(string units at every word offset)", fmt.Sprintf("flags %d value %d: %s err=%v", mask, vi, clipS(string(want)), werr),
					fmt.Sprintf("%s err=%v", clipS(string(got)), err), "", k)
				return
			}
		}
	}
}

// c14AfterFailures: the flags change the representation, never the meaning - also right behind an Append that failed
// half-way under the same flags (the encoders keep pooled scratch: sort tables, buffers): maps of every specialised
// kind, sorted and unsorted, after failed encodes of maps of every kind
// c14ErrorParity: whether Append fails does not depend on the flags.  Values that hold no RawMessage at all, with
// marshal methods whose output is not one JSON value (TrustRawMessage speaks of raw messages only), methods that
// fail, and values no flag makes encodable; next to them the same shapes with output that is fine
type c14OutM struct{ Out string }

func (m c14OutM) MarshalJSON() ([]byte, error) { return []byte(m.Out), nil }

type c14OutPM struct{ Out string }

func (m *c14OutPM) MarshalJSON() ([]byte, error) { return []byte(m.Out), nil }

type c14ErrT struct{ Fail bool }

func (m c14ErrT) MarshalText() ([]byte, error) {
	if m.Fail {
		return nil, fmt.Errorf("no text")
	}
	return []byte("t<x>"), nil
}

func c14ErrorParity(c *Ctx) {
	outs := []string{"", "tru", "[1,2", `{"k":1}}`, " ", "1 2", `"abc`, "nul", "{\"a\":}", "01", "-", "[1,]", "\x00",
		"true", " [1 , 2] ", `{"k":"<v>"}`, `"s"`, "null", "-0.5e1"}
	for oi, o := range outs {
		m := c14OutM{o}
		vals := []any{m, &m, []c14OutM{{"1"}, m}, map[string]c14OutM{"a": {"2"}, "b": m}, struct {
			A int
			M c14OutM
		}{1, m}, []any{m}, &c14OutPM{o}, []*c14OutPM{{o}}, map[string]any{"k": &c14OutPM{o}}}
		for vi, v := range vals {
			c14Parity(c, c14Case{Kind: "parity", VI: oi*100 + vi}, v)
		}
	}
	for vi, v := range []any{c14ErrT{true}, c14ErrT{false}, map[c14ErrT]int{{true}: 1}, map[c14ErrT]int{{false}: 1}, []any{1, c14ErrT{true}},
		math.NaN(), []float64{1, math.Inf(-1)}, map[string]float32{"k": float32(math.NaN())}, stdjson.Number("1e"), []json.Number{"1", "1.", "--1"},
		json.Number(""), map[string]any{"c": make(chan int)}, func() {}, struct{ F func() }{}, struct {
			F func() `json:"-"`
			A int
		}{nil, 1}, failingMarshaler{}, []any{failingMarshaler{}}} {
		c14Parity(c, c14Case{Kind: "parity", VI: 10000 + vi}, v)
	}
}

func c14Parity(c *Ctx, k c14Case, v any) {
	def, derr := json.Append(nil, v, json.EscapeHTML|json.SortMapKeys)
	std, serr := stdjson.Marshal(v)
	c.Case()
	if (derr == nil) != (serr == nil) {
		// (C01's business; here only the flags are compared)
		return
	}
	var want any
	if serr == nil {
		var err error
		if want, err = genericOf(std); err != nil {
			c.SpecError("C14", "encoding/json wrote what it cannot read", k)
			return
		}
	}
	_ = def
	for mask := 0; mask < 8; mask++ {
		fl, names := subsetFlags(mask)
		var out []byte
		var err error
		c.Eval(1)
		k.A = mask
		if p := protect(func() { out, err = json.Append(nil, v, fl) }); p != "" {
			c.Diverge("C14", "json.Append(a value without raw messages)", "no panic", p, "", k)
			return
		}
		if (err == nil) != (derr == nil) {
			c.Diverge("C14", "json.Append(a value without raw messages)", fmt.Sprintf("err=%v as with the default flags", derr),
				fmt.Sprintf("err=%v out=%s under %v for %T %+v", err, clipS(string(out)), names, v, v), "", k)
			return
		}
		if err == nil {
			got, gerr := genericOf(out)
			if gerr != nil || !reflect.DeepEqual(got, want) {
				c.Diverge("C14", "json.Append(a value without raw messages)", clipS(string(std)), fmt.Sprintf("%s (%v) under %v", clipS(string(out)), gerr, names), "", k)
				return
			}
		}
	}
}

// c14Fault: one row of part 3 of spec/JsonFlags.tla: a value with one fault (or none) in one place, a flag subset, and
// whether Append fails
type c14FaultyText struct{}

func (c14FaultyText) MarshalText() ([]byte, error) { return nil, fmt.Errorf("no text") }

func c14FaultValue(fault string) (any, bool) {
	switch fault {
	case "none":
		return map[string]any{"k": []any{1.5, "<s>", nil}, "a": json.RawMessage(` {"r" : [1]} `), "m": c14OutM{" [1 , 2] "}}, true
	case "raw":
		return json.RawMessage(`{"x":`), true
	case "method-output":
		return c14OutM{`{"k":1}}`}, true
	case "method-error":
		return failingMarshaler{}, true
	case "text-method-error":
		return c14FaultyText{}, true
	case "kind":
		return make(chan int), true
	case "float":
		return math.Inf(1), true
	case "number":
		return json.Number("1e"), true
	}
	return nil, false
}

func c14Fault(c *Ctx, fv flagsVec) {
	k := c14Case{Kind: "fault", Num: fv.Fault + "/" + fv.Place, Flags: fv.Append}
	x, ok := c14FaultValue(fv.Fault)
	if !ok {
		c.SpecError("C14", "JsonFlags.tla: a fault the harness does not know", fv)
		return
	}
	var v any
	switch fv.Place {
	case "top":
		v = x
	case "field":
		v = struct {
			A int `json:"a"`
			F any `json:"f"`
			Z string
		}{1, x, "z"}
	case "element":
		v = []any{1, x, "z"}
	case "map-value":
		v = map[string]any{"a": 1, "m": x, "z": "z"}
	case "pointer":
		v = &struct{ P *any }{&x}
	case "interface":
		v = []any{map[string]any{"i": &x}}
	default:
		c.SpecError("C14", "JsonFlags.tla: a place the harness does not know", fv)
		return
	}
	// REF: with the default flags the specification's verdict is encoding/json's
	_, serr := stdjson.Marshal(v)
	wantDefault := fv.Fault != "none"
	if (serr != nil) != wantDefault {
		c.SpecError("C14", fmt.Sprintf("JsonFlags.tla says a value with fault %q fails under the default flags, encoding/json: %v", fv.Fault, serr), fv)
		return
	}
	var fl json.AppendFlags
	for _, a := range fv.Append {
		fl |= appendFlagBits[a]
	}
	var out []byte
	var err error
	c.Eval(1)
	if p := protect(func() { out, err = json.Append(nil, v, fl) }); p != "" {
		c.Diverge("C14", "json.Append(a value with one fault)", "an error at worst", p, "", k)
		return
	}
	if !fv.InDomain {
		return // TrustRawMessage on a raw message that is not JSON: outside the property
	}
	if (err != nil) != fv.Fails {
		c.Diverge("C14", "json.Append(a value with one fault)", fmt.Sprintf("fails=%v (fault %s as %s under %v)", fv.Fails, fv.Fault, fv.Place, fv.Append),
			fmt.Sprintf("err=%v out=%s", err, clipS(string(out))), "", k)
		return
	}
	if err == nil && !stdjson.Valid(out) {
		c.Diverge("C14", "json.Append(a value with one fault)", "valid JSON", clipS(string(out)), "", k)
	}
}

func c14AfterFailures(c *Ctx) {
	c14ErrorParity(c)
	bad := json.RawMessage(`{"broken`)
	failing := []any{
		map[string]json.RawMessage{"zz": json.RawMessage(`1`), "a": bad, "m": json.RawMessage(`2`)},
		map[string]any{"zz": 1, "b": make(chan int), "a": 2},
		map[string]any{"zz": map[string]any{"x": func() {}, "y": 1}},
		map[int]any{9: 1, 3: make(chan int)},
		map[string]MVal{"zz": {1}, "a": {2}},
		[]any{map[string]string{"zz": "1", "a": "2"}, make(chan int)},
		struct {
			M map[string]bool
			C chan int
		}{map[string]bool{"zz": true}, nil},
	}
	good := []any{
		map[string]any{"a": 1, "b": "x"}, map[string]string{"b": "1", "a": "2"}, map[string]bool{"t": true, "f": false}, map[string][]string{"k": {"v"}, "a": nil},
		map[string]json.RawMessage{"r": json.RawMessage(`[1]`), "a": json.RawMessage(`{}`)}, map[int]string{2: "b", 1: "a"}, map[string]MVal{"k": {3}},
		map[string]any{"n": map[string]any{"y": 1, "x": map[string]string{"q": "r", "p": "s"}}},
	}
	for mask := 0; mask < 8; mask++ {
		fl, _ := subsetFlags(mask)
		for fi, f := range failing {
			for gi, g := range good {
				k := c14Case{Kind: "afterfailure", VI: fi*100 + gi, A: mask}
				want, werr := genericOfValue(g)
				var out []byte
				var err error
				c.Case()
				c.Eval(1)
				if p := protect(func() {
					json.Append(nil, f, fl)
					out, err = json.Append(nil, g, fl)
				}); p != "" {
					c.Diverge("C14", "json.Append(after an Append that failed half-way)", "no panic", p, "", k)
					continue
				}
				got, gerr := genericOf(out)
				if err != nil || werr != nil || gerr != nil || !reflect.DeepEqual(got, want) {
					c.Diverge("C14", "json.Append(after an Append that failed half-way)", fmt.Sprintf("the value of %T", g), fmt.Sprintf("%s err=%v (flags %d, after a failed Append of %T)", clipS(string(out)), err, mask, f), "", k)
				}
			}
		}
	}
}

// genericOfValue: the generic value of what encoding/json writes for v
func genericOfValue(v any) (any, error) {
	b, err := stdjson.Marshal(v)
	if err != nil {
		return nil, err
	}
	return genericOf(b)
}

func c14Vector(c *Ctx, raw stdjson.RawMessage) {
	var sv strVec
	if stdjson.Unmarshal(raw, &sv) == nil && sv.Dir == "esc" {
		if !sv.Html {
			return // the unit sequence comes twice, once per setting of the model's html switch: the flags are walked here
		}
		c.Nontrivial()
		for _, pads := range strPadSets(len(sv.S), false, c.Tier) {
			c.Case()
			c14String(c, strCase{Str: &sv, Var: int(c.Seed), Pads: pads})
		}
		return
	}
	var fv flagsVec
	if stdjson.Unmarshal(raw, &fv) == nil && fv.Fault != "" {
		c.Nontrivial()
		c.Case()
		c14Fault(c, fv)
		return
	}
	if fv.Cls != "" {
		c.Nontrivial()
		for _, num := range numClassReps[fv.Cls] {
			c.Case()
			c14Number(c, c14Case{Kind: "number", Num: num, Flags: fv.Flags, Want: fv.Type})
		}
		c.Sample(fv)
		return
	}
	if fv.May != nil || fv.Append != nil || fv.Parse != nil {
		// configuration vector: the harness walks the same lattice; check its reading of "may change"
		want := map[string]bool{}
		has := map[string]bool{}
		for _, a := range fv.Append {
			has[a] = true
		}
		if !has["EscapeHTML"] {
			want["html-escapes"] = true
		}
		if !has["SortMapKeys"] {
			want["member-order"] = true
		}
		if has["TrustRawMessage"] {
			want["raw-not-validated"] = true
		}
		if len(want) != len(fv.May) {
			c.SpecError("C14", "harness and JsonFlags.MayChange disagree", fv)
		}
		for _, m := range fv.May {
			if !want[m] {
				c.SpecError("C14", "harness and JsonFlags.MayChange disagree", fv)
			}
		}
		return
	}
	var v jsonVec
	if err := stdjson.Unmarshal(raw, &v); err != nil || v.Shape == nil {
		return
	}
	c.Nontrivial()
	vals := shapeValues(v.Shape, c.Seed, jLimit)
	for i, val := range vals {
		c.Case()
		c14Value(c, c14Case{Kind: "value", Shape: v.Shape, VI: i, Seed: c.Seed}, val)
	}
}

func c14Replay(c *Ctx, raw stdjson.RawMessage) {
	var sk strCase
	if stdjson.Unmarshal(raw, &sk) == nil && sk.Str != nil {
		c14String(c, sk)
		return
	}
	var k c14Case
	if stdjson.Unmarshal(raw, &k) != nil {
		return
	}
	if k.Kind == "number" {
		c14Number(c, k)
		return
	}
	if k.Kind == "fault" {
		var fv flagsVec
		fv.Fault, fv.Place, _ = strings.Cut(k.Num, "/")
		fv.Append = k.Flags
		has := false
		for _, a := range k.Flags {
			has = has || a == "TrustRawMessage"
		}
		fv.Fails = fv.Fault != "none" && !(fv.Fault == "raw" && has)
		fv.InDomain = !(fv.Fault == "raw" && has)
		c14Fault(c, fv)
		return
	}
	if k.Kind == "afterfailure" || k.Kind == "parity" {
		c14AfterFailures(c)
		return
	}
	vals := shapeValues(k.Shape, k.Seed, jLimit)
	if k.VI < len(vals) {
		c14Value(c, k, vals[k.VI])
	}
}

func init() {
	register("C14", &Driver{Vector: c14Vector, Replay: c14Replay, Extra: c14AfterFailures})
}
