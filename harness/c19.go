package main

// C19 - proto rewriters replace exactly the templated fields.
//
// Vectors from spec/ProtoRewrite.tla: (shape, value, template, expected value,
// input encodings: standard / reordered / overridden / unknown fields / split).
// The template is rendered as JSON for ParseRewriteTemplate (and as a hand-built
// MessageRewriter where it only sets plain scalars); every input encoding is
// rewritten by the real code and the result must be a valid message that
// decodes - under the package and under the reference implementation - to the
// expected value, with the records of untemplated fields carried over unchanged
// and in order, and with input and template untouched.

import (
	"bytes"
	"encoding/hex"
	stdjson "encoding/json"
	"fmt"
	"math"
	"reflect"
	"strconv"
	"strings"

	"github.com/segmentio/encoding/proto"
)

type pTmpl struct {
	T  string  `json:"t"`
	X  pVal    `json:"x"`
	Xs []pTmpl `json:"xs"`
}

type rewriteVec struct {
	Shape  []pField          `json:"shape"`
	Val    pVal              `json:"val"`
	Tmpl   []pTmpl           `json:"tmpl"`
	Want   pVal              `json:"want"`
	Inputs map[string][]pRec `json:"inputs"`
	Alg    []pRec            `json:"alg"`
}

type c19Case struct {
	Shape []pField `json:"shape"`
	Val   pVal     `json:"val"`
	Tmpl  []pTmpl  `json:"tmpl"`
	Want  pVal     `json:"want"`
	Salt  int      `json:"salt"`
	Input string   `json:"input"` // name of the input encoding
	In    []pRec   `json:"in"`
	Mode  string   `json:"mode"`          // "template" | "manual" | "bitor"
	In2   []pRec   `json:"in2,omitempty"` // another input of the same message, rewritten in between (reuse of the Rewriter)
}

func tagged(shape []pField) bool { return len(shape) > 0 && shape[0].N != 0 }

func fieldJSONName(shape []pField, i int) string {
	if tagged(shape) {
		return "f" + strconv.Itoa(i+1)
	}
	return "F" + strconv.Itoa(i+1)
}

func (l lift) scalarJSON(kind string, id int) string {
	switch v := l.scalar(kind, id).(type) {
	case string:
		b, _ := stdjson.Marshal(v)
		return string(b)
	case []byte:
		b, _ := stdjson.Marshal(string(v))
		return string(b)
	case float32:
		return strconv.FormatFloat(float64(v), 'g', -1, 32)
	case float64:
		return strconv.FormatFloat(v, 'g', -1, 64)
	default:
		if rv := reflect.ValueOf(v); rv.Kind() == reflect.Array {
			b, _ := stdjson.Marshal(string(l.scalarBytes(kind, id)))
			return string(b)
		}
		return fmt.Sprint(v)
	}
}

func (l lift) elemJSON(kind string, v pVal) string {
	if isMsgKind(kind) {
		return l.msgJSON(subShapes[kind], v)
	}
	return l.scalarJSON(kind, v.V)
}

// msgJSON renders a whole message value as a template object (every field named)
func (l lift) msgJSON(shape []pField, v pVal) string {
	var parts []string
	for i, f := range shape {
		x := v.Xs[i]
		var s string
		switch f.C {
		case "one":
			s = l.elemJSON(f.K, x)
		case "ptr":
			if x.T == "nil" {
				continue
			}
			s = l.elemJSON(f.K, x.Xs[0])
		case "rep":
			var es []string
			for _, e := range x.Xs {
				es = append(es, l.elemJSON(f.K, e))
			}
			s = "[" + strings.Join(es, ",") + "]"
		default:
			continue
		}
		parts = append(parts, strconv.Quote(fieldJSONName(shape, i))+":"+s)
	}
	return "{" + strings.Join(parts, ",") + "}"
}

func (l lift) tmplJSON(shape []pField, tm []pTmpl) string {
	var parts []string
	for i, f := range shape {
		t := tm[i]
		var s string
		switch t.T {
		case "keep":
			continue
		case "sub":
			s = l.tmplJSON(subShapes[f.K], t.Xs)
		case "or":
			s = strconv.FormatUint(l.mask(f.K, t.X.V), 10)
		case "set":
			switch f.C {
			case "one":
				s = l.elemJSON(f.K, t.X)
			case "ptr":
				s = l.elemJSON(f.K, t.X.Xs[0])
			case "rep":
				var es []string
				for _, e := range t.X.Xs {
					es = append(es, l.elemJSON(f.K, e))
				}
				s = "[" + strings.Join(es, ",") + "]"
			case "map":
				var es []string
				for _, e := range t.X.Xs {
					k, _ := stdjson.Marshal(l.scalar("str", e.V))
					es = append(es, string(k)+":"+l.elemJSON(f.K, e.Xs[0]))
				}
				s = "{" + strings.Join(es, ",") + "}"
			}
		}
		parts = append(parts, strconv.Quote(fieldJSONName(shape, i))+":"+s)
	}
	return "{" + strings.Join(parts, ",") + "}"
}

// rules: the RewriterRules that go with a template (BitOr for "or" entries, nested rules for nested templates)
func bitOrRule(kind string) any {
	switch kind {
	case "int":
		return proto.BitOr[int]{}
	case "i32", "s32":
		return proto.BitOr[int32]{}
	case "i64", "s64":
		return proto.BitOr[int64]{}
	case "uint":
		return proto.BitOr[uint]{}
	case "u32", "x32":
		return proto.BitOr[uint32]{}
	}
	return proto.BitOr[uint64]{}
}

func tmplRules(shape []pField, tm []pTmpl) proto.RewriterRules {
	rules := proto.RewriterRules{}
	for i, f := range shape {
		switch tm[i].T {
		case "or":
			rules[fieldJSONName(shape, i)] = bitOrRule(f.K)
		case "sub":
			if sub := tmplRules(subShapes[f.K], tm[i].Xs); len(sub) > 0 {
				rules[fieldJSONName(shape, i)] = sub
			}
		}
	}
	return rules
}

func hasOr(tm []pTmpl) bool {
	for _, t := range tm {
		if t.T == "or" || (t.T == "sub" && hasOr(t.Xs)) {
			return true
		}
	}
	return false
}

func manualBitOr(l lift, pt proto.Type, f pField, n int, m int) (proto.Rewriter, error) {
	fn := proto.FieldNumber(n)
	mask := l.mask(f.K, m)
	switch f.K {
	case "int":
		return proto.BitOrRewriter(pt, fn, int(mask))
	case "i32", "s32":
		return proto.BitOrRewriter(pt, fn, int32(mask))
	case "i64", "s64":
		return proto.BitOrRewriter(pt, fn, int64(mask))
	case "uint":
		return proto.BitOrRewriter(pt, fn, uint(mask))
	case "u32", "x32":
		return proto.BitOrRewriter(pt, fn, uint32(mask))
	}
	return proto.BitOrRewriter(pt, fn, mask)
}

// structTypeNamed is structTypeOf with `name=` in the protobuf tags (proto.TypeOf takes the
// template's field names from there)
func rewriteStructType(shape []pField) reflect.Type {
	t := structTypeOf(shape, "")
	if !tagged(shape) {
		return t
	}
	fields := make([]reflect.StructField, t.NumField())
	for i := range fields {
		f := t.Field(i)
		tag := f.Tag.Get("protobuf")
		fields[i] = reflect.StructField{Name: f.Name, Type: f.Type,
			Tag: reflect.StructTag(fmt.Sprintf(`protobuf:"%s,name=f%d"`, tag, i+1))}
	}
	return reflect.StructOf(fields)
}

type wireRec struct {
	num     uint64
	wt      int
	payload []byte
}

func parseTop(b []byte) (recs []wireRec, ok bool) {
	for len(b) > 0 {
		tag, n := uvarint(b)
		if n <= 0 {
			return nil, false
		}
		b = b[n:]
		r := wireRec{num: tag >> 3, wt: int(tag & 7)}
		switch r.wt {
		case 0:
			_, n := uvarint(b)
			if n <= 0 {
				return nil, false
			}
			r.payload, b = b[:n], b[n:]
		case 1:
			if len(b) < 8 {
				return nil, false
			}
			r.payload, b = b[:8], b[8:]
		case 5:
			if len(b) < 4 {
				return nil, false
			}
			r.payload, b = b[:4], b[4:]
		case 2:
			l, n := uvarint(b)
			if n <= 0 || uint64(len(b)-n) < l {
				return nil, false
			}
			r.payload, b = b[n:n+int(l)], b[n+int(l):]
		default:
			return nil, false
		}
		recs = append(recs, r)
	}
	return recs, true
}

func uvarint(b []byte) (uint64, int) {
	var x uint64
	var s uint
	for i, c := range b {
		if i == 10 {
			return 0, -1
		}
		if c < 0x80 {
			return x | uint64(c)<<s, i + 1
		}
		x |= uint64(c&0x7f) << s
		s += 7
	}
	return 0, 0
}

func untouched(recs []wireRec, templated map[uint64]bool) string {
	var sb strings.Builder
	for _, r := range recs {
		if !templated[r.num] {
			fmt.Fprintf(&sb, "%d/%d/%x;", r.num, r.wt, r.payload)
		}
	}
	return sb.String()
}

func c19Run(c *Ctx, k c19Case) {
	l := lift{k.Salt}
	fail := func(api, w, g, finding string) { c.Diverge("C19", api+"["+k.Input+"]", w, g, finding, k) }
	t := rewriteStructType(k.Shape)
	want := treeString(l.treeOfAbstract(k.Shape, k.Want))
	in := l.encodeRecs(k.In, wireOpts{})
	inSnap := append([]byte(nil), in...)
	var rw proto.Rewriter
	var err error
	templated := map[uint64]bool{}
	for i := range k.Shape {
		if k.Tmpl[i].T != "keep" {
			templated[uint64(numOf(k.Shape, i))] = true
		}
	}
	var tmplBytes, tmplSnap []byte
	switch k.Mode {
	case "template":
		tmplBytes = []byte(l.tmplJSON(k.Shape, k.Tmpl))
		tmplSnap = append([]byte(nil), tmplBytes...)
		var rules []proto.RewriterRules
		if hasOr(k.Tmpl) {
			rules = append(rules, tmplRules(k.Shape, k.Tmpl))
		}
		if p := protect(func() { rw, err = proto.ParseRewriteTemplate(proto.TypeOf(t), tmplBytes, rules...) }); p != "" {
			fail("proto.ParseRewriteTemplate", "a Rewriter", p+" template="+string(tmplBytes), "")
			return
		}
		if err != nil {
			fail("proto.ParseRewriteTemplate", "a Rewriter", "error: "+err.Error()+" template="+string(tmplBytes), "")
			return
		}
	case "manual":
		max := 0
		for i := range k.Shape {
			if n := numOf(k.Shape, i); n > max {
				max = n
			}
		}
		m := make(proto.MessageRewriter, max+1)
		pt := proto.TypeOf(t)
		for i, f := range k.Shape {
			if k.Tmpl[i].T == "set" {
				m[numOf(k.Shape, i)] = manualRewriter(l, f, numOf(k.Shape, i), k.Tmpl[i].X)
			}
			if k.Tmpl[i].T == "or" {
				var ft proto.Type
				for j := 0; j < pt.NumField(); j++ {
					if int(pt.Field(j).Number) == numOf(k.Shape, i) {
						ft = pt.Field(j).Type
					}
				}
				r, rerr := manualBitOr(l, ft, f, numOf(k.Shape, i), k.Tmpl[i].X.V)
				if rerr != nil {
					fail("proto.BitOrRewriter", "a Rewriter", "error: "+rerr.Error(), "")
					return
				}
				m[numOf(k.Shape, i)] = r
			}
		}
		rw = m
	}
	var out []byte
	c.Eval(1)
	if p := protect(func() { out, err = rw.Rewrite(nil, in) }); p != "" {
		fail("Rewriter.Rewrite", "no panic", p, "")
		return
	}
	if err != nil {
		fail("Rewriter.Rewrite", "nil error", err.Error(), "")
		return
	}
	finding := ""
	if k.Input == "split" && hasSubTemplate(k.Tmpl) {
		finding = "F-C19-2"
	}
	if zeroInRepeatedTemplate(k.Shape, k.Tmpl) {
		finding = "F-C19-3"
	}
	if msgMapTemplate(k.Shape, k.Tmpl) {
		finding = "F-C19-4"
	}
	// F-C19-6: a bit-or rule combines the mask with the FIRST occurrence of the field and drops the later ones;
	// exactly that dialect (the value the model computes with FixOrLast = FALSE) is tolerated
	asIsOr := ""
	if k.Input == "overridden" {
		w := k.Want
		w.Xs = append([]pVal(nil), w.Xs...)
		for i, f := range k.Shape {
			if k.Tmpl[i].T == "or" && f.C == "one" {
				other := 0
				if k.Val.Xs[i].V == 0 {
					other = 1
				}
				w.Xs[i] = pVal{T: "s", V: other}
				if m := k.Tmpl[i].X.V; m != 0 {
					w.Xs[i].V = 100 + 10*other + m
				}
				asIsOr = treeString(l.treeOfAbstract(k.Shape, w))
			}
		}
	}
	// valid message
	if serr := proto.Scan(out, func(proto.FieldNumber, proto.WireType, proto.RawValue) (bool, error) { return true, nil }); serr != nil {
		fail("Rewriter.Rewrite", "a valid encoded message", "Scan: "+serr.Error()+" out="+hex.EncodeToString(out), finding)
		return
	}
	// decodes to the expected value: under the package
	res := reflect.New(t)
	if uerr := proto.Unmarshal(out, res.Interface()); uerr != nil {
		fail("Unmarshal(Rewrite(in))", want, "error: "+uerr.Error()+" out="+hex.EncodeToString(out), finding)
		return
	}
	if got := treeString(treeOfGo(k.Shape, res.Elem())); got != want {
		if asIsOr != "" && got == asIsOr {
			finding = "F-C19-6"
		}
		fail("Unmarshal(Rewrite(in))", want, got+" out="+hex.EncodeToString(out)+" in="+hex.EncodeToString(in), finding)
		return
	}
	// ... and under the reference implementation
	if tr, rerr := refDecode(k.Shape, out); rerr != nil {
		fail("reference.Unmarshal(Rewrite(in))", want, "reference rejects: "+rerr.Error(), finding)
	} else if treeString(tr) != want && !hasEmptyMap(k.Shape, k.Want) {
		if asIsOr != "" && treeString(tr) == asIsOr {
			finding = "F-C19-6"
		}
		fail("reference.Unmarshal(Rewrite(in))", want, treeString(tr), finding)
	}
	// untemplated fields carried over in order with identical values
	ri, ok1 := parseTop(in)
	ro, ok2 := parseTop(out)
	if ok1 && ok2 {
		if a, b := untouched(ri, templated), untouched(ro, templated); a != b {
			fail("Rewriter.Rewrite(untouched fields)", a, b, finding)
		}
	}
	// the Rewriter is reused: an earlier result keeps its bytes, and the same input gives the same output again
	// (a template that was modified, or shares memory with a result, shows here)
	outSnap := append([]byte(nil), out...)
	in2 := l.encodeRecs(k.In2, wireOpts{})
	for round := 0; round < 2; round++ {
		var out2, out3 []byte
		var err3 error
		if p := protect(func() {
			out2, _ = rw.Rewrite(nil, in2)
			out3, err3 = rw.Rewrite(nil, in)
		}); p != "" {
			fail("Rewriter.Rewrite(reused)", "no panic", p, "")
			return
		}
		_ = out2
		if !bytes.Equal(out, outSnap) {
			fail("Rewriter.Rewrite(reused)", "an earlier result unchanged by later calls: "+hex.EncodeToString(outSnap), hex.EncodeToString(out), "")
			return
		}
		if err3 != nil || !bytes.Equal(out3, outSnap) {
			fail("Rewriter.Rewrite(reused)", "the same output for the same input: "+hex.EncodeToString(outSnap), fmt.Sprintf("%x err=%v", out3, err3), "")
			return
		}
	}
	// ... also behind calls that failed half-way: the input cut at every offset (the cuts that fall inside a field
	// fail after the fields before it were seen), then the input itself again
	for cut := len(in) - 1; cut > 0; cut-- {
		var out4 []byte
		var err4 error
		if p := protect(func() {
			rw.Rewrite(nil, in[:cut])
			out4, err4 = rw.Rewrite(nil, in)
		}); p != "" {
			fail("Rewriter.Rewrite(after a call that failed)", "no panic", p, "")
			return
		}
		if err4 != nil || !bytes.Equal(out4, outSnap) {
			fail("Rewriter.Rewrite(after a call that failed)", "the same output for the same input: "+hex.EncodeToString(outSnap),
				fmt.Sprintf("%x err=%v (the call before was given the first %d bytes of the input)", out4, err4, cut), "")
			return
		}
	}
	// neither the input nor the template is modified
	if !bytes.Equal(in, inSnap) {
		fail("Rewriter.Rewrite(input)", "input unchanged", "input modified", "")
	}
	if !bytes.Equal(tmplBytes, tmplSnap) {
		fail("ParseRewriteTemplate(template)", "template unchanged", "template modified", "")
	}
}

// msgMapTemplate: the template replaces a map field whose values are messages
func msgMapTemplate(shape []pField, tm []pTmpl) bool {
	for i, f := range shape {
		if f.C == "map" && isMsgKind(f.K) && tm[i].T == "set" {
			return true
		}
	}
	return false
}

func hasSubTemplate(tm []pTmpl) bool {
	for _, t := range tm {
		if t.T == "sub" {
			return true
		}
	}
	return false
}

// zeroInRepeatedTemplate: somewhere in the values the template sets there is a repeated field with an
// element that encodes to nothing (a zero scalar, or a message all of whose leaves are zero), or a
// pointer to such a message: template rewriters write nothing for zero values, so the element (or the
// pointer's presence) is lost.
func zeroInRepeatedTemplate(shape []pField, tm []pTmpl) bool {
	for i, f := range shape {
		if tm[i].T == "set" && lostZero(f, tm[i].X) {
			return true
		}
	}
	return false
}

func zeroish(kind string, v pVal) bool {
	if !isMsgKind(kind) {
		return v.V == 0
	}
	sh := subShapes[kind]
	for i, f := range sh {
		x := v.Xs[i]
		switch f.C {
		case "one":
			if !zeroish(f.K, x) {
				return false
			}
		case "ptr":
			if x.T != "nil" && !zeroish(f.K, x.Xs[0]) {
				return false
			}
		default:
			for _, e := range x.Xs {
				ev := e
				if f.C == "map" {
					return false
				}
				if !zeroish(f.K, ev) {
					return false
				}
			}
		}
	}
	return true
}

func lostZeroIn(kind string, v pVal) bool {
	if !isMsgKind(kind) {
		return false
	}
	for i, f := range subShapes[kind] {
		if lostZero(f, v.Xs[i]) {
			return true
		}
	}
	return false
}

func lostZero(f pField, x pVal) bool {
	switch f.C {
	case "one":
		return lostZeroIn(f.K, x)
	case "ptr":
		if x.T == "nil" {
			return false
		}
		return (isMsgKind(f.K) && zeroish(f.K, x.Xs[0])) || lostZeroIn(f.K, x.Xs[0])
	case "rep":
		for _, e := range x.Xs {
			if zeroish(f.K, e) || lostZeroIn(f.K, e) {
				return true
			}
		}
	case "map":
		for _, e := range x.Xs {
			if lostZeroIn(f.K, e.Xs[0]) {
				return true
			}
		}
	}
	return false
}

func manualRewriter(l lift, f pField, n int, x pVal) proto.Rewriter {
	fn := proto.FieldNumber(n)
	id := x.V
	if f.C == "ptr" {
		id = x.Xs[0].V
	}
	switch v := l.scalar(f.K, id).(type) {
	case bool:
		return fn.Bool(v)
	case int:
		return fn.Int(v)
	case int32:
		if f.K == "s32" {
			return fn.Uint64(l.scalarBits("s32", id))
		}
		return fn.Int32(v)
	case int64:
		if f.K == "s64" {
			return fn.Uint64(l.scalarBits("s64", id))
		}
		return fn.Int64(v)
	case uint:
		return fn.Uint(v)
	case uint32:
		if f.K == "x32" {
			return fn.Fixed32(v)
		}
		return fn.Uint32(v)
	case uint64:
		if f.K == "x64" {
			return fn.Fixed64(v)
		}
		return fn.Uint64(v)
	case float32:
		return fn.Float32(v)
	case float64:
		return fn.Float64(v)
	case string:
		return fn.String(v)
	case []byte:
		return fn.Bytes(v)
	}
	if arrLen(f.K) > 0 {
		return fn.Bytes(l.scalarBytes(f.K, id))
	}
	return nil
}

func manualOK(shape []pField, tm []pTmpl, val pVal) bool {
	any := false
	for i, f := range shape {
		switch tm[i].T {
		case "sub":
			return false
		case "or":
			any = true
		case "set":
			if isMsgKind(f.K) || f.C == "rep" || f.C == "map" {
				return false
			}
			id := tm[i].X.V
			if f.C == "ptr" {
				id = tm[i].X.Xs[0].V
			}
			if id == 0 {
				return false // a hand-built rewriter writes an explicit zero; ParseRewriteTemplate removes the field: both fine, but only the latter is in the vector's expectation for pointers
			}
			any = true
		}
	}
	return any
}

func hasFloatLeaf(shape []pField) bool {
	for _, f := range shape {
		if f.K == "flt" || f.K == "dbl" || (isMsgKind(f.K) && hasFloatLeaf(subShapes[f.K])) {
			return true
		}
	}
	return false
}

func c19Vector(c *Ctx, raw stdjson.RawMessage) {
	var v rewriteVec
	if err := stdjson.Unmarshal(raw, &v); err != nil || len(v.Shape) == 0 {
		return
	}
	c.Nontrivial()
	salts := []int{0, 4}
	if hasStringLeaf(v.Shape) && !hasFloatLeaf(v.Shape) { // (other salts rotate the float tables to Inf, which a JSON template cannot say)
		// strings of 127 and 128 bytes (tables), and every length that takes a carried-over or templated
		// length-delimited field across the one-byte length prefix
		salts = append(salts, 2, 3)
		for n := 124; n <= 130; n++ {
			salts = append(salts, strLenSalt+n)
		}
	}
	for _, salt := range salts {
		l := lift{salt}
		// REF: the specification's own rewriting algorithm output decodes to the expected value
		if tr, err := refDecode(v.Shape, l.encodeRecs(v.Alg, wireOpts{})); err != nil || treeString(tr) != treeString(l.treeOfAbstract(v.Shape, v.Want)) {
			c.SpecError("C19", fmt.Sprintf("reference decodes the specification's rewrite differently (err=%v)", err), v)
			return
		}
		for name, in := range v.Inputs {
			in2 := v.Inputs["reordered"]
			if name == "reordered" {
				in2 = v.Inputs["unknown"]
			}
			c.Case()
			c19Run(c, c19Case{Shape: v.Shape, Val: v.Val, Tmpl: v.Tmpl, Want: v.Want, Salt: salt, Input: name, In: in, In2: in2, Mode: "template"})
			if manualOK(v.Shape, v.Tmpl, v.Val) {
				c.Case()
				c19Run(c, c19Case{Shape: v.Shape, Val: v.Val, Tmpl: v.Tmpl, Want: v.Want, Salt: salt, Input: name, In: in, In2: in2, Mode: "manual"})
			}
		}
	}
	c.Sample(map[string]any{"shape": v.Shape, "template": lift{0}.tmplJSON(v.Shape, v.Tmpl), "inputs": sortedKeys(v.Inputs)})
}

func c19Replay(c *Ctx, raw stdjson.RawMessage) {
	var k c19Case
	if stdjson.Unmarshal(raw, &k) == nil {
		if strings.HasPrefix(k.Mode, "literal:lengths") || strings.HasPrefix(k.Mode, "literal:unexported") || strings.HasPrefix(k.Mode, "literal:mapkey") {
			c19Lengths(c)
			return
		}
		if strings.HasPrefix(k.Mode, "literal:") {
			c19Literals(c)
			return
		}
		c19Run(c, k)
	}
}

// c19Literals: templates written by hand, with number literals no formatter would produce: the value a template sets a
// field to is the value its JSON text denotes for the type of the field (one rounding, to that type)
type c19Lit struct {
	F float32 `protobuf:"fixed32,1,opt,name=f"`
	D float64 `protobuf:"fixed64,2,opt,name=d"`
	I int64   `protobuf:"varint,3,opt,name=i"`
	U uint32  `protobuf:"varint,4,opt,name=u"`
	S string  `protobuf:"bytes,5,opt,name=s"`
	N *c19Lit `protobuf:"bytes,6,opt,name=n"`
}

func c19Literals(c *Ctx) {
	floats := []string{"1.0000000596046448", "1.000000059604644775390625000000001", "1.00000005960464477539062500001", "1.000000059604644775390625",
		"16777217", "16777217.0000000000001", "0.1", "3.4028235e38", "1e-45", "7.006492321624086e-46", "-1.5e10", "1e2", "100", "0.25", "3.1415927"}
	for _, lit := range floats {
		for _, nested := range []bool{false, true} {
			k := c19Case{Mode: "literal:" + lit}
			tmpl := `{"f": ` + lit + `, "d": ` + lit + `}`
			if nested {
				tmpl = `{"n": ` + tmpl + `}`
			}
			f64, _ := strconv.ParseFloat(lit, 64)
			f32, _ := strconv.ParseFloat(lit, 32)
			fail := func(api, w, g string) { c.Diverge("C19", api, w, g, "", k) }
			var rw proto.Rewriter
			var err error
			c.Case()
			c.Eval(1)
			if p := protect(func() { rw, err = proto.ParseRewriteTemplate(proto.TypeOf(reflect.TypeOf(c19Lit{})), []byte(tmpl)) }); p != "" || err != nil {
				fail("proto.ParseRewriteTemplate(number literal)", "a Rewriter", fmt.Sprintf("%v %s template=%s", err, p, tmpl))
				continue
			}
			for _, in := range []c19Lit{{}, {F: 9, D: 9, I: -1, U: 7, S: "keep", N: &c19Lit{F: 8, S: "inner"}}} {
				b, _ := proto.Marshal(in)
				var out []byte
				if p := protect(func() { out, err = rw.Rewrite(nil, b) }); p != "" || err != nil {
					fail("Rewriter.Rewrite(number literal)", "a message", fmt.Sprintf("%v %s", err, p))
					continue
				}
				var got c19Lit
				if e := proto.Unmarshal(out, &got); e != nil {
					fail("Unmarshal(Rewrite(in))", "a valid message", e.Error()+" out="+hex.EncodeToString(out))
					continue
				}
				tgt := &got
				if nested {
					tgt = got.N
				}
				if tgt == nil || math.Float32bits(tgt.F) != math.Float32bits(float32(f32)) || math.Float64bits(tgt.D) != math.Float64bits(f64) {
					g := "nil"
					if tgt != nil {
						g = fmt.Sprintf("f=%v (%#x) d=%v", tgt.F, math.Float32bits(tgt.F), tgt.D)
					}
					fail("Unmarshal(Rewrite(in))(template with a number literal)", fmt.Sprintf("f=%v (%#x) d=%v for %s", float32(f32), math.Float32bits(float32(f32)), f64, lit), g)
				}
				if got.I != in.I || got.U != in.U || got.S != in.S {
					fail("Rewriter.Rewrite(untouched fields)", fmt.Sprintf("%+v", in), fmt.Sprintf("%+v", got))
				}
			}
		}
	}
}

// c19Lengths: a templated nested message whose rewritten encoding is shorter or longer than the one in the input, across
// the sizes at which the length prefix changes width (128, 16384), one and two levels down
// c19Unexported: fields without tags are numbered by counting the exported fields; unexported fields in front of and
// between them (the codecs skip them) must not shift the numbers that the names of a template resolve to
type c19Naked struct {
	ID    int32
	dirty bool //nolint
	Name  string
	cache []byte //nolint
	Count int64
	state struct{ a, b int } //nolint
	Note  string
	Flags []int32
}

func c19Unexported(c *Ctx) {
	vals := []c19Naked{{ID: 1, Name: "n", Count: 3, Note: "note", Flags: []int32{1, 2}}, {}, {Count: 9}, {ID: 5, Note: "only"}}
	tmpls := []struct {
		text  string
		apply func(v *c19Naked)
	}{
		{`{"Count": 42}`, func(v *c19Naked) { v.Count = 42 }},
		{`{"Name": "x"}`, func(v *c19Naked) { v.Name = "x" }},
		{`{"Note": "n2", "ID": 7}`, func(v *c19Naked) { v.Note, v.ID = "n2", 7 }},
		{`{"ID": 9, "Name": "a", "Count": 1, "Note": "b"}`, func(v *c19Naked) { v.ID, v.Name, v.Count, v.Note = 9, "a", 1, "b" }},
	}
	for ti, tm := range tmpls {
		k := c19Case{Mode: fmt.Sprintf("literal:unexported template=%d", ti)}
		var rw proto.Rewriter
		var err error
		if p := protect(func() {
			rw, err = proto.ParseRewriteTemplate(proto.TypeOf(reflect.TypeOf(c19Naked{})), []byte(tm.text))
		}); p != "" || err != nil {
			c.Diverge("C19", "proto.ParseRewriteTemplate(struct with unexported fields between the others)", "a Rewriter", fmt.Sprintf("%v %s", err, p), "", k)
			continue
		}
		for _, v := range vals {
			in, _ := proto.Marshal(v)
			want := v
			tm.apply(&want)
			var out []byte
			c.Case()
			c.Eval(1)
			if p := protect(func() { out, err = rw.Rewrite(nil, in) }); p != "" || err != nil {
				c.Diverge("C19", "Rewriter.Rewrite(struct with unexported fields between the others)", "a message", fmt.Sprintf("%v %s", err, p), "", k)
				continue
			}
			var got c19Naked
			if e := proto.Unmarshal(out, &got); e != nil || !reflect.DeepEqual(got, want) {
				c.Diverge("C19", "Unmarshal(Rewrite(in))(struct with unexported fields between the others)", fmt.Sprintf("%+v", want), fmt.Sprintf("%+v err=%v out=%x", got, e, out), "", k)
			}
		}
	}
}

// c19MapKeys: the keys of a templated map<string, scalar> field are JSON strings: escapes in them are resolved once
type c19Keyed struct {
	A int32
	M map[string]int32
	Z string
}

func c19MapKeys(c *Ctx) {
	keys := []string{"plain", "C:\\new\\table", "q\"k", "tab\tin", "u\u00e9", "\\", "a\\\\b", "\\n", "</k>", ""}
	for ki, key := range keys {
		k := c19Case{Mode: fmt.Sprintf("literal:mapkey %d", ki)}
		kj, _ := stdjson.Marshal(key)
		tmpl := `{"M": {` + string(kj) + `: 42}}`
		var rw proto.Rewriter
		var err error
		if p := protect(func() { rw, err = proto.ParseRewriteTemplate(proto.TypeOf(reflect.TypeOf(c19Keyed{})), []byte(tmpl)) }); p != "" || err != nil {
			c.Diverge("C19", "proto.ParseRewriteTemplate(map key with escapes)", "a Rewriter", fmt.Sprintf("%v %s template=%s", err, p, tmpl), "", k)
			continue
		}
		for _, v := range []c19Keyed{{A: 1, Z: "z"}, {A: 2, M: map[string]int32{"old": 1}, Z: "zz"}} {
			in, _ := proto.Marshal(v)
			var out []byte
			c.Case()
			c.Eval(1)
			if p := protect(func() { out, err = rw.Rewrite(nil, in) }); p != "" || err != nil {
				c.Diverge("C19", "Rewriter.Rewrite(map key with escapes)", "a message", fmt.Sprintf("%v %s", err, p), "", k)
				continue
			}
			var got c19Keyed
			e := proto.Unmarshal(out, &got)
			if e != nil || got.A != v.A || got.Z != v.Z || len(got.M) != 1 || got.M[key] != 42 {
				c.Diverge("C19", "Unmarshal(Rewrite(in))(map key with escapes)", fmt.Sprintf("A=%d Z=%s M={%q: 42}", v.A, v.Z, key), fmt.Sprintf("%+v err=%v", got, e), "", k)
			}
		}
	}
}

func c19Lengths(c *Ctx) {
	c19Unexported(c)
	c19MapKeys(c)
	lens := []int{0, 1, 126, 127, 128, 129, 200, 16382, 16383, 16384, 16390}
	for _, depth := range []int{1, 2} {
		for _, lt := range []int{0, 1, 5, 126, 128, 131, 16384} {
			ts := strings.Repeat("t", lt)
			tmpl := `{"s": "` + ts + `"}`
			for d := 0; d < depth; d++ {
				tmpl = `{"n": ` + tmpl + `}`
			}
			var rw proto.Rewriter
			var err error
			k := c19Case{Mode: fmt.Sprintf("literal:lengths depth=%d template=%d", depth, lt)}
			if p := protect(func() { rw, err = proto.ParseRewriteTemplate(proto.TypeOf(reflect.TypeOf(c19Lit{})), []byte(tmpl)) }); p != "" || err != nil {
				c.Diverge("C19", "proto.ParseRewriteTemplate(nested)", "a Rewriter", fmt.Sprintf("%v %s", err, p), "", k)
				continue
			}
			for _, li := range lens {
				inner := &c19Lit{S: strings.Repeat("i", li), I: 7, U: 3}
				in := c19Lit{I: -1, S: "keep", N: inner}
				if depth == 2 {
					in.N = &c19Lit{U: 9, S: strings.Repeat("m", li/2), N: inner}
				}
				b, _ := proto.Marshal(in)
				b = append(b, 0x20, 0x2a) // an untemplated field behind the nested one (u = 42)
				var out []byte
				c.Case()
				c.Eval(1)
				if p := protect(func() { out, err = rw.Rewrite(nil, b) }); p != "" || err != nil {
					c.Diverge("C19", "Rewriter.Rewrite(nested, lengths)", "a message", fmt.Sprintf("%v %s (input string %d bytes)", err, p, li), "", k)
					continue
				}
				var got c19Lit
				if e := proto.Unmarshal(out, &got); e != nil {
					c.Diverge("C19", "Unmarshal(Rewrite(in))(nested, lengths)", "a valid message", fmt.Sprintf("%v (input string %d bytes, %d bytes out)", e, li, len(out)), "", k)
					continue
				}
				tgt := got.N
				if depth == 2 && tgt != nil {
					tgt = tgt.N
				}
				ok := tgt != nil && tgt.S == ts && tgt.I == 7 && tgt.U == 3 && got.I == -1 && got.S == "keep" && got.U == 42
				if depth == 2 {
					ok = ok && got.N.U == 9 && got.N.S == strings.Repeat("m", li/2)
				}
				if !ok {
					c.Diverge("C19", "Unmarshal(Rewrite(in))(nested, lengths)", fmt.Sprintf("nested s = %d x t, everything else kept", lt),
						fmt.Sprintf("input string %d bytes: %.200s", li, fmt.Sprintf("%+v", got)), "", k)
				}
			}
		}
	}
}

func init() {
	register("C19", &Driver{Vector: c19Vector, Replay: c19Replay, Extra: func(c *Ctx) { c19Literals(c); c19Lengths(c) }})
}
