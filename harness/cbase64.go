//go:build verif

package main

// Vectors of spec/Base64.tla: the text of a []byte as the specification's writer produces it, one of its presentations
// (line breaks put in, padding damaged, a symbol replaced, trailing bits set, cut short, ...) and what the
// specification's reader makes of it. C01: the writer's text is what Marshal, Append, Encoder and MarshalIndent write
// for the bytes, wherever they sit. C02: Unmarshal, Parse and Decoder accept a presentation exactly when the
// specification's reader does and deliver its bytes, wherever the text sits and whatever the target held before.
// encoding/json is held against the specification first: a disagreement there is an error of the model (exit 2).

import (
	"bytes"
	stdjson "encoding/json"
	"fmt"
	"reflect"
	"strings"

	"github.com/segmentio/encoding/json"
)

type b64Vec struct {
	B64  string `json:"b64"`
	K    int    `json:"k"`
	Data []int  `json:"data"`
	Text []int  `json:"text"`
	Ok   bool   `json:"ok"`
	Out  []int  `json:"out"`
}

type b64Case struct {
	Vec  *b64Vec `json:"b64_vec"`
	Prop string  `json:"p"`
}

const b64Alphabet = "ABCDEFGHIJKLMNOPQRSTUVWXYZabcdefghijklmnopqrstuvwxyz0123456789+/"

type b64Named []byte
type b64Field struct {
	A int    `json:"a"`
	B []byte `json:"b"`
	C string `json:"c"`
}
type b64Omit struct {
	B []byte    `json:"b,omitempty"`
	N b64Named  `json:"n"`
	P *[]byte   `json:"p"`
	I any       `json:"i"`
	L [][]byte  `json:"l"`
	R [2][]byte `json:"r"`
}

func b64Bytes(x []int) []byte {
	b := make([]byte, len(x))
	for i, v := range x {
		b[i] = byte(v)
	}
	return b
}

// the text as the content of a JSON string: line breaks have to be escaped (style 0: \n \r, style 1: \u000a \u000D)
func b64Literal(text []int, style int) (string, bool) {
	var sb strings.Builder
	sb.WriteByte('"')
	for _, s := range text {
		switch {
		case s >= 0 && s < 64:
			sb.WriteByte(b64Alphabet[s])
		case s == 64:
			sb.WriteByte('=')
		case s == 65:
			sb.WriteString([]string{`\n`, `\u000a`}[style])
		case s == 66:
			sb.WriteString([]string{`\r`, `\u000D`}[style])
		case s == 67:
			sb.WriteString([]string{"-", "_"}[style])
		case s == 68:
			sb.WriteByte(' ')
		default:
			return "", false
		}
	}
	sb.WriteByte('"')
	return sb.String(), true
}

func b64Dispatch(c *Ctx, prop string, raw stdjson.RawMessage) bool {
	if !bytes.Contains(raw, []byte(`"b64`)) {
		return false
	}
	var k b64Case
	if stdjson.Unmarshal(raw, &k) == nil && k.Vec != nil {
		b64Run(c, prop, k.Vec)
		return true
	}
	var v b64Vec
	if stdjson.Unmarshal(raw, &v) == nil && v.B64 != "" {
		c.Nontrivial()
		b64Run(c, prop, &v)
		return true
	}
	return false
}

func b64Run(c *Ctx, prop string, v *b64Vec) {
	c.Case()
	if prop == "C01" {
		if v.B64 == "canon" {
			b64Write(c, v)
		}
		return
	}
	b64Read(c, v)
}

// ---- C01 ----

func b64Write(c *Ctx, v *b64Vec) {
	k := b64Case{Vec: v, Prop: "C01"}
	data := b64Bytes(v.Data)
	lit, ok := b64Literal(v.Text, 0)
	if !ok {
		c.SpecError("C01", "Base64.tla: a symbol outside the table", k)
		return
	}
	if len(data) == 0 {
		data = []byte{} // not nil: nil is null
	}
	ptr := &data
	values := []struct {
		name string
		v    any
		want string
	}{
		{"[]byte", data, lit},
		{"*[]byte", ptr, lit},
		{"named []byte", b64Named(data), lit},
		{"struct field", b64Field{A: 1, B: data, C: "y"}, `{"a":1,"b":` + lit + `,"c":"y"}`},
		{"*struct field", &b64Field{A: 1, B: data, C: "x"}, `{"a":1,"b":` + lit + `,"c":"x"}`},
		{"map value", map[string][]byte{"k": data, "a": nil}, `{"a":null,"k":` + lit + `}`},
		{"element", [][]byte{data, nil, data}, `[` + lit + `,null,` + lit + `]`},
		{"array element", [2][]byte{data, data}, `[` + lit + `,` + lit + `]`},
		{"interface", []any{data, b64Named(data)}, `[` + lit + `,` + lit + `]`},
	}
	om := b64Omit{B: data, N: b64Named(data), P: ptr, I: data, L: [][]byte{data}, R: [2][]byte{data, nil}}
	omWant := `{"b":` + lit + `,"n":` + lit + `,"p":` + lit + `,"i":` + lit + `,"l":[` + lit + `],"r":[` + lit + `,null]}`
	if len(data) == 0 {
		omWant = omWant[:1] + omWant[len(`{"b":`+lit+`,`):]
	}
	values = append(values, struct {
		name string
		v    any
		want string
	}{"struct with omitempty", om, omWant})
	for _, x := range values {
		// REF: encoding/json is what the specification describes
		ref, err := stdjson.Marshal(x.v)
		if err != nil || string(ref) != x.want {
			c.SpecError("C01", fmt.Sprintf("Base64.tla's text is not what encoding/json writes for %s: %s, spec %s", x.name, clipS(string(ref)), clipS(x.want)), k)
			return
		}
		var got []byte
		var gerr error
		c.Eval(4)
		if p := protect(func() { got, gerr = json.Marshal(x.v) }); p != "" || gerr != nil || string(got) != x.want {
			c.Diverge("C01", "json.Marshal([]byte as "+x.name+")", clipS(x.want), fmt.Sprintf("%s %v %s", clipS(string(got)), gerr, p), "", k)
			return
		}
		for _, pre := range []string{"", "0123456789abcdef0123456789abcde"} {
			dst := make([]byte, len(pre), len(pre)+len(x.want)/2)
			copy(dst, pre)
			if p := protect(func() { got, gerr = json.Append(dst, x.v, json.EscapeHTML|json.SortMapKeys) }); p != "" || gerr != nil || string(got) != pre+x.want {
				c.Diverge("C01", "json.Append([]byte as "+x.name+")", clipS(pre+x.want), fmt.Sprintf("%s %v %s", clipS(string(got)), gerr, p), "", k)
				return
			}
		}
		var w bytes.Buffer
		if p := protect(func() { gerr = json.NewEncoder(&w).Encode(x.v) }); p != "" || gerr != nil || w.String() != x.want+"\n" {
			c.Diverge("C01", "Encoder.Encode([]byte as "+x.name+")", clipS(x.want), fmt.Sprintf("%s %v %s", clipS(w.String()), gerr, p), "", k)
			return
		}
		refI, _ := stdjson.MarshalIndent(x.v, ">", "\t")
		if p := protect(func() { got, gerr = json.MarshalIndent(x.v, ">", "\t") }); p != "" || gerr != nil || !bytes.Equal(got, refI) {
			c.Diverge("C01", "json.MarshalIndent([]byte as "+x.name+")", clipS(string(refI)), fmt.Sprintf("%s %v %s", clipS(string(got)), gerr, p), "", k)
			return
		}
	}
}

// ---- C02 ----

type b64Target struct {
	name string
	doc  func(lit string) string
	make func() any                  // a fresh pointer target
	want func(out []byte) any        // the value the target must hold
	prev func(p any)                 // content left by an earlier decode (nil: none)
}

func b64Targets() []b64Target {
	id := func(lit string) string { return lit }
	return []b64Target{
		{"*[]byte", id, func() any { return new([]byte) }, func(o []byte) any { return o }, nil},
		{"*[]byte holding more", id, func() any { return new([]byte) }, func(o []byte) any { return o },
			func(p any) { *p.(*[]byte) = bytes.Repeat([]byte{0xEE}, 100) }},
		{"*named", id, func() any { return new(b64Named) }, func(o []byte) any { return b64Named(o) }, nil},
		{"**[]byte", id, func() any { return new(*[]byte) }, func(o []byte) any { return &o }, nil},
		{"struct field", func(l string) string { return `{"a":7,"b":` + l + `,"c":"z"}` }, func() any { return new(b64Field) },
			func(o []byte) any { return b64Field{A: 7, B: o, C: "z"} }, nil},
		{"struct field, other case", func(l string) string { return ` { "B" : ` + l + ` } ` }, func() any { return new(b64Field) },
			func(o []byte) any { return b64Field{B: o} }, func(p any) { p.(*b64Field).B = []byte("old") }},
		{"map value", func(l string) string { return `{"k":` + l + `,"j":null}` }, func() any { return new(map[string][]byte) },
			func(o []byte) any { return map[string][]byte{"k": o, "j": nil} }, nil},
		{"map value, merged", func(l string) string { return `{"k":` + l + `}` }, func() any { return new(map[string][]byte) },
			func(o []byte) any { return map[string][]byte{"k": o, "q": []byte("q")} },
			func(p any) { *p.(*map[string][]byte) = map[string][]byte{"k": []byte("before"), "q": []byte("q")} }},
		{"elements", func(l string) string { return `[` + l + `,` + l + `]` }, func() any { return new([][]byte) },
			func(o []byte) any { return [][]byte{o, o} }, nil},
		{"array elements", func(l string) string { return `[` + l + `]` }, func() any { return new([2][]byte) },
			func(o []byte) any { return [2][]byte{o, nil} }, func(p any) { p.(*[2][]byte)[1] = []byte("gone") }},
	}
}

func b64Read(c *Ctx, v *b64Vec) {
	k := b64Case{Vec: v, Prop: "C02"}
	out := b64Bytes(v.Out)
	for style := 0; style < 2; style++ {
		lit, ok := b64Literal(v.Text, style)
		if !ok {
			c.SpecError("C02", "Base64.tla: a symbol outside the table", k)
			return
		}
		for _, t := range b64Targets() {
			doc := t.doc(lit)
			want := t.want(out)
			// REF: encoding/json against the specification's reader
			ref := t.make()
			if t.prev != nil {
				t.prev(ref)
			}
			rerr := stdjson.Unmarshal([]byte(doc), ref)
			if (rerr == nil) != v.Ok || (v.Ok && !b64Same(reflect.ValueOf(ref).Elem().Interface(), want)) {
				c.SpecError("C02", fmt.Sprintf("Base64.tla's reader disagrees with encoding/json on %s into %s: %v %v", clipS(doc), t.name, rerr, reflect.ValueOf(ref).Elem().Interface()), k)
				return
			}
			for _, api := range []string{"Unmarshal", "Parse", "Decoder", "Decoder.UseNumber.DisallowUnknownFields"} {
				got := t.make()
				if t.prev != nil {
					t.prev(got)
				}
				var gerr error
				in := []byte(doc)
				c.Eval(1)
				p := protect(func() {
					switch api {
					case "Unmarshal":
						gerr = json.Unmarshal(in, got)
					case "Parse":
						var rest []byte
						rest, gerr = json.Parse(in, got, 0)
						if gerr == nil && len(bytes.TrimSpace(rest)) != 0 {
							gerr = fmt.Errorf("Parse left %q", rest)
						}
					default:
						d := json.NewDecoder(bytes.NewReader(in))
						if api != "Decoder" {
							d.UseNumber()
							d.DisallowUnknownFields()
						}
						gerr = d.Decode(got)
					}
				})
				if p != "" {
					c.Diverge("C02", "json."+api+"(base64 text into "+t.name+")", fmt.Sprintf("ok=%v", v.Ok), p+" on "+clipS(doc), "", k)
					return
				}
				if (gerr == nil) != v.Ok {
					c.Diverge("C02", "json."+api+"(base64 text into "+t.name+")", fmt.Sprintf("ok=%v (%s, %s)", v.Ok, v.B64, clipS(doc)), fmt.Sprintf("err=%v", gerr), "", k)
					return
				}
				if v.Ok && !b64Same(reflect.ValueOf(got).Elem().Interface(), want) {
					c.Diverge("C02", "json."+api+"(base64 text into "+t.name+")", fmt.Sprintf("%v (%s, %s)", want, v.B64, clipS(doc)),
						fmt.Sprintf("%v", reflect.ValueOf(got).Elem().Interface()), "", k)
					return
				}
			}
		}
	}
}

// deep equality in which an empty and a nil byte slice are told apart only where encoding/json tells them apart: it does
// not (a decoded "" is an empty, non-nil slice in both; the expected values are built from the specification's bytes)
func b64Same(a, b any) bool {
	return reflect.DeepEqual(b64Norm(reflect.ValueOf(a)), b64Norm(reflect.ValueOf(b)))
}

func b64Norm(v reflect.Value) any {
	switch v.Kind() {
	case reflect.Pointer, reflect.Interface:
		if v.IsNil() {
			return nil
		}
		return b64Norm(v.Elem())
	case reflect.Slice:
		if v.Type().Elem().Kind() == reflect.Uint8 {
			if v.IsNil() {
				return "nil"
			}
			return fmt.Sprintf("%x", v.Bytes())
		}
		var out []any
		for i := 0; i < v.Len(); i++ {
			out = append(out, b64Norm(v.Index(i)))
		}
		return out
	case reflect.Array:
		var out []any
		for i := 0; i < v.Len(); i++ {
			out = append(out, b64Norm(v.Index(i)))
		}
		return out
	case reflect.Map:
		out := map[string]any{}
		for _, key := range v.MapKeys() {
			out[key.String()] = b64Norm(v.MapIndex(key))
		}
		return out
	case reflect.Struct:
		out := map[string]any{}
		for i := 0; i < v.NumField(); i++ {
			out[v.Type().Field(i).Name] = b64Norm(v.Field(i))
		}
		return out
	}
	return v.Interface()
}
