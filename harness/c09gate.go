package main

// C09, gated replay: the schedules enumerated by TLC from spec/CowCacheSched.tla
// are forced on real goroutines.  The cache hooks block every goroutine at its
// load / store points until the driver, walking the schedule, lets exactly that
// step happen; afterwards follow-up calls show which types the published map
// holds (hit or miss), which must be what the model says - including the lost
// updates the lock-free caches tolerate - and every result must be correct.

import (
	stdjson "encoding/json"
	"fmt"
	"reflect"
	"sort"
	"strconv"
	"strings"
	"sync"
	"time"
	"unsafe"

	"github.com/segmentio/encoding/json"
	"github.com/segmentio/encoding/proto"
	"github.com/segmentio/encoding/thrift"
)

type schedVec struct {
	Sched []struct {
		P  string `json:"p"`
		Ev string `json:"ev"`
		T  string `json:"t"`
	} `json:"sched"`
	Final  []string `json:"final"`
	Locked bool     `json:"locked"`
	// a schedule of the model in which the mutex is given back before the build (CowCache with EarlyUnlock) that the
	// mutex forbids: the replay must prove it infeasible - a goroutine sent to its locked load while another sits
	// between its locked load and its store must not arrive
	Forbidden bool `json:"forbidden,omitempty"`
}

type c09Case struct {
	Vec   schedVec `json:"vec"`
	Cache string   `json:"cache"`
}

type gateReq struct {
	proc string
	ev   string
}

type gater struct {
	mu      sync.Mutex
	procOf  map[int64]string // goroutine id -> proc label
	arrive  chan gateReq
	release map[string]chan struct{}
	cache   string
	stores  map[int64]int // ungated goroutines: number of store events seen (follow-up observation)
	// published maps are immutable: size of every map header seen at a load or a store (the headers are kept
	// alive here, so an address is never reused for another map)
	sizes   map[unsafe.Pointer]int
	mutated []string
}

var theGate *gater
var gateMu sync.Mutex // one gated replay at a time (the hooks are global)

func (g *gater) hook(cache, ev string, m unsafe.Pointer, n int) {
	if g == nil || cache != g.cache {
		return
	}
	if cache == "json" && m != nil {
		m = *(*unsafe.Pointer)(m) // json reports the address of the map variable: take the header it holds
	}
	id := goid()
	g.mu.Lock()
	if m != nil {
		if old, ok := g.sizes[m]; ok && old != n {
			g.mutated = append(g.mutated, fmt.Sprintf("a map published with %d entries has %d at a later %s", old, n, ev))
		}
		g.sizes[m] = n
	}
	proc, gated := g.procOf[id]
	if !gated && ev == "store" {
		g.stores[id]++
	}
	g.mu.Unlock()
	if !gated {
		return
	}
	g.arrive <- gateReq{proc, ev}
	<-g.release[proc]
}

func installGateHooks() {
	json.VerifCacheHook = func(ev string, m unsafe.Pointer, n int, t unsafe.Pointer) { theGate.hook("json", ev, m, n) }
	proto.VerifCacheHook = func(ev, c string, m unsafe.Pointer, n int, t unsafe.Pointer) { theGate.hook("proto."+c, ev, m, n) }
	thrift.VerifCacheHook = func(ev, c string, m unsafe.Pointer, n int, t unsafe.Pointer) { theGate.hook("thrift."+c, ev, m, n) }
	json.VerifPoolHook = nil
	proto.VerifPoolHook = nil
}

// one call on a cache for a type, returning a canonical result
func cacheCall(cache string, t reflect.Type, k int) string {
	switch cache {
	case "json":
		v := reflect.New(t).Elem()
		v.Field(0).SetInt(int64(k))
		b, err := json.Marshal(v.Interface())
		return fmt.Sprintf("%s|%v", b, err)
	case "proto.codec":
		v := reflect.New(t).Elem()
		v.Field(0).SetInt(int64(k))
		b, err := proto.Marshal(v.Interface())
		return fmt.Sprintf("%x|%v", b, err)
	case "proto.type":
		r := proto.TypeOf(t)
		return fmt.Sprintf("%s@%p", r, r)
	case "thrift.encoder":
		v := reflect.New(t).Elem()
		v.Field(0).SetInt(int64(k))
		b, err := thrift.Marshal(&thrift.CompactProtocol{}, v.Interface())
		return fmt.Sprintf("%x|%v", b, err)
	default: // thrift.decoder
		out := reflect.New(t)
		err := thrift.Unmarshal(&thrift.CompactProtocol{}, []byte{0x15, byte(2 * k), 0x00}, out.Interface())
		return fmt.Sprintf("%v|%v", out.Elem().Field(0).Int(), err)
	}
}

// a call of the driver's own, outside any schedule: alone it returns at once; if it does not, a lock was left held by
// the schedule before it (every later first use would wait for ever: the cache is written off for this process)
var cacheDead = map[string]bool{}

func cacheCallWithin(cache string, t reflect.Type, k int) (res string, returned bool) {
	done := make(chan string, 1)
	go func() {
		r := ""
		if pn := protect(func() { r = cacheCall(cache, t, k) }); pn != "" {
			r = pn
		}
		done <- r
	}()
	select {
	case res = <-done:
		return res, true
	case <-time.After(5 * time.Second):
		cacheDead[cache] = true
		return "", false
	}
}

func gateType(label string) reflect.Type {
	n := typeCounter.Add(1)
	return reflect.StructOf([]reflect.StructField{
		{Name: "G" + label + strconv.FormatInt(n, 10), Type: reflect.TypeOf(int32(0)), Tag: `json:"g" thrift:"1"`},
	})
}

func c09Gated(c *Ctx, k c09Case) {
	gateMu.Lock()
	defer gateMu.Unlock()
	if cacheDead[k.Cache] {
		return // reported once, by the schedule that left the lock held
	}
	v := k.Vec
	fail := func(api, w, g string) { c.Diverge("C09", api+"["+k.Cache+"]", w, g, "", k) }
	// the code leaves the protocol of the model without (visibly) breaking the property: the model has to follow
	drift := func(api, w, g string) {
		c.SpecError("C09", "the cache no longer follows spec/CowCache.tla ("+api+"["+k.Cache+"]): want "+w+", got "+g, k)
	}
	types := map[string]reflect.Type{}
	progs := map[string][]string{} // proc -> wanted types in call order
	var procs []string
	for _, s := range v.Sched {
		if _, ok := types[s.T]; !ok {
			types[s.T] = gateType(s.T)
		}
		if s.Ev == "load" {
			if _, ok := progs[s.P]; !ok {
				procs = append(procs, s.P)
			}
			progs[s.P] = append(progs[s.P], s.T)
		}
	}
	g := &gater{procOf: map[int64]string{}, arrive: make(chan gateReq, 16), release: map[string]chan struct{}{}, cache: k.Cache, stores: map[int64]int{}, sizes: map[unsafe.Pointer]int{}}
	for _, p := range procs {
		g.release[p] = make(chan struct{})
	}
	theGate = g
	installGateHooks()
	results := map[string][]string{}
	var rmu sync.Mutex
	for _, p := range procs {
		go func(p string) {
			g.mu.Lock()
			g.procOf[goid()] = p
			g.mu.Unlock()
			for i, tl := range progs[p] {
				g.arrive <- gateReq{p, "call"}
				<-g.release[p]
				res := ""
				if pn := protect(func() { res = cacheCall(k.Cache, types[tl], i+1) }); pn != "" {
					res = pn
				}
				rmu.Lock()
				results[p] = append(results[p], res)
				rmu.Unlock()
			}
			g.arrive <- gateReq{p, "end"}
		}(p)
	}
	// Where every goroutine is blocked.  The load hooks fire after the atomic load and the store hook before
	// the atomic store, so: a scheduled "load" lets the goroutine leave the gate in front of its call and run
	// to the load hook; "load-locked" lets it run from the load hook to the hook behind the mutex; "store" lets
	// it run to the store hook and through the store, up to the gate in front of its next call.
	at := map[string]string{}
	steps := map[string][]string{}
	for _, s := range v.Sched {
		steps[s.P] = append(steps[s.P], s.Ev)
	}
	pos := map[string]int{}
	stuck := false
	await := func(p string) string {
		deadline := time.After(10 * time.Second)
		for {
			if ev, ok := at[p]; ok {
				return ev
			}
			select {
			case r := <-g.arrive:
				at[r.proc] = r.ev
			case <-deadline:
				stuck = true
				return "timeout"
			}
		}
	}
	step := func(p string) string { // release p from where it is and say where it blocks next
		delete(at, p)
		g.release[p] <- struct{}{}
		return await(p)
	}
	followed := true
	bad := func(i int, p, what, got string) {
		drift("gated replay", fmt.Sprintf("step %d of the schedule: %s %s", i, p, what), p+" reached "+got)
		followed = false
	}
	// run p to the gate in front of its next call (or to its end); it must not touch the cache on the way
	finishCall := func(i int, p string) {
		for followed && !stuck {
			ev := await(p)
			if ev == "call" || ev == "end" || ev == "timeout" {
				return
			}
			if ev != "load" && ev != "load-locked" { // sitting behind a load whose call was a hit is fine
				bad(i, p, "ends its call without further cache steps", ev)
				return
			}
			if nx := step(p); nx == "store" || nx == "load-locked" {
				bad(i, p, "ends its call without further cache steps", nx)
				return
			}
		}
	}
	for _, p := range procs {
		if await(p) != "call" {
			followed = false
		}
	}
	holder := ""           // the goroutine between its locked load and the end of its call
	blockedAsDemanded := false
	exclusionBroken := ""
	for i, s := range v.Sched {
		if !followed || stuck {
			break
		}
		c.Eval(1)
		cur := await(s.P)
		if v.Forbidden && s.Ev == "load-locked" && holder != "" && holder != s.P && cur == "load" {
			// the mutex is taken: s.P must not get to its locked load
			delete(at, s.P)
			g.release[s.P] <- struct{}{}
			patience := time.After(200 * time.Millisecond)
			arrived := false
			for !arrived {
				select {
				case r := <-g.arrive:
					at[r.proc] = r.ev
					arrived = r.proc == s.P
				case <-patience:
					arrived = true
				}
			}
			if _, ok := at[s.P]; !ok {
				blockedAsDemanded = true
				followed = false
				break
			}
			exclusionBroken = fmt.Sprintf("step %d: %s reached its load behind the mutex (%s) while %s had not stored yet", i, s.P, at[s.P], holder)
			if at[s.P] != "load-locked" {
				followed = false
				break
			}
			pos[s.P]++
			continue
		}
		switch s.Ev {
		case "load":
			if cur != "call" {
				bad(i, s.P, "load("+s.T+")", cur)
				break
			}
			if nx := step(s.P); nx != "load" {
				bad(i, s.P, "load("+s.T+")", nx)
			}
		case "load-locked":
			if cur != "load" {
				bad(i, s.P, "load-locked("+s.T+")", cur)
				break
			}
			if nx := step(s.P); nx != "load-locked" {
				bad(i, s.P, "load-locked("+s.T+")", nx)
			}
			holder = s.P
		case "store":
			if cur != "load" && cur != "load-locked" {
				bad(i, s.P, "store("+s.T+")", cur)
				break
			}
			if nx := step(s.P); nx != "store" {
				bad(i, s.P, "store("+s.T+")", nx)
				break
			}
			if nx := step(s.P); nx != "call" && nx != "end" {
				bad(i, s.P, "returns after its store", nx)
			}
			if holder == s.P {
				holder = ""
			}
		}
		pos[s.P]++
		// a call with no further scheduled cache step (a hit) runs to its end now: with the mutex it must unlock
		if followed && !stuck {
			if n := pos[s.P]; n >= len(steps[s.P]) || steps[s.P][n] == "load" {
				finishCall(i, s.P)
				if holder == s.P {
					holder = ""
				}
			}
		}
	}
	if stuck {
		drift("gated replay", "every goroutine reaches its next step", fmt.Sprintf("timeout; goroutines are at %v", at))
		followed = false
	}
	// drain: whatever happened, let the goroutines end
	ended := 0
	for _, p := range procs {
		if at[p] == "end" {
			ended++
		}
	}
	drain := time.After(20 * time.Second)
	for ended < len(procs) {
		for p, ev := range at {
			if ev != "end" {
				delete(at, p)
				select {
				case g.release[p] <- struct{}{}:
				case <-drain:
					fail("gated replay", "the calls return", "timeout")
					return
				}
			}
		}
		select {
		case r := <-g.arrive:
			at[r.proc] = r.ev
			if r.ev == "end" {
				ended++
			}
		case <-drain:
			fail("gated replay", "the calls return", "timeout")
			return
		}
	}
	// every call returned what it returns alone
	for _, p := range procs {
		for i, tl := range progs[p] {
			want, returned := cacheCallWithin(k.Cache, gateType(tl), i+1)
			if !returned {
				theGate = nil
				fail("first use of another type after the schedule", "returns (as it does alone)", "still waiting after 5s: a lock taken under the schedule was never given back")
				return
			}
			if i < len(results[p]) && results[p][i] != want && k.Cache != "proto.type" {
				fail("result under the schedule", want, results[p][i])
			}
		}
	}
	g.mu.Lock()
	for _, m := range g.mutated {
		fail("published maps are immutable", "a published map never changes", m)
	}
	g.mu.Unlock()
	if k.Cache == "proto.type" {
		// alone, TypeOf hands out one and the same Type for a Go type, whoever asks and whenever
		identity := true
		for _, tl := range sortedKeys(types) {
			now := cacheCall(k.Cache, types[tl], 1)
			for _, p := range procs {
				for i, l := range progs[p] {
					if l == tl && i < len(results[p]) && results[p][i] != now {
						identity = false
						fail("proto.TypeOf, the Type handed out for one Go type", "the same Type for every caller and every later call: "+now, p+" was handed "+results[p][i]+
							map[bool]string{true: " (" + exclusionBroken + ")", false: ""}[exclusionBroken != ""])
					}
				}
			}
		}
		if exclusionBroken != "" && identity {
			drift("mutual exclusion of the locked section", "a schedule the mutex forbids proves infeasible", exclusionBroken)
		}
	}
	if v.Forbidden {
		if !blockedAsDemanded && exclusionBroken == "" && !stuck {
			drift("gated replay of a forbidden schedule", "a goroutine is sent to a locked load while the mutex is held", "the schedule ended before that")
		}
		theGate = nil
		return
	}
	if !followed {
		return
	}
	// the abstract state: which types does the published map hold?  A follow-up call that stores missed.
	var cached []string
	me := goid()
	for _, tl := range sortedKeys(types) {
		g.mu.Lock()
		before := g.stores[me]
		g.mu.Unlock()
		cacheCall(k.Cache, types[tl], 1)
		g.mu.Lock()
		after := g.stores[me]
		g.mu.Unlock()
		if after == before {
			cached = append(cached, tl)
		}
	}
	want := append([]string(nil), v.Final...)
	sort.Strings(want)
	c.Eval(1)
	if strings.Join(cached, ",") != strings.Join(want, ",") {
		drift("published map after the schedule", "types "+strings.Join(want, ","), "types "+strings.Join(cached, ",")+" (hits of follow-up calls)")
	}
	theGate = nil
}

func c09Vector(c *Ctx, raw stdjson.RawMessage) {
	var v schedVec
	if stdjson.Unmarshal(raw, &v) != nil || len(v.Sched) == 0 {
		return
	}
	c.Nontrivial()
	caches := []string{"json", "proto.codec", "thrift.encoder", "thrift.decoder"}
	if v.Locked {
		caches = []string{"proto.type"}
	}
	for _, ca := range caches {
		c.Case()
		c09Gated(c, c09Case{Vec: v, Cache: ca})
	}
	c.Sample(v)
}

func c09Replay(c *Ctx, raw stdjson.RawMessage) {
	var k c09Case
	if stdjson.Unmarshal(raw, &k) == nil && len(k.Vec.Sched) > 0 {
		c09Gated(c, k)
	}
}

func init() {
	register("C09", &Driver{Vector: c09Vector, Replay: c09Replay, Serial: true})
}
