package main

// Shared machinery for the json type-driven properties (C01, C02, C14, C15, C06,
// C10): materialises the shapes of spec/JsonTypes.tla and the embedding
// scenarios of spec/JsonFields.tla as Go types and values.

import (
	"bytes"
	stdjson "encoding/json"
	"fmt"
	"math"
	"reflect"
	"strconv"
	"strings"
	"sync"
	"time"
)

type jShape struct {
	K string  `json:"k"`
	D int     `json:"d"`
	E *jShape `json:"e"`
}

func (s *jShape) String() string {
	if s.E == nil {
		return s.K
	}
	return s.K + "(" + s.E.String() + ")"
}

// ---------------------------------------------------------------- named types with methods

// MVal implements json.Marshaler on the value receiver
type MVal struct{ N int }

func (m MVal) MarshalJSON() ([]byte, error) { return []byte(`{"mval":` + strconv.Itoa(m.N) + `}`), nil }

// MPtr implements json.Marshaler on the pointer receiver only
type MPtr struct{ N int }

func (m *MPtr) MarshalJSON() ([]byte, error) {
	if m == nil {
		return []byte(`"nil-mptr"`), nil
	}
	return []byte(`[` + strconv.Itoa(m.N) + `,"<mptr>"]`), nil
}

// TMVal implements encoding.TextMarshaler on the value receiver
type TMVal struct{ S string }

func (t TMVal) MarshalText() ([]byte, error) { return []byte("tm:" + t.S), nil }

// TMPtr implements encoding.TextMarshaler / TextUnmarshaler on the pointer receiver
type TMPtr struct{ S string }

func (t *TMPtr) MarshalText() ([]byte, error) {
	if t == nil {
		return []byte("nil"), nil
	}
	return []byte("tp<" + t.S + ">"), nil
}
func (t *TMPtr) UnmarshalText(b []byte) error { t.S = "u:" + string(b); return nil }

// MUBoth implements Marshaler (value) and Unmarshaler (pointer)
type MUBoth struct{ Raw string }

func (m MUBoth) MarshalJSON() ([]byte, error) {
	if m.Raw == "" {
		return []byte("null"), nil
	}
	return []byte(m.Raw), nil
}
func (m *MUBoth) UnmarshalJSON(b []byte) error { m.Raw = string(b); return nil }

// TMK is a map key type with text methods
type TMK struct{ K string }

func (k TMK) MarshalText() ([]byte, error)  { return []byte("k_" + k.K), nil }
func (k *TMK) UnmarshalText(b []byte) error { k.K = strings.TrimPrefix(string(b), "k_"); return nil }

// MInt: an integer kind with MarshalJSON (value receiver) / UnmarshalJSON: the methods win over the kind (the ,string
// option, which goes by kind, does not quote their output)
type MInt int

func (m MInt) MarshalJSON() ([]byte, error) { return []byte(strconv.Itoa(int(m) * 2)), nil }
func (m *MInt) UnmarshalJSON(b []byte) error {
	n, err := strconv.Atoi(strings.Trim(string(b), `"`))
	*m = MInt(n / 2)
	return err
}

// TStr: a string kind with MarshalText / UnmarshalText: as a value the methods are used, as a map key encoding/json
// writes the string itself (and reads keys through UnmarshalText)
type TStr string

func (t TStr) MarshalText() ([]byte, error) { return []byte("text:" + string(t)), nil }
func (t *TStr) UnmarshalText(b []byte) error {
	*t = TStr(strings.TrimPrefix(string(b), "text:"))
	return nil
}

// TInt: an integer kind with MarshalText on the pointer receiver
type TInt int16

func (t *TInt) MarshalText() ([]byte, error) {
	if t == nil {
		return []byte("nil"), nil
	}
	return []byte("ti" + strconv.Itoa(int(*t))), nil
}
func (t *TInt) UnmarshalText(b []byte) error {
	n, err := strconv.Atoi(strings.TrimPrefix(string(b), "ti"))
	*t = TInt(n)
	return err
}

// NAny is a named empty interface type; IFace an interface type with a method, IV and *IP implement it
type NAny interface{}
type IFace interface{ Tag() string }
type IV struct{ A int }
type IP struct {
	B string
	C any
}

func (IV) Tag() string  { return "iv" }
func (*IP) Tag() string { return "ip" }

var leafTypes = map[string]reflect.Type{
	"bool": reflect.TypeOf(false), "int": reflect.TypeOf(int(0)), "int8": reflect.TypeOf(int8(0)), "int16": reflect.TypeOf(int16(0)),
	"int32": reflect.TypeOf(int32(0)), "int64": reflect.TypeOf(int64(0)), "uint": reflect.TypeOf(uint(0)), "uint8": reflect.TypeOf(uint8(0)),
	"uint16": reflect.TypeOf(uint16(0)), "uint32": reflect.TypeOf(uint32(0)), "uint64": reflect.TypeOf(uint64(0)),
	"float32": reflect.TypeOf(float32(0)), "float64": reflect.TypeOf(float64(0)), "string": reflect.TypeOf(""),
	"bytes": reflect.TypeOf([]byte(nil)), "number": reflect.TypeOf(stdjson.Number("")), "raw": reflect.TypeOf(stdjson.RawMessage(nil)),
	"time": reflect.TypeOf(time.Time{}), "any": reflect.TypeOf((*any)(nil)).Elem(),
	"nany": reflect.TypeOf((*NAny)(nil)).Elem(), "iface": reflect.TypeOf((*IFace)(nil)).Elem(),
	"M_val": reflect.TypeOf(MVal{}), "M_ptr": reflect.TypeOf(MPtr{}), "TM_val": reflect.TypeOf(TMVal{}), "TM_ptr": reflect.TypeOf(TMPtr{}),
	"MU_both": reflect.TypeOf(MUBoth{}), "TMK": reflect.TypeOf(TMK{}),
	"MI": reflect.TypeOf(MInt(0)), "TS": reflect.TypeOf(TStr("")), "TI": reflect.TypeOf(TInt(0)),
	"MB": reflect.TypeOf(mtBoth{}), "NPI": reflect.TypeOf(mtPI(nil)),
}

var (
	jTypeMu    sync.Mutex
	jTypeCache = map[string]reflect.Type{}
)

func jTypeOf(s *jShape) reflect.Type {
	key := s.String()
	jTypeMu.Lock()
	if t, ok := jTypeCache[key]; ok {
		jTypeMu.Unlock()
		return t
	}
	jTypeMu.Unlock()
	var t reflect.Type
	if s.E == nil {
		t = leafTypes[s.K]
		if t == nil {
			panic("unknown leaf kind " + s.K)
		}
	} else {
		e := jTypeOf(s.E)
		switch s.K {
		case "ptr":
			t = reflect.PointerTo(e)
		case "slice":
			t = reflect.SliceOf(e)
		case "array2":
			t = reflect.ArrayOf(2, e)
		case "array1":
			t = reflect.ArrayOf(1, e) // stored like its element in an interface: directly when the element is a pointer or a map
		case "mapts":
			t = reflect.MapOf(reflect.TypeOf(TStr("")), e)
		case "mapkm":
			t = reflect.MapOf(reflect.TypeOf(mtKM(0)), e)
		case "mapstr":
			t = reflect.MapOf(reflect.TypeOf(""), e)
		case "mapint":
			t = reflect.MapOf(reflect.TypeOf(int(0)), e)
		case "maptm":
			t = reflect.MapOf(reflect.TypeOf(TMK{}), e)
		case "struct1":
			t = reflect.StructOf([]reflect.StructField{{Name: "A", Type: e}})
		case "structopt":
			t = reflect.StructOf([]reflect.StructField{
				{Name: "A", Type: e, Tag: `json:"a,omitempty"`},
				{Name: "B", Type: e, Tag: `json:",string"`},
				{Name: "C", Type: e, Tag: `json:"-"`},
				{Name: "D", Type: e, Tag: `json:"-,"`},
				{Name: "E", Type: e, Tag: `json:"<e&>,omitempty,string"`},
				// names of exactly 16 and 15 bytes (member names are looked up in 16-byte slots), differing in the last byte only
				{Name: "F", Type: e, Tag: `json:"abcdefghijklmnop"`},
				{Name: "G", Type: e, Tag: `json:"abcdefghijklmno,omitempty"`},
				// a non-ASCII letter in front of an HTML character (and behind one)
				{Name: "H", Type: e, Tag: `json:"caf\u00e9&th\u00e9<,omitempty"`},
			})
		default:
			panic("unknown wrapper " + s.K)
		}
	}
	jTypeMu.Lock()
	jTypeCache[key] = t
	jTypeMu.Unlock()
	return t
}

// ---------------------------------------------------------------- values

var jStrings = []string{"", "a", "<>&  é", "\xff\xfe bad utf8", "quote\"back\\slash\n\t\x01", "0123456789abcdef0123456789abcdeX\"tail",
	"1234567\x7f", "😀 surrogate pair", "12", "-3.5e2", "true", "null"}

func leafValues(k string) []any {
	switch k {
	case "bool":
		return []any{false, true}
	case "int":
		return []any{int(0), int(1), int(-1), int(math.MaxInt64), int(math.MinInt64)}
	case "int8":
		return []any{int8(0), int8(127), int8(-128)}
	case "int16":
		return []any{int16(0), int16(32767), int16(-32768)}
	case "int32":
		return []any{int32(0), int32(math.MaxInt32), int32(math.MinInt32), int32(-7)}
	case "int64":
		return []any{int64(0), int64(math.MaxInt64), int64(math.MinInt64), int64(1e15)}
	case "uint":
		return []any{uint(0), uint(1), uint(math.MaxUint64)}
	case "uint8":
		return []any{uint8(0), uint8(255)}
	case "uint16":
		return []any{uint16(0), uint16(65535)}
	case "uint32":
		return []any{uint32(0), uint32(math.MaxUint32)}
	case "uint64":
		return []any{uint64(0), uint64(math.MaxUint64), uint64(1 << 53)}
	case "float32":
		return []any{float32(0), float32(1.5), float32(math.Copysign(0, -1)), float32(1e21), float32(1e-7), float32(9.999999e20), float32(123456.7),
			float32(math.MaxFloat32), float32(math.SmallestNonzeroFloat32), float32(math.NaN()), float32(math.Inf(-1))}
	case "float64":
		return []any{float64(0), 1.5, math.Copysign(0, -1), 1e21, 1e-7, 9.999999999999999e20, 1e-6, 123456789.125, 1e20, 100000000000000000000.0,
			math.MaxFloat64, math.SmallestNonzeroFloat64, math.NaN(), math.Inf(1), 5e-324, 1e-9, 1.0e+300}
	case "string":
		out := make([]any, len(jStrings))
		for i, s := range jStrings {
			out[i] = s
		}
		return out
	case "bytes":
		return []any{[]byte(nil), []byte{}, []byte{1, 2, 3}, []byte("hello world, base64 me \xff")}
	case "number":
		return []any{stdjson.Number(""), stdjson.Number("0"), stdjson.Number("-1.5e3"), stdjson.Number("1x"), stdjson.Number("01"), stdjson.Number("1e"), stdjson.Number("12345678901234567890")}
	case "raw":
		return []any{stdjson.RawMessage(nil), stdjson.RawMessage(`{}`), stdjson.RawMessage(" [1, 2,\n \"<x>\"] "), stdjson.RawMessage(`{"a":<}`), stdjson.RawMessage(`1 2`), stdjson.RawMessage(`"é "`), stdjson.RawMessage(``),
			// strings ending in an escaped backslash / holding escaped quotes, then strings with blanks inside, blanks between tokens
			stdjson.RawMessage(rawTricky1), stdjson.RawMessage(rawTricky2)}
	case "time":
		return []any{time.Time{}, time.Date(2021, 3, 25, 21, 36, 12, 500000000, time.UTC), time.Date(1999, 12, 31, 23, 59, 59, 0, time.FixedZone("x", 5400)),
			time.Date(10000, 1, 1, 0, 0, 0, 0, time.UTC), time.Date(-1, 1, 1, 0, 0, 0, 0, time.UTC), time.Date(2020, 1, 1, 0, 0, 0, 0, time.FixedZone("s", 3601))}
	case "any":
		x := 7
		return []any{nil, 1.5, "s<", true, []any{1, "x", nil}, map[string]any{"b": 1, "a": []any{}}, &x, MVal{3}, &MPtr{4}, stdjson.Number("12"), int64(-5), []byte("ab"),
			map[string]any{"z": map[string]any{"y": "<"}}, struct{ A int }{9}, math.Inf(1), (*int)(nil), (*MPtr)(nil)}
	case "nany":
		x := 7
		return []any{nil, 2.5, "n<", false, []any{1, "x", nil}, map[string]any{"b": 1, "a": []any{}}, &x, &MPtr{4}, uint64(1 << 63), NAny("inner"), map[string]NAny{"k": 1}}
	case "iface":
		return []any{nil, IV{3}, &IP{"p<", 1.5}, &IP{}, (*IP)(nil)}
	case "M_val":
		return []any{MVal{}, MVal{7}}
	case "M_ptr":
		return []any{MPtr{}, MPtr{8}}
	case "TM_val":
		return []any{TMVal{}, TMVal{"<x>"}}
	case "TM_ptr":
		return []any{TMPtr{}, TMPtr{"y\"z"}}
	case "MU_both":
		return []any{MUBoth{}, MUBoth{`{"k": [1, 2]}`}, MUBoth{` 1`}, MUBoth{`1 x`}, MUBoth{`"<>"`},
			MUBoth{"{\"dir\": \"C:\\\\tmp\\\\\", \"msg\": \"hello big  world\"}"}}
	case "TMK":
		return []any{TMK{}, TMK{"key"}}
	case "MI":
		return []any{MInt(0), MInt(3), MInt(-21)}
	case "TS":
		return []any{TStr(""), TStr("k"), TStr("<b>")}
	case "TI":
		return []any{TInt(0), TInt(7), TInt(-300)}
	case "MB":
		return []any{mtBoth{}, mtBoth{7}}
	case "NPI":
		one, neg := 1, -12
		return []any{mtPI(nil), mtPI(&one), mtPI(&neg)}
	}
	panic("leafValues " + k)
}

const rawTricky1 = `{"dir": "C:\\tmp\\", "msg": "hello big  world" ,	"q" : [ "a\\" , " b \" c " ] }`
const rawTricky2 = `[ "\\" , " " , "<\u2028 >" ]`

// valuesOf returns a bounded list of values of shape s: zero / nil forms first, then built from
// element values; r picks when the full product would be too large.
func valuesOf(s *jShape, r *rng, limit int) []reflect.Value {
	t := jTypeOf(s)
	var out []reflect.Value
	add := func(v reflect.Value) {
		if len(out) < limit {
			out = append(out, v)
		}
	}
	if s.E == nil {
		vals := leafValues(s.K)
		for _, x := range vals {
			v := reflect.New(t).Elem()
			if x != nil {
				v.Set(reflect.ValueOf(x))
			}
			out = append(out, v)
		}
		if len(out) > limit {
			// keep the first (zero) and a seeded selection of the rest
			sel := []reflect.Value{out[0]}
			for len(sel) < limit {
				sel = append(sel, out[1+r.intn(len(out)-1)])
			}
			out = sel
		}
		return out
	}
	elems := valuesOf(s.E, r, limit)
	zero := reflect.Zero(t)
	switch s.K {
	case "ptr":
		add(zero)
		for _, e := range elems {
			p := reflect.New(t.Elem())
			p.Elem().Set(e)
			add(p)
		}
	case "slice":
		add(zero)
		add(reflect.MakeSlice(t, 0, 0))
		for i, e := range elems {
			sl := reflect.MakeSlice(t, 0, 2)
			sl = reflect.Append(sl, e)
			if i%2 == 1 {
				sl = reflect.Append(sl, elems[(i+1)%len(elems)])
			}
			add(sl)
		}
		// a long one (the encoder and the decoder treat the first elements apart from the rest), of small elements
		if len(elems) > 0 {
			sl := reflect.MakeSlice(t, 0, 70)
			for i := 0; i < 70; i++ {
				sl = reflect.Append(sl, elems[i%min(len(elems), 3)])
			}
			out = append(out, sl)
		}
	case "array1":
		add(zero)
		for _, e := range elems {
			a := reflect.New(t).Elem()
			a.Index(0).Set(e)
			add(a)
		}
	case "array2":
		add(zero)
		for i, e := range elems {
			a := reflect.New(t).Elem()
			a.Index(0).Set(e)
			a.Index(1).Set(elems[(i+1)%len(elems)])
			add(a)
		}
	case "mapstr", "mapint", "maptm", "mapts", "mapkm":
		add(zero)
		add(reflect.MakeMap(t))
		keys := map[string][]any{"mapstr": {"b", "a", "<k>", "", "10", "9", "B", "é", "a\x00", "ab"}, "mapint": {2, 10, -1, -2, -10, 0, 9, -9, 100, -100},
			"maptm": {TMK{"x"}, TMK{""}, TMK{"a"}, TMK{"X"}}, "mapts": {TStr("b"), TStr(""), TStr("a"), TStr("<k>"), TStr("text:z")},
			"mapkm": {mtKM(2), mtKM(10), mtKM(-1), mtKM(0), mtKM(9)}}[s.K]
		// one map with every key (the order of the members is the sorted order of the key strings)
		if len(elems) > 0 {
			m := reflect.MakeMap(t)
			for i, k := range keys {
				m.SetMapIndex(reflect.ValueOf(k), elems[i%len(elems)])
			}
			add(m)
		}
		for i, e := range elems {
			m := reflect.MakeMap(t)
			m.SetMapIndex(reflect.ValueOf(keys[i%len(keys)]), e)
			if i%2 == 0 {
				m.SetMapIndex(reflect.ValueOf(keys[(i+1)%len(keys)]), elems[(i+1)%len(elems)])
				m.SetMapIndex(reflect.ValueOf(keys[(i+2)%len(keys)]), elems[(i+2)%len(elems)])
			}
			add(m)
		}
		// a large one (sorting, growing and iteration beyond the first bucket): 24 keys of small elements
		if len(elems) > 0 {
			m := reflect.MakeMap(t)
			for i := 0; i < 24; i++ {
				var kv reflect.Value
				switch s.K {
				case "mapstr":
					kv = reflect.ValueOf(fmt.Sprintf("k%02d", (i*7)%24))
				case "mapint":
					kv = reflect.ValueOf((i*7)%24 - 12)
				case "mapts":
					kv = reflect.ValueOf(TStr(fmt.Sprintf("s%02d", (i*7)%24)))
				case "mapkm":
					kv = reflect.ValueOf(mtKM((i*7)%24 - 12))
				default:
					kv = reflect.ValueOf(TMK{fmt.Sprintf("t%02d", (i*7)%24)})
				}
				m.SetMapIndex(kv, elems[i%min(len(elems), 3)])
			}
			out = append(out, m)
		}
	case "struct1":
		for _, e := range elems {
			v := reflect.New(t).Elem()
			v.Field(0).Set(e)
			add(v)
		}
	case "structopt":
		for i, e := range elems {
			v := reflect.New(t).Elem()
			for f := 0; f < t.NumField(); f++ {
				v.Field(f).Set(elems[(i+f)%len(elems)])
			}
			v.Field(0).Set(e)
			add(v)
		}
	}
	return out
}

// ---------------------------------------------------------------- comparison of decoded values

// deepEq is reflect.DeepEqual except that time.Time values are compared as instants with
// the same zone offset (a FixedZone pointer differs between two parses of the same text)
func deepEq(a, b reflect.Value) bool {
	if a.IsValid() != b.IsValid() {
		return false
	}
	if !a.IsValid() {
		return true
	}
	if a.Type() != b.Type() {
		return false
	}
	if a.Type() == reflect.TypeOf(time.Time{}) {
		ta, tb := a.Interface().(time.Time), b.Interface().(time.Time)
		_, oa := ta.Zone()
		_, ob := tb.Zone()
		return ta.Equal(tb) && oa == ob
	}
	switch a.Kind() {
	case reflect.Ptr, reflect.Interface:
		if a.IsNil() || b.IsNil() {
			return a.IsNil() == b.IsNil()
		}
		return deepEq(a.Elem(), b.Elem())
	case reflect.Struct:
		for i := 0; i < a.NumField(); i++ {
			if !deepEq(a.Field(i), b.Field(i)) {
				return false
			}
		}
		return true
	case reflect.Slice:
		if a.IsNil() != b.IsNil() || a.Len() != b.Len() {
			return false
		}
		fallthrough
	case reflect.Array:
		for i := 0; i < a.Len(); i++ {
			if !deepEq(a.Index(i), b.Index(i)) {
				return false
			}
		}
		return true
	case reflect.Map:
		if a.IsNil() != b.IsNil() || a.Len() != b.Len() {
			return false
		}
		it := a.MapRange()
		for it.Next() {
			bv := b.MapIndex(it.Key())
			if !bv.IsValid() || !deepEq(it.Value(), bv) {
				return false
			}
		}
		return true
	case reflect.Float32, reflect.Float64:
		return math.Float64bits(a.Float()) == math.Float64bits(b.Float())
	}
	if a.CanInterface() && b.CanInterface() {
		return reflect.DeepEqual(a.Interface(), b.Interface())
	}
	return fmt.Sprint(a) == fmt.Sprint(b)
}

func showVal(v reflect.Value) string {
	s := fmt.Sprintf("%#v", v.Interface())
	if len(s) > 200 {
		s = s[:200] + "…"
	}
	return s
}

func hasDuration(t reflect.Type) bool { return false }

var _ = bytes.Equal
