//go:build verif

package main

// Vectors of spec/IntParse.tla: a digit string along one of the bounds of the integer kinds, with or without a sign, a
// fraction or an exponent, a target kind, and the verdict of the specification's parser (the loops of parseInt /
// parseUint with their guards, then the range of the kind).  The text is decoded into the kind as a value, a field,
// an element, a map value and behind a pointer through Unmarshal, Parse and Decoder: error exactly when the
// specification says so, and the value of the digits otherwise.  As a map key and in a `,string` field the verdict
// is encoding/json's, and so is the Decoder's (to a Decoder 00 is a stream of two values).  encoding/json is held against the specification first (a disagreement is exit 2).

import (
	"bytes"
	stdjson "encoding/json"
	"fmt"
	"reflect"
	"strings"

	"github.com/segmentio/encoding/json"
)

type intVec struct {
	Kind   string `json:"intparse"`
	Neg    bool   `json:"neg"`
	Digits []int  `json:"digits"`
	Suffix string `json:"suffix"`
	Ok     bool   `json:"ok"`
}

type intCase struct {
	Vec *intVec `json:"intparse_vec"`
}

var intKinds = map[string]reflect.Type{
	"int8": reflect.TypeOf(int8(0)), "int16": reflect.TypeOf(int16(0)), "int32": reflect.TypeOf(int32(0)), "int64": reflect.TypeOf(int64(0)),
	"uint8": reflect.TypeOf(uint8(0)), "uint16": reflect.TypeOf(uint16(0)), "uint32": reflect.TypeOf(uint32(0)), "uint64": reflect.TypeOf(uint64(0)),
}

func intDispatch(c *Ctx, raw stdjson.RawMessage) bool {
	if !bytes.Contains(raw, []byte(`"intparse`)) {
		return false
	}
	var k intCase
	if stdjson.Unmarshal(raw, &k) == nil && k.Vec != nil {
		intRun(c, k.Vec)
		return true
	}
	var v intVec
	if stdjson.Unmarshal(raw, &v) == nil && v.Kind != "" {
		c.Nontrivial()
		intRun(c, &v)
		return true
	}
	return false
}

func intRun(c *Ctx, v *intVec) {
	k := intCase{Vec: v}
	t, ok := intKinds[v.Kind]
	if !ok {
		c.SpecError("C02", "IntParse.tla: a kind the harness does not know", k)
		return
	}
	var sb strings.Builder
	if v.Neg {
		sb.WriteByte('-')
	}
	for _, d := range v.Digits {
		sb.WriteByte(byte('0' + d))
	}
	sb.WriteString(map[string]string{"none": "", "frac": ".0", "exp": "e0"}[v.Suffix])
	text := sb.String()
	// the value of the digits, as Go prints it
	val := strings.TrimLeft(strings.TrimPrefix(strings.TrimSuffix(strings.TrimSuffix(text, ".0"), "e0"), "-"), "0")
	if val == "" {
		val = "0"
	} else if v.Neg {
		val = "-" + val
	}
	c.Case()
	type form struct {
		name string
		doc  string
		typ  reflect.Type
		get  func(reflect.Value) reflect.Value
		spec bool // the verdict is the specification's (else: encoding/json's)
	}
	fieldT := reflect.StructOf([]reflect.StructField{{Name: "A", Type: reflect.TypeOf("")}, {Name: "F", Type: t}, {Name: "Z", Type: reflect.TypeOf(true)}})
	quotedT := reflect.StructOf([]reflect.StructField{{Name: "F", Type: t, Tag: `json:"f,string"`}})
	forms := []form{
		{"value", text, t, func(x reflect.Value) reflect.Value { return x }, true},
		{"value between white space", " \n" + text + "\t ", t, func(x reflect.Value) reflect.Value { return x }, true},
		{"field", `{"A":"a","F":` + text + `,"Z":true}`, fieldT, func(x reflect.Value) reflect.Value { return x.Field(1) }, true},
		{"element", `[` + text + `]`, reflect.SliceOf(t), func(x reflect.Value) reflect.Value { return x.Index(0) }, true},
		{"array element", `[1,` + text + `]`, reflect.ArrayOf(2, t), func(x reflect.Value) reflect.Value { return x.Index(1) }, true},
		{"map value", `{"k":` + text + `}`, reflect.MapOf(reflect.TypeOf(""), t), func(x reflect.Value) reflect.Value { return x.MapIndex(reflect.ValueOf("k")) }, true},
		{"pointer", text, reflect.PointerTo(t), func(x reflect.Value) reflect.Value { return x.Elem() }, true},
		{"map key", `{"` + text + `":1}`, reflect.MapOf(t, reflect.TypeOf(0)), func(x reflect.Value) reflect.Value { return x.MapKeys()[0] }, false},
		{"field with the string option", `{"f":"` + text + `"}`, quotedT, func(x reflect.Value) reflect.Value { return x.Field(0) }, false},
	}
	for _, f := range forms {
		if text == "" && f.name == "element" {
			continue // (no text between the brackets is the empty array)
		}
		ref := reflect.New(f.typ)
		rerr := stdjson.Unmarshal([]byte(f.doc), ref.Interface())
		wantOk := rerr == nil
		if f.spec {
			// REF: encoding/json against the specification
			if wantOk != v.Ok || (wantOk && fmt.Sprint(f.get(ref.Elem()).Interface()) != val) {
				c.SpecError("C02", fmt.Sprintf("IntParse.tla disagrees with encoding/json on %s into %s as %s: err=%v value=%v (specification: ok=%v value=%s)",
					text, v.Kind, f.name, rerr, ref.Elem().Interface(), v.Ok, val), k)
				return
			}
		}
		for _, api := range []string{"Unmarshal", "Parse", "Decoder"} {
			got := reflect.New(f.typ)
			var gerr error
			in := []byte(f.doc)
			wantOk, ref := wantOk, ref
			if api == "Decoder" {
				// a Decoder reads a stream of values (00 is two of them): its verdict on the first is encoding/json's Decoder's
				ref = reflect.New(f.typ)
				wantOk = stdjson.NewDecoder(bytes.NewReader(in)).Decode(ref.Interface()) == nil
			}
			c.Eval(1)
			p := protect(func() {
				switch api {
				case "Unmarshal":
					gerr = json.Unmarshal(in, got.Interface())
				case "Parse":
					var rest []byte
					rest, gerr = json.Parse(in, got.Interface(), 0)
					if gerr == nil && len(bytes.TrimSpace(rest)) != 0 {
						gerr = fmt.Errorf("Parse left %q", rest)
					}
				default:
					gerr = json.NewDecoder(bytes.NewReader(in)).Decode(got.Interface())
				}
			})
			if p != "" {
				c.Diverge("C02", "json."+api+"(integer literal into "+v.Kind+" as "+f.name+")", fmt.Sprintf("ok=%v", wantOk), p+" on "+clipS(f.doc), "", k)
				return
			}
			if (gerr == nil) != wantOk {
				c.Diverge("C02", "json."+api+"(integer literal into "+v.Kind+" as "+f.name+")", fmt.Sprintf("ok=%v (%s)", wantOk, clipS(f.doc)), fmt.Sprintf("err=%v", gerr), "", k)
				return
			}
			if wantOk && !reflect.DeepEqual(got.Elem().Interface(), ref.Elem().Interface()) {
				c.Diverge("C02", "json."+api+"(integer literal into "+v.Kind+" as "+f.name+")", fmt.Sprintf("%v (%s)", ref.Elem().Interface(), clipS(f.doc)),
					fmt.Sprintf("%v", got.Elem().Interface()), "", k)
				return
			}
		}
	}
}
