package main

// C09 - all packages are safe and deterministic under concurrent first use.
//
// `vh c09stress` starts G goroutines on never-before-seen types (reflect.StructOf
// with unique field names) behind a barrier, so that the first use of every type
// races on all of them; every result is compared with the result of the same call
// made alone afterwards (and with encoding/json for json).  With -trace the cache
// and pool hooks record a globally sequenced trace that TLC validates against
// spec/TraceConcurrency.tla.  The same binary built with -race runs the same
// schedule under the race detector.

import (
	"bufio"
	"bytes"
	stdjson "encoding/json"
	"flag"
	"fmt"
	"os"
	"reflect"
	"runtime"
	"runtime/debug"
	"strconv"
	"strings"
	"sync"
	"sync/atomic"
	"time"
	"unsafe"

	"github.com/segmentio/encoding/ascii"
	"github.com/segmentio/encoding/iso8601"
	"github.com/segmentio/encoding/json"
	"github.com/segmentio/encoding/proto"
	"github.com/segmentio/encoding/thrift"
)

var typeCounter atomic.Int64

// fresh types: the field name is unique, so no cache has ever seen the type
func freshJSONType() reflect.Type {
	n := typeCounter.Add(1)
	inner := reflect.StructOf([]reflect.StructField{
		{Name: "In" + strconv.FormatInt(n, 10), Type: reflect.TypeOf(map[string]int{})},
		{Name: "S", Type: reflect.TypeOf([]string{}), Tag: `json:"s,omitempty"`},
	})
	return reflect.StructOf([]reflect.StructField{
		{Name: "F" + strconv.FormatInt(n, 10), Type: reflect.TypeOf(0), Tag: `json:"f"`},
		{Name: "G", Type: reflect.PointerTo(inner)},
		{Name: "H", Type: reflect.TypeOf(map[string]any{})},
		{Name: "R", Type: reflect.TypeOf(stdjson.RawMessage{})},
	})
}

// a type whose fields have marshaling methods on the pointer receiver: what Marshal writes depends on whether the
// value it was given is addressable, and the codecs for T and *T are built and cached apart
func freshJSONPtrType() reflect.Type {
	n := typeCounter.Add(1)
	return reflect.StructOf([]reflect.StructField{
		{Name: "F" + strconv.FormatInt(n, 10), Type: reflect.TypeOf(0), Tag: `json:"f"`},
		{Name: "P", Type: reflect.TypeOf(MPtr{})},
		{Name: "T", Type: reflect.TypeOf(TMPtr{})},
		{Name: "Q", Type: reflect.TypeOf([]MPtr{})},
		{Name: "A", Type: reflect.TypeOf([2]TMPtr{})},
	})
}

func freshProtoType() reflect.Type {
	n := typeCounter.Add(1)
	inner := reflect.StructOf([]reflect.StructField{{Name: "I" + strconv.FormatInt(n, 10), Type: reflect.TypeOf(int64(0))}})
	return reflect.StructOf([]reflect.StructField{
		{Name: "A" + strconv.FormatInt(n, 10), Type: reflect.TypeOf(int32(0))},
		{Name: "B", Type: reflect.TypeOf("")},
		{Name: "C", Type: reflect.PointerTo(inner)},
		{Name: "D", Type: reflect.SliceOf(inner)},
		{Name: "E", Type: reflect.MapOf(reflect.TypeOf(""), inner)},
	})
}

func freshThriftType() reflect.Type {
	n := typeCounter.Add(1)
	inner := reflect.StructOf([]reflect.StructField{{Name: "I" + strconv.FormatInt(n, 10), Type: reflect.TypeOf(int64(0)), Tag: `thrift:"1"`}})
	return reflect.StructOf([]reflect.StructField{
		{Name: "A" + strconv.FormatInt(n, 10), Type: reflect.TypeOf(int32(0)), Tag: `thrift:"1"`},
		{Name: "B", Type: reflect.TypeOf(""), Tag: `thrift:"2"`},
		{Name: "C", Type: reflect.SliceOf(inner), Tag: `thrift:"3"`},
		{Name: "D", Type: reflect.TypeOf(true), Tag: `thrift:"70"`},
	})
}

func fillJSON(t reflect.Type, k int) reflect.Value {
	v := reflect.New(t).Elem()
	v.Field(0).SetInt(int64(k))
	g := reflect.New(t.Field(1).Type.Elem())
	g.Elem().Field(0).Set(reflect.ValueOf(map[string]int{"b": k, "a": 1, "<c>": 2}))
	g.Elem().Field(1).Set(reflect.ValueOf([]string{"x", "y<z>"}))
	v.Field(1).Set(g)
	v.Field(2).Set(reflect.ValueOf(map[string]any{"z": []any{1.5, "s"}, "y": map[string]any{"k": k}}))
	v.Field(3).Set(reflect.ValueOf(stdjson.RawMessage(` {"raw": [1, 2]} `)))
	return v
}

func fillProto(t reflect.Type, k int) reflect.Value {
	v := reflect.New(t).Elem()
	v.Field(0).SetInt(int64(k))
	v.Field(1).SetString("s" + strconv.Itoa(k))
	in := t.Field(2).Type.Elem()
	p := reflect.New(in)
	p.Elem().Field(0).SetInt(int64(-k))
	v.Field(2).Set(p)
	sl := reflect.MakeSlice(t.Field(3).Type, 12, 12)
	for i := 0; i < 12; i++ {
		sl.Index(i).Field(0).SetInt(int64(i * k))
	}
	v.Field(3).Set(sl)
	m := reflect.MakeMap(t.Field(4).Type)
	e := reflect.New(in).Elem()
	e.Field(0).SetInt(7)
	m.SetMapIndex(reflect.ValueOf("k"), e)
	v.Field(4).Set(m)
	return v
}

func fillThrift(t reflect.Type, k int) reflect.Value {
	v := reflect.New(t).Elem()
	v.Field(0).SetInt(int64(k))
	v.Field(1).SetString("t" + strconv.Itoa(k))
	sl := reflect.MakeSlice(t.Field(2).Type, 3, 3)
	for i := 0; i < 3; i++ {
		sl.Index(i).Field(0).SetInt(int64(i + k))
	}
	v.Field(2).Set(sl)
	v.Field(3).SetBool(true)
	return v
}

// freshBigTypes: a never-before-seen struct type of 36 fields over six fresh nested struct types (as value, pointer,
// list element and map value), and a type that holds it: building their codecs takes long enough for a second goroutine
// to arrive while the first is at work, on the type itself or on one that contains it
func freshBigTypes() (reflect.Type, reflect.Type) {
	n := strconv.FormatInt(typeCounter.Add(1), 10)
	tag := func(i int) reflect.StructTag { return reflect.StructTag(`thrift:"` + strconv.Itoa(i) + `"`) }
	var leaves []reflect.Type
	for l := 0; l < 6; l++ {
		var fs []reflect.StructField
		for i := 0; i < 8; i++ {
			ft := []reflect.Type{reflect.TypeOf(int64(0)), reflect.TypeOf(""), reflect.TypeOf(int32(0)), reflect.TypeOf(true)}[(i+l)%4]
			fs = append(fs, reflect.StructField{Name: "L" + n + "x" + strconv.Itoa(l) + "f" + strconv.Itoa(i), Type: ft, Tag: tag(i + 1)})
		}
		leaves = append(leaves, reflect.StructOf(fs))
	}
	var fs []reflect.StructField
	for i := 0; i < 36; i++ {
		lt := leaves[i%6]
		ft := []reflect.Type{reflect.TypeOf(int32(0)), lt, reflect.TypeOf(""), reflect.SliceOf(lt), reflect.PointerTo(lt), reflect.MapOf(reflect.TypeOf(""), lt)}[(i/6+i)%6]
		fs = append(fs, reflect.StructField{Name: "B" + n + "f" + strconv.Itoa(i), Type: ft, Tag: tag(i + 1)})
	}
	big := reflect.StructOf(fs)
	outer := reflect.StructOf([]reflect.StructField{
		{Name: "O" + n, Type: reflect.TypeOf(int32(0)), Tag: tag(1)},
		{Name: "T", Type: big, Tag: tag(2)},
		{Name: "TS", Type: reflect.SliceOf(big), Tag: tag(3)},
		{Name: "Z", Type: reflect.TypeOf(""), Tag: tag(4)},
	})
	return big, outer
}

func fillAny(v reflect.Value, k int) {
	switch v.Kind() {
	case reflect.Int32, reflect.Int64:
		v.SetInt(int64(k))
	case reflect.String:
		v.SetString("s" + strconv.Itoa(k))
	case reflect.Bool:
		v.SetBool(true)
	case reflect.Struct:
		for i := 0; i < v.NumField(); i++ {
			fillAny(v.Field(i), k+i)
		}
	case reflect.Pointer:
		v.Set(reflect.New(v.Type().Elem()))
		fillAny(v.Elem(), k)
	case reflect.Slice:
		v.Set(reflect.MakeSlice(v.Type(), 2, 2))
		fillAny(v.Index(0), k)
		fillAny(v.Index(1), k+1)
	case reflect.Map:
		v.Set(reflect.MakeMap(v.Type()))
		e := reflect.New(v.Type().Elem()).Elem()
		fillAny(e, k)
		v.SetMapIndex(reflect.ValueOf("k"), e)
	}
}

// c09FirstUse: the six first uses (Marshal and Unmarshal of each package) of one big fresh type, every goroutine let
// go at once: the even ones on the type itself, the odd ones on the type that holds it
func c09FirstUse(k int) []c09Op {
	big, outer := freshBigTypes()
	bv, ov := reflect.New(big).Elem(), reflect.New(outer).Elem()
	fillAny(bv, k)
	fillAny(ov, k+1)
	pick := func(g int) (reflect.Type, reflect.Value) {
		if g%2 == 0 {
			return big, bv
		}
		return outer, ov
	}
	jdoc := [2][]byte{}
	jdoc[0], _ = stdjson.Marshal(bv.Interface())
	jdoc[1], _ = stdjson.Marshal(ov.Interface())
	var ops []c09Op
	for g := 0; g < 2; g++ {
		g := g
		t, v := pick(g)
		which := []string{"a big fresh type", "the type that holds it"}[g]
		ops = append(ops,
			c09Op{"thrift.Marshal(" + which + ")", func() string {
				b, err := thrift.Marshal(&thrift.CompactProtocol{}, v.Interface())
				return fmt.Sprintf("%x|%v", b, err)
			}},
			c09Op{"thrift.Unmarshal(" + which + ")", func() string {
				b, _ := thrift.Marshal(&thrift.BinaryProtocol{}, v.Interface())
				out := reflect.New(t)
				err := thrift.Unmarshal(&thrift.BinaryProtocol{}, b, out.Interface())
				return fmt.Sprintf("%v|%v", reflect.DeepEqual(out.Elem().Interface(), v.Interface()), err)
			}},
			c09Op{"json.Marshal(" + which + ")", func() string {
				b, err := json.Marshal(v.Interface())
				return fmt.Sprintf("%v|%v", bytes.Equal(b, jdoc[g]), err)
			}},
			c09Op{"json.Unmarshal(" + which + ")", func() string {
				out := reflect.New(t)
				err := json.Unmarshal(jdoc[g], out.Interface())
				return fmt.Sprintf("%v|%v", reflect.DeepEqual(out.Elem().Interface(), v.Interface()), err)
			}},
			c09Op{"proto.Marshal(" + which + ")", func() string {
				b, err := proto.Marshal(v.Interface())
				return fmt.Sprintf("%x|%v", b, err)
			}},
			c09Op{"proto.Unmarshal(" + which + ")", func() string {
				b, _ := proto.Marshal(v.Interface())
				out := reflect.New(t)
				err := proto.Unmarshal(b, out.Interface())
				return fmt.Sprintf("%v|%v", reflect.DeepEqual(out.Elem().Interface(), v.Interface()), err)
			}})
	}
	return ops
}

// one operation = a function returning a canonical result string
type c09Op struct {
	name string
	run  func() string
}

func opsFor(round, k int, jt, pt, tt reflect.Type) []c09Op {
	jv, pv, tv := fillJSON(jt, k), fillProto(pt, k), fillThrift(tt, k)
	jdoc, _ := stdjson.Marshal(jv.Interface())
	jdocFold := bytes.ToUpper(bytes.ReplaceAll(jdoc, []byte(`"s"`), []byte(`"S"`)))
	if !stdjson.Valid(jdocFold) { // (upper-casing touches literals: true / null; keep the document valid)
		jdocFold = bytes.ReplaceAll(bytes.ReplaceAll(bytes.ReplaceAll(jdocFold, []byte("TRUE"), []byte("true")), []byte("FALSE"), []byte("false")), []byte("NULL"), []byte("null"))
	}
	tokdoc := []byte(fmt.Sprintf(`{"a":[1,{"b":%d},"x"],"c":{"d":[true,null]}}`, k))
	jpt := freshJSONPtrType()
	jpv := reflect.New(jpt)
	jpv.Elem().Field(0).SetInt(int64(k))
	jpv.Elem().Field(1).Set(reflect.ValueOf(MPtr{k}))
	jpv.Elem().Field(2).Set(reflect.ValueOf(TMPtr{"t"}))
	jpv.Elem().Field(3).Set(reflect.ValueOf([]MPtr{{1}, {k}}))
	jpv.Elem().Field(4).Set(reflect.ValueOf([2]TMPtr{{"a"}, {"b"}}))
	againstStd := func(x any) string {
		want, werr := stdjson.Marshal(x)
		got, err := json.Marshal(x)
		if (err == nil) != (werr == nil) || !bytes.Equal(got, want) {
			return fmt.Sprintf("%s|%v instead of %s|%v", got, err, want, werr)
		}
		return "stable"
	}
	// twin types for the proto pointer / value operation: ptwin is used by the goroutines, its twin here and now, alone
	ptwin, ptwinAlone := freshProtoType(), freshProtoType()
	ta := reflect.New(ptwinAlone)
	ta.Elem().Field(1).SetString("s" + strconv.Itoa(k))
	tb, terr := proto.Marshal(ta.Interface())
	tn := proto.Size(ta.Interface())
	tbv, terrv := proto.Marshal(ta.Elem().Interface())
	ptwinWant := fmt.Sprintf("%x|%d|%v|%x|%v", tb, tn, terr, tbv, terrv)
	return []c09Op{
		{"json.Marshal", func() string { b, err := json.Marshal(jv.Interface()); return fmt.Sprintf("%s|%v", b, err) }},
		// the first use of a type by value and by pointer, in either order or at once (result held = judged on its own, here against encoding/json)
		{"json.Marshal(by value, fields with pointer-receiver methods; result held)", func() string { return againstStd(jpv.Elem().Interface()) }},
		{"json.Marshal(by pointer, fields with pointer-receiver methods; result held)", func() string { return againstStd(jpv.Interface()) }},
		{"json.Marshal(by value inside an interface and a slice; result held)", func() string {
			return againstStd([]any{jpv.Elem().Interface(), jpv.Interface()})
		}},
		{"json.Marshal(64 KiB and more, result held across other calls)", func() string {
			// the result must stay what it was while this and other goroutines go on encoding: a result
			// that still shares memory with a pooled encode buffer is overwritten by them
			big := []any{k, bigPad[:66000+k%500], "end"}
			want, _ := stdjson.Marshal(big)
			b, err := json.Marshal(big)
			for i := 0; i < 3; i++ {
				runtime.Gosched()
				json.Marshal([]any{"other", k, i})
			}
			if err != nil || !bytes.Equal(b, want) {
				i := 0
				for i < len(b) && i < len(want) && b[i] == want[i] {
					i++
				}
				return fmt.Sprintf("%d bytes, differs from the expected %d at offset %d, err=%v", len(b), len(want), i, err)
			}
			return "stable"
		}},
		{"json.Marshal(nested sorted maps after failed encodes of maps; result held)", func() string {
			// the sort scratch of the map encoders is pooled: an encode that fails half-way (here, or at the same time on
			// another goroutine) must leave the pool as it found it - the nested maps below each need a scratch of their own
			bad := stdjson.RawMessage(`{"broken`)
			json.Marshal(map[string]json.RawMessage{"a": json.RawMessage(`1`), "b": json.RawMessage(bad), "c": json.RawMessage(`2`)})
			json.Marshal(map[string]any{"a": 1, "b": make(chan int), "c": 2})
			json.Marshal(map[string]any{"a": 1, "b": map[string]any{"x": func() {}}})
			json.Marshal(map[string]string{"a": "1"})
			json.Marshal(map[string][]string{"a": {"1"}})
			json.Marshal(map[string]MVal{"a": {1}})
			nested := map[string]any{
				"d": map[string]any{"z": k, "y": map[string]any{"q": "r", "p": []any{map[string]any{"n": 1, "m": 2}}}, "x": true},
				"c": map[string]string{"k2": "v", "k1": "w"},
				"b": map[string]json.RawMessage{"r2": json.RawMessage(`[1]`), "r1": json.RawMessage(`{}`)},
				"a": map[string][]string{"s2": {"x"}, "s1": {"y", "z"}},
				"e": map[string]bool{"t": true, "f": false},
			}
			want, werr := stdjson.Marshal(nested)
			got, err := json.Marshal(nested)
			if (err == nil) != (werr == nil) || !bytes.Equal(got, want) {
				return fmt.Sprintf("%s|%v instead of %s|%v", got, err, want, werr)
			}
			return "stable"
		}},
		{"json.Unmarshal", func() string {
			out := reflect.New(jt)
			err := json.Unmarshal(jdoc, out.Interface())
			b, _ := stdjson.Marshal(out.Interface())
			return fmt.Sprintf("%s|%v", b, err)
		}},
		{"json.Unmarshal(member names in another case)", func() string {
			// the case-insensitive match goes through structures of the cached codec that every goroutine shares
			out := reflect.New(jt)
			err := json.Unmarshal(jdocFold, out.Interface())
			b, _ := stdjson.Marshal(out.Interface())
			return fmt.Sprintf("%s|%v", b, err)
		}},
		{"json.Tokenizer", func() string {
			var sb strings.Builder
			t := json.NewTokenizer(tokdoc)
			for t.Next() {
				fmt.Fprintf(&sb, "%s/%d/%d/%v;", t.Value, t.Depth, t.Index, t.IsKey)
			}
			t.Reset([]byte(`[[1]]`))
			for t.Next() {
				fmt.Fprintf(&sb, "%s/%d;", t.Value, t.Depth)
			}
			return sb.String()
		}},
		{"json.Tokenizer(reused after an error, two alive at once)", func() string {
			var sb strings.Builder
			t := json.NewTokenizer([]byte(`[[1,2}`)) // ends with a mismatched closer
			for t.Next() {
			}
			t.Reset(tokdoc)                // the failed tokenizer is reused ...
			u := json.NewTokenizer(tokdoc) // ... while another one is alive
			for {
				a, b := t.Next(), u.Next()
				if !a && !b {
					break
				}
				fmt.Fprintf(&sb, "%s/%d/%d/%v|%s/%d/%d/%v;", t.Value, t.Depth, t.Index, t.IsKey, u.Value, u.Depth, u.Index, u.IsKey)
			}
			return sb.String()
		}},
		{"proto.Marshal+Size", func() string {
			b, err := proto.Marshal(pv.Interface())
			return fmt.Sprintf("%d|%d|%v", len(b), proto.Size(pv.Interface()), err)
		}},
		{"proto.Marshal+Size(by pointer, leading fields zero; result held)", func() string {
			// what a call returns alone is known from a twin type (same shape, another name) that only this operation's
			// preparation has ever used: the value codec and the pointer codec of a type are built and published apart
			v := reflect.New(ptwin)
			v.Elem().Field(1).SetString("s" + strconv.Itoa(k))
			b, err := proto.Marshal(v.Interface())
			n := proto.Size(v.Interface())
			bv, errv := proto.Marshal(v.Elem().Interface())
			got := fmt.Sprintf("%x|%d|%v|%x|%v", b, n, err, bv, errv)
			if got != ptwinWant {
				return got + " instead of " + ptwinWant
			}
			return "stable"
		}},
		{"proto.Unmarshal", func() string {
			b, _ := proto.Marshal(pv.Interface())
			out := reflect.New(pt)
			err := proto.Unmarshal(b, out.Interface())
			c, _ := stdjson.Marshal(out.Interface())
			return fmt.Sprintf("%s|%v", c, err)
		}},
		{"proto.Unmarshal(map entries that leave key or value out, after failed decodes; result held)", func() string {
			// pooled map-entry scratch: what a failed decode (here or on another goroutine) left in it must not show
			// in an entry that legally leaves its key or its value off the wire
			type mm struct{ M map[string]int32 }
			var b1, g1, g2 mm
			proto.Unmarshal([]byte{0x0a, 0x08, 0x0a, 0x03, 's', 't', 'a', 0x10, byte(k%100 + 1), 0x1f}, &b1) // value decoded, then an invalid wire type
			e1 := proto.Unmarshal([]byte{0x0a, 0x02, 0x10, 0x05}, &g1)                                       // {"": 5}: the key is left out
			proto.Unmarshal([]byte{0x0a, 0x08, 0x0a, 0x03, 's', 't', 'a', 0x10, byte(k%100 + 1), 0x1f}, &b1)
			e2 := proto.Unmarshal([]byte{0x0a, 0x03, 0x0a, 0x01, 'k'}, &g2) // {"k": 0}: the value is left out
			if e1 != nil || e2 != nil || len(g1.M) != 1 || g1.M[""] != 5 || len(g2.M) != 1 || g2.M["k"] != 0 {
				return fmt.Sprintf("%v %v %v %v", g1.M, e1, g2.M, e2)
			}
			return "stable"
		}},
		{"proto.TypeOf", func() string { return proto.TypeOf(pt).String() }},
		{"thrift.Marshal", func() string {
			b, err := thrift.Marshal(&thrift.CompactProtocol{}, tv.Interface())
			return fmt.Sprintf("%x|%v", b, err)
		}},
		{"thrift.Unmarshal", func() string {
			b, _ := thrift.Marshal(&thrift.BinaryProtocol{}, tv.Interface())
			out := reflect.New(tt)
			err := thrift.Unmarshal(&thrift.BinaryProtocol{}, b, out.Interface())
			c, _ := stdjson.Marshal(out.Interface())
			return fmt.Sprintf("%s|%v", c, err)
		}},
		// further entry points (every package-level entry point may be called from any number of goroutines): what they
		// share - scratch for skipped values, pooled field sets, tables built on first use - shows to the race detector
		{"thrift.Unmarshal(fields the target does not declare, both protocols)", func() string {
			var sb strings.Builder
			for _, p := range []thrift.Protocol{&thrift.BinaryProtocol{}, &thrift.CompactProtocol{}} {
				b, _ := thrift.Marshal(p, c09Wide{A: int32(k), S: strings.Repeat("s", 10+k%300), B: []byte("bin"), L: []string{"x", strings.Repeat("y", 5000)},
					M: map[string]c09Narrow{"k": {A: 1}}, N: &c09Narrow{A: 2}, Z: int64(k)})
				var out c09Narrow
				err := thrift.Unmarshal(p, b, &out)
				fmt.Fprintf(&sb, "%d|%d|%v;", out.A, out.Z, err)
			}
			return sb.String()
		}},
		{"thrift.Encoder+Decoder", func() string {
			var buf bytes.Buffer
			p := &thrift.CompactProtocol{}
			e := thrift.NewEncoder(p.NewWriter(&buf))
			e.Encode(c09Narrow{A: int32(k), Z: 7})
			e.Encode(c09Wide{A: 1, S: "s", L: []string{"a"}})
			d := thrift.NewDecoder(p.NewReader(&buf))
			var a c09Narrow
			var b c09Wide
			e1, e2 := d.Decode(&a), d.Decode(&b)
			return fmt.Sprintf("%d|%d|%s|%v|%v|%v", a.A, a.Z, b.S, b.L, e1, e2)
		}},
		{"proto.Unmarshal(fields the target does not declare)+Scan", func() string {
			b, _ := proto.Marshal(c09PWide{A: int32(k), S: strings.Repeat("s", 10+k%300), B: []byte("bin"), L: []string{"x", "y"}, M: map[string]int32{"k": 1}, Z: int64(k)})
			var out c09PNarrow
			err := proto.Unmarshal(b, &out)
			n := 0
			serr := proto.Scan(b, func(f proto.FieldNumber, t proto.WireType, v proto.RawValue) (bool, error) { n++; return true, nil })
			return fmt.Sprintf("%d|%d|%v|%d|%v", out.A, out.Z, err, n, serr)
		}},
		{"proto.Rewriter(one rewriter, many goroutines)", func() string {
			b, _ := proto.Marshal(c09PWide{A: int32(k), S: "keep", Z: 5})
			out, err := c09Rewriter().Rewrite(nil, b)
			var got c09PWide
			e2 := proto.Unmarshal(out, &got)
			return fmt.Sprintf("%d|%s|%d|%v|%v", got.A, got.S, got.Z, err, e2)
		}},
		{"json.Valid+Compact+Indent+Escape+Unescape", func() string {
			doc := []byte(`{"a": [1, 2, {"b": "c<>\u00e9"}], "k` + strconv.Itoa(k) + `": null}`)
			var c1, c2 bytes.Buffer
			e1 := json.Compact(&c1, doc)
			e2 := json.Indent(&c2, doc, ">", "  ")
			esc := json.Escape("q\"<" + strconv.Itoa(k))
			return fmt.Sprintf("%v|%s|%v|%s|%v|%s|%s", json.Valid(doc), c1.String(), e1, c2.String(), e2, esc, json.Unescape(esc))
		}},
		{"json.Encoder+Decoder(streams)", func() string {
			var buf bytes.Buffer
			e := json.NewEncoder(&buf)
			e.SetIndent("", " ")
			for i := 0; i < 3; i++ {
				e.Encode(map[string]any{"i": i, "k": k, "s": strings.Repeat("x", 100*i)})
			}
			d := json.NewDecoder(&buf)
			var sb strings.Builder
			for {
				var v map[string]any
				if err := d.Decode(&v); err != nil {
					fmt.Fprintf(&sb, "%v", err)
					break
				}
				fmt.Fprintf(&sb, "%v;", v["i"])
			}
			return sb.String()
		}},
		{"json.Unmarshal(into interfaces, flags)+Append(flags)", func() string {
			var v any
			_, err := json.Parse([]byte(`{"n": 12345678901234567890, "f": 1.5, "l": [1, -2, "s"], "k": `+strconv.Itoa(k)+`}`), &v, json.UseNumber|json.DontCopyString)
			b, e2 := json.Append(nil, v, json.SortMapKeys)
			return fmt.Sprintf("%s|%v|%v", b, err, e2)
		}},
		{"json.Encoder(indentation switched on, then off; the writer makes library calls while it holds the bytes; result held)", func() string {
			// pooled encode buffers are never visible to two callers at once: what the writer was handed stays what it is
			// while this goroutine and another one go on encoding
			w := &c09Writer{}
			e := json.NewEncoder(w)
			var ref bytes.Buffer
			r := stdjson.NewEncoder(&ref)
			val := map[string]any{"k": k, "s": strings.Repeat("v", 300+k%100)}
			for _, ind := range []string{"  ", "", ""} {
				e.SetIndent("", ind)
				r.SetIndent("", ind)
				if err := e.Encode(val); err != nil {
					return err.Error()
				}
				r.Encode(val)
			}
			if w.bad != "" {
				return w.bad
			}
			if w.out.String() != ref.String() {
				return "the writer got other bytes than encoding/json's"
			}
			return "stable"
		}},
		{"iso8601+ascii", func() string {
			ts := "2021-03-25T21:36:" + fmt.Sprintf("%02d", k%60) + ".5Z"
			t, err := iso8601.Parse(ts)
			return fmt.Sprintf("%v|%v|%v|%v|%v", t.UnixNano(), err, iso8601.Valid(ts, iso8601.Strict), ascii.ValidString(ts), ascii.EqualFoldString(ts, strings.ToLower(ts)))
		}},
	}
}

// c09Writer makes a few library calls of its own while it holds the bytes it was handed, and looks at them again
type c09Writer struct {
	bad string
	out bytes.Buffer
}

func (w *c09Writer) Write(p []byte) (int, error) {
	snap := string(p)
	other := strings.Repeat("#", max(len(p)-8, 0))
	json.Marshal(other)
	json.Marshal([]string{other, "x"})
	runtime.Gosched()
	if string(p) != snap && w.bad == "" {
		w.bad = fmt.Sprintf("%d bytes handed to the writer changed while it held them: %s became %s", len(snap), clipS(snap), clipS(string(p)))
	}
	w.out.WriteString(snap)
	return len(p), nil
}

type c09Narrow struct {
	A int32 `thrift:"1"`
	Z int64 `thrift:"9"`
}

type c09Wide struct {
	A int32                `thrift:"1"`
	S string               `thrift:"2"`
	B []byte               `thrift:"3"`
	L []string             `thrift:"4"`
	M map[string]c09Narrow `thrift:"5"`
	N *c09Narrow           `thrift:"6"`
	Z int64                `thrift:"9"`
}

type c09PNarrow struct {
	A int32 `protobuf:"varint,1,opt"`
	Z int64 `protobuf:"varint,9,opt"`
}

type c09PWide struct {
	A int32            `protobuf:"varint,1,opt"`
	S string           `protobuf:"bytes,2,opt"`
	B []byte           `protobuf:"bytes,3,opt"`
	L []string         `protobuf:"bytes,4,rep"`
	M map[string]int32 `protobuf:"bytes,5,rep" protobuf_key:"bytes,1,opt" protobuf_val:"varint,2,opt"`
	Z int64            `protobuf:"varint,9,opt,name=z"`
}

// built on first use, by whichever goroutine gets there first (nothing may touch the caches before the recording starts)
var (
	c09RewriterOnce sync.Once
	c09RewriterVal  proto.Rewriter
)

func c09Rewriter() proto.Rewriter {
	c09RewriterOnce.Do(func() {
		rw, err := proto.ParseRewriteTemplate(proto.TypeOf(reflect.TypeOf(c09PWide{})), []byte(`{"z": 77}`))
		if err != nil {
			panic(err)
		}
		c09RewriterVal = rw
	})
	return c09RewriterVal
}

// ---- trace recording

type c09Rec struct {
	mu    sync.Mutex
	seq   atomic.Int64
	lines []string
	ids   map[string]map[uintptr]int
	gids  map[int64]int
}

func (r *c09Rec) idOf(space string, p unsafe.Pointer) int {
	if p == nil {
		return 0
	}
	m := r.ids[space]
	if m == nil {
		m = map[uintptr]int{}
		r.ids[space] = m
	}
	id, ok := m[uintptr(p)]
	if !ok {
		id = len(m) + 1
		m[uintptr(p)] = id
	}
	return id
}

func goid() int64 {
	var buf [64]byte
	n := runtime.Stack(buf[:], false)
	f := strings.Fields(string(buf[:n]))
	if len(f) >= 2 {
		id, _ := strconv.ParseInt(f[1], 10, 64)
		return id
	}
	return -1
}

func (r *c09Rec) emit(format func(seq int64, g int) string) {
	g := goid()
	r.mu.Lock()
	// the sequence number is taken under the same lock that orders the lines
	seq := r.seq.Add(1)
	gi, ok := r.gids[g]
	if !ok {
		gi = len(r.gids) + 1
		r.gids[g] = gi
	}
	r.lines = append(r.lines, format(seq, gi))
	r.mu.Unlock()
}

func (r *c09Rec) install() {
	cache := func(name string) func(ev string, m unsafe.Pointer, n int, t unsafe.Pointer) {
		return func(ev string, m unsafe.Pointer, n int, t unsafe.Pointer) {
			r.emit(func(seq int64, g int) string {
				// map identities are only comparable while the map is reachable: the package keeps published
				// maps alive through the cache variable or the snapshot on the caller's stack
				return fmt.Sprintf(`{"seq":%d,"ev":%q,"cache":%q,"g":%d,"id":%d,"n":%d}`, seq, ev, name, g, r.idOf(name, m), n)
			})
		}
	}
	json.VerifCacheHook = cache("json")
	proto.VerifCacheHook = func(ev, c string, m unsafe.Pointer, n int, t unsafe.Pointer) { cache("proto."+c)(ev, m, n, t) }
	thrift.VerifCacheHook = func(ev, c string, m unsafe.Pointer, n int, t unsafe.Pointer) { cache("thrift."+c)(ev, m, n, t) }
	json.VerifPoolHook = func(ev, pool string, obj unsafe.Pointer, n int) {
		r.emit(func(seq int64, g int) string {
			return fmt.Sprintf(`{"seq":%d,"ev":%q,"pool":%q,"g":%d,"obj":%d,"n":%d}`, seq, ev, "json."+pool, g, r.idOf("json."+pool, obj), n)
		})
	}
	proto.VerifPoolHook = func(ev, pool string, obj unsafe.Pointer) {
		r.emit(func(seq int64, g int) string {
			return fmt.Sprintf(`{"seq":%d,"ev":%q,"pool":%q,"g":%d,"obj":%d,"n":0}`, seq, ev, "proto."+pool, g, r.idOf("proto."+pool, obj))
		})
	}
}

// keepAlive holds every published map header the recorder has numbered, so that an address is never
// reused for another map while the trace is being recorded (ids stay unique)
var keepAlive []any

func c09Stress(args []string) {
	fs := flag.NewFlagSet("c09stress", flag.ExitOnError)
	seed := fs.Int64("seed", 1, "")
	G := fs.Int("g", 4, "goroutines")
	rounds := fs.Int("rounds", 20, "")
	procs := fs.Int("procs", 0, "GOMAXPROCS")
	out := fs.String("trace", "", "write the hook trace here")
	fs.Parse(args)
	if *procs > 0 {
		runtime.GOMAXPROCS(*procs)
	}
	var rec *c09Rec
	if *out != "" {
		rec = &c09Rec{ids: map[string]map[uintptr]int{}, gids: map[int64]int{}}
		rec.install()
		// published maps must stay reachable while ids are handed out by address: GC off for the recording
		// (the runs are short); this keeps addresses unique
		debug.SetGCPercent(-1)
	}
	// progress watchdog: every call returns (alone each takes microseconds); when not one call has returned for a
	// minute the goroutines wait for each other - the race detector's runtime does not notice that itself
	var progress atomic.Int64
	go func() {
		last, idle := int64(-1), 0
		for {
			time.Sleep(5 * time.Second)
			if now := progress.Load(); now != last {
				last, idle = now, 0
				continue
			}
			if idle++; idle >= 12 {
				buf := make([]byte, 1<<16)
				buf = buf[:runtime.Stack(buf, true)]
				fmt.Fprintf(os.Stderr, "fatal error: no call of the stress has returned for %d s after %d calls (goroutines waiting for a lock that is never given back)\n%s\n", 5*idle, last, buf)
				os.Exit(3)
			}
		}
	}()
	mism := 0
	total := 0
	report := func(s string) {
		if mism < 20 {
			fmt.Println(s)
		}
		mism++
	}
	for round := 0; round < *rounds; round++ {
		r := newRng(*seed, "c09-"+strconv.Itoa(round))
		const K = 3
		var ops [][]c09Op
		for k := 0; k < K; k++ {
			ops = append(ops, opsFor(round, k+1, freshJSONType(), freshProtoType(), freshThriftType()))
		}
		// first uses of one big type, all goroutines let go together, one entry point after the other
		{
			fu := c09FirstUse(round + 1)
			half := len(fu) / 2
			got := make([][]string, *G)
			for o := 0; o < half; o++ {
				var start, done sync.WaitGroup
				start.Add(1)
				for g := 0; g < *G; g++ {
					if o == 0 {
						got[g] = make([]string, half)
					}
					done.Add(1)
					go func(g, o int) {
						defer done.Done()
						op := fu[(g%2)*half+o]
						start.Wait()
						var res string
						if p := protect(func() { res = op.run() }); p != "" {
							res = p
						}
						got[g][o] = res
						progress.Add(1)
					}(g, o)
				}
				start.Done()
				done.Wait()
			}
			for o := 0; o < half; o++ {
				for g := 0; g < *G; g++ {
					op := fu[(g%2)*half+o]
					var want string
					if p := protect(func() { want = op.run() }); p != "" {
						want = p
					}
					if strings.HasPrefix(want, "false|") {
						want = "true|<nil>" // (round trips judge themselves)
					}
					progress.Add(1)
					total++
					if got[g][o] != want {
						report(fmt.Sprintf(`{"t":"div","prop":"C09","api":%q,"want":%q,"got":%q,"case":{"seed":%d,"round":%d,"g":%d}}`,
							op.name+" (every goroutine's first call)", clipS(want), clipS(got[g][o]), *seed, round, *G))
					}
				}
			}
		}
		nops := len(ops[0])
		results := make([][][]string, *G)
		var start, done sync.WaitGroup
		start.Add(1)
		for g := 0; g < *G; g++ {
			results[g] = make([][]string, K)
			order := make([]int, K*nops)
			for i := range order {
				order[i] = i
			}
			for i := len(order) - 1; i > 0; i-- {
				j := r.intn(i + 1)
				order[i], order[j] = order[j], order[i]
			}
			for k := range results[g] {
				results[g][k] = make([]string, nops)
			}
			done.Add(1)
			go func(g int, order []int) {
				defer done.Done()
				start.Wait()
				for _, x := range order {
					k, o := x/nops, x%nops
					var res string
					if p := protect(func() { res = ops[k][o].run() }); p != "" {
						res = p
					}
					results[g][k][o] = res
					progress.Add(1)
				}
			}(g, order)
		}
		start.Done()
		done.Wait()
		// the same calls, alone
		for k := 0; k < K; k++ {
			for o := 0; o < nops; o++ {
				var want string
				if p := protect(func() { want = ops[k][o].run() }); p != "" {
					want = p // a panic of the call made alone: reported through the comparison below
				}
				progress.Add(1)
				if strings.Contains(ops[k][o].name, "result held") {
					want = "stable" // this operation judges itself (against encoding/json): alone it must be stable too
				}
				for g := 0; g < *G; g++ {
					total++
					if results[g][k][o] != want {
						report(fmt.Sprintf(`{"t":"div","prop":"C09","api":%q,"want":%q,"got":%q,"case":{"seed":%d,"round":%d,"g":%d}}`,
							ops[k][o].name+" (concurrent first use)", clipS(want), clipS(results[g][k][o]), *seed, round, *G))
					}
				}
			}
		}
	}
	if rec != nil {
		f, err := os.Create(*out)
		if err != nil {
			fmt.Fprintln(os.Stderr, err)
			os.Exit(2)
		}
		w := bufio.NewWriter(f)
		for _, l := range rec.lines {
			w.WriteString(l)
			w.WriteByte('\n')
		}
		w.Flush()
		f.Close()
	}
	fmt.Printf(`{"t":"sum","prop":"C09","evals":%d,"divs":%d,"events":%d}`+"\n", total, mism, func() int {
		if rec != nil {
			return len(rec.lines)
		}
		return 0
	}())
}

var _ = bytes.Equal

func init() {
	tools["c09stress"] = c09Stress
}
