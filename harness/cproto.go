package main

// C03, C07, C12, C16 - the proto package against spec/ProtoCodec.tla.
//
// Every vector is a (shape, value) pair with the STANDARD wire records of the
// value, the package's own encoding policy (impl, informational) and the legal
// re-encodings computed by the specification.  Verdicts are black-box and
// exactly the property's relation; the reference implementation
// (google.golang.org/protobuf, dynamicpb) validates the specification itself
// on every vector (SPEC-ERROR = the machinery is wrong).

import (
	"runtime/debug"
	"bytes"
	"encoding/binary"
	"encoding/hex"
	stdjson "encoding/json"
	"errors"
	"fmt"
	"io"
	"math"
	"reflect"
	"runtime"
	"strconv"
	"strings"
	"sync"

	"github.com/segmentio/encoding/proto"
)

type protoCase struct {
	Shape []pField `json:"shape"`
	Val   pVal     `json:"val"`
	Salt  int      `json:"salt"`
	Ptr   bool     `json:"ptr"`             // value passed as *T instead of T
	Bytes string   `json:"bytes,omitempty"` // hex input for decode-side cases
	What  string   `json:"what,omitempty"`
	Want  string   `json:"want_tree,omitempty"`
	Meter bool     `json:"meter,omitempty"`
	// C03 history: inputs (hex) decoded into fresh variables of the same type before the round trip - damaged
	// encodings of OTHER values, whose decoding fails half-way: whatever scratch they leave behind must not show
	Poison []string `json:"poison,omitempty"`
	// C07 Scan: the records the input was written from (what Scan has to enumerate)
	Recs  []pRec    `json:"recs,omitempty"`
	Alloc *allocVec `json:"alloc,omitempty"`
	// C07 same value: a second input (hex) that must decode to exactly what Bytes decodes to
	Bytes2 string `json:"bytes2,omitempty"`
}

func parseProtoVec(c *Ctx, prop string, raw stdjson.RawMessage) (protoVec, bool) {
	var v protoVec
	if varintVector(c, prop, raw) {
		return v, false
	}
	if err := stdjson.Unmarshal(raw, &v); err != nil {
		c.SpecError(prop, "bad vector: "+err.Error(), string(raw))
		return v, false
	}
	if v.Lib != nil {
		for k, sh := range v.Lib {
			if shapeKey(sh) != shapeKey(subShapes[k]) {
				c.SpecError(prop, "harness sub-shape table differs from the specification's for "+k, nil)
			}
		}
		if len(v.Lib) != len(subShapes) {
			c.SpecError(prop, "harness sub-shape table differs from the specification's", nil)
		}
		return v, false
	}
	return v, len(v.Shape) > 0
}

func hasBigMap(v pVal) bool {
	if v.T == "m" && len(v.Xs) > 1 {
		return true
	}
	for _, x := range v.Xs {
		if hasBigMap(x) {
			return true
		}
	}
	return false
}

// stretch grows every non-empty repeated field of the value to n elements by repeating its
// last element (lifting: "k more identical elements append k more copies of the element")
func stretch(shape []pField, v pVal, n int) (pVal, bool) {
	out := pVal{T: v.T, V: v.V, Xs: append([]pVal(nil), v.Xs...)}
	did := false
	for i, f := range shape {
		if f.C == "rep" && len(v.Xs[i].Xs) > 0 {
			xs := append([]pVal(nil), v.Xs[i].Xs...)
			for len(xs) < n {
				xs = append(xs, xs[len(xs)-1])
			}
			out.Xs[i] = pVal{T: "r", Xs: xs}
			did = true
		}
	}
	return out, did
}

func goValue(l lift, shape []pField, val pVal, ptr bool) (iface any, typ reflect.Type) {
	t := structTypeOf(shape, "")
	sv := l.structValue(shape, val)
	if ptr {
		p := reflect.New(t)
		p.Elem().Set(sv)
		return p.Interface(), t
	}
	return sv.Interface(), t
}

// ---------------------------------------------------------------- known findings (narrow predicates)

// ptrToEmptyMessage: the value holds a non-nil pointer to a message none of whose fields can be
// written (all nil pointers / empty repeated fields): the package writes nothing for it.
func lostPointer(shape []pField, v pVal) bool {
	for i, f := range shape {
		x := v.Xs[i]
		if f.C == "ptr" && x.T == "p" && isMsgKind(f.K) && emptyEncoding(subShapes[f.K], x.Xs[0]) {
			return true
		}
		if isMsgKind(f.K) {
			switch f.C {
			case "one":
				if lostPointer(subShapes[f.K], x) {
					return true
				}
			case "ptr":
				if x.T == "p" && lostPointer(subShapes[f.K], x.Xs[0]) {
					return true
				}
			case "rep", "map":
				for _, e := range x.Xs {
					ev := e
					if f.C == "map" {
						ev = e.Xs[0]
					}
					if lostPointer(subShapes[f.K], ev) {
						return true
					}
				}
			}
		}
	}
	return false
}

// emptyEncoding: under wantzero the message still has nothing to write
func emptyEncoding(shape []pField, v pVal) bool {
	for i, f := range shape {
		x := v.Xs[i]
		switch f.C {
		case "one":
			if !isMsgKind(f.K) || !emptyEncoding(subShapes[f.K], x) {
				return false
			}
		case "ptr":
			if x.T == "p" && !(isMsgKind(f.K) && emptyEncoding(subShapes[f.K], x.Xs[0])) {
				return false
			}
		case "rep":
			if len(x.Xs) > 0 {
				return false
			}
		case "map":
			return false
		}
	}
	return true
}

// bigNumber: a struct tag asks for a field number that does not fit the 16 bits the package keeps
func bigNumber(shape []pField) bool {
	for _, f := range shape {
		if f.N > 65535 {
			return true
		}
	}
	return false
}

func hasEmptyMap(shape []pField, v pVal) bool {
	for i, f := range shape {
		if f.C == "map" && len(v.Xs[i].Xs) == 0 {
			return true
		}
	}
	return false
}

// ---------------------------------------------------------------- C03

func c03Run(c *Ctx, k protoCase) {
	l := lift{k.Salt}
	want := l.treeOfAbstract(k.Shape, k.Val)
	fail := func(api, w, g, finding string) { c.Diverge("C03", api, w, g, finding, k) }
	x, t := goValue(l, k.Shape, k.Val, k.Ptr)
	if k.What == "toplevel" {
		c03TopLevel(c, k, topLevelBlob(x, k.Ptr))
		return
	}
	var b []byte
	var err error
	for _, ph := range k.Poison {
		pb, _ := hex.DecodeString(ph)
		protect(func() { proto.Unmarshal(pb, reflect.New(t).Interface()) })
	}
	if p := protect(func() { b, err = proto.Marshal(x) }); p != "" {
		fail("proto.Marshal", "no panic", p, "")
		return
	}
	c.Eval(1)
	if err != nil {
		fail("proto.Marshal", "nil error (no user-supplied methods)", err.Error(), "")
		return
	}
	var size int
	if p := protect(func() { size = proto.Size(x) }); p != "" {
		fail("proto.Size", "no panic", p, "")
		return
	}
	if size != len(b) {
		fail("proto.Size", fmt.Sprintf("len(Marshal)=%d", len(b)), fmt.Sprint(size), "")
	}
	if !hasBigMap(k.Val) {
		b2, _ := proto.Marshal(x)
		if !bytes.Equal(b, b2) {
			fail("proto.Marshal(determinism)", hex.EncodeToString(b), hex.EncodeToString(b2), "")
		}
	}
	out := reflect.New(t)
	if p := protect(func() { err = proto.Unmarshal(b, out.Interface()) }); p != "" {
		fail("proto.Unmarshal(Marshal(v))", "no panic", p, "")
		return
	}
	c.Eval(1)
	if err != nil {
		fail("proto.Unmarshal(Marshal(v))", "nil error", err.Error(), "")
		return
	}
	got := treeOfGo(k.Shape, out.Elem())
	if treeString(got) != treeString(want) {
		finding := ""
		if lostPointer(k.Shape, k.Val) {
			finding = "F-C03-1"
		}
		fail("proto.Unmarshal(Marshal(v))", treeString(want), treeString(got)+" bytes="+hex.EncodeToString(b), finding)
	}
}

// c03TopLevel: Size / Marshal / Unmarshal on a value with marshalling methods of its own
func c03TopLevel(c *Ctx, k protoCase, x any) {
	fail := func(api, w, g string) { c.Diverge("C03", api+"(top-level "+k.Shape[0].K+")", w, g, "", k) }
	var b []byte
	var err error
	size := 0
	c.Eval(1)
	if p := protect(func() { b, err = proto.Marshal(x); size = proto.Size(x) }); p != "" {
		fail("proto.Marshal", "no panic", p)
		return
	}
	if err != nil {
		fail("proto.Marshal", "nil error", err.Error())
		return
	}
	if size != len(b) {
		fail("proto.Size", fmt.Sprintf("len(Marshal)=%d", len(b)), fmt.Sprint(size))
	}
	t := reflect.TypeOf(x)
	if t.Kind() == reflect.Pointer {
		t = t.Elem()
	}
	out := reflect.New(t)
	if p := protect(func() { err = proto.Unmarshal(b, out.Interface()) }); p != "" || err != nil {
		fail("proto.Unmarshal(Marshal(v))", "nil error", fmt.Sprintf("%v %s", err, p))
		return
	}
	want := reflect.ValueOf(x)
	if want.Kind() == reflect.Pointer {
		want = want.Elem()
	}
	if w, g := canonScalar(k.Shape[0].K, want.Interface()), canonScalar(k.Shape[0].K, out.Elem().Interface()); w != g {
		fail("proto.Unmarshal(Marshal(v))", w, g)
	}
}

type poisonSrc struct {
	recs []pRec
	salt int
}

var (
	c03PrevMu sync.Mutex
	c03Prev   = map[string][]poisonSrc{} // per shape: the encodings of the last values seen
)

// poisonFor returns damaged encodings of the values of this shape seen before (per property), and remembers this one
func poisonFor(prop string, shape []pField, wire []pRec, salt int) []string {
	key := prop + "/" + shapeKey(shape)
	c03PrevMu.Lock()
	prev := append([]poisonSrc(nil), c03Prev[key]...)
	c03PrevMu.Unlock()
	var poison []string
	for _, ps := range prev {
		for _, recs := range damagedRecs(ps.recs) {
			poison = append(poison, hex.EncodeToString(lift{ps.salt}.encodeRecs(recs, wireOpts{})))
		}
	}
	if len(poison) > 24 {
		poison = poison[:24]
	}
	c03PrevMu.Lock()
	if len(prev) >= 3 {
		prev = prev[1:]
	}
	c03Prev[key] = append(prev, poisonSrc{wire, salt})
	c03PrevMu.Unlock()
	return poison
}

// damagedRecs: the message with a record of an invalid wire type (7) appended - at the top level and inside
// every embedded message / map entry (so that decoding fails after the fields before it were decoded) - and
// with every embedded record's last field cut off
func damagedRecs(recs []pRec) [][]pRec {
	bad := pRec{N: 3, W: 7}
	out := [][]pRec{append(append([]pRec(nil), recs...), bad)}
	for i, r := range recs {
		if r.W == 2 && (r.K == "entry" || isMsgKind(r.K)) {
			cp := append([]pRec(nil), recs...)
			cp[i].Sub = append(append([]pRec(nil), r.Sub...), bad)
			out = append(out, cp)
			for _, inner := range damagedRecs(r.Sub)[1:] {
				cp2 := append([]pRec(nil), recs...)
				cp2[i].Sub = inner
				out = append(out, cp2)
			}
		}
	}
	return out
}

func c03Vector(c *Ctx, raw stdjson.RawMessage) {
	v, ok := parseProtoVec(c, "C03", raw)
	if !ok {
		return
	}
	c.Nontrivial()
	r := newRng(c.Seed, string(raw))
	salts := []int{0, 1 + r.intn(6)}
	for _, salt := range salts {
		l := lift{salt}
		// REF: the specification's standard encoding decodes, under the reference implementation, to the value
		if tr, err := refDecode(v.Shape, l.encodeRecs(v.Wire, wireOpts{})); err != nil {
			c.SpecError("C03", "reference rejects the specification's encoding: "+err.Error(), protoCase{Shape: v.Shape, Val: v.Val, Salt: salt})
			return
		} else if treeString(tr) != treeString(l.treeOfAbstract(v.Shape, v.Val)) {
			c.SpecError("C03", "reference decodes the specification's encoding differently: "+treeString(tr), protoCase{Shape: v.Shape, Val: v.Val, Salt: salt})
			return
		}
		for _, ptr := range []bool{false, true} {
			c.Case()
			c03Run(c, protoCase{Shape: v.Shape, Val: v.Val, Salt: salt, Ptr: ptr})
		}
	}
	// a value with marshalling methods of its own as the top-level argument
	if len(v.Shape) == 1 && v.Shape[0].C == "one" && isBlobKind(v.Shape[0].K) {
		for _, ptr := range []bool{false, true} {
			c.Case()
			c03Run(c, protoCase{Shape: v.Shape, Val: v.Val, Salt: salts[1], Ptr: ptr, What: "toplevel"})
		}
	}
	// history: the round trip after failed decodes of damaged encodings of other values of the same type
	if poison := poisonFor("C03", v.Shape, v.Wire, salts[1]); len(poison) > 0 {
		c.Case()
		c03Run(c, protoCase{Shape: v.Shape, Val: v.Val, Salt: salts[1], Ptr: r.intn(2) == 0, Poison: poison})
	}
	// lifting: string lengths that take the sizes of the enclosing records across the varint boundaries
	for _, n := range strLenSweep(c, r, v.Shape) {
		c.Case()
		c03Run(c, protoCase{Shape: v.Shape, Val: v.Val, Salt: strLenSalt + n, Ptr: n%2 == 0})
	}
	c.Sample(map[string]any{"shape": v.Shape, "value": v.Val})
	// lifting: repeated fields of 9/10/11, 20/21, 40/41 and a thousand elements (slice growth: 10, 20, 40, ...)
	ns := []int{9, 10, 11, 20, 21, 41}
	n := ns[r.intn(len(ns))]
	if c.Tier == "thorough" || r.intn(8) == 0 {
		ns = append(ns, 1000+r.intn(100))
	}
	for _, n = range []int{n, ns[len(ns)-1]} {
		if sv, did := stretch(v.Shape, v.Val, n); did {
			c.Case()
			c03Run(c, protoCase{Shape: v.Shape, Val: sv, Salt: salts[1], Ptr: r.intn(2) == 0})
		}
	}
	// model conformance (informational, not a verdict): does the package still encode by the policy in ImplWire?
	l := lift{0}
	x, _ := goValue(l, v.Shape, v.Val, false)
	var b []byte
	var err error
	if pan := protect(func() { b, err = proto.Marshal(x) }); pan == "" && err == nil && !hasBigMap(v.Val) {
		if !bytes.Equal(b, l.encodeRecs(v.Impl, wireOpts{})) {
			c.Extra("impl_policy_drift", 1)
		} else {
			c.Extra("impl_policy_match", 1)
		}
	}
}

// strLenSweep: the string lengths run for a vector.  Every shape with a string leaf gets every length of
// the window around 128 (tags, keys and length prefixes of up to three enclosing records included) when it
// has a single field, one time in 8 otherwise (always in the thorough tier); the window around 16384 one
// time in 4 of those.
func strLenSweep(c *Ctx, r *rng, shape []pField) []int {
	if !hasStringLeaf(shape) || !(len(shape) == 1 || c.Tier == "thorough" || r.intn(8) == 0) {
		return nil
	}
	var ns []int
	for n := 104; n <= 130; n++ {
		ns = append(ns, n)
	}
	if r.intn(4) == 0 {
		for n := 16384 - 26; n <= 16386; n++ {
			ns = append(ns, n)
		}
	}
	return ns
}

// c03CompositeMaps: maps whose keys are messages (plain structs, nested structs, types that marshal themselves) - a use
// the standard forbids and the package supports, so outside spec/ProtoCodec.tla and its reference - with every kind of
// value: round trip and Size, on the entry codecs that are assembled from the key's and the value's own
type cmPoint struct {
	X int32
	Y string
}
type cmDeep struct {
	P cmPoint
	Z bool
}

// gogoP / gogoV: structs of the shape generated code has - the gogo-style methods AND the ProtoMessage marker (on the
// pointer or on the value receiver).  The marker makes the package encode them by reflection like any other struct.
type gogoPlain struct {
	A int32
	B string
}
type gogoP gogoPlain
type gogoV gogoPlain

func (*gogoP) ProtoMessage()                    {}
func (g gogoP) Size() int                       { return proto.Size(gogoPlain(g)) }
func (g gogoP) MarshalTo(b []byte) (int, error) { return proto.MarshalTo(b, gogoPlain(g)) }
func (g *gogoP) Unmarshal(b []byte) error       { return proto.Unmarshal(b, (*gogoPlain)(g)) }
func (gogoV) ProtoMessage()                     {}
func (g gogoV) Size() int                       { return proto.Size(gogoPlain(g)) }
func (g gogoV) MarshalTo(b []byte) (int, error) { return proto.MarshalTo(b, gogoPlain(g)) }
func (g *gogoV) Unmarshal(b []byte) error       { return proto.Unmarshal(b, (*gogoPlain)(g)) }

type gogoHolder struct {
	X  int32
	G  gogoP
	P  *gogoP
	L  []gogoP
	LP []*gogoP
	M  map[string]gogoP
	V  gogoV
	PV *gogoV
	LV []gogoV
	Z  string
}

// c03Generated: values of such types nested in every position: round trip and Size
func c03Generated(c *Ctx) {
	vals := []gogoHolder{
		{},
		{X: 1, G: gogoP{7, "hi"}, P: &gogoP{8, "p"}, L: []gogoP{{1, "a"}, {}, {0, "c"}}, LP: []*gogoP{{2, "b"}, {}}, M: map[string]gogoP{"k": {3, "m"}, "": {}},
			V: gogoV{4, "v"}, PV: &gogoV{5, ""}, LV: []gogoV{{6, "x"}, {}}, Z: "z"},
		{G: gogoP{0, "only b"}, P: &gogoP{}, V: gogoV{9, ""}, PV: &gogoV{}},
		{G: gogoP{7, "hello"}, L: []gogoP{{7, "hello"}}, M: map[string]gogoP{"hello": {7, "hello"}}},
	}
	for i := range vals {
		v := vals[i]
		k := protoCase{What: fmt.Sprintf("generated-code types %d", i)}
		fail := func(api, w, g string) {
			c.Diverge("C03", api+"(types with gogo-style methods and the ProtoMessage marker)", w, g, "", k)
		}
		for _, x := range []any{v, &v} {
			var b []byte
			var err error
			size := -1
			c.Eval(1)
			c.Case()
			if p := protect(func() { b, err = proto.Marshal(x); size = proto.Size(x) }); p != "" || err != nil {
				fail("proto.Marshal", "nil error", fmt.Sprintf("%v %s", err, p))
				continue
			}
			if size != len(b) {
				fail("proto.Size", fmt.Sprintf("len(Marshal)=%d", len(b)), fmt.Sprint(size))
			}
			var out gogoHolder
			if p := protect(func() { err = proto.Unmarshal(b, &out) }); p != "" || err != nil {
				fail("proto.Unmarshal(Marshal(v))", "nil error", fmt.Sprintf("%v %s bytes=%x", err, p, b))
				continue
			}
			w, _ := stdjson.Marshal(v)
			g, _ := stdjson.Marshal(out)
			norm := func(s []byte) string { // nil and empty slices / maps, nil and zero pointers to messages are written alike
				r := strings.NewReplacer(":null", ":Z", ":[]", ":Z", ":{}", ":Z", `:{"A":0,"B":""}`, ":Z")
				return r.Replace(string(s))
			}
			if norm(w) != norm(g) {
				fail("proto.Unmarshal(Marshal(v))", string(w), string(g)+fmt.Sprintf(" bytes=%x", b))
			}
		}
	}
}

// recursive message types, entered through a value, a pointer, a slice and a map (the codec of a type is looked up
// while it is still being built)
type recNodeP struct {
	V    int32
	Kids []*recNodeP
	M    map[string]*recNodeP
	Next *recNodeP
}
type recOuterP struct {
	A int32
	N *recNodeP
}
type recOuterV struct {
	N recNodeP
	Z string
}
type recOuterL struct{ L []*recNodeP }
type recOuterM struct{ M map[int32]*recNodeP }

func c03Recursive(c *Ctx) {
	leaf := func(v int32) *recNodeP { return &recNodeP{V: v} }
	tree := &recNodeP{V: 1, Kids: []*recNodeP{leaf(2), {V: 3, Kids: []*recNodeP{leaf(4)}, M: map[string]*recNodeP{"k": leaf(5)}}}, Next: &recNodeP{V: 6, Next: leaf(0)}}
	vals := []any{recOuterP{A: 1, N: tree}, &recOuterP{N: tree}, recOuterV{N: *tree, Z: "z"}, recOuterL{L: []*recNodeP{tree, leaf(7)}}, recOuterM{M: map[int32]*recNodeP{1: tree}}, *tree, tree,
		recOuterP{N: &recNodeP{Kids: []*recNodeP{{}}}}}
	for i, v := range vals {
		k := protoCase{What: fmt.Sprintf("recursive types %d", i)}
		fail := func(api, w, g string) { c.Diverge("C03", api+"(recursive message types)", w, g, "", k) }
		var b []byte
		var err error
		size := -1
		c.Eval(1)
		c.Case()
		if p := protect(func() { b, err = proto.Marshal(v); size = proto.Size(v) }); p != "" || err != nil {
			fail("proto.Marshal", "nil error", fmt.Sprintf("%v %s", err, p))
			continue
		}
		if size != len(b) {
			fail("proto.Size", fmt.Sprintf("len(Marshal)=%d", len(b)), fmt.Sprint(size))
		}
		t := reflect.TypeOf(v)
		if t.Kind() == reflect.Pointer {
			t = t.Elem()
		}
		out := reflect.New(t)
		if p := protect(func() { err = proto.Unmarshal(b, out.Interface()) }); p != "" || err != nil {
			fail("proto.Unmarshal(Marshal(v))", "nil error", fmt.Sprintf("%v %s bytes=%x", err, p, b))
			continue
		}
		w, _ := stdjson.Marshal(v)
		g, _ := stdjson.Marshal(out.Interface())
		norm := func(s []byte) string {
			return strings.NewReplacer(":null", ":Z", ":[]", ":Z", ":{}", ":Z").Replace(string(s))
		}
		if norm(w) != norm(g) {
			fail("proto.Unmarshal(Marshal(v))", string(w), string(g)+fmt.Sprintf(" bytes=%x", b))
		}
	}
}

// c03Integers: integers of every varint length (1..10 bytes), each 7-bit group distinct so that a byte written from
// the wrong bits shows, in every Go integer kind and under the zig-zag and fixed tags, plain, repeated, as map key and
// value and behind a pointer: round trip, Size, and the bytes against a varint encoder written out here
type intLattice struct {
	U   uint64           `protobuf:"varint,1,opt"`
	I   int64            `protobuf:"varint,2,opt"`
	N   int              `protobuf:"varint,3,opt"`
	UN  uint             `protobuf:"varint,4,opt"`
	Z   int64            `protobuf:"zigzag64,5,opt"`
	ZN  int              `protobuf:"zigzag64,6,opt"`
	Z32 int32            `protobuf:"zigzag32,7,opt"`
	U32 uint32           `protobuf:"varint,8,opt"`
	I32 int32            `protobuf:"varint,9,opt"`
	R   []uint64         `protobuf:"varint,10,rep"`
	M   map[uint64]int64 `protobuf:"bytes,11,rep" protobuf_key:"varint,1,opt" protobuf_val:"varint,2,opt"`
	P   *int64           `protobuf:"varint,12,opt"`
	F   uint64           `protobuf:"fixed64,13,opt"`
	S   string           `protobuf:"bytes,14,opt"`
}

func c03Integers(c *Ctx) { protoIntegers(c, "C03") }

// protoByteArrayPositions: a byte-array field is left out when all its bytes are zero, which the code decides a word at
// a time with a tail of 1..7 bytes: arrays of every length around the word sizes whose only non-zero byte sits at each
// position in turn are written (standard encoding: tag, length, the bytes) and come back
func protoByteArrayPositions(c *Ctx, prop string) {
	for _, n := range []int{1, 2, 3, 4, 5, 6, 7, 8, 9, 10, 11, 12, 13, 14, 15, 16, 17, 23, 24, 25, 31, 32, 33, 39, 63, 64, 65} {
		t := reflect.StructOf([]reflect.StructField{
			{Name: "A", Type: reflect.TypeOf(int32(0))},
			{Name: "F", Type: reflect.ArrayOf(n, reflect.TypeOf(byte(0)))},
			{Name: "Z", Type: reflect.TypeOf("")},
		})
		for i := 0; i < n; i++ {
			for _, bv := range []byte{1, 0x80} {
				for _, around := range []bool{false, true} {
					k := protoCase{What: fmt.Sprintf("byte array positions n=%d i=%d", n, i)}
					v := reflect.New(t).Elem()
					v.Field(1).Index(i).SetUint(uint64(bv))
					var want []byte
					if around {
						v.Field(0).SetInt(5)
						v.Field(2).SetString("z")
						want = []byte{1 << 3, 5}
					}
					want = append(append(want, 2<<3|2), uvarintBytes(uint64(n))...)
					arr := make([]byte, n)
					arr[i] = bv
					want = append(want, arr...)
					if around {
						want = append(want, 3<<3|2, 1, 'z')
					}
					var b []byte
					var err error
					size := -1
					c.Case()
					c.Eval(1)
					api := "(byte array whose only non-zero byte is at each position)"
					if p := protect(func() { b, err = proto.Marshal(v.Interface()); size = proto.Size(v.Interface()) }); p != "" || err != nil {
						c.Diverge(prop, "proto.Marshal"+api, "nil error", fmt.Sprintf("%v %s", err, p), "", k)
						continue
					}
					if !bytes.Equal(b, want) || size != len(want) {
						c.Diverge(prop, "proto.Marshal"+api, fmt.Sprintf("%x (Size %d)", want, len(want)), fmt.Sprintf("%x (Size %d)", b, size), "", k)
						continue
					}
					out := reflect.New(t)
					if p := protect(func() { err = proto.Unmarshal(b, out.Interface()) }); p != "" || err != nil || !reflect.DeepEqual(out.Elem().Interface(), v.Interface()) {
						c.Diverge(prop, "proto.Unmarshal(Marshal(v))"+api, fmt.Sprintf("%v", v.Interface()), fmt.Sprintf("%v err=%v %s", out.Elem().Interface(), err, p), "", k)
					}
				}
			}
		}
	}
}

// protoFieldNumbers: fields numbered around every power of two up to the 16 bits the package keeps (whatever table or
// map a decoder looks numbers up in has its boundaries there), all in one struct and each alone, of three wire types
func protoFieldNumbers(c *Ctx, prop string) {
	var nums []int
	for p := 1; p <= 15; p++ {
		for _, d := range []int{-1, 0, 1} {
			if n := 1<<p + d; n >= 1 && n <= 65535 && (len(nums) == 0 || nums[len(nums)-1] < n) {
				nums = append(nums, n)
			}
		}
	}
	nums = append(nums, 65535)
	kinds := []struct {
		t   reflect.Type
		tag string
		set func(v reflect.Value, i int)
	}{
		{reflect.TypeOf(int32(0)), "varint", func(v reflect.Value, i int) { v.SetInt(int64(i + 1)) }},
		{reflect.TypeOf(""), "bytes", func(v reflect.Value, i int) { v.SetString("s" + strconv.Itoa(i)) }},
		{reflect.TypeOf(uint64(0)), "fixed64", func(v reflect.Value, i int) { v.SetUint(uint64(i + 1)) }},
	}
	build := func(ns []int, ki int) reflect.Type {
		var fs []reflect.StructField
		for _, n := range ns {
			fs = append(fs, reflect.StructField{Name: "F" + strconv.Itoa(n), Type: kinds[ki].t, Tag: reflect.StructTag(fmt.Sprintf(`protobuf:"%s,%d,opt"`, kinds[ki].tag, n))})
		}
		return reflect.StructOf(fs)
	}
	check := func(ns []int, ki int) {
		k := protoCase{What: fmt.Sprintf("field numbers %v kind %d", ns, ki)}
		if len(ns) > 3 {
			k.What = fmt.Sprintf("field numbers (all %d) kind %d", len(ns), ki)
		}
		t := build(ns, ki)
		v := reflect.New(t).Elem()
		for i := range ns {
			kinds[ki].set(v.Field(i), i)
		}
		var b []byte
		var err error
		c.Case()
		c.Eval(1)
		if p := protect(func() { b, err = proto.Marshal(v.Interface()) }); p != "" || err != nil {
			c.Diverge(prop, "proto.Marshal(field numbers around the powers of two)", "nil error", fmt.Sprintf("%v %s", err, p), "", k)
			return
		}
		// every field is on the wire under its own number, in declaration order
		rest := b
		for i, n := range ns {
			tag, tn := binary.Uvarint(rest)
			if tn <= 0 || int(tag>>3) != n {
				c.Diverge(prop, "proto.Marshal(field numbers around the powers of two)", fmt.Sprintf("field %d written under number %d", i, n), fmt.Sprintf("number %d (bytes %x)", tag>>3, b), "", k)
				return
			}
			rest = rest[tn:]
			switch tag & 7 {
			case 0:
				_, vn := binary.Uvarint(rest)
				rest = rest[vn:]
			case 1:
				rest = rest[8:]
			case 2:
				l, ln := binary.Uvarint(rest)
				rest = rest[ln+int(l):]
			}
		}
		out := reflect.New(t)
		if p := protect(func() { err = proto.Unmarshal(b, out.Interface()) }); p != "" || err != nil || !reflect.DeepEqual(out.Elem().Interface(), v.Interface()) {
			c.Diverge(prop, "proto.Unmarshal(Marshal(v))(field numbers around the powers of two)", fmt.Sprintf("%+v", v.Interface()), fmt.Sprintf("%+v err=%v %s", out.Elem().Interface(), err, p), "", k)
		}
	}
	// every number up to 4100 alone (a table of any size a decoder may index fields by ends somewhere), then every 257th
	for n := 1; n <= 65535; n++ {
		if n > 4100 && n%257 != 0 {
			continue
		}
		check([]int{n}, 0)
	}
	for ki := range kinds {
		check(nums, ki)
		for _, n := range nums {
			check([]int{n}, ki)
		}
		for i := 0; i+1 < len(nums); i += 2 {
			check([]int{nums[i], nums[i+1]}, ki)
		}
	}
}

func protoIntegers(c *Ctx, prop string) {
	protoByteArrayPositions(c, prop)
	protoFieldNumbers(c, prop)
	var lat []uint64
	for n := 1; n <= 10; n++ {
		var v uint64
		for j := 0; j < n && j < 9; j++ {
			v |= uint64(j+1+n) & 0x7f << (7 * j)
		}
		if n == 10 {
			v |= 1 << 63
		}
		lat = append(lat, v, v|1<<(7*uint(min(n, 9))-1))
	}
	lat = append(lat, 0x1234567890AB, 1<<42+1<<30, 1<<49-1, 1<<42, 1<<35-1, 1<<56, math.MaxUint64, 1<<63)
	uv := func(b []byte, v uint64) []byte {
		for v >= 0x80 {
			b = append(b, byte(v)|0x80)
			v >>= 7
		}
		return append(b, byte(v))
	}
	zz := func(v int64) uint64 { return uint64(v<<1) ^ uint64(v>>63) }
	for i, v := range lat {
		for _, neg := range []bool{false, true} {
			sv := int64(v)
			if neg {
				sv = -int64(v >> 1)
			}
			in := intLattice{U: v, I: sv, N: int(sv), UN: uint(v), Z: sv, ZN: int(sv), Z32: int32(sv), U32: uint32(v), I32: int32(sv), R: []uint64{v, 1, v}, M: map[uint64]int64{v: sv}, P: &sv, F: v, S: "end"}
			k := protoCase{What: fmt.Sprintf("integer lattice %d neg=%v", i, neg)}
			fail := func(api, w, g string) { c.Diverge(prop, api+"(integers of every varint length)", w, g, "", k) }
			c.Case()
			c.Eval(1)
			var b []byte
			var err error
			size := -1
			if p := protect(func() { b, err = proto.Marshal(in); size = proto.Size(in) }); p != "" || err != nil {
				fail("proto.Marshal", "nil error", fmt.Sprintf("%v %s", err, p))
				continue
			}
			if size != len(b) {
				fail("proto.Size", fmt.Sprintf("len(Marshal)=%d", len(b)), fmt.Sprint(size))
			}
			// the expected bytes: fields in number order, zero values left out
			var want []byte
			put := func(num int, x uint64) {
				if x != 0 {
					want = uv(uv(want, uint64(num)<<3), x)
				}
			}
			put(1, v)
			put(2, uint64(sv))
			put(3, uint64(int64(int(sv))))
			put(4, uint64(uint(v)))
			put(5, zz(sv))
			put(6, zz(int64(int(sv))))
			put(7, uint64(uint32(int32(sv)<<1)^uint32(int32(sv)>>31)))
			put(8, uint64(uint32(v)))
			put(9, uint64(int64(int32(sv))))
			want = uv(uv(want, 12<<3), uint64(sv))
			if v != 0 {
				want = binary.LittleEndian.AppendUint64(uv(want, 13<<3|1), v)
			}
			want = append(uv(uv(want, 14<<3|2), 3), "end"...)
			// (the package writes the repeated and map fields behind the others)
			for _, e := range in.R {
				want = uv(uv(want, 10<<3), e)
			}
			var entry []byte
			if v != 0 {
				entry = uv(uv(entry, 1<<3), v)
			}
			if sv != 0 {
				entry = uv(uv(entry, 2<<3), uint64(sv))
			}
			want = append(uv(uv(want, 11<<3|2), uint64(len(entry))), entry...)
			if !bytes.Equal(b, want) {
				fail("proto.Marshal", hex.EncodeToString(want), hex.EncodeToString(b))
			}
			var out intLattice
			if p := protect(func() { err = proto.Unmarshal(b, &out) }); p != "" || err != nil {
				fail("proto.Unmarshal(Marshal(v))", "nil error", fmt.Sprintf("%v %s", err, p))
				continue
			}
			if out.P == nil {
				out.P = new(int64)
			}
			ip, op := *in.P, *out.P
			in.P, out.P = nil, nil
			if !reflect.DeepEqual(in, out) || ip != op {
				fail("proto.Unmarshal(Marshal(v))", fmt.Sprintf("%+v", in), fmt.Sprintf("%+v", out))
			}
			in.P = &sv
		}
	}
}

func c03CompositeMaps(c *Ctx) {
	c03Integers(c)
	c03Recursive(c)
	c03Generated(c)
	keys := [][]any{
		{cmPoint{}, cmPoint{1, "a"}, cmPoint{0, "b"}},
		{cmDeep{}, cmDeep{cmPoint{2, ""}, true}, cmDeep{cmPoint{}, true}},
		{PairMsg{}, PairMsg{1, 2}, PairMsg{0, 9}},
		{CustMsg{}, CustMsg{5}, CustMsg{6}},
		{int32(0), int32(7), int32(-1)},
		{"", "k", "kk"},
	}
	vals := [][]any{
		{int32(0), int32(5), int32(-5)},
		{"", "v", "vv"},
		{[]byte(nil), []byte{1, 2}, []byte{0}},
		{cmPoint{}, cmPoint{3, "p"}, cmPoint{0, "q"}},
		{(*cmPoint)(nil), &cmPoint{3, "p"}, &cmPoint{}},
		{cmDeep{}, cmDeep{cmPoint{4, "d"}, false}, cmDeep{cmPoint{}, true}},
		{proto.RawMessage(nil), proto.RawMessage{0x08, 0x01}, proto.RawMessage{0x12, 0x01, 'r'}},
		{PairMsg{}, PairMsg{3, 4}, PairMsg{0, 1}},
		{(*PairMsg)(nil), &PairMsg{3, 4}, &PairMsg{}},
		{CustMsg{}, CustMsg{9}, CustMsg{1}},
		{(*CustMsg)(nil), &CustMsg{9}, &CustMsg{}},
	}
	for ki, ks := range keys {
		for vi, vs := range vals {
			if ki >= 4 && vi < 3 {
				continue // scalar keys with scalar values: the model's ground
			}
			kt, vt := reflect.TypeOf(ks[0]), reflect.TypeOf(vs[0])
			mt := reflect.MapOf(kt, vt)
			st := reflect.StructOf([]reflect.StructField{{Name: "A", Type: reflect.TypeOf(int32(0))}, {Name: "M", Type: mt}, {Name: "Z", Type: reflect.TypeOf("")}})
			for n := 0; n <= 3; n++ { // entries: none, the zero key with the zero value, then more
				m := reflect.MakeMap(mt)
				for i := 0; i < n; i++ {
					m.SetMapIndex(reflect.ValueOf(ks[i]), reflect.ValueOf(vs[(i+n)%3]))
				}
				v := reflect.New(st).Elem()
				v.Field(0).SetInt(int64(n))
				v.Field(1).Set(m)
				v.Field(2).SetString("z")
				k := protoCase{What: fmt.Sprintf("composite map: map[%v]%v with %d entries", kt, vt, n)}
				fail := func(api, w, g string) {
					c.Diverge("C03", api+"(map with message keys or self-marshalling values)", w, g, "", k)
				}
				var b []byte
				var err error
				size := -1
				c.Eval(1)
				if p := protect(func() { b, err = proto.Marshal(v.Interface()); size = proto.Size(v.Interface()) }); p != "" || err != nil {
					fail("proto.Marshal", "nil error", fmt.Sprintf("%v %s", err, p))
					continue
				}
				if size != len(b) {
					fail("proto.Size", fmt.Sprintf("len(Marshal)=%d", len(b)), fmt.Sprint(size))
				}
				out := reflect.New(st)
				if p := protect(func() { err = proto.Unmarshal(b, out.Interface()) }); p != "" || err != nil {
					fail("proto.Unmarshal(Marshal(v))", "nil error", fmt.Sprintf("%v %s bytes=%x", err, p, b))
					continue
				}
				got := out.Elem()
				same := got.Field(0).Int() == int64(n) && got.Field(2).String() == "z" && got.Field(1).Len() == n
				if same && n > 0 {
					same = cmEqual(m, got.Field(1))
				}
				if !same {
					fail("proto.Unmarshal(Marshal(v))", fmt.Sprintf("%+v", v.Interface()), fmt.Sprintf("%+v bytes=%x", got.Interface(), b))
				}
			}
		}
	}
}

// cmEqual: the same entries; values compared through pointers, nil and empty byte slices alike
func cmEqual(a, b reflect.Value) bool {
	it := a.MapRange()
	for it.Next() {
		bv := b.MapIndex(it.Key())
		if !bv.IsValid() {
			return false
		}
		x, y := it.Value(), bv
		if x.Kind() == reflect.Pointer {
			if x.IsNil() != y.IsNil() {
				// a nil pointer to a message and a pointer to the empty message are written alike
				if (x.IsNil() && !y.Elem().IsZero()) || (y.IsNil() && !x.Elem().IsZero()) {
					return false
				}
				continue
			}
			if x.IsNil() {
				continue
			}
			x, y = x.Elem(), y.Elem()
		}
		if x.Kind() == reflect.Slice && x.Len() == 0 && y.Len() == 0 {
			continue
		}
		if !reflect.DeepEqual(x.Interface(), y.Interface()) {
			return false
		}
	}
	return true
}

func c03Replay(c *Ctx, raw stdjson.RawMessage) {
	if varintVector(c, "C03", raw) {
		return
	}
	var k protoCase
	if stdjson.Unmarshal(raw, &k) == nil {
		if strings.HasPrefix(k.What, "composite map") || strings.HasPrefix(k.What, "generated-code types") || strings.HasPrefix(k.What, "recursive types") || strings.HasPrefix(k.What, "integer lattice") || strings.HasPrefix(k.What, "byte array positions") || strings.HasPrefix(k.What, "field numbers") {
			c03CompositeMaps(c)
			return
		}
		c03Run(c, k)
	}
}

// ---------------------------------------------------------------- C12

// F-C12-4: the elements of a repeated field tagged zigzag32/zigzag64/fixed32/fixed64 are written and read as
// plain varints of the Go type (the slice codec drops the flag and never picks the fixed codecs) although TypeOf
// documents sint32/sint64/fixed32/fixed64.  plainShape is the message the bytes really are an encoding of.
func plainShape(shape []pField) (out []pField, zig, fixed bool) {
	out = append([]pField(nil), shape...)
	for i, f := range out {
		if f.C != "rep" {
			continue
		}
		switch f.K {
		case "s32":
			out[i].K, zig = "i32", true
		case "s64":
			out[i].K, zig = "i64", true
		case "x32":
			out[i].K, fixed = "u32", true
		case "x64":
			out[i].K, fixed = "u64", true
		}
	}
	return
}

func c12Decode(c *Ctx, k protoCase, finding string) {
	b, _ := hex.DecodeString(k.Bytes)
	t := structTypeOf(k.Shape, "")
	for _, ph := range k.Poison {
		pb, _ := hex.DecodeString(ph)
		protect(func() { proto.Unmarshal(pb, reflect.New(t).Interface()) })
	}
	out := reflect.New(t)
	var err error
	c.Eval(1)
	if p := protect(func() { err = proto.Unmarshal(b, out.Interface()) }); p != "" {
		c.Diverge("C12", "proto.Unmarshal("+k.What+")", "no panic", p, finding, k)
		return
	}
	ps, zig, fixed := plainShape(k.Shape)
	if err != nil {
		if fixed && strings.Contains(err.Error(), "wire type") {
			finding = "F-C12-4" // fixed-width elements arrive where the code expects varints
		}
		if zig && strings.Contains(err.Error(), "overflow") {
			if _, rerr := refDecode(ps, b); rerr == nil {
				finding = "F-C12-4" // the zig-zag bits of an element read as a plain int32 do not fit
			}
		}
		c.Diverge("C12", "proto.Unmarshal("+k.What+")", k.Want, "error: "+err.Error(), finding, k)
		return
	}
	if got := treeString(treeOfGo(k.Shape, out.Elem())); got != k.Want {
		if zig || fixed {
			if tr, rerr := refDecode(ps, b); rerr == nil && treeString(tr) == got {
				finding = "F-C12-4" // exactly the standard bytes read as the plain message
			}
		}
		c.Diverge("C12", "proto.Unmarshal("+k.What+")", k.Want, got, finding, k)
	}
}

func c12Encode(c *Ctx, k protoCase) {
	l := lift{k.Salt}
	x, _ := goValue(l, k.Shape, k.Val, k.Ptr)
	var b []byte
	var err error
	pan := protect(func() { b, err = proto.Marshal(x) })
	c.Eval(1)
	if err != nil || pan != "" {
		return // C03's business
	}
	want := treeString(l.treeOfAbstract(k.Shape, k.Val))
	finding := ""
	if hasEmptyMap(k.Shape, k.Val) {
		finding = "F-C12-1"
	}
	if bigNumber(k.Shape) {
		finding = "F-C12-3"
	}
	if ps, zig, fixed := plainShape(k.Shape); zig || fixed {
		if tr, rerr := refDecode(ps, b); rerr == nil && treeString(tr) == want {
			finding = "F-C12-4" // the bytes are exactly the encoding of the plain message
		}
	}
	tr, rerr := refDecode(k.Shape, b)
	if rerr != nil {
		c.Diverge("C12", "reference.Unmarshal(proto.Marshal(v))", want, "reference rejects: "+rerr.Error()+" bytes="+hex.EncodeToString(b), finding, k)
		return
	}
	if lostPointer(k.Shape, k.Val) {
		return // the value itself cannot be represented (F-C03-1); nothing to compare
	}
	if treeString(tr) != want {
		c.Diverge("C12", "reference.Unmarshal(proto.Marshal(v))", want, treeString(tr)+" bytes="+hex.EncodeToString(b), finding, k)
	}
}

// hiddenType: the struct type of an untagged shape with unexported fields declared in front of and between the
// exported ones.  Unexported fields are no part of the message: TypeOf skips them and the numbering of the others.
var hiddenTypes sync.Map

func hiddenType(t reflect.Type) reflect.Type {
	if ht, ok := hiddenTypes.Load(t); ok {
		return ht.(reflect.Type)
	}
	var fields []reflect.StructField
	for i := 0; i < t.NumField(); i++ {
		fields = append(fields, reflect.StructField{Name: "hidden" + strconv.Itoa(i), PkgPath: "main", Type: reflect.TypeOf([]string(nil))})
		f := t.Field(i)
		fields = append(fields, reflect.StructField{Name: f.Name, Type: f.Type, Tag: f.Tag})
	}
	ht := reflect.StructOf(fields)
	hiddenTypes.Store(t, ht)
	return ht
}

// c12Hidden: the same message through the type with unexported fields: same bytes out, same value in
func c12Hidden(c *Ctx, k protoCase, canon []byte) {
	if tagged(k.Shape) {
		return
	}
	l := lift{k.Salt}
	x, t := goValue(l, k.Shape, k.Val, false)
	ht := hiddenType(t)
	hv := reflect.New(ht).Elem()
	xv := reflect.ValueOf(x)
	for i := 0; i < t.NumField(); i++ {
		hv.Field(2*i + 1).Set(xv.Field(i))
	}
	var b1, b2 []byte
	var e1, e2 error
	c.Eval(2)
	if p := protect(func() { b1, e1 = proto.Marshal(x); b2, e2 = proto.Marshal(hv.Interface()) }); p != "" {
		c.Diverge("C12", "proto.Marshal(type with unexported fields)", "no panic", p, "", k)
		return
	}
	if e1 == nil && (e2 != nil || (!hasBigMap(k.Val) && !bytes.Equal(b1, b2))) {
		c.Diverge("C12", "proto.Marshal(type with unexported fields)", hex.EncodeToString(b1), fmt.Sprintf("%x err=%v", b2, e2), "", k)
		return
	}
	out := reflect.New(ht)
	var ue error
	if p := protect(func() { ue = proto.Unmarshal(canon, out.Interface()) }); p != "" {
		c.Diverge("C12", "proto.Unmarshal(type with unexported fields)", "no panic", p, "", k)
		return
	}
	plain := reflect.New(t)
	pe := proto.Unmarshal(canon, plain.Interface())
	if (ue == nil) != (pe == nil) {
		c.Diverge("C12", "proto.Unmarshal(type with unexported fields)", fmt.Sprintf("err=%v as for the plain type", pe), fmt.Sprintf("err=%v", ue), "", k)
		return
	}
	if ue == nil {
		got := reflect.New(t).Elem()
		for i := 0; i < t.NumField(); i++ {
			got.Field(i).Set(out.Elem().Field(2*i + 1))
		}
		if w, g := treeString(treeOfGo(k.Shape, plain.Elem())), treeString(treeOfGo(k.Shape, got)); w != g {
			c.Diverge("C12", "proto.Unmarshal(type with unexported fields)", w, g, "", k)
		}
	}
}

func c12Vector(c *Ctx, raw stdjson.RawMessage) {
	var full struct {
		protoVec
		Re map[string][]pRec `json:"re"`
	}
	v, ok := parseProtoVec(c, "C12", raw)
	if !ok {
		return
	}
	stdjson.Unmarshal(raw, &full)
	c.Nontrivial()
	r := newRng(c.Seed, string(raw))
	for _, salt := range []int{0, 1 + r.intn(6)} {
		l := lift{salt}
		want := treeString(l.treeOfAbstract(v.Shape, v.Val))
		// encoder direction: the reference implementation reads our bytes
		for _, ptr := range []bool{false, true} {
			c.Case()
			c12Encode(c, protoCase{Shape: v.Shape, Val: v.Val, Salt: salt, Ptr: ptr})
		}
		// decoder direction: the specification's standard encoding, the reference's own encoding of it,
		// and every legal re-encoding, each also with non-minimal varints
		canon := l.encodeRecs(v.Wire, wireOpts{})
		try := func(what string, b []byte) {
			if tr, err := refDecode(v.Shape, b); err != nil || treeString(tr) != want {
				c.SpecError("C12", fmt.Sprintf("reference does not decode re-encoding %q to the value (err=%v)", what, err), protoCase{Shape: v.Shape, Val: v.Val, Salt: salt, Bytes: hex.EncodeToString(b)})
				return
			}
			c.Case()
			f := ""
			if bigNumber(v.Shape) {
				f = "F-C12-3"
			}
			c12Decode(c, protoCase{Shape: v.Shape, Val: v.Val, Salt: salt, Bytes: hex.EncodeToString(b), What: what, Want: want}, f)
			if what == "standard" || what == "zero-omitted" {
				// the same after failed decodes of damaged encodings of other values of the type (legal encodings may
				// leave default-valued keys / values / fields out: nothing stale may take their place)
				if poison := poisonFor("C12", v.Shape, v.Wire, salt); len(poison) > 0 {
					c.Case()
					c12Decode(c, protoCase{Shape: v.Shape, Val: v.Val, Salt: salt, Bytes: hex.EncodeToString(b), What: what + " after failed decodes", Want: want, Poison: poison}, f)
				}
			}
		}
		try("standard", canon)
		c.Case()
		c12Hidden(c, protoCase{Shape: v.Shape, Val: v.Val, Salt: salt, What: "hidden", Bytes: hex.EncodeToString(canon)}, canon)
		if rb, err := refEncode(v.Shape, canon); err == nil {
			try("reference.Marshal", rb)
		}
		for name, recs := range full.Re {
			if name == "unknown" || name == "aliased" {
				continue // C07
			}
			try(name, l.encodeRecs(recs, wireOpts{}))
			try(name+"+padded-varints", l.encodeRecs(recs, wireOpts{padVarints: 1 + r.intn(3), padLens: r.intn(2)}))
		}
		try("ten-byte-varints", l.encodeRecs(v.Wire, wireOpts{padVarints: 9, padTags: 1, padLens: 2}))
	}
	// string lengths that take the enclosing records across the varint boundaries (see strLenSweep)
	for _, n := range strLenSweep(c, r, v.Shape) {
		c.Case()
		c12Encode(c, protoCase{Shape: v.Shape, Val: v.Val, Salt: strLenSalt + n, Ptr: n%2 == 0})
	}
	c.Sample(map[string]any{"shape": v.Shape, "value": v.Val, "reencodings": sortedKeys(full.Re)})
}

func c12Replay(c *Ctx, raw stdjson.RawMessage) {
	if varintVector(c, "C12", raw) {
		return
	}
	var k protoCase
	if stdjson.Unmarshal(raw, &k) == nil && k.What == "hidden" {
		canon, _ := hex.DecodeString(k.Bytes)
		c12Hidden(c, k, canon)
		return
	}
	if stdjson.Unmarshal(raw, &k) != nil {
		return
	}
	if strings.HasPrefix(k.What, "integer lattice") || strings.HasPrefix(k.What, "byte array positions") || strings.HasPrefix(k.What, "field numbers") {
		protoIntegers(c, "C12")
		return
	}
	if k.Bytes != "" {
		c12Decode(c, k, "")
	} else {
		c12Encode(c, k)
	}
}

// ---------------------------------------------------------------- C16

// topLevelBlob: the value of the single field itself (a Message / custom / RawMessage value) as the
// top-level argument, by value or by pointer
func topLevelBlob(x any, ptr bool) any {
	v := reflect.ValueOf(x)
	if v.Kind() == reflect.Pointer {
		v = v.Elem()
	} else {
		cp := reflect.New(v.Type()).Elem()
		cp.Set(v)
		v = cp
	}
	f := v.Field(0)
	if ptr {
		return f.Addr().Interface()
	}
	return f.Interface()
}

func c16Run(c *Ctx, k protoCase) {
	l := lift{k.Salt}
	x, t := goValue(l, k.Shape, k.Val, k.Ptr)
	if k.What == "toplevel" {
		x = topLevelBlob(x, k.Ptr)
	}
	// Marshal only serves as the byte-for-byte reference; that it never fails is C03's business
	var ref []byte
	var err error
	size := 0
	if pan := protect(func() { ref, err = proto.Marshal(x); size = proto.Size(x) }); pan != "" {
		return // a panic in Marshal / Size is C03's business
	}
	refOK := err == nil
	want := treeString(l.treeOfAbstract(k.Shape, k.Val))
	fail := func(w, g string) { c.Diverge("C16", "proto.MarshalTo", w, g, "", k) }
	const guard = 24
	// the zero value of the same type, encoded before anything has failed: a call that fails for want of room must not
	// leave anything behind in the codec that shows in a later call (nil maps and empty slices are written from
	// prebuilt pieces)
	var zx any
	var zref []byte
	if k.What != "toplevel" {
		zv := reflect.New(t)
		zx = zv.Elem().Interface()
		if k.Ptr {
			zx = zv.Interface()
		}
		var zerr error
		if pan := protect(func() { zref, zerr = proto.Marshal(zx) }); pan != "" || zerr != nil {
			zx = nil
		}
	}
	for L := 0; L <= size+3; L++ {
		arr := make([]byte, L+guard)
		for i := range arr {
			arr[i] = 0xAA
		}
		buf := arr[:L]
		var n int
		var merr error
		c.Eval(1)
		if p := protect(func() { n, merr = proto.MarshalTo(buf, x) }); p != "" {
			fail(fmt.Sprintf("no panic (len(b)=%d, Size=%d)", L, size), p)
			return
		}
		for i := L; i < len(arr); i++ {
			if arr[i] != 0xAA {
				fail(fmt.Sprintf("no write at or beyond len(b)=%d", L), fmt.Sprintf("byte %d overwritten (Size=%d)", i, size))
				return
			}
		}
		if L >= size {
			if merr != nil || n != size {
				fail(fmt.Sprintf("n=%d, nil error (len(b)=%d)", size, L), fmt.Sprintf("n=%d err=%v", n, merr))
				return
			}
			if hasBigMap(k.Val) {
				out := reflect.New(t)
				if e := proto.Unmarshal(buf[:n], out.Interface()); e != nil || (!lostPointer(k.Shape, k.Val) && treeString(treeOfGo(k.Shape, out.Elem())) != want) {
					fail("a valid encoding of v", fmt.Sprintf("err=%v bytes=%x", e, buf[:n]))
					return
				}
			} else if refOK && !bytes.Equal(buf[:n], ref) {
				fail(hex.EncodeToString(ref), hex.EncodeToString(buf[:n]))
				return
			}
		} else {
			if merr == nil {
				fail(fmt.Sprintf("io.ErrShortBuffer (len(b)=%d < Size=%d)", L, size), fmt.Sprintf("n=%d nil error", n))
				return
			}
			if !errors.Is(merr, io.ErrShortBuffer) {
				fail(fmt.Sprintf("an error wrapping io.ErrShortBuffer (len(b)=%d < Size=%d)", L, size), merr.Error())
				return
			}
			if zx != nil {
				zbuf := make([]byte, len(zref)+8)
				var zn int
				var ze error
				c.Eval(1)
				if p := protect(func() { zn, ze = proto.MarshalTo(zbuf, zx) }); p != "" || ze != nil || !bytes.Equal(zbuf[:zn], zref) {
					fail(fmt.Sprintf("the zero value of the type still encoded as %x after a call that failed for want of room (len(b)=%d)", zref, L),
						fmt.Sprintf("%x err=%v %s", zbuf[:max(zn, 0)], ze, p))
					return
				}
			}
		}
	}
}

func c16Vector(c *Ctx, raw stdjson.RawMessage) {
	v, ok := parseProtoVec(c, "C16", raw)
	if !ok {
		return
	}
	c.Nontrivial()
	r := newRng(c.Seed, string(raw))
	for _, salt := range []int{0, 1 + r.intn(6)} {
		for _, ptr := range []bool{false, true} {
			c.Case()
			c16Run(c, protoCase{Shape: v.Shape, Val: v.Val, Salt: salt, Ptr: ptr})
		}
	}
	if sv, did := stretch(v.Shape, v.Val, 11+r.intn(3)); did {
		c.Case()
		c16Run(c, protoCase{Shape: v.Shape, Val: sv, Salt: 1})
	}
	// a value with marshalling methods of its own, or a scalar, as the top-level argument: there the leaf encoders see
	// the caller's destination itself, not a window cut to their size by an enclosing message
	if len(v.Shape) == 1 && v.Shape[0].C == "one" && !isMsgKind(v.Shape[0].K) {
		for _, ptr := range []bool{false, true} {
			c.Case()
			c16Run(c, protoCase{Shape: v.Shape, Val: v.Val, Salt: 2, Ptr: ptr, What: "toplevel"})
			if !isBlobKind(v.Shape[0].K) {
				c.Case()
				c16Run(c, protoCase{Shape: v.Shape, Val: v.Val, Salt: strLenSalt + 124 + r.intn(8), Ptr: ptr, What: "toplevel"})
			}
		}
	}
	// string lengths that take the enclosing records across the varint boundaries (see strLenSweep)
	for _, n := range strLenSweep(c, r, v.Shape) {
		if (n >= 116 && n < 1000) || (c.Tier == "thorough" && len(v.Shape) == 1 && n%8 == 0) { // the destination-length loop is quadratic: little of the 16 KiB window, single-field shapes only
			c.Case()
			c16Run(c, protoCase{Shape: v.Shape, Val: v.Val, Salt: strLenSalt + n, Ptr: n%2 == 0})
		}
	}
	c.Sample(map[string]any{"shape": v.Shape, "value": v.Val})
}

func c16Replay(c *Ctx, raw stdjson.RawMessage) {
	var k protoCase
	if stdjson.Unmarshal(raw, &k) == nil {
		c16Run(c, k)
	}
}

// ---------------------------------------------------------------- C07

// allocation meter: metered calls hold meterMu exclusively (all other driver work holds it
// shared), so the TotalAlloc delta belongs to the call.
var meterMu sync.RWMutex

func allocDuring(f func()) uint64 {
	var a, b runtime.MemStats
	runtime.ReadMemStats(&a)
	f()
	runtime.ReadMemStats(&b)
	return b.TotalAlloc - a.TotalAlloc
}

// exactEq: the same Go value, pointer for pointer (nil-ness included), floats bit for bit
func exactEq(a, b reflect.Value) bool {
	if a.IsValid() != b.IsValid() {
		return false
	}
	if !a.IsValid() {
		return true
	}
	if a.Type() != b.Type() {
		return false
	}
	switch a.Kind() {
	case reflect.Ptr, reflect.Interface:
		if a.IsNil() != b.IsNil() {
			return false
		}
		return a.IsNil() || exactEq(a.Elem(), b.Elem())
	case reflect.Struct:
		for i := 0; i < a.NumField(); i++ {
			if !exactEq(a.Field(i), b.Field(i)) {
				return false
			}
		}
		return true
	case reflect.Slice, reflect.Array:
		if a.Len() != b.Len() {
			return false
		}
		for i := 0; i < a.Len(); i++ {
			if !exactEq(a.Index(i), b.Index(i)) {
				return false
			}
		}
		return true
	case reflect.Map:
		if a.Len() != b.Len() {
			return false
		}
		for _, key := range a.MapKeys() {
			bv := b.MapIndex(key)
			if !bv.IsValid() || !exactEq(a.MapIndex(key), bv) {
				return false
			}
		}
		return true
	case reflect.Float32, reflect.Float64:
		return math.Float64bits(a.Float()) == math.Float64bits(b.Float())
	}
	return reflect.DeepEqual(a.Interface(), b.Interface())
}

// c07SameValue: Bytes2 is Bytes with well-formed fields inserted that the target does not declare: it decodes to
// exactly the value Bytes decodes to
func c07SameValue(c *Ctx, k protoCase) {
	b1, _ := hex.DecodeString(k.Bytes)
	b2, _ := hex.DecodeString(k.Bytes2)
	t := structTypeOf(k.Shape, "")
	o1, o2 := reflect.New(t), reflect.New(t)
	var e1, e2 error
	c.Case()
	c.Eval(1)
	if p := protect(func() { e1 = proto.Unmarshal(b1, o1.Interface()); e2 = proto.Unmarshal(b2, o2.Interface()) }); p != "" {
		c.Diverge("C07", "proto.Unmarshal("+k.What+")", "error or value, no panic", p, "", k)
		return
	}
	if e1 != nil {
		return // the value itself is C03's and C12's business
	}
	if e2 != nil || !exactEq(o1.Elem(), o2.Elem()) {
		c.Diverge("C07", "proto.Unmarshal("+k.What+" against the message without them)", fmt.Sprintf("exactly the value of the message without them: %+v", showGo(o1.Elem())),
			fmt.Sprintf("%+v err=%v", showGo(o2.Elem()), e2), "", k)
	}
}

func c07Total(c *Ctx, k protoCase) {
	b, _ := hex.DecodeString(k.Bytes)
	t := structTypeOf(k.Shape, "")
	fail := func(api, w, g string) { c.Diverge("C07", api, w, g, "", k) }
	c.Eval(3)
	out := reflect.New(t)
	var err error
	var alloc uint64
	if k.Meter {
		// first call unmetered (first use of a type compiles its codec), second call metered alone
		meterMu.Lock()
		protect(func() { proto.Unmarshal(b, reflect.New(t).Interface()) })
		p := protect(func() { alloc = allocDuring(func() { err = proto.Unmarshal(b, out.Interface()) }) })
		meterMu.Unlock()
		if p != "" {
			fail("proto.Unmarshal("+k.What+")", "error or value, no panic", p)
			return
		}
		if bound := uint64(256*len(b) + 65536); alloc > bound {
			fail("proto.Unmarshal("+k.What+")", fmt.Sprintf("allocation <= %d for %d input bytes", bound, len(b)), fmt.Sprint(alloc))
		}
	} else {
		meterMu.RLock()
		p := protect(func() { err = proto.Unmarshal(b, out.Interface()) })
		meterMu.RUnlock()
		if p != "" {
			fail("proto.Unmarshal("+k.What+")", "error or value, no panic", p)
			return
		}
	}
	if k.Want != "" {
		if err != nil {
			fail("proto.Unmarshal("+k.What+")", k.Want, "error: "+err.Error())
		} else if got := treeString(treeOfGo(k.Shape, out.Elem())); got != k.Want {
			fail("proto.Unmarshal("+k.What+")", k.Want, got)
		}
	}
	if p := protect(func() { _, _, _, _, _ = proto.Parse(b) }); p != "" {
		fail("proto.Parse("+k.What+")", "no panic", p)
	}
	var serr error
	if p := protect(func() {
		serr = proto.Scan(b, func(f proto.FieldNumber, t proto.WireType, v proto.RawValue) (bool, error) {
			switch t {
			case proto.Varint:
				_ = v.Varint()
			case proto.Fixed32:
				_ = v.Fixed32()
			case proto.Fixed64:
				_ = v.Fixed64()
			}
			return true, nil
		})
	}); p != "" {
		fail("proto.Scan("+k.What+")", "no panic", p)
		return
	}
	// Scan enumerates the top-level fields Unmarshal consumes: what Unmarshal accepts as a whole, Scan walks to the end
	if err == nil && serr != nil {
		fail("proto.Scan vs proto.Unmarshal("+k.What+")", "Unmarshal accepts only what Scan can enumerate", fmt.Sprintf("Unmarshal: nil error; Scan: %v; bytes=%x", serr, b))
	}
}

func c07Scan(c *Ctx, k protoCase, recs []pRec) {
	b, _ := hex.DecodeString(k.Bytes)
	var got []string
	err := proto.Scan(b, func(f proto.FieldNumber, t proto.WireType, v proto.RawValue) (bool, error) {
		got = append(got, fmt.Sprintf("%d/%d", f, t))
		return true, nil
	})
	var want []string
	for _, r := range recs {
		want = append(want, fmt.Sprintf("%d/%d", r.N, r.W))
	}
	c.Eval(1)
	if err != nil || strings.Join(got, ",") != strings.Join(want, ",") {
		k.Recs = recs
		c.Diverge("C07", "proto.Scan", strings.Join(want, ","), fmt.Sprintf("%s err=%v", strings.Join(got, ","), err), "", k)
	}
}

// c07Append (spec/WireAlloc.tla, kind "append"): a repeated field of r elements arriving one by one - nothing announces
// how many - decoded with a quiet allocation meter (C07 runs its vectors one at a time): what is allocated, dead copies
// of the growing destination included, stays within a constant factor of the input
func c07Append(c *Ctx, v *allocVec) {
	n := v.R * 6151 // the model's 0..13 stand for 0 .. 80 thousand elements
	c.Nontrivial()
	type tg struct {
		name string
		unit []byte // one element of field 1
		dst  func() any
		size int // bytes of memory per element
	}
	for _, t := range []tg{
		{"[]uint64", []byte{0x08, 0x01}, func() any { return new(struct{ L []uint64 }) }, 8},
		{"[]int32", []byte{0x08, 0x7f}, func() any { return new(struct{ L []int32 }) }, 4},
		{"[]bool", []byte{0x08, 0x01}, func() any { return new(struct{ L []bool }) }, 1},
		{"[]string", []byte{0x0a, 0x01, 'x'}, func() any { return new(struct{ L []string }) }, 16},
		{"[]message", []byte{0x0a, 0x02, 0x08, 0x01}, func() any { return new(struct{ L []struct{ A int32 } }) }, 4},
		{"[]float64(packed)", nil, func() any { return new(struct{ L []float64 }) }, 8},
	} {
		var in []byte
		if t.unit == nil { // one packed occurrence
			in = append([]byte{0x0a}, uvarintBytes(uint64(8*n))...)
			in = append(in, make([]byte, 8*n)...)
		} else {
			in = bytes.Repeat(t.unit, n)
		}
		k := protoCase{What: fmt.Sprintf("repeated field of %d elements (%s)", n, t.name), Alloc: v}
		dst := t.dst()
		var err error
		var pan string
		c.Eval(1)
		c.Case()
		proto.Unmarshal(in[:min(len(in), 64)], t.dst()) // the codec is compiled outside the measurement
		alloc := allocDuring(func() { pan = protect(func() { err = proto.Unmarshal(in, dst) }) })
		if uint64(6*n*t.size+16*len(in)+64<<10) < alloc && pan == "" { // a process-wide meter: the repeated call counts
			runtime.GC()
			dst = t.dst()
			alloc = min(alloc, allocDuring(func() { pan = protect(func() { err = proto.Unmarshal(in, dst) }) }))
		}
		// the elements themselves (n * size), at most a few times over for the copies made while growing
		bound := uint64(6*n*t.size + 16*len(in) + 64<<10)
		api := "proto.Unmarshal(long repeated field)"
		switch {
		case pan != "":
			c.Diverge("C07", api, "no panic", pan, "", k)
		case err != nil && n*len(t.unit) > 64:
			c.Diverge("C07", api, "nil error", err.Error(), "", k)
		case alloc > bound:
			c.Diverge("C07", api, fmt.Sprintf("allocation within a constant factor of the %d bytes of input (<= %d)", len(in), bound),
				fmt.Sprintf("%d bytes allocated for %d elements of %s", alloc, n, t.name), "", k)
		}
	}
}

// c07ByteArrays: a [N]byte field given payloads shorter than, as long as and longer than N (up to a megabyte): an error or a
// value, the fields next to the array untouched either way, nothing written outside the array
// c07TopLevelLengths: a length-delimited value as the whole input of Unmarshal (string, []byte, [N]byte targets): payloads
// around the lengths where the prefix grows, canonical and padded prefixes, the input cut short by 0..4 bytes, handed
// over as a slice without spare capacity (a read beyond it faults) and as one with guard bytes behind it (a read
// beyond the input shows in the value)
func c07TopLevelLengths(c *Ctx) {
	targets := []func() any{func() any { return new(string) }, func() any { return new([]byte) }, func() any { return new([300]byte) }, func() any { return new(*string) }}
	for _, n := range []int{0, 1, 127, 128, 129, 300, 16383, 16384, 16385} {
		for pad := 0; pad <= 2; pad++ {
			prefix := uvarintBytes(uint64(n))
			for i := 0; i < pad; i++ {
				prefix[len(prefix)-1] |= 0x80
				prefix = append(prefix, 0)
			}
			full := append(append([]byte(nil), prefix...), bytes.Repeat([]byte{'p'}, n)...)
			for cut := 0; cut <= 4 && cut <= len(full); cut++ {
				for ti, mk := range targets {
					for _, guard := range []bool{false, true} {
						k := protoCase{What: fmt.Sprintf("top-level lengths n=%d pad=%d cut=%d target=%d guard=%v", n, pad, cut, ti, guard)}
						m := len(full) - cut
						var in []byte
						if guard {
							buf := append(append([]byte(nil), full[:m]...), bytes.Repeat([]byte{0xA5}, 16)...)
							in = buf[:m]
						} else {
							buf := make([]byte, m)
							copy(buf, full[:m])
							in = buf[:m:m]
						}
						out := mk()
						var err error
						c.Case()
						c.Eval(1)
						if p := protect(func() { err = proto.Unmarshal(in, out) }); p != "" {
							c.Diverge("C07", "proto.Unmarshal(length-delimited value as the whole input, cut short)", "an error or a value, no panic", p, "", k)
							continue
						}
						if err == nil {
							var got []byte
							switch v := out.(type) {
							case *string:
								got = []byte(*v)
							case *[]byte:
								got = *v
							case **string:
								if *v != nil {
									got = []byte(**v)
								}
							}
							if bytes.IndexByte(got, 0xA5) >= 0 || len(got) > m {
								c.Diverge("C07", "proto.Unmarshal(length-delimited value as the whole input, cut short)", "a value made of the input's bytes",
									fmt.Sprintf("%d bytes, some from beyond the %d-byte input", len(got), m), "", k)
							}
						}
					}
				}
			}
		}
	}
}

func c07ByteArrays(c *Ctx) {
	c07TopLevelLengths(c)
	for _, field := range []int{2, 4} {
		for _, n := range []int{0, 1, 3, 4, 5, 8, 15, 16, 17, 40, 4096, 1 << 20} {
			c07ByteArray(c, field, n)
		}
	}
}

// c07ByteArray: one payload length into one byte-array field (alone replayable: a payload that overruns the array far
// enough takes the process down, one that overruns it by a byte only touches the guard next to it)
func c07ByteArray(c *Ctx, field, n int) {
	type tgt struct {
		G1 [8]byte
		A  [4]byte
		G2 [8]byte
		B  [16]byte
		G3 [8]byte
	}
	guard := [8]byte{0xa5, 0xa5, 0xa5, 0xa5, 0xa5, 0xa5, 0xa5, 0xa5}
	in := append(uvarintBytes(uint64(field<<3|2)), uvarintBytes(uint64(n))...)
	in = append(in, bytes.Repeat([]byte{0x5a}, n)...)
	k := protoCase{What: fmt.Sprintf("byte array field %d given %d bytes", field, n)}
	v := &tgt{G1: guard, G2: guard, G3: guard}
	var err error
	c.Case()
	c.Eval(1)
	if p := protect(func() { err = proto.Unmarshal(in, v) }); p != "" {
		c.Diverge("C07", "proto.Unmarshal(byte array, payload of another length)", "error or value, no panic", p, "", k)
		return
	}
	if v.G1 != guard || v.G2 != guard || v.G3 != guard || (field == 2 && v.B != [16]byte{}) || (field == 4 && v.A != [4]byte{}) {
		c.Diverge("C07", "proto.Unmarshal(byte array, payload of another length)", "the neighbouring fields untouched",
			fmt.Sprintf("%x %x %x %x %x err=%v", v.G1, v.A, v.G2, v.B, v.G3, err), "", k)
	}
}

func c07Vector(c *Ctx, raw stdjson.RawMessage) {
	var av allocVec
	if stdjson.Unmarshal(raw, &av) == nil && av.Kind != "" && av.Pre > 0 {
		if av.Kind == "append" {
			c07Append(c, &av)
		}
		return
	}
	var full struct {
		Re map[string][]pRec `json:"re"`
	}
	v, ok := parseProtoVec(c, "C07", raw)
	if !ok {
		return
	}
	stdjson.Unmarshal(raw, &full)
	c.Nontrivial()
	r := newRng(c.Seed, string(raw))
	l := lift{r.intn(7)}
	want := treeString(l.treeOfAbstract(v.Shape, v.Val))
	mk := func(what string, b []byte, want string) protoCase {
		return protoCase{Shape: v.Shape, Val: v.Val, Salt: l.salt, Bytes: hex.EncodeToString(b), What: what, Want: want}
	}
	canon := l.encodeRecs(v.Wire, wireOpts{})
	c.Case()
	mv := mk("valid", canon, want)
	mv.Meter = r.intn(6) == 0
	_, zigRep, fixRep := plainShape(v.Shape)
	repTagged := zigRep || fixRep
	if bigNumber(v.Shape) || repTagged {
		mv.Want = "" // F-C12-3 (tag numbers above 65535 truncated), F-C12-4 (repeated zig-zag / fixed kinds): the decoded value is C12's business
	}
	c07Total(c, mv)
	c07Scan(c, mk("valid", canon, ""), v.Wire)
	// unknown fields of every wire type at every boundary: same value; Scan lists them too
	unk := l.encodeRecs(full.Re["unknown"], wireOpts{})
	if tr, err := refDecode(v.Shape, unk); err != nil || treeString(tr) != want {
		c.SpecError("C07", "reference does not ignore the unknown fields", mk("unknown", unk, want))
	} else {
		c.Case()
		mu := mk("unknown-fields", unk, want)
		mu.Meter = r.intn(6) == 0
		if bigNumber(v.Shape) || repTagged {
			mu.Want = ""
		}
		c07Total(c, mu)
		c07Scan(c, mk("unknown-fields", unk, ""), full.Re["unknown"])
		// the same fields with longer than necessary tags, lengths and varints (all legal)
		for _, o := range []wireOpts{{padLens: 1}, {padLens: 2, padVarints: 1}, {padTags: 1, padLens: 1 + r.intn(3), padVarints: r.intn(3)}} {
			up := l.encodeRecs(full.Re["unknown"], o)
			if tr, err := refDecode(v.Shape, up); err != nil || treeString(tr) != want {
				c.SpecError("C07", "reference does not ignore the unknown fields written with padded varints", mk("unknown", up, want))
				break
			}
			c.Case()
			mp := mk("unknown-fields(padded tags, lengths, varints)", up, mu.Want)
			c07Total(c, mp)
			c07Scan(c, mk("unknown-fields(padded tags, lengths, varints)", up, ""), full.Re["unknown"])
		}
	}
	// unknown fields at every boundary of every nested message and map entry too: the same value, exactly (a pointer
	// that is set stays set, one that is nil stays nil)
	if recs, ok := full.Re["deep"]; ok {
		dp := l.encodeRecs(recs, wireOpts{})
		if tr, err := refDecode(v.Shape, dp); err != nil || treeString(tr) != want {
			c.SpecError("C07", "reference does not ignore the unknown fields inside nested messages", mk("deep", dp, want))
		} else {
			c.Case()
			md := mk("unknown-fields-at-every-level", dp, want)
			if bigNumber(v.Shape) || repTagged {
				md.Want = ""
			}
			c07Total(c, md)
			ms := mk("unknown-fields-at-every-level", canon, "")
			ms.Bytes2 = hex.EncodeToString(dp)
			c07SameValue(c, ms)
			mu2 := mk("unknown-fields", canon, "")
			mu2.Bytes2 = hex.EncodeToString(unk)
			c07SameValue(c, mu2)
		}
	}
	// unknown fields whose numbers share their low 16 bits with the declared ones
	if recs, ok := full.Re["aliased"]; ok {
		al := l.encodeRecs(recs, wireOpts{})
		if tr, err := refDecode(v.Shape, al); err != nil || treeString(tr) != want {
			c.SpecError("C07", "reference does not ignore the unknown fields with aliasing numbers", mk("aliased", al, want))
		} else {
			c.Case()
			ma := mk("unknown-fields-aliasing-low-16-bits", al, want)
			if bigNumber(v.Shape) || repTagged {
				ma.Want = ""
			}
			c07Total(c, ma)
			c07Scan(c, mk("unknown-fields-aliasing-low-16-bits", al, ""), recs)
		}
	}
	// every prefix (crash points): error or value, never a panic, bounded allocation
	for _, src := range [][]byte{canon, unk} {
		for i := 0; i < len(src); i++ {
			c.Case()
			c07Total(c, mk(fmt.Sprintf("prefix[:%d]", i), src[:i], ""))
		}
	}
	// mutations: every byte position gets length / continuation / wire-type damage
	muts := 12
	if c.Tier == "thorough" {
		muts = 60
	}
	for m := 0; m < muts && len(canon) > 0; m++ {
		b := append([]byte(nil), canon...)
		i := r.intn(len(b))
		switch r.intn(7) {
		case 0:
			b[i] = 0xff // continuation bit / huge length
		case 1:
			b[i] ^= byte(1 << r.intn(3)) // wire type swap when i is a tag
		case 2:
			b = append(b[:i], append([]byte{0xff, 0xff, 0xff, 0xff, 0xff, 0xff, 0xff, 0xff, 0xff, 0xff, 0x01}, b[i:]...)...) // over-long varint
		case 3:
			b[i] = byte(r.intn(256))
		case 4:
			b = append(b[:i], append([]byte{0x0b}, b[i:]...)...) // start-group wire type
		case 5:
			b = append(b[:i], append([]byte{0xfa, 0xff, 0xff, 0xff, 0x0f}, b[i:]...)...) // length 2^32-6
		case 6:
			b = append(b, 0x80)
		}
		c.Case()
		mc := mk("mutation", b, "")
		mc.Meter = r.intn(4) == 0
		c07Total(c, mc)
	}
	c.Sample(map[string]any{"shape": v.Shape, "bytes": hex.EncodeToString(canon)})
	// targets that are not structs: the value of a single plain field as the top-level target (*[]byte, *string,
	// *int64, *[16]byte, ...): its own encoding, every prefix of it, and length prefixes that promise more than there is
	if len(v.Shape) == 1 && v.Shape[0].C == "one" && !isMsgKind(v.Shape[0].K) {
		x, _ := goValue(l, v.Shape, v.Val, false)
		fv := reflect.ValueOf(x).Field(0)
		var enc []byte
		protect(func() { enc, _ = proto.Marshal(fv.Interface()) })
		inputs := [][]byte{enc, {0x80, 0x80, 0x80, 0x20, 'a', 'b', 'c'}, {0xff, 0xff, 0xff, 0xff, 0xff, 0xff, 0xff, 0xff, 0x7f, 1},
			{0x80, 0x80, 0x80, 0x80, 0x80, 0x80, 0x80, 0x80, 0x80, 0x01}, {0xff, 0xff, 0xff, 0xff, 0x0f, 1, 2, 3}}
		for i := 0; i < len(enc); i++ {
			inputs = append(inputs, enc[:i])
		}
		for _, in := range inputs {
			c.Case()
			c07TopLevel(c, mk("top-level "+v.Shape[0].K, in, ""), fv.Type())
		}
	}
}

// c07TopLevel: Unmarshal into a pointer to a non-struct type: error or value, no panic, allocation bounded by the input
func c07TopLevel(c *Ctx, k protoCase, t reflect.Type) {
	b, _ := hex.DecodeString(k.Bytes)
	var alloc uint64
	var pan string
	c.Eval(1)
	meterMu.Lock()
	protect(func() { proto.Unmarshal(b, reflect.New(t).Interface()) }) // first use compiles the codec
	alloc = allocDuring(func() { pan = protect(func() { proto.Unmarshal(b, reflect.New(t).Interface()) }) })
	meterMu.Unlock()
	if pan != "" {
		c.Diverge("C07", "proto.Unmarshal(*"+t.String()+")", "error or value, no panic", pan, "", k)
		return
	}
	if bound := uint64(256*len(b) + 65536); alloc > bound {
		c.Diverge("C07", "proto.Unmarshal(*"+t.String()+")", fmt.Sprintf("allocation <= %d for %d input bytes", bound, len(b)), fmt.Sprint(alloc), "", k)
	}
}

func c07Replay(c *Ctx, raw stdjson.RawMessage) {
	if varintVector(c, "C07", raw) {
		return
	}
	var k protoCase
	if stdjson.Unmarshal(raw, &k) == nil {
		if strings.HasPrefix(k.What, "top-level lengths") {
			c07TopLevelLengths(c)
			return
		}
		if strings.HasPrefix(k.What, "top-level ") && len(k.Shape) == 1 {
			c07TopLevel(c, k, elemType(k.Shape[0].K))
			return
		}
		if k.Bytes2 != "" {
			c07SameValue(c, k)
			return
		}
		if len(k.Recs) > 0 {
			c07Scan(c, k, k.Recs)
			return
		}
		if strings.HasPrefix(k.What, "byte array field") {
			var field, n int
			if _, err := fmt.Sscanf(k.What, "byte array field %d given %d bytes", &field, &n); err == nil {
				c07ByteArray(c, field, n)
			}
			return
		}
		if k.Alloc != nil {
			c07Append(c, k.Alloc)
			return
		}
		c07Total(c, k)
	}
}

func init() {
	register("C03", &Driver{Vector: c03Vector, Replay: c03Replay, Extra: c03CompositeMaps})
	register("C12", &Driver{Vector: c12Vector, Replay: c12Replay, Extra: func(c *Ctx) { protoIntegers(c, "C12") }})
	register("C16", &Driver{Vector: c16Vector, Replay: c16Replay})
	register("C07", &Driver{Vector: c07Vector, Replay: c07Replay, Extra: c07ByteArrays})
}

// showGo: a value with its pointers followed (what %+v shows as addresses)
func showGo(v reflect.Value) string {
	b, err := stdjson.Marshal(v.Interface())
	if err != nil {
		return fmt.Sprintf("%+v", v.Interface())
	}
	return string(b)
}

// c07deep: the witness of open finding F-C07-1 (runs alone: it is expected to die): a message nested a few hundred
// thousand levels deep into a recursive target
type deepNode struct {
	Next *deepNode `protobuf:"bytes,1,opt"`
}

func init() {
	tools["c07deep"] = func([]string) {
		debug.SetMaxStack(64 << 20)
		const n = 400000
		// innermost first: 0a 00, then each level wraps the one below
		lens := make([]int, n)
		size := 0
		for i := n - 1; i >= 0; i-- {
			lens[i] = size
			size += 1 + len(uvarintBytes(uint64(size)))
		}
		b := make([]byte, 0, size)
		for i := 0; i < n; i++ {
			b = append(append(b, 0x0a), uvarintBytes(uint64(lens[i]))...)
		}
		var v deepNode
		err := proto.Unmarshal(b, &v)
		fmt.Println(len(b), err)
		fmt.Println("C07DEEP-OK")
	}
}
