package main

// C15 - json.Append is oblivious to the destination's length and capacity.
//
// spec/JsonAppendBuf.tla models the buffer discipline and emits the
// configurations (prefix length x spare-capacity class x AppendFlags subset);
// spec/JsonTypes.tla supplies the shapes whose boundary values (failing ones
// included) are appended into a window of a larger guarded array.

import (
	"bytes"
	stdjson "encoding/json"
	"fmt"
	"math/big"
	"reflect"
	"strconv"
	"strings"
	"time"

	"github.com/segmentio/encoding/json"
)

type bufVec struct {
	Prefix   *int       `json:"prefix"`
	Spares   []string   `json:"spares"`
	FlagSets [][]string `json:"flagsets"`
	Rel      []string   `json:"rel"`
}

type c15Case struct {
	Shape  *jShape `json:"shape,omitempty"`
	VI     int     `json:"vi"`
	Seed   int64   `json:"seed"`
	Prefix int     `json:"prefix"`
	Spare  string  `json:"spare"`
	Flags  int     `json:"flags"`
	Str    string  `json:"str,omitempty"`
	API    string  `json:"api,omitempty"`
}

// configurations announced by the specification; shapes wait for nothing: the same lattice is the
// default and every announced configuration is checked to be in it
var c15Prefixes = []int{0, 1, 7, 8, 9, 31}
var c15Spares = []string{"none", "n-1", "n", "n+1", "big"}

// prefix lengths relative to the size n of the text (JsonAppendBuf.RelPrefixes): a reservation counted from the wrong
// end only shows when the prefix is longer than the text and its slack
var c15Rel = []string{"n/4", "n", "n+n/4", "n+n/4+2", "n+n/2", "2n"}

func relPrefix(class string, n int) int {
	switch class {
	case "n/4":
		return n / 4
	case "n":
		return n
	case "n+n/4":
		return n + n/4
	case "n+n/4+2":
		return n + n/4 + 2
	case "n+n/2":
		return n + n/2
	}
	return 2 * n
}

const c15Guard = 32

var c15Tails = []string{"e-0", "1e-0", "e+0", "E-0", ",", ":", "[", "{", "\"", "\\", "\\u00", "null", "0", "-", ".", "0.", "e", "{\"a\":", "[1,", "\xc3", "</"}

func c15Window(prefix int, spareCap int, r *rng) (backing []byte, b []byte) {
	backing = make([]byte, c15Guard+prefix+spareCap+c15Guard)
	for i := range backing {
		backing[i] = 0xA5
	}
	for i := 0; i < prefix; i++ {
		backing[c15Guard+i] = byte('a' + r.intn(26))
	}
	// b's own bytes are the caller's: half of the time they end like a piece of JSON that an encoder might be
	// tempted to look back at (an exponent to tidy, a comma to trim, an open string, an escape)
	if prefix > 0 && r.intn(2) == 0 {
		tail := c15Tails[r.intn(len(c15Tails))]
		if len(tail) > prefix {
			tail = tail[len(tail)-prefix:]
		}
		copy(backing[c15Guard+prefix-len(tail):], tail)
	}
	b = backing[c15Guard : c15Guard+prefix : c15Guard+prefix+spareCap]
	return
}

func spareFor(class string, n int) int {
	switch class {
	case "none":
		return 0
	case "n-1":
		return max(n-1, 0)
	case "n":
		return n
	case "n+1":
		return n + 1
	}
	return 2*n + 64
}

func c15Check(c *Ctx, k c15Case, api string, n int, refOut []byte, refErr error, call func(b []byte) ([]byte, error)) {
	r := newRng(k.Seed, fmt.Sprint(k.Prefix, k.Spare, k.Flags, api))
	spare := spareFor(k.Spare, n)
	backing, b := c15Window(k.Prefix, spare, r)
	snap := append([]byte(nil), backing...)
	prefix := append([]byte(nil), b...)
	var res []byte
	var err error
	c.Eval(1)
	if p := protect(func() { res, err = call(b) }); p != "" {
		c.Diverge("C15", api, "no panic", p, "", k)
		return
	}
	fail := func(w, g string) { c.Diverge("C15", api, w, g, "", k) }
	if (err == nil) != (refErr == nil) {
		fail("error iff Append(nil, ...) errors: "+errStr(refErr), errStr(err))
		return
	}
	if len(res) < len(prefix) || !bytes.Equal(res[:len(prefix)], prefix) {
		fail(fmt.Sprintf("result begins with the %d bytes of b (err=%v)", len(prefix), err != nil), fmt.Sprintf("%d bytes %q", len(res), clipS(string(res))))
		return
	}
	unsorted := api == "json.Append" && json.AppendFlags(k.Flags)&json.SortMapKeys == 0
	if err == nil && unsorted && sortedBytes(res[len(prefix):]) == sortedBytes(refOut) {
		// without SortMapKeys the member order of maps is free: equal up to a permutation
	} else if err == nil && !bytes.Equal(res[len(prefix):], refOut) {
		fail(clipS(string(refOut)), clipS(string(res[len(prefix):])))
		return
	}
	// bytes of b's backing array are only written at offsets at or beyond len(b), and not beyond its capacity
	lo, hi := c15Guard+k.Prefix, c15Guard+k.Prefix+spare
	if !bytes.Equal(backing[:lo], snap[:lo]) {
		fail("no write below len(b) in b's backing array", "bytes below len(b) modified")
	}
	if !bytes.Equal(backing[hi:], snap[hi:]) {
		fail("no write beyond cap(b)", "bytes beyond cap(b) modified")
	}
}

func c15Value(c *Ctx, shape *jShape, vi int, v reflect.Value, seed int64) {
	x := v.Interface()
	for mask := 0; mask < 8; mask++ {
		fl, _ := subsetFlags(mask)
		ref, refErr := json.Append(nil, x, fl)
		for _, p := range c15Prefixes {
			for _, sp := range c15Spares {
				k := c15Case{Shape: shape, VI: vi, Seed: seed, Prefix: p, Spare: sp, Flags: mask}
				c.Case()
				c15Check(c, k, "json.Append", len(ref), ref, refErr, func(b []byte) ([]byte, error) { return json.Append(b, x, fl) })
			}
		}
	}
	if s, ok := x.(string); ok {
		for _, fl := range []json.AppendFlags{0, json.EscapeHTML} {
			ref := json.AppendEscape(nil, s, fl)
			un := json.AppendUnescape(nil, ref, 0)
			for _, p := range c15Prefixes {
				for _, sp := range c15Spares {
					k := c15Case{Seed: seed, Prefix: p, Spare: sp, Flags: int(fl), Str: s, API: "AppendEscape"}
					c15Check(c, k, "json.AppendEscape", len(ref), ref, nil, func(b []byte) ([]byte, error) { return json.AppendEscape(b, s, fl), nil })
					k.API = "AppendUnescape"
					c15Check(c, k, "json.AppendUnescape", len(un), un, nil, func(b []byte) ([]byte, error) { return json.AppendUnescape(b, ref, 0), nil })
				}
			}
		}
	}
}

// c15Number: one number of a kind through the whole grid (the formatters size their output by the number of digits)
func c15Number(c *Ctx, kind, text string, seed int64) {
	var x any
	switch kind {
	case "int64":
		n, err := strconv.ParseInt(text, 10, 64)
		if err != nil {
			return
		}
		x = n
	case "int32":
		n, err := strconv.ParseInt(text, 10, 32)
		if err != nil {
			return
		}
		x = int32(n)
	case "uint64":
		n, err := strconv.ParseUint(text, 10, 64)
		if err != nil {
			return
		}
		x = n
	case "float64":
		f, err := strconv.ParseFloat(text, 64)
		if err != nil {
			return
		}
		x = f
	case "duration":
		n, err := strconv.ParseInt(text, 10, 64)
		if err != nil {
			return
		}
		x = []any{time.Duration(n), map[string]time.Duration{"d": time.Duration(-n)}}
	case "[]int64":
		n, err := strconv.ParseInt(text, 10, 64)
		if err != nil {
			return
		}
		x = []int64{n, -n, n}
	default:
		return
	}
	for mask := 0; mask < 8; mask += 3 {
		fl, _ := subsetFlags(mask)
		ref, refErr := json.Append(nil, x, fl)
		for _, p := range c15Prefixes {
			for _, sp := range c15Spares {
				k := c15Case{Seed: seed, Prefix: p, Spare: sp, Flags: mask, Str: text, API: "number:" + kind}
				c.Case()
				c15Check(c, k, "json.Append", len(ref), ref, refErr, func(b []byte) ([]byte, error) { return json.Append(b, x, fl) })
			}
		}
	}
}

// c15Long: long texts behind long prefixes (the encoders size what they reserve from the length of the text and the
// room that is left: a reservation counted from the start of b instead of from its end only shows with a prefix
// longer than the text)
// a text marshaler that also has the AppendText method of newer Go versions (an encoder may let it write in place)
type c15Appender string

func (a c15Appender) MarshalText() ([]byte, error) { return []byte(a), nil }
func (a c15Appender) AppendText(b []byte) ([]byte, error) {
	return append(b, a...), nil
}

func c15Long(c *Ctx, kind string, n int, seed int64) {
	var x any
	switch kind {
	case "appendtext":
		x = []any{c15Appender(strings.Repeat("t", n/2) + "say \"hi\" <to> them\n" + strings.Repeat("u", n-n/2)), map[c15Appender]int{c15Appender("k\"" + strings.Repeat("k", n%70)): 1},
			struct{ A c15Appender }{c15Appender("\\" + strings.Repeat("z", n))}}
	case "plain":
		x = strings.Repeat("x", n)
	case "escaped":
		x = strings.Repeat("x", n/2) + "\"<é\n" + strings.Repeat("y", n-n/2)
	case "bytes":
		x = bytes.Repeat([]byte{0xfb}, n)
	case "member":
		x = map[string]any{strings.Repeat("k", n): strings.Repeat("v", n)}
	case "elements":
		x = []string{strings.Repeat("a", n), "", strings.Repeat("b", n+1)}
	case "raw":
		x = json.RawMessage(`"` + strings.Repeat("r", n) + `"`)
	case "string-option":
		x = struct {
			S string `json:"s,string"`
		}{strings.Repeat("q", n)}
	default:
		return
	}
	for _, mask := range []int{0, 7} {
		fl, _ := subsetFlags(mask)
		ref, refErr := json.Append(nil, x, fl)
		prefixes := []int{0, 1, 64, 255, 256, 257, 2000, 4096, 5000}
		for _, rc := range c15Rel {
			prefixes = append(prefixes, relPrefix(rc, n))
		}
		for _, p := range prefixes {
			for _, sp := range c15Spares {
				k := c15Case{Seed: seed, Prefix: p, Spare: sp, Flags: mask, Str: strconv.Itoa(n), API: "long:" + kind}
				c.Case()
				c15Check(c, k, "json.Append", len(ref), ref, refErr, func(b []byte) ([]byte, error) { return json.Append(b, x, fl) })
			}
		}
	}
}

func c15Longs(c *Ctx) {
	for _, kind := range []string{"plain", "escaped", "bytes", "member", "elements", "raw", "string-option", "appendtext"} {
		for _, n := range []int{7, 8, 63, 64, 255, 256, 257, 300, 1000, 1023, 1024, 4095, 4097} {
			c15Long(c, kind, n, c.Seed)
		}
	}
}

// c15Numbers: every power of ten with its neighbours, positive and negative, per integer kind; the cut-offs of the
// float formats
func c15Numbers(c *Ctx) {
	c15Longs(c)
	pow := new(big.Int).SetInt64(1)
	ten := big.NewInt(10)
	for k := 0; k <= 20; k++ {
		for _, d := range []int64{-1, 0, 1} {
			v := new(big.Int).Add(pow, big.NewInt(d))
			for _, kind := range []string{"int64", "int32", "uint64", "[]int64"} {
				c15Number(c, kind, v.String(), c.Seed)
				c15Number(c, kind, new(big.Int).Neg(v).String(), c.Seed)
			}
		}
		// 10^k + 10^j: a one further down
		if k >= 4 {
			v := new(big.Int).Add(pow, new(big.Int).Exp(ten, big.NewInt(int64(k/2)), nil))
			c15Number(c, "int64", v.String(), c.Seed)
			c15Number(c, "uint64", v.String(), c.Seed)
		}
		pow.Mul(pow, ten)
	}
	// durations are written as text of their own (h, m, s, ms, the two-byte micro sign, ns): one of each length and unit
	for _, d := range []string{"0", "1", "-1", "999", "1000", "-123456", "123456", "999999", "1000000", "-999999999", "1000000000", "1500000000", "-61000000000",
		"3599999999999", "3600000000000", "-86399999999999", "9223372036854775807", "-9223372036854775808", "-100001", "100000", "-999001"} {
		c15Number(c, "duration", d, c.Seed)
	}
	for _, f := range []string{"1e20", "1e21", "999999999999999900000", "1e-6", "1e-7", "0.000001", "0.0000009999", "123456789.125", "-0", "5e-324", "1.7976931348623157e308", "100", "1e2", "12345678901234567890"} {
		c15Number(c, "float64", f, c.Seed)
	}
}

func c15Vector(c *Ctx, raw stdjson.RawMessage) {
	var bv bufVec
	if stdjson.Unmarshal(raw, &bv) == nil && bv.Prefix != nil {
		// the specification's configuration must be one the harness walks
		ok := false
		for _, p := range c15Prefixes {
			ok = ok || p == *bv.Prefix
		}
		rel := map[string]bool{}
		for _, rc := range bv.Rel {
			rel[rc] = true
		}
		for _, rc := range c15Rel {
			ok = ok && rel[rc]
		}
		if !ok || len(bv.Spares) != len(c15Spares) || len(bv.FlagSets) != 8 || len(bv.Rel) != len(c15Rel) {
			c.SpecError("C15", "configuration lattice of JsonAppendBuf.tla differs from the harness's", bv)
		}
		c.Nontrivial()
		return
	}
	var v jsonVec
	if err := stdjson.Unmarshal(raw, &v); err != nil || v.Shape == nil {
		return
	}
	c.Nontrivial()
	// the C15 grid is 240 configurations per value: a seeded subset of the values of deeper shapes
	vals := shapeValues(v.Shape, c.Seed, jLimit)
	r := newRng(c.Seed, "c15"+v.Shape.String())
	for i, val := range vals {
		if v.Shape.D >= 2 && r.intn(3) != 0 {
			continue
		}
		c15Value(c, v.Shape, i, val, c.Seed)
	}
	c.Sample(map[string]any{"shape": v.Shape.String(), "configurations": len(c15Prefixes) * len(c15Spares) * 8})
}

func c15Replay(c *Ctx, raw stdjson.RawMessage) {
	var k c15Case
	if stdjson.Unmarshal(raw, &k) != nil {
		return
	}
	if strings.HasPrefix(k.API, "long:") {
		n, _ := strconv.Atoi(k.Str)
		c15Long(c, strings.TrimPrefix(k.API, "long:"), n, k.Seed)
		return
	}
	if strings.HasPrefix(k.API, "number:") {
		c15Number(c, strings.TrimPrefix(k.API, "number:"), k.Str, k.Seed)
		return
	}
	if strings.HasPrefix(k.API, "Append") && k.Shape == nil {
		c15Value(c, &jShape{K: "string"}, 0, reflect.ValueOf(k.Str), k.Seed)
		return
	}
	vals := shapeValues(k.Shape, k.Seed, jLimit)
	if k.VI < len(vals) {
		c15Value(c, k.Shape, k.VI, vals[k.VI], k.Seed)
	}
}

func init() {
	register("C15", &Driver{Vector: c15Vector, Replay: c15Replay, Extra: c15Numbers})
}
