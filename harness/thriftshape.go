package main

// Shared machinery for the thrift properties (C04, C08, C13): materialises the
// struct layouts / values / item sequences of spec/ThriftWire.tla as Go types
// (reflect.StructOf with thrift tags), Go values and bytes.

import (
	"encoding/binary"
	"encoding/hex"
	"fmt"
	"math"
	"reflect"
	"sort"
	"strconv"
	"strings"
	"sync"
)

type tField struct {
	ID  int    `json:"id"`
	Ty  string `json:"ty"`
	E   string `json:"e"`
	K   string `json:"k"`
	Req bool   `json:"req"`
	Ptr bool   `json:"ptr"`
}

type tVal struct {
	Ty string `json:"ty"`
	V  int    `json:"v"`
	E  string `json:"e"`
	K  string `json:"k"`
	Xs []tX   `json:"xs"`
}

// tX is either a value (list/set/map element) or a struct field {id, val}
type tX struct {
	tVal
	ID  int   `json:"id"`
	Val *tVal `json:"val"`
}

type tItem struct {
	S string `json:"s"`
	T string `json:"t"`
	V int    `json:"v"`
}

type thriftVec struct {
	Layout       []tField `json:"layout"`
	Vals         []tVal   `json:"vals"`
	Logical      tVal     `json:"logical"`
	Bin          []tItem  `json:"bin"`
	BinAsIs      []tItem  `json:"binasis"`
	Comp         []tItem  `json:"comp"`
	CompAsIs     []tItem  `json:"compasis"`
	CompLong     []tItem  `json:"complong"`
	CompLongAsIs []tItem  `json:"complongasis"`
	BinAsIsW     []tItem  `json:"binasisw"`
	CompAsIsW    []tItem  `json:"compasisw"`
	BinRevAsIs   []tItem  `json:"binrevasis"`
	CompRevAsIs  []tItem  `json:"comprevasis"`
}

var sub1Layout = []tField{{ID: 1, Ty: "I64"}, {ID: 2, Ty: "BOOL"}}

// ---------------------------------------------------------------- value tables

var tI8 = []int8{1, -1, 127, -128, 64, 63, -64, -65}
var tI16 = []int16{1, -1, 32767, -32768, 300, -64}
var tI32 = []int32{1, -1, math.MaxInt32, math.MinInt32, 300, 1 << 20}
var tI64 = []int64{1, -1, math.MaxInt64, math.MinInt64, 1 << 40, -129}

// every value at which the zig-zag varint of the compact protocol changes length: 2^(7k-1)-1, 2^(7k-1),
// -2^(7k-1), -2^(7k-1)-1 (single-field vectors are run with every entry of the tables)
func init() {
	for k := 1; k <= 9; k++ {
		p := int64(1) << (7*k - 1)
		for _, v := range []int64{p - 1, p, -p, -p - 1} {
			if v >= math.MinInt16 && v <= math.MaxInt16 {
				tI16 = append(tI16, int16(v))
			}
			if v >= math.MinInt32 && v <= math.MaxInt32 {
				tI32 = append(tI32, int32(v))
			}
			tI64 = append(tI64, v)
		}
	}
}

const tMaxTable = 6 + 4*9

// enum values (option "enum": an integer field of any width, an i32 on the wire): within the field's width and int32
var tEnum = []int64{1, -1, 127, -128, 2, 64, 300, -129, 32767, -32768, 1 << 20, math.MaxInt32, math.MinInt32}

func (l tlift) enumValue(width string, id int) int64 {
	if id == 0 {
		return 0
	}
	n := map[string]int{"I8": 6, "I16": 10, "I32": len(tEnum), "I64": len(tEnum)}[width]
	return tEnum[l.idx(id, n)]
}

func (l tlift) enumGo(width string, id int) reflect.Value {
	v := reflect.New(tScalarType(width)).Elem()
	v.SetInt(l.enumValue(width, id))
	return v
}

var tDbl = []float64{1.5, -2, math.Inf(1), math.SmallestNonzeroFloat64, 1e300}
var tStr = []string{"a", "héllo", strings.Repeat("x", 200), "\x00\xff", "k", strings.Repeat("y", 127), strings.Repeat("z", 128)}

// salt >= tBigSalt: the BIG lifting - every BINARY value is several thousand bytes long (readers treat byte
// sequences above 4096 bytes separately), later ones shorter than earlier ones, contents distinct
type tlift struct{ salt int }

const tBigSalt = 2000

var tBigLens = []int{9000, 5000, 6000, 4097, 4096}

func (l tlift) idx(id, n int) int { return (id - 1 + l.salt) % n }

func (l tlift) scalar(ty string, id int) any {
	switch ty {
	case "BOOL":
		return id != 0
	case "I8":
		if id == 0 {
			return int8(0)
		}
		return tI8[l.idx(id, len(tI8))]
	case "I16":
		if id == 0 {
			return int16(0)
		}
		return tI16[l.idx(id, len(tI16))]
	case "I32":
		if id == 0 {
			return int32(0)
		}
		return tI32[l.idx(id, len(tI32))]
	case "I64":
		if id == 0 {
			return int64(0)
		}
		return tI64[l.idx(id, len(tI64))]
	case "DOUBLE":
		if id == 0 {
			return float64(0)
		}
		return tDbl[l.idx(id, len(tDbl))]
	case "BINARY":
		if id == 0 {
			return ""
		}
		if l.salt >= tBigSalt {
			n := tBigLens[(id-1)%len(tBigLens)]
			return strings.Repeat(string(rune('a'+id%26)), n-1) + string(rune('A'+(l.salt+id)%26))
		}
		return tStr[l.idx(id, len(tStr))]
	}
	panic("tlift.scalar " + ty)
}

func (l tlift) canon(ty string, id int) string {
	switch v := l.scalar(ty, id).(type) {
	case float64:
		return fmt.Sprintf("d%016x", math.Float64bits(v))
	case string:
		return "s" + hex.EncodeToString([]byte(v))
	default:
		return fmt.Sprint(v)
	}
}

// ---------------------------------------------------------------- items -> bytes

func (l tlift) expand(items []tItem) []byte {
	var b []byte
	for _, it := range items {
		switch it.S {
		case "b":
			b = append(b, byte(it.V))
		case "i8":
			b = append(b, byte(l.scalar("I8", it.V).(int8)))
		case "be16":
			b = binary.BigEndian.AppendUint16(b, uint16(l.scalar("I16", it.V).(int16)))
		case "be32":
			b = binary.BigEndian.AppendUint32(b, uint32(l.scalar("I32", it.V).(int32)))
		case "be64":
			b = binary.BigEndian.AppendUint64(b, uint64(l.scalar("I64", it.V).(int64)))
		case "enum32":
			b = binary.BigEndian.AppendUint32(b, uint32(int32(l.enumValue(it.T, it.V))))
		case "enumzz":
			b = binary.AppendVarint(b, l.enumValue(it.T, it.V))
		case "zz":
			var v int64
			switch x := l.scalar(it.T, it.V).(type) {
			case int16:
				v = int64(x)
			case int32:
				v = int64(x)
			case int64:
				v = x
			}
			b = binary.AppendVarint(b, v)
		case "dbe":
			b = binary.BigEndian.AppendUint64(b, math.Float64bits(l.scalar("DOUBLE", it.V).(float64)))
		case "dle":
			b = binary.LittleEndian.AppendUint64(b, math.Float64bits(l.scalar("DOUBLE", it.V).(float64)))
		case "bin32":
			s := l.scalar("BINARY", it.V).(string)
			b = binary.BigEndian.AppendUint32(b, uint32(len(s)))
			b = append(b, s...)
		case "binuv":
			s := l.scalar("BINARY", it.V).(string)
			b = binary.AppendUvarint(b, uint64(len(s)))
			b = append(b, s...)
		default:
			panic("expand: unknown item " + it.S)
		}
	}
	return b
}

// ---------------------------------------------------------------- Go types

var (
	tTypeMu    sync.Mutex
	tTypeCache = map[string]reflect.Type{}
)

func tScalarType(ty string) reflect.Type {
	switch ty {
	case "BOOL":
		return reflect.TypeOf(false)
	case "I8":
		return reflect.TypeOf(int8(0))
	case "I16":
		return reflect.TypeOf(int16(0))
	case "I32":
		return reflect.TypeOf(int32(0))
	case "I64":
		return reflect.TypeOf(int64(0))
	case "DOUBLE":
		return reflect.TypeOf(float64(0))
	case "BINARY":
		return reflect.TypeOf("")
	case "STRUCT":
		return tStructType(sub1Layout)
	case "STRUCTP":
		return reflect.PointerTo(tStructType(sub1Layout))
	}
	panic("tScalarType " + ty)
}

func tFieldType(f tField) reflect.Type {
	var t reflect.Type
	switch f.Ty {
	case "LIST":
		t = reflect.SliceOf(tScalarType(f.E))
	case "SET":
		t = reflect.MapOf(tScalarType(f.E), reflect.TypeOf(struct{}{}))
	case "MAP":
		t = reflect.MapOf(tScalarType(f.K), tScalarType(f.E))
	case "ENUM":
		t = tScalarType(f.E)
	case "UNION":
		t = reflect.TypeOf((*any)(nil)).Elem()
	default:
		t = tScalarType(f.Ty)
	}
	if f.Ptr {
		t = reflect.PointerTo(t)
	}
	return t
}

func tLayoutKey(layout []tField) string {
	var sb strings.Builder
	for _, f := range layout {
		fmt.Fprintf(&sb, "%d/%s/%s/%s/%v/%v;", f.ID, f.Ty, f.E, f.K, f.Req, f.Ptr)
	}
	return sb.String()
}

func tStructType(layout []tField) reflect.Type {
	key := tLayoutKey(layout)
	tTypeMu.Lock()
	if t, ok := tTypeCache[key]; ok {
		tTypeMu.Unlock()
		return t
	}
	tTypeMu.Unlock()
	fields := make([]reflect.StructField, len(layout))
	for i, f := range layout {
		tag := strconv.Itoa(f.ID)
		if f.Req {
			tag += ",required"
		}
		if f.Ty == "ENUM" {
			tag += ",enum"
		}
		if f.Ty == "UNION" {
			tag = ",union"
		}
		fields[i] = reflect.StructField{Name: "F" + strconv.Itoa(i+1), Type: tFieldType(f),
			Tag: reflect.StructTag(`thrift:"` + tag + `"`)}
	}
	t := reflect.StructOf(fields)
	tTypeMu.Lock()
	tTypeCache[key] = t
	tTypeMu.Unlock()
	return t
}

// ---------------------------------------------------------------- Go values

func (l tlift) elemValue(ty string, v tVal) reflect.Value {
	if ty == "STRUCT" {
		return l.logicalStructValue(sub1Layout, v)
	}
	if ty == "STRUCTP" {
		p := reflect.New(tStructType(sub1Layout))
		p.Elem().Set(l.logicalStructValue(sub1Layout, v))
		return p
	}
	return reflect.ValueOf(l.scalar(ty, v.V))
}

// logicalStructValue builds a struct from a logical STRUCT value (fields by id)
func (l tlift) logicalStructValue(layout []tField, v tVal) reflect.Value {
	t := tStructType(layout)
	s := reflect.New(t).Elem()
	for _, fx := range v.Xs {
		for i, f := range layout {
			if f.ID == fx.ID {
				s.Field(i).Set(l.fieldValue(f, *fx.Val))
			}
		}
	}
	return s
}

func (l tlift) fieldValue(f tField, v tVal) reflect.Value {
	ft := tFieldType(f)
	if v.Ty == "NIL" {
		return reflect.Zero(ft)
	}
	var x reflect.Value
	switch f.Ty {
	case "LIST":
		x = reflect.MakeSlice(reflect.SliceOf(tScalarType(f.E)), 0, len(v.Xs))
		for _, e := range v.Xs {
			x = reflect.Append(x, l.elemValue(f.E, e.tVal))
		}
	case "SET":
		x = reflect.MakeMap(reflect.MapOf(tScalarType(f.E), reflect.TypeOf(struct{}{})))
		for _, e := range v.Xs {
			x.SetMapIndex(l.elemValue(f.E, e.tVal), reflect.ValueOf(struct{}{}))
		}
	case "MAP":
		x = reflect.MakeMap(reflect.MapOf(tScalarType(f.K), tScalarType(f.E)))
		for i := 0; i+1 < len(v.Xs); i += 2 {
			x.SetMapIndex(l.elemValue(f.K, v.Xs[i].tVal), l.elemValue(f.E, v.Xs[i+1].tVal))
		}
	case "ENUM":
		x = l.enumGo(f.E, v.V)
	default:
		x = l.elemValue(f.Ty, v)
	}
	if f.Ptr {
		p := reflect.New(x.Type())
		p.Elem().Set(x)
		return p
	}
	return x
}

func (l tlift) structValue(layout []tField, vals []tVal) reflect.Value {
	t := tStructType(layout)
	s := reflect.New(t).Elem()
	union := -1
	for i, f := range layout {
		if f.Ty == "UNION" {
			union = i
			continue
		}
		s.Field(i).Set(l.fieldValue(f, vals[i]))
	}
	if union >= 0 {
		// the interface field points to the one field that is set (as Unmarshal leaves it)
		for i, f := range layout {
			if i != union && !s.Field(i).IsZero() {
				_ = f
				s.Field(union).Set(s.Field(i).Addr())
			}
		}
	}
	return s
}

// ---------------------------------------------------------------- value trees (nil ~ empty collections)

func tTreeGo(layout []tField, s reflect.Value) string {
	var parts []string
	for i, f := range layout {
		parts = append(parts, strconv.Itoa(f.ID)+"="+tFieldTreeGo(f, s.Field(i)))
	}
	sort.Strings(parts)
	return "{" + strings.Join(parts, " ") + "}"
}

func tElemTreeGo(ty string, v reflect.Value) string {
	if ty == "STRUCT" {
		return tTreeGo(sub1Layout, v)
	}
	if ty == "STRUCTP" {
		if v.IsNil() {
			return "nil"
		}
		return "&" + tTreeGo(sub1Layout, v.Elem())
	}
	switch x := v.Interface().(type) {
	case float64:
		return fmt.Sprintf("d%016x", math.Float64bits(x))
	case string:
		return "s" + hex.EncodeToString([]byte(x))
	default:
		return fmt.Sprint(x)
	}
}

func tFieldTreeGo(f tField, v reflect.Value) string {
	if f.Ty == "UNION" {
		if v.IsNil() {
			return "nil"
		}
		return "->" + dumpOf(v.Elem())
	}
	if f.Ptr {
		if v.IsNil() {
			return "nil"
		}
		g := f
		g.Ptr = false
		return "&" + tFieldTreeGo(g, v.Elem())
	}
	switch f.Ty {
	case "LIST":
		var es []string
		for i := 0; i < v.Len(); i++ {
			es = append(es, tElemTreeGo(f.E, v.Index(i)))
		}
		return "[" + strings.Join(es, ",") + "]"
	case "SET":
		var es []string
		for _, k := range v.MapKeys() {
			es = append(es, tElemTreeGo(f.E, k))
		}
		sort.Strings(es)
		return "set[" + strings.Join(es, ",") + "]"
	case "MAP":
		var es []string
		it := v.MapRange()
		for it.Next() {
			es = append(es, tElemTreeGo(f.K, it.Key())+":"+tElemTreeGo(f.E, it.Value()))
		}
		sort.Strings(es)
		return "map[" + strings.Join(es, ",") + "]"
	}
	return tElemTreeGo(f.Ty, v)
}
