// Command vh is the conformance harness that binds the TLA+ specifications in
// /verif/spec to the real segmentio/encoding code in /repo.
//
//	vh run    -prop C05 -in vectors.ndjson [-seed N] [-tier quick] [-shard i/n] [-from k]
//	vh replay -prop C05 -case case.json
//
// "run" reads TLC-generated vectors (one JSON object per line), lifts each to
// concrete cases, executes them against the real API and prints one ndjson
// record per divergence plus a final summary record. "replay" re-executes one
// stored case in a fresh process (used by triage to confirm every divergence
// before it is reported).
package main

import (
	"bufio"
	"encoding/json"
	"flag"
	"fmt"
	"os"
	"runtime"
	"runtime/debug"
	"sort"
	"strconv"
	"strings"
	"sync"
	"sync/atomic"
	"time"
	"unsafe"
)

// Div is one divergence between the specification's prediction (or the
// reference oracle the property names) and the real code.
type Div struct {
	T       string          `json:"t"` // "div"
	Prop    string          `json:"prop"`
	API     string          `json:"api"`
	Want    string          `json:"want"`
	Got     string          `json:"got"`
	Finding string          `json:"finding,omitempty"` // id of the known-findings predicate that matches, if any
	Tags    []string        `json:"tags,omitempty"`
	Case    json.RawMessage `json:"case"`
}

// Ctx is what a property driver gets for each vector.
type Ctx struct {
	Seed   int64
	Tier   string
	Replay bool
	sum    *Summary
	divs   *[]Div
	mu     *sync.Mutex
}

type Summary struct {
	T        string           `json:"t"` // "sum"
	Prop     string           `json:"prop"`
	Vectors  int64            `json:"vectors"`
	Cases    int64            `json:"cases"`
	Evals    int64            `json:"evals"`
	Distinct int64            `json:"distinct_nontrivial"`
	Divs     int64            `json:"divs"`
	SpecErr  int64            `json:"spec_errors"`
	Tags     map[string]int64 `json:"tags"`
	Samples  []any            `json:"samples"`
	Extra    map[string]int64 `json:"extra,omitempty"`
	// divergences beyond the first divKeep of each kind (known-finding id or api) are only counted
	Suppressed map[string]int64 `json:"suppressed,omitempty"`
}

const divKeep = 300

var divCount = map[string]int{}

var (
	evals   atomic.Int64
	cases   atomic.Int64
	nontriv atomic.Int64
	specErr atomic.Int64
)

func (c *Ctx) Eval(n int)   { evals.Add(int64(n)) }
func (c *Ctx) Case()        { cases.Add(1) }
func (c *Ctx) Nontrivial()  { nontriv.Add(1) }
func (c *Ctx) Tag(t string) { c.mu.Lock(); c.sum.Tags[t]++; c.mu.Unlock() }
func (c *Ctx) Extra(k string, n int64) {
	c.mu.Lock()
	if c.sum.Extra == nil {
		c.sum.Extra = map[string]int64{}
	}
	c.sum.Extra[k] += n
	c.mu.Unlock()
}
func (c *Ctx) Sample(v any) {
	c.mu.Lock()
	if len(c.sum.Samples) < 6 {
		c.sum.Samples = append(c.sum.Samples, v)
	}
	c.mu.Unlock()
}

// Diverge records a divergence. kase must be JSON-marshalable and sufficient
// for the property's Replay function to re-execute the same concrete case.
func (c *Ctx) Diverge(prop, api, want, got, finding string, kase any, tags ...string) {
	b, err := json.Marshal(kase)
	if err != nil {
		b, _ = json.Marshal(fmt.Sprintf("%v", kase))
	}
	d := Div{T: "div", Prop: prop, API: api, Want: clip(want), Got: clip(got), Finding: finding, Case: b, Tags: tags}
	key := finding
	if key == "" {
		key = "api:" + api
	}
	c.mu.Lock()
	// full records for the first divergences of each kind, a count for the rest
	if divCount[key]++; divCount[key] <= divKeep {
		*c.divs = append(*c.divs, d)
	} else {
		if c.sum.Suppressed == nil {
			c.sum.Suppressed = map[string]int64{}
		}
		c.sum.Suppressed[key]++
	}
	c.mu.Unlock()
}

// SpecError records a disagreement between the specification and the
// reference oracle: the machinery is wrong, never the code (exit 2).
func (c *Ctx) SpecError(prop, what string, kase any) {
	specErr.Add(1)
	b, _ := json.Marshal(kase)
	fmt.Fprintf(os.Stderr, "SPEC-ERROR prop=%s %s case=%s\n", prop, what, b)
}

func clip(s string) string {
	if len(s) > 400 {
		return s[:400] + "…(" + strconv.Itoa(len(s)) + " bytes)"
	}
	return s
}

// Driver is implemented once per property.
type Driver struct {
	// Vector lifts one TLC-emitted vector to concrete cases and runs them.
	Vector func(c *Ctx, vec json.RawMessage)
	// Replay re-executes one stored case (the "case" member of a Div).
	Replay func(c *Ctx, kase json.RawMessage)
	// Extra runs vector-independent work (seeded drivers, histories), if any.
	Extra func(c *Ctx)
	// Finish runs once per process after all vectors (flush sinks).
	Finish func(c *Ctx)
	// Serial forces single-goroutine execution of vectors.
	Serial bool
}

var drivers = map[string]*Driver{}

func register(prop string, d *Driver) { drivers[prop] = d }

func main() {
	if len(os.Args) < 2 {
		fmt.Fprintln(os.Stderr, "usage: vh run|replay|<tool> ...")
		os.Exit(2)
	}
	debug.SetMaxStack(256 << 20)
	switch os.Args[1] {
	case "run":
		cmdRun(os.Args[2:])
	case "replay":
		cmdReplay(os.Args[2:])
	default:
		if f, ok := tools[os.Args[1]]; ok {
			f(os.Args[2:])
			return
		}
		fmt.Fprintln(os.Stderr, "unknown command", os.Args[1])
		os.Exit(2)
	}
}

var tools = map[string]func([]string){}

func cmdRun(args []string) {
	fs := flag.NewFlagSet("run", flag.ExitOnError)
	prop := fs.String("prop", "", "property id")
	in := fs.String("in", "", "vector file (ndjson); - for stdin; empty for none")
	seed := fs.Int64("seed", 1, "seed")
	tier := fs.String("tier", "quick", "tier")
	shard := fs.String("shard", "0/1", "i/n: process vectors with index%n == i")
	from := fs.Int64("from", 0, "skip vectors with index < from")
	only := fs.Int64("only", -1, "process only this vector index")
	par := fs.Int("par", runtime.NumCPU(), "goroutines")
	progress := fs.Bool("progress", false, "write @index to stderr before each vector (crash attribution)")
	noExtra := fs.Bool("noextra", false, "skip the driver's Extra work")
	maxStack := fs.Int("maxstack", 0, "debug.SetMaxStack MiB")
	fs.Parse(args)
	if *maxStack > 0 {
		debug.SetMaxStack(*maxStack << 20)
	}
	d, ok := drivers[*prop]
	if !ok {
		fmt.Fprintln(os.Stderr, "no driver for", *prop)
		os.Exit(2)
	}
	var si, sn int
	fmt.Sscanf(*shard, "%d/%d", &si, &sn)
	if sn <= 0 {
		sn = 1
	}
	sum := &Summary{T: "sum", Prop: *prop, Tags: map[string]int64{}}
	var divs []Div
	var mu sync.Mutex
	ctx := &Ctx{Seed: *seed, Tier: *tier, sum: sum, divs: &divs, mu: &mu}
	out := bufio.NewWriter(os.Stdout)
	defer out.Flush()
	flush := func() {
		mu.Lock()
		for _, dv := range divs {
			b, _ := json.Marshal(dv)
			out.Write(b)
			out.WriteByte('\n')
			sum.Divs++
		}
		divs = divs[:0]
		out.Flush()
		mu.Unlock()
	}
	start := time.Now()
	if *in != "" && d.Vector != nil {
		var f *os.File
		if *in == "-" {
			f = os.Stdin
		} else {
			var err error
			f, err = os.Open(*in)
			if err != nil {
				fmt.Fprintln(os.Stderr, err)
				os.Exit(2)
			}
		}
		sc := bufio.NewScanner(f)
		sc.Buffer(make([]byte, 1<<20), 64<<20)
		n := *par
		if d.Serial || *progress {
			n = 1
		}
		ch := make(chan []byte, 4*n)
		var wg sync.WaitGroup
		for w := 0; w < n; w++ {
			wg.Add(1)
			go func() {
				defer wg.Done()
				for line := range ch {
					d.Vector(ctx, line)
				}
			}()
		}
		var idx int64 = -1
		for sc.Scan() {
			idx++
			if idx < *from || int(idx%int64(sn)) != si || (*only >= 0 && idx != *only) {
				continue
			}
			line := append([]byte(nil), sc.Bytes()...)
			if len(line) == 0 {
				continue
			}
			sum.Vectors++
			if *progress {
				fmt.Fprintf(os.Stderr, "@%d\n", idx)
				d.Vector(ctx, line)
				flush()
				continue
			}
			ch <- line
			if sum.Vectors%4096 == 0 {
				flush()
			}
		}
		close(ch)
		wg.Wait()
	}
	flush()
	if d.Extra != nil && !*noExtra && si == 0 {
		if *progress {
			fmt.Fprintln(os.Stderr, "@extra")
		}
		d.Extra(ctx)
	}
	if d.Finish != nil {
		d.Finish(ctx)
	}
	flush()
	sum.Cases = cases.Load()
	sum.Evals = evals.Load()
	sum.Distinct = nontriv.Load()
	sum.SpecErr = specErr.Load()
	if sum.Extra == nil {
		sum.Extra = map[string]int64{}
	}
	sum.Extra["wall_ms"] = time.Since(start).Milliseconds()
	b, _ := json.Marshal(sum)
	out.Write(b)
	out.WriteByte('\n')
}

func cmdReplay(args []string) {
	fs := flag.NewFlagSet("replay", flag.ExitOnError)
	prop := fs.String("prop", "", "property id")
	cf := fs.String("case", "", "file holding the case JSON (or a replay file with a \"case\" member)")
	seed := fs.Int64("seed", 1, "seed")
	fs.Parse(args)
	d, ok := drivers[*prop]
	if !ok || d.Replay == nil {
		fmt.Fprintln(os.Stderr, "no replay driver for", *prop)
		os.Exit(2)
	}
	raw, err := os.ReadFile(*cf)
	if err != nil {
		fmt.Fprintln(os.Stderr, err)
		os.Exit(2)
	}
	var wrap struct {
		Case json.RawMessage `json:"case"`
	}
	if json.Unmarshal(raw, &wrap) == nil && len(wrap.Case) > 0 {
		raw = wrap.Case
	}
	sum := &Summary{T: "sum", Prop: *prop, Tags: map[string]int64{}}
	var divs []Div
	var mu sync.Mutex
	ctx := &Ctx{Seed: *seed, Tier: "replay", Replay: true, sum: sum, divs: &divs, mu: &mu}
	d.Replay(ctx, raw)
	for _, dv := range divs {
		b, _ := json.Marshal(dv)
		fmt.Println(string(b))
	}
	sum.Divs = int64(len(divs))
	sum.Evals = evals.Load()
	b, _ := json.Marshal(sum)
	fmt.Println(string(b))
}

// ---- small helpers shared by drivers ----

func sortedKeys[V any](m map[string]V) []string {
	ks := make([]string, 0, len(m))
	for k := range m {
		ks = append(ks, k)
	}
	sort.Strings(ks)
	return ks
}

func errClass(err error) string {
	if err == nil {
		return "ok"
	}
	return "error"
}

func protect(f func()) (panicked string) {
	defer func() {
		if r := recover(); r != nil {
			panicked = fmt.Sprintf("panic: %v", r)
			if i := strings.IndexByte(panicked, '\n'); i > 0 {
				panicked = panicked[:i]
			}
		}
	}()
	f()
	return ""
}

// rng is a tiny deterministic generator (splitmix64) so drivers do not share
// math/rand state across goroutines.
type rng struct{ s uint64 }

func newRng(seed int64, salt string) *rng {
	h := uint64(seed)*0x9e3779b97f4a7c15 + 0x1234567
	for i := 0; i < len(salt); i++ {
		h = (h ^ uint64(salt[i])) * 0x100000001b3
	}
	return &rng{h}
}
func (r *rng) next() uint64 {
	r.s += 0x9e3779b97f4a7c15
	z := r.s
	z = (z ^ (z >> 30)) * 0xbf58476d1ce4e5b9
	z = (z ^ (z >> 27)) * 0x94d049bb133111eb
	return z ^ (z >> 31)
}
func (r *rng) intn(n int) int {
	if n <= 0 {
		return 0
	}
	return int(r.next() % uint64(n))
}

func uintptrOf(b []byte) uintptr {
	if len(b) == 0 {
		return 0
	}
	return uintptr(unsafe.Pointer(&b[0]))
}
