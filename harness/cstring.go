package main

// String literals both ways (spec/JsonString.tla): the literal the specification
// predicts for a unit sequence against every entry point that writes a JSON
// string (C01), and the meaning or rejection it predicts for a literal against
// every entry point that reads one (C02).  encoding/json is only a cross-check
// on the specification here (a disagreement is a SPEC-ERROR).

import (
	"bytes"
	stdjson "encoding/json"
	"fmt"
	"strings"
	"sync"
	"unicode/utf16"
	

	"github.com/segmentio/encoding/json"
)

type strItem struct {
	K   string `json:"k,omitempty"`
	R   string `json:"r,omitempty"`
	Src int    `json:"src"`
}

type strVec struct {
	Dir  string    `json:"dir"`
	S    []string  `json:"s"`
	Html bool      `json:"html"`
	Out  []strItem `json:"out"`
	OK   bool      `json:"ok"`
	Back []strItem `json:"back"`
}

type strCase struct {
	Str  *strVec `json:"strvec"`
	Var  int     `json:"var"`  // which concrete bytes stand for each unit
	Pads []int   `json:"pads"` // plain bytes in front of unit i (len(S)+1 entries; the last one is behind the string)
}

// concrete bytes per string unit; plain bytes are never hex digits so that padding cannot complete a \u escape
var strUnits = map[string][]string{
	"a":   {"z", " ", "~", "!", "#", "[", "k"},
	"sl":  {"/"},
	"del": {"\x7f"},
	"q":   {"\""},
	"bs":  {"\\"},
	"sc":  {"\n", "\t", "\r", "\b", "\f"},
	"c":   {"\x01", "\x00", "\x1f", "\x0b", "\x0e"},
	"h":   {"<", ">", "&"},
	"r2":  {"\u00e9", "\u0080", "\u07ff"},
	"r3":  {"\u20ac", "\u0800", "\uffff", "\ud7ff", "\ue000", "\u2027", "\u202a"},
	"rep": {"\ufffd"},
	"r4":  {"\U0001f600", "\U00010000", "\U0010ffff"},
	"ls":  {"\u2028"},
	"ps":  {"\u2029"},
	"x":   {"\xff", "\x80", "\xbf", "\xc0", "\xc1", "\xf5", "\xfe", "\xf8"},
	"tr":  {"\xe2\x82", "\xc0\x80", "\xf0\x9f", "\xe0\x80", "\xf4\x90"},
	"sur": {"\xed\xa0\x80", "\xed\xbf\xbf", "\xf4\x90\x80"},
}

// \uXXXX escapes by class: code points
var strUEsc = map[string][]rune{
	"u_asc": {0x41, 0x7e, 0x20}, "u_sl": {0x2f}, "u_del": {0x7f}, "u_q": {0x22}, "u_bsl": {0x5c},
	"u_sc": {0x0a, 0x09, 0x0d, 0x08, 0x0c}, "u_ctl": {0x1f, 0x01, 0x0b}, "u_nul": {0},
	"u_html": {0x3c, 0x3e, 0x26}, "u_r2": {0xe9, 0x80, 0x7ff}, "u_r3": {0x20ac, 0x800, 0xffff, 0xd7ff, 0xe000},
	"u_rep": {0xfffd}, "u_ls": {0x2028}, "u_ps": {0x2029},
	"u_hi": {0xd83d, 0xd800, 0xdbff}, "u_lo": {0xde00, 0xdc00, 0xdfff},
}

var strBroken = map[string][]string{
	"ctlraw":   {"\n", "\x1f", "\x00", "\t"},
	"e_bad":    {`\x`, `\a`, `\'`, `\U`, `\0`, `\ `},
	"u_short":  {`\u12`, `\u`, `\u123`},
	"u_nonhex": {`\u12G4`, `\u-123`, `\u 123`, `\ug000`, `\u000g`},
}

var strSimple = map[string][]string{"e_q": {`\"`}, "e_bs": {`\\`}, "e_sl": {`\/`}, "e_c": {`\n`, `\t`, `\r`, `\b`, `\f`}}

func pick[T any](xs []T, v int) T { return xs[v%len(xs)] }

const strPad = "z"

// renderUnits gives the bytes of each string unit for a variant; an invalid byte that follows a truncated
// sequence is one that cannot complete it
func renderUnits(s []string, v int) []string {
	out := make([]string, len(s))
	for i, u := range s {
		tab, ok := strUnits[u]
		if !ok {
			return nil
		}
		b := pick(tab, v+i)
		if u == "x" && i > 0 && (s[i-1] == "tr" || s[i-1] == "sur" || s[i-1] == "x") {
			b = pick([]string{"\xff", "\xfe", "\xf8"}, v+i)
		}
		if (u == "tr" || u == "sur") && i > 0 && (s[i-1] == "tr" || s[i-1] == "x" || s[i-1] == "sur") && b[0] < 0xc0 {
			b = tab[0]
		}
		out[i] = b
	}
	return out
}

const hexLower = "0123456789abcdef"

func escLetter(b byte) string {
	switch b {
	case '\n':
		return `\n`
	case '\t':
		return `\t`
	case '\r':
		return `\r`
	case '\b':
		return `\b`
	case '\f':
		return `\f`
	}
	return "?"
}

// strPadSets: where the plain padding goes (lifting to the 8-byte words of the scanner and its thresholds)
func strPadSets(n int, between bool, tier string) [][]int {
	var sets [][]int
	for f := 0; f <= 16; f++ {
		p := make([]int, n+1)
		p[0] = f
		sets = append(sets, p)
	}
	fronts := []int{0, 3, 8}
	backs := []int{1, 7, 8}
	if tier == "thorough" {
		fronts = []int{0, 1, 3, 5, 7, 8, 13}
		backs = []int{1, 2, 7, 8, 9, 16}
	}
	for _, f := range fronts {
		for _, bk := range backs {
			p := make([]int, n+1)
			p[0], p[n] = f, bk
			sets = append(sets, p)
			if between && n >= 2 {
				for _, g := range []int{1, 7, 8} {
					q := append([]int(nil), p...)
					for i := 1; i < n; i++ {
						q[i] = g
					}
					sets = append(sets, q)
				}
			}
		}
	}
	return sets
}

func strVars(c *Ctx, n int) []int {
	base := int(c.Seed) + n
	if c.Tier == "thorough" {
		return []int{base, base + 1, base + 2, base + 3}
	}
	return []int{base, base + 1}
}

// ---------------------------------------------------------------- escape direction (C01)

func strEscVector(c *Ctx, v *strVec, idx int) {
	c.Nontrivial()
	for _, vr := range strVars(c, idx) {
		for _, pads := range strPadSets(len(v.S), true, c.Tier) {
			c.Case()
			strEscCase(c, strCase{Str: v, Var: vr, Pads: pads})
		}
	}
}

func strEscCase(c *Ctx, k strCase) {
	v := k.Str
	units := renderUnits(v.S, k.Var)
	if units == nil || len(k.Pads) != len(v.S)+1 {
		c.SpecError("C01", "unknown string unit", k)
		return
	}
	var in, lit strings.Builder
	lit.WriteByte('"')
	next := 0
	for i, u := range units {
		pad := strings.Repeat(strPad, k.Pads[i])
		in.WriteString(pad)
		lit.WriteString(pad)
		in.WriteString(u)
		for next < len(v.Out) && v.Out[next].Src == i+1 {
			switch o := v.Out[next]; o.K {
			case "raw":
				lit.WriteString(u)
			case "e_q":
				lit.WriteString(`\"`)
			case "e_bs":
				lit.WriteString(`\\`)
			case "e_c":
				lit.WriteString(escLetter(u[0]))
			case "u_ctl", "u_html":
				lit.WriteString(`\u00`)
				lit.WriteByte(hexLower[u[0]>>4])
				lit.WriteByte(hexLower[u[0]&15])
			case "u_ls":
				lit.WriteString("\\u2028")
			case "u_ps":
				lit.WriteString("\\u2029")
			case "u_rep":
				lit.WriteString("\\ufffd")
			default:
				c.SpecError("C01", "unknown literal kind "+o.K, k)
				return
			}
			next++
		}
	}
	tail := strings.Repeat(strPad, k.Pads[len(units)])
	in.WriteString(tail)
	lit.WriteString(tail)
	lit.WriteByte('"')
	s, want := in.String(), lit.String()

	// cross-check of the specification
	var ref bytes.Buffer
	enc := stdjson.NewEncoder(&ref)
	enc.SetEscapeHTML(v.Html)
	enc.Encode(s)
	if got := strings.TrimSuffix(ref.String(), "\n"); got != want {
		c.SpecError("C01", fmt.Sprintf("encoding/json writes %q where JsonString.EscDef gives %q", got, want), k)
		return
	}
	cmp := func(api string, got []byte, err error) {
		c.Eval(1)
		if err != nil || string(got) != want {
			c.Diverge("C01", api, clipS(want), clipS(string(got))+" err="+errStr(err), "", k)
		}
	}
	flags := json.AppendFlags(0)
	if v.Html {
		flags = json.EscapeHTML
	}
	prefix := []byte("prefix:")
	withPrefix := func(b []byte) []byte {
		if !bytes.HasPrefix(b, prefix) {
			return []byte("prefix lost: " + string(b))
		}
		return b[len(prefix):]
	}
	if p := protect(func() {
		b, err := json.Append(nil, s, flags)
		cmp("json.Append(string)", b, err)
		cmp("json.AppendEscape", withPrefix(json.AppendEscape(append([]byte(nil), prefix...), s, flags)), nil)
		b, err = json.Append(append(make([]byte, 0, 64), prefix...), &s, flags)
		cmp("json.Append(*string)", withPrefix(b), err)
		var w bytes.Buffer
		e := json.NewEncoder(&w)
		e.SetEscapeHTML(v.Html)
		err = e.Encode(s)
		cmp("Encoder.Encode(string)", bytes.TrimSuffix(w.Bytes(), []byte("\n")), err)
		// the same literal wherever a string is written: interface, element, field value, map key, map value
		b, err = json.Append(nil, any(s), flags)
		cmp("json.Append(any(string))", b, err)
		b, err = json.Append(nil, []string{s}, flags)
		cmp("json.Append([]string)", unwrap(b, "[", "]"), err)
		b, err = json.Append(nil, struct{ F string }{s}, flags)
		cmp("json.Append(struct field)", unwrap(b, `{"F":`, "}"), err)
		b, err = json.Append(nil, map[string]int{s: 1}, flags)
		cmp("json.Append(map key)", unwrap(b, "{", ":1}"), err)
		b, err = json.Append(nil, map[string]string{"k": s}, flags)
		cmp("json.Append(map[string]string value)", unwrap(b, `{"k":`, "}"), err)
		b, err = json.Append(nil, map[string]any{"k": s}, flags)
		cmp("json.Append(map[string]any value)", unwrap(b, `{"k":`, "}"), err)
		if v.Html {
			b, err = json.Marshal(s)
			cmp("json.Marshal(string)", b, err)
			cmp("json.Escape", json.Escape(s), nil)
			b, err = json.MarshalIndent([]string{s}, "", "")
			cmp("json.MarshalIndent([]string)", unwrap(b, "[\n", "\n]"), err)
		}
	}); p != "" {
		c.Diverge("C01", "string literal writers", "no panic", p, "", k)
	}
}

func unwrap(b []byte, pre, suf string) []byte {
	if bytes.HasPrefix(b, []byte(pre)) && bytes.HasSuffix(b, []byte(suf)) && len(b) >= len(pre)+len(suf) {
		return b[len(pre) : len(b)-len(suf)]
	}
	return append([]byte("not wrapped as expected: "), b...)
}

// ---------------------------------------------------------------- unescape direction (C02)

func strUnescVector(c *Ctx, v *strVec, idx int) {
	c.Nontrivial()
	for _, vr := range strVars(c, idx) {
		for _, pads := range strPadSets(len(v.S), false, c.Tier) {
			c.Case()
			strUnescCase(c, strCase{Str: v, Var: vr, Pads: pads})
		}
	}
}

// renderLit gives the bytes of each literal unit and, for well-formed literals, of each decoded item
func renderLit(v *strVec, vr int) (lits []string, dec map[int]string, ok bool) {
	lits = make([]string, len(v.S))
	cps := make([]rune, len(v.S))
	raws := map[string]bool{}
	for u := range strUnits {
		raws[u] = true
	}
	prevBad := false
	for i, u := range v.S {
		switch {
		case raws[u] && u != "q" && u != "bs" && u != "sc" && u != "c":
			r := renderUnits([]string{u}, vr+i)[0]
			if prevBad && u == "x" {
				r = pick([]string{"\xff", "\xfe", "\xf8"}, vr+i)
			}
			if prevBad && (u == "tr" || u == "sur") {
				r = strUnits[u][0]
			}
			lits[i] = r
		case strSimple[u] != nil:
			lits[i] = pick(strSimple[u], vr+i)
		case strUEsc[u] != nil:
			cp := pick(strUEsc[u], vr+i)
			cps[i] = cp
			f := `\u%04x`
			if (vr+i)%2 == 1 {
				f = `\u%04X`
			}
			lits[i] = fmt.Sprintf(f, cp)
		case strBroken[u] != nil:
			lits[i] = pick(strBroken[u], vr+i)
		default:
			return nil, nil, false
		}
		prevBad = u == "x" || u == "tr" || u == "sur"
	}
	dec = map[int]string{}
	for _, it := range v.Back {
		i := it.Src - 1
		u := v.S[i]
		var d string
		switch {
		case it.R == "rep" && u != "rep" && u != "u_rep":
			d = "\ufffd"
		case it.R == "r4" && u == "u_hi":
			d = string(utf16.DecodeRune(cps[i], cps[i+1]))
		case raws[u]:
			d = lits[i]
		case strSimple[u] != nil:
			switch lits[i][1] {
			case 'n':
				d = "\n"
			case 't':
				d = "\t"
			case 'r':
				d = "\r"
			case 'b':
				d = "\b"
			case 'f':
				d = "\f"
			default:
				d = lits[i][1:]
			}
		default:
			d = string([]rune{cps[i]})
		}
		dec[i] += d
	}
	return lits, dec, true
}

func strUnescCase(c *Ctx, k strCase) {
	v := k.Str
	lits, dec, ok := renderLit(v, k.Var)
	if !ok || len(k.Pads) != len(v.S)+1 {
		c.SpecError("C02", "unknown literal unit", k)
		return
	}
	var lit, want strings.Builder
	lit.WriteByte('"')
	for i, l := range lits {
		pad := strings.Repeat(strPad, k.Pads[i])
		lit.WriteString(pad)
		want.WriteString(pad)
		lit.WriteString(l)
		want.WriteString(dec[i])
	}
	tail := strings.Repeat(strPad, k.Pads[len(lits)])
	lit.WriteString(tail)
	want.WriteString(tail)
	lit.WriteByte('"')
	doc, ws := lit.String(), want.String()

	var ref string
	rerr := stdjson.Unmarshal([]byte(doc), &ref)
	if (rerr == nil) != v.OK || (v.OK && ref != ws) {
		c.SpecError("C02", fmt.Sprintf("encoding/json reads %q as %q err=%v where JsonString.DecDef gives ok=%v %q", doc, ref, rerr, v.OK, ws), k)
		return
	}
	cmp := func(api string, got string, err error) {
		c.Eval(1)
		if v.OK && (err != nil || got != ws) {
			c.Diverge("C02", api, fmt.Sprintf("%q", clipS(ws)), fmt.Sprintf("%q err=%s", clipS(got), errStr(err)), "", k)
		} else if !v.OK && err == nil {
			c.Diverge("C02", api, "an error (not a string literal)", fmt.Sprintf("%q", clipS(got)), "", k)
		}
	}
	fresh := func() []byte { return []byte(doc) }
	if p := protect(func() {
		var s string
		err := json.Unmarshal(fresh(), &s)
		cmp("json.Unmarshal(*string)", s, err)
		var a any
		err = json.Unmarshal(fresh(), &a)
		as, _ := a.(string)
		if err == nil && a != nil {
			if _, isS := a.(string); !isS {
				as = fmt.Sprintf("not a string: %T", a)
			}
		}
		cmp("json.Unmarshal(*any)", as, err)
		var sl []string
		err = json.Unmarshal([]byte("["+doc+"]"), &sl)
		cmp("json.Unmarshal(*[]string)", first(sl), err)
		var st struct{ F string }
		err = json.Unmarshal([]byte(`{"F":`+doc+`}`), &st)
		cmp("json.Unmarshal(struct field)", st.F, err)
		var ps *string
		err = json.Unmarshal([]byte(" "+doc+" "), &ps)
		if ps == nil {
			ps = new(string)
			if err == nil {
				*ps = "nil pointer"
			}
		}
		cmp("json.Unmarshal(**string)", *ps, err)
		m := map[string]int{}
		err = json.Unmarshal([]byte("{"+doc+":1}"), &m)
		cmp("json.Unmarshal(map key)", onlyKey(m), err)
		ma := map[string]any{}
		err = json.Unmarshal([]byte("{"+doc+":"+doc+"}"), &ma)
		mk := ""
		for kk, vv := range ma {
			if vs, _ := vv.(string); vs != kk {
				mk = "key and value differ: " + kk + " / " + vs
			} else {
				mk = kk
			}
		}
		if len(ma) != 1 && err == nil {
			mk = fmt.Sprintf("%d entries", len(ma))
		}
		cmp("json.Unmarshal(map[string]any key and value)", mk, err)
		for _, fl := range []json.ParseFlags{json.ZeroCopy, json.DontCopyString, json.DontCopyRawMessage | json.DontMatchCaseInsensitiveStructFields} {
			var z string
			rest, err := json.Parse(fresh(), &z, fl)
			if err == nil && len(rest) != 0 {
				err = fmt.Errorf("remainder %q", rest)
			}
			cmp(fmt.Sprintf("json.Parse(*string, flags=%d)", fl), strings.Clone(z), err)
		}
		var ds string
		err = json.NewDecoder(strings.NewReader(doc + "\n")).Decode(&ds)
		cmp("Decoder.Decode(*string)", ds, err)
		// the Decoder, the literal cut at every offset by a refill of its buffer (a first value takes up the rest of the first 32 KiB)
		if allZero(k.Pads) {
			for at := 1; at < len(doc); at++ {
				stream := append(append([]byte(nil), strRefillPad(at)...), doc...)
				d := json.NewDecoder(bytes.NewReader(stream))
				var first json.RawMessage
				var rs string
				if err := d.Decode(&first); err != nil {
					cmp("Decoder.Decode(value before the literal)", "", err)
					break
				}
				err := d.Decode(&rs)
				if err != nil || rs != ws {
					err = fmt.Errorf("cut after %d bytes: %v", at, err)
				}
				cmp("Decoder.Decode(literal cut by a refill of the buffer)", rs, err)
			}
		}
		// ... and the literal behind a long plain stretch, so that its units arrive with the second fill of one and the same value
		if allZero(k.Pads) {
			long := strings.Repeat(strPad, 33000)
			var rs string
			err := json.NewDecoder(strings.NewReader(`"` + long + doc[1:] + "\n")).Decode(&rs)
			if err == nil && !strings.HasPrefix(rs, long) {
				err = fmt.Errorf("the long prefix is damaged")
			}
			cmp("Decoder.Decode(literal longer than the buffer)", strings.TrimPrefix(rs, long), err)
			rs = ""
			err = json.Unmarshal([]byte(`"`+long+doc[1:]), &rs)
			cmp("json.Unmarshal(literal longer than the buffer)", strings.TrimPrefix(rs, long), err)
		}
		c.Eval(1)
		if got := json.Valid([]byte(doc)); got != v.OK {
			c.Diverge("C02", "json.Valid(string literal)", fmt.Sprint(v.OK), fmt.Sprint(got), "", k)
		}
		if v.OK {
			cmp("json.Unescape", string(json.Unescape(fresh())), nil)
			b := json.AppendUnescape([]byte("prefix:"), fresh(), 0)
			cmp("json.AppendUnescape", strings.TrimPrefix(string(b), "prefix:"), nil)
		}
		if v.OK { // (invalid UTF-8 included: the decoded value of a token is what encoding/json decodes)
			cmp("RawValue.Unquote", string(json.RawValue(fresh()).Unquote()), nil)
			b := json.RawValue(fresh()).AppendUnquote(make([]byte, 0, 16))
			cmp("RawValue.AppendUnquote", string(b), nil)
			tok := json.NewTokenizer(fresh())
			if tok.Next() {
				cmp("Tokenizer.String", string(tok.String()), tok.Err)
			} else {
				cmp("Tokenizer.String", "", fmt.Errorf("no token: %v", tok.Err))
			}
		}
	}); p != "" {
		c.Diverge("C02", "string literal readers", "no panic", p, "", k)
	}
}

func allZero(xs []int) bool {
	for _, x := range xs {
		if x != 0 {
			return false
		}
	}
	return true
}

var strRefillPads sync.Map

// strRefillPad: a string value and a newline that leave room for `at` more bytes in the Decoder's first 32 KiB
func strRefillPad(at int) []byte {
	if p, ok := strRefillPads.Load(at); ok {
		return p.([]byte)
	}
	const fill = 32768
	pad := make([]byte, 0, fill)
	pad = append(pad, '"')
	for len(pad) < fill-at-2 {
		pad = append(pad, 'a')
	}
	pad = append(pad, '"', '\n')
	strRefillPads.Store(at, pad)
	return pad
}

func strHasBad(s []string) bool {
	for _, u := range s {
		if u == "x" || u == "tr" || u == "sur" {
			return true
		}
	}
	return false
}

func first(s []string) string {
	if len(s) == 1 {
		return s[0]
	}
	return fmt.Sprintf("%d elements", len(s))
}

func onlyKey(m map[string]int) string {
	if len(m) != 1 {
		return fmt.Sprintf("%d entries", len(m))
	}
	for k := range m {
		return k
	}
	return ""
}

// strDispatch recognises the vectors and cases of this file
func strDispatch(c *Ctx, raw stdjson.RawMessage) bool {
	idx := 0
	var k strCase
	if stdjson.Unmarshal(raw, &k) == nil && k.Str != nil {
		if k.Str.Dir == "esc" {
			strEscCase(c, k)
		} else {
			strUnescCase(c, k)
		}
		return true
	}
	var v strVec
	if stdjson.Unmarshal(raw, &v) != nil || v.Dir == "" {
		return false
	}
	for _, u := range v.S {
		idx = idx*31 + len(u) + int(u[0])
	}
	idx %= 1000
	if v.Dir == "esc" {
		strEscVector(c, &v, idx)
	} else {
		strUnescVector(c, &v, idx)
	}
	return true
}
