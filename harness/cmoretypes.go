//go:build verif

package main

// Types outside the shape generator's reach so far, each a difference from encoding/json that the pinned tree had
// (F-C01-11 .. F-C01-15, F-C02-12, F-C02-13): key types with one of the two text methods only, MarshalJSON on the pointer
// next to MarshalText on the value, the string option on a named pointer type, an embedded field whose tag name is not
// valid, zone offsets of a day and more, nesting limits below a pointer held in an interface.

import (
	stdjson "encoding/json"
	"fmt"
	"reflect"
	"strings"
	"time"

	"github.com/segmentio/encoding/json"
)

type mtKU int // UnmarshalText on the pointer, no MarshalText

func (*mtKU) UnmarshalText(b []byte) error { return nil }

type mtKM int // MarshalText on the value, no UnmarshalText

func (k mtKM) MarshalText() ([]byte, error) { return []byte(fmt.Sprintf("km%d", int(k))), nil }

type mtKS struct{ A int } // a struct key with MarshalText only

func (k mtKS) MarshalText() ([]byte, error) { return []byte(fmt.Sprintf("ks%d", k.A)), nil }

type mtBoth struct{ N int } // MarshalJSON on the pointer, MarshalText on the value

func (*mtBoth) MarshalJSON() ([]byte, error) { return []byte(`"json"`), nil }
func (mtBoth) MarshalText() ([]byte, error)  { return []byte("text"), nil }

type mtBothInv struct{ N int } // the other way round

func (mtBothInv) MarshalJSON() ([]byte, error)  { return []byte(`"json"`), nil }
func (*mtBothInv) MarshalText() ([]byte, error) { return []byte("text"), nil }

type mtPI *int
type mtPS *string
type mtNamedPtr struct {
	A mtPI  `json:",string"`
	S mtPS  `json:"s,string"`
	U *int  `json:"u,string"`
	N mtPI  `json:"n,string,omitempty"`
	V **int `json:"v,string"`
}
type mtEmb struct{ X int }
type mtBadTag struct {
	mtEmb `json:"a'b"`
	Y     int `json:"y y"`
}
type mtGoodTag struct {
	mtEmb `json:"emb"`
}

type mtPV struct{ N int }

func (*mtPV) MarshalJSON() ([]byte, error) { return []byte(`"ptr"`), nil }

type mtInner struct{ X mtPV }
type mtTop struct {
	M map[string]mtInner
	P *mtInner
}

func c01MoreTypes(c *Ctx) {
	// open finding F-C01-16: the codec of a struct type is built once per construction, for the addressability of its
	// first occurrence (here: not addressable, as a map value); the occurrence behind the pointer then misses the
	// pointer-receiver method. Exactly this shape carries the finding's id.
	{
		v := mtTop{M: map[string]mtInner{"a": {}}, P: &mtInner{}}
		wb, we := stdjson.Marshal(v)
		var gb []byte
		var ge error
		c.Case()
		k := jsonCase{Setting: "moretypes:addressability"}
		if p := protect(func() { gb, ge = json.Marshal(v) }); p != "" {
			c.Diverge("C01", "json.Marshal(main.mtTop)", clipS(string(wb)), p, "", k)
		} else {
			finding := ""
			if ge == nil && string(gb) == `{"M":{"a":{"X":{"N":0}}},"P":{"X":{"N":0}}}` {
				finding = "F-C01-16"
			}
			c01Compare(c, k, "json.Marshal(a struct type first met where it is not addressable, then behind a pointer)", wb, we, gb, ge, finding)
		}
	}
	one, s := 1, "s"
	pone := &one
	var values []any
	add := func(vs ...any) { values = append(values, vs...) }
	add(map[mtKU]string{1: "a", 2: "b"}, map[mtKM]string{1: "a", -2: "b"}, map[mtKS]int{{1}: 1, {0}: 2}, map[mtKM]mtBoth{3: {1}})
	add(mtBoth{1}, &mtBoth{1}, []mtBoth{{1}, {2}}, [2]mtBoth{}, map[string]mtBoth{"k": {1}}, struct{ B mtBoth }{}, &struct{ B mtBoth }{}, []*mtBoth{{1}, nil}, []any{mtBoth{1}, &mtBoth{2}})
	add(mtBothInv{1}, &mtBothInv{1}, []mtBothInv{{1}}, map[string]mtBothInv{"k": {1}}, struct{ B mtBothInv }{}, &struct{ B mtBothInv }{})
	add(mtNamedPtr{A: &one, S: &s, U: &one, V: &pone}, mtNamedPtr{}, &mtNamedPtr{A: &one, N: &one})
	add(mtBadTag{mtEmb{1}, 2}, &mtBadTag{}, mtGoodTag{mtEmb{3}})
	for _, off := range []int{-100 * 3600, -25 * 3600, -24 * 3600, -24*3600 + 1, -3600, 0, 1, 3600, 24*3600 - 1, 24 * 3600, 25 * 3600, 99 * 3600, 100 * 3600} {
		t := time.Date(2020, 1, 2, 3, 4, 5, 6, time.FixedZone("z", off))
		add(t, &t, []time.Time{t}, map[string]time.Time{"t": t}, struct{ T time.Time }{t})
	}
	for i, v := range values {
		k := jsonCase{Setting: fmt.Sprintf("moretypes:%d", i)}
		wb, we := stdjson.Marshal(v)
		var gb []byte
		var ge error
		c.Case()
		api := fmt.Sprintf("json.Marshal(%T)", v)
		if p := protect(func() { gb, ge = json.Marshal(v) }); p != "" {
			c.Diverge("C01", api, errStr(we)+" "+clipS(string(wb)), p, "", k)
			continue
		}
		c01Compare(c, k, api, wb, we, gb, ge, "")
	}
}

type mtXI struct {
	X any
	N NAny
}

func c02MoreTypes(c *Ctx) {
	type tc struct {
		doc string
		mk  func() any
	}
	var cases []tc
	add := func(mk func() any, docs ...string) {
		for _, d := range docs {
			cases = append(cases, tc{d, mk})
		}
	}
	add(func() any { return new(map[mtKM]int) }, `{"1":1}`, `{"km1":1}`, `{"x":1}`, `{}`, `null`)
	add(func() any { return new(map[mtKU]string) }, `{"1":"a"}`, `{"x":"a"}`, `{"1":"a","2":"b"}`)
	add(func() any { return new(map[mtKS]int) }, `{"ks1":1}`, `{}`)
	add(func() any { return new(mtNamedPtr) }, `{"A":1}`, `{"A":"1"}`, `{"s":"x"}`, `{"s":"\"x\""}`, `{"u":"1"}`, `{"u":1}`, `{"n":"1","v":"2"}`, `{"A":null,"s":null}`, `{"v":3}`)
	add(func() any { return new(mtBadTag) }, `{"X":1,"a'b":{"X":2},"mtEmb":{"X":3},"y y":4,"Y":5}`, `{"x":7}`)
	add(func() any { return new(mtGoodTag) }, `{"X":1,"emb":{"X":2}}`)
	// the nesting limit below a pointer that an interface holds (the levels above it count)
	for _, n := range []int{9998, 9999, 10000} {
		for _, open := range []string{"[", `{"a":`} {
			cl := "]"
			if open != "[" {
				cl = "}"
			}
			deep := strings.Repeat(open, n) + "1" + strings.Repeat(cl, n)
			if open == "[" {
				deep = strings.Repeat(open, n) + strings.Repeat(cl, n)
			}
			add(func() any { return &mtXI{X: &[]any{}} }, `{"X":`+deep+`}`)
			add(func() any { return &mtXI{X: &map[string]any{}} }, `{"X":`+deep+`}`)
			add(func() any { var inner any; return &mtXI{X: &inner} }, `{"X":`+deep+`}`)
			add(func() any { var inner any; return &mtXI{N: &inner} }, `{"N":`+deep+`}`)
		}
	}
	// open findings, each with the documents that show it (any other difference of these targets is a violation)
	type fc struct {
		finding string
		doc     string
		mk      func() any
	}
	type fF struct {
		F float64 `json:",string"`
	}
	type fA struct {
		Ä int
	}
	type fS struct {
		S string `json:",string"`
	}
	var known []fc
	for _, d := range []string{`{"F":"1."}`, `{"F":"0x1p-2"}`, `{"F":"01"}`, `{"F":"-.5"}`, `{"F":"1_0"}`, `{"F":"-Inf"}`, `{"F":"00.5"}`, `{"F":"1.5"}`, `{"F":"x"}`, `{"F":1.5}`} {
		known = append(known, fc{"F-C02-12", d, func() any { return new(fF) }})
	}
	for _, d := range []string{`{"ä":1}`, `{"Ä":2}`, `{"a":3}`} {
		known = append(known, fc{"F-C02-13", d, func() any { return new(fA) }})
	}
	for _, d := range []string{`{"S":"\"a\u0001b\""}`, `{"S":"\"a\u0009b\""}`, `{"S":"\"ab\""}`, `{"S":"\"a\\nb\""}`} {
		known = append(known, fc{"F-C02-14", d, func() any { return new(fS) }})
	}
	known = append(known, fc{"F-C02-15", `null`, func() any {
		i := 1
		pi := &i
		var e NAny = &pi
		return &e
	}})
	for i, kc := range known {
		k := jsonCase{Setting: fmt.Sprintf("moretypes:known:%d", i), Doc: kc.doc}
		a, b := kc.mk(), kc.mk()
		e1 := stdjson.Unmarshal([]byte(kc.doc), a)
		var e2 error
		c.Case()
		c.Eval(1)
		api := fmt.Sprintf("json.Unmarshal(%T)", a)
		if p := protect(func() { e2 = json.Unmarshal([]byte(kc.doc), b) }); p != "" {
			c.Diverge("C02", api, errStr(e1), p, "", k)
			continue
		}
		if (e1 == nil) != (e2 == nil) || (e1 == nil && !deepEq(reflect.ValueOf(a).Elem(), reflect.ValueOf(b).Elem())) {
			c.Diverge("C02", api, fmt.Sprintf("%s err=%v", clipS(showVal(reflect.ValueOf(a).Elem())), e1), fmt.Sprintf("%s err=%v", clipS(showVal(reflect.ValueOf(b).Elem())), e2), kc.finding, k)
		}
	}
	for i, tcase := range cases {
		k := jsonCase{Setting: fmt.Sprintf("moretypes:%d", i), Doc: clipS(tcase.doc)}
		a, b := tcase.mk(), tcase.mk()
		e1 := stdjson.Unmarshal([]byte(tcase.doc), a)
		var e2 error
		c.Case()
		c.Eval(1)
		api := fmt.Sprintf("json.Unmarshal(%T)", a)
		if p := protect(func() { e2 = json.Unmarshal([]byte(tcase.doc), b) }); p != "" {
			c.Diverge("C02", api, errStr(e1), p, "", k)
			continue
		}
		if (e1 == nil) != (e2 == nil) || (e1 == nil && !deepEq(reflect.ValueOf(a).Elem(), reflect.ValueOf(b).Elem())) {
			c.Diverge("C02", api, fmt.Sprintf("%s err=%v", clipS(showVal(reflect.ValueOf(a).Elem())), e1), fmt.Sprintf("%s err=%v", clipS(showVal(reflect.ValueOf(b).Elem())), e2), "", k)
		}
	}
}
