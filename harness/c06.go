package main

// C06 - json never panics, faults, overflows the stack or hangs.
//
// Encode side: heaps from spec/JsonCycle.tla (nodes linked through pointers,
// slices, maps and interfaces, with the spec's verdict "cyclic") are built as
// real values and marshalled by value and by pointer; lifted to cycles of
// length 1, 2, 999, 1000, 1001.  Decode side: the documents of
// spec/JsonGrammar.tla truncated at every offset and with single-byte
// corruptions, into 21 target types through every entry point; nesting depths
// up to 10^7.  The monitors are the oracle: recover, a watchdog, and the
// supervisor that attributes a fatal runtime error to the vector that caused it.

import (
	"runtime/debug"
	"bytes"
	stdjson "encoding/json"
	"fmt"
	"math"
	"reflect"
	"strings"
	"time"

	"github.com/segmentio/encoding/json"
)

type cycleVec struct {
	Edges  [][]any `json:"edges"`
	Cyclic *bool   `json:"cyclic"`
}

type c06Case struct {
	Kind   string  `json:"kind"`
	Edges  [][]any `json:"edges,omitempty"`
	Cyclic bool    `json:"cyclic,omitempty"`
	Chain  int     `json:"chain,omitempty"`
	Via    string  `json:"via,omitempty"`
	Doc    string  `json:"doc,omitempty"`
	Target string  `json:"target,omitempty"`
	Depth  int     `json:"depth,omitempty"`
	Shape  *jShape `json:"shape,omitempty"`
	Seed   int64   `json:"seed,omitempty"`
}

// guarded runs f under recover and a watchdog
func guarded(f func()) (panicked string, hung bool) {
	done := make(chan string, 1)
	go func() { done <- protect(f) }()
	select {
	case p := <-done:
		return p, false
	case <-time.After(20 * time.Second):
		return "", true
	}
}

func buildHeap(edges [][]any) []map[string]any {
	n := 0
	for _, e := range edges {
		for _, x := range []any{e[0], e[2]} {
			if v := int(x.(float64)); v > n {
				n = v
			}
		}
	}
	nodes := make([]map[string]any, n+1)
	for i := range nodes {
		nodes[i] = map[string]any{"v": i}
	}
	for _, e := range edges {
		a, k, b := int(e[0].(float64)), e[1].(string), int(e[2].(float64))
		switch k {
		case "ptr":
			t := nodes[b]
			nodes[a]["p"] = &t
		case "slice":
			nodes[a]["s"] = []any{nodes[b]}
		case "map":
			nodes[a]["m"] = map[string]any{"k": nodes[b]}
		case "iface":
			nodes[a]["i"] = nodes[b]
		}
	}
	return nodes
}

func c06Marshal(c *Ctx, k c06Case, root any, cyclic bool) {
	for _, byPtr := range []bool{false, true} {
		x := root
		if byPtr {
			p := reflect.New(reflect.TypeOf(root))
			p.Elem().Set(reflect.ValueOf(root))
			x = p.Interface()
		}
		for _, api := range []string{"Marshal", "Append", "Encoder"} {
			var out []byte
			var err error
			c.Eval(1)
			p, hung := guarded(func() {
				switch api {
				case "Marshal":
					out, err = json.Marshal(x)
				case "Append":
					out, err = json.Append(nil, x, 0)
				default:
					var w bytes.Buffer
					err = json.NewEncoder(&w).Encode(x)
					out = w.Bytes()
				}
			})
			name := "json." + api
			if hung {
				c.Diverge("C06", name, "returns", "timeout: still running after 20s", "", k)
				return
			}
			if p != "" {
				c.Diverge("C06", name, "a returned error at worst", p, "", k)
				continue
			}
			if cyclic && err == nil {
				c.Diverge("C06", name, "an error: the value contains a reference cycle", fmt.Sprintf("nil error, %d bytes", len(out)), "", k)
			}
			if !cyclic && err != nil {
				c.Diverge("C06", name, "success: the value has no cycle", err.Error(), "", k)
			}
		}
	}
}

// hnode: the same heaps with typed nodes - pointers, slices of pointers, a map with a struct element type (the generic
// map codec; map[string]any has a codec of its own) and an interface
type hnode struct {
	V int               `json:"v"`
	P *hnode            `json:"p,omitempty"`
	S []*hnode          `json:"s,omitempty"`
	M map[string]*hnode `json:"m,omitempty"`
	I any               `json:"i,omitempty"`
}

func buildTypedHeap(edges [][]any) []*hnode {
	n := 0
	for _, e := range edges {
		for _, x := range []any{e[0], e[2]} {
			if v := int(x.(float64)); v > n {
				n = v
			}
		}
	}
	nodes := make([]*hnode, n+1)
	for i := range nodes {
		nodes[i] = &hnode{V: i}
	}
	for _, e := range edges {
		a, k, b := int(e[0].(float64)), e[1].(string), int(e[2].(float64))
		switch k {
		case "ptr":
			nodes[a].P = nodes[b]
		case "slice":
			nodes[a].S = append(nodes[a].S, nodes[b])
		case "map":
			if nodes[a].M == nil {
				nodes[a].M = map[string]*hnode{}
			}
			nodes[a].M[fmt.Sprintf("k%d", len(nodes[a].M))] = nodes[b]
		case "iface":
			nodes[a].I = nodes[b]
		}
	}
	return nodes
}

// deepen puts the heap below a chain of n pointers: the cycle detector only records what it visits from a depth of
// 1000 on, so sharing without a cycle (and cycles) must be told apart there too
func deepen(root *hnode, n int) *hnode {
	for i := 0; i < n; i++ {
		root = &hnode{V: -1, P: root}
	}
	return root
}

func c06Cycle(c *Ctx, v *cycleVec) {
	nodes := buildHeap(v.Edges)
	if len(nodes) < 2 {
		return
	}
	c.Case()
	c06Marshal(c, c06Case{Kind: "heap", Edges: v.Edges, Cyclic: *v.Cyclic}, nodes[1], *v.Cyclic)
	typed := buildTypedHeap(v.Edges)
	c.Case()
	c06Marshal(c, c06Case{Kind: "heap", Edges: v.Edges, Cyclic: *v.Cyclic}, typed[1], *v.Cyclic)
	c.Case()
	c06Marshal(c, c06Case{Kind: "heap", Edges: v.Edges, Cyclic: *v.Cyclic}, deepen(typed[1], 1001), *v.Cyclic)
}

// chains: a cycle (or a dead-end chain) of length n through one kind of reference
func c06Chain(c *Ctx, n int, via string, closed bool) {
	nodes := make([]map[string]any, n)
	for i := range nodes {
		nodes[i] = map[string]any{}
	}
	link := func(a, b map[string]any) {
		switch via {
		case "ptr":
			t := b
			a["p"] = &t
		case "slice":
			a["s"] = []any{b}
		case "map":
			a["m"] = map[string]any{"k": b}
		default:
			a["i"] = b
		}
	}
	for i := 0; i+1 < n; i++ {
		link(nodes[i], nodes[i+1])
	}
	if closed {
		link(nodes[n-1], nodes[0])
	}
	c.Case()
	c06Marshal(c, c06Case{Kind: "chain", Chain: n, Via: via, Cyclic: closed}, nodes[0], closed)
	// a typed self-referential struct as well
	type P struct {
		Next *P
		L    []*P
		M    map[string]*P
		I    any
	}
	ps := make([]*P, n)
	for i := range ps {
		ps[i] = &P{}
	}
	plink := func(a, b *P) {
		switch via {
		case "ptr":
			a.Next = b
		case "slice":
			a.L = []*P{b}
		case "map":
			a.M = map[string]*P{"k": b}
		default:
			a.I = b
		}
	}
	for i := 0; i+1 < n; i++ {
		plink(ps[i], ps[i+1])
	}
	if closed {
		plink(ps[n-1], ps[0])
	}
	c06Marshal(c, c06Case{Kind: "struct-chain", Chain: n, Via: via, Cyclic: closed}, *ps[0], closed)
}

type recNode struct {
	A    *recNode
	L    []recNode
	M    map[string]recNode
	Name string
}

var c06Targets = map[string]func() any{
	"any": func() any { return new(any) }, "raw": func() any { return new(json.RawMessage) }, "struct{}": func() any { return new(struct{}) },
	"rec": func() any { return new(recNode) }, "[]any": func() any { return new([]any) }, "map": func() any { return new(map[string]any) },
	"string": func() any { return new(string) }, "[0]int": func() any { return new([0]int) }, "int": func() any { return new(int) },
	// every kind with a decoder of its own (the scalar decoders find the end of their token themselves)
	"duration": func() any { return new(time.Duration) }, "time": func() any { return new(time.Time) }, "bytes": func() any { return new([]byte) },
	"number": func() any { return new(json.Number) }, "float64": func() any { return new(float64) }, "bool": func() any { return new(bool) },
	"uint8": func() any { return new(uint8) }, "text": func() any { return new(TMPtr) }, "unmarshaler": func() any { return new(MUBoth) },
	"map[int]": func() any { return new(map[int]string) }, "map[text]": func() any { return new(map[TMK]int) }, "[2]string": func() any { return new([2]string) },
	"[]duration": func() any { return new([]time.Duration) }, "map[string]duration": func() any { return new(map[string]time.Duration) },
	"*duration": func() any { return new(*time.Duration) }, "**string": func() any { return new(**string) },
	"struct{A}": func() any {
		return new(struct {
			A  int
			Ks string `json:"éks"`
		})
	},
	"struct(,string)": func() any {
		return new(struct {
			X int           `json:"x,string"`
			A bool          `json:"a,string"`
			B string        `json:"b,string"`
			N json.Number   `json:"n,string"`
			D time.Duration `json:"d"`
			T time.Time     `json:"t"`
			Y []byte        `json:"y"`
		})
	},
}

var c06Always = []string{"any", "rec", "string", "struct(,string)"}

func c06Decode(c *Ctx, k c06Case, doc []byte) {
	entry := func(name string, f func()) {
		c.Eval(1)
		p, hung := guarded(f)
		if hung {
			c.Diverge("C06", name, "returns", "timeout: still running after 20s", "", k)
		} else if p != "" {
			c.Diverge("C06", name, "a returned error at worst", p, "", k)
		}
	}
	entry("json.Valid", func() { json.Valid(doc) })
	entry("json.Tokenizer", func() {
		t := json.NewTokenizer(doc)
		for i := 0; t.Next() && i < 1<<26; i++ {
			_ = t.Kind()
			if t.Kind().Class() == json.String {
				t.String()
			}
		}
	})
	targets := []string{k.Target}
	if k.Target == "" {
		// a few targets always, six of the others by the document
		targets = append([]string(nil), c06Always...)
		rest := sortedKeys(c06Targets)
		r := newRng(int64(len(doc)), string(doc))
		for n := 0; n < 6; n++ {
			targets = append(targets, rest[r.intn(len(rest))])
		}
	}
	for _, tn := range targets {
		mk := c06Targets[tn]
		entry("json.Unmarshal(*"+tn+")", func() { json.Unmarshal(doc, mk()) })
		entry("json.Parse(*"+tn+",ZeroCopy)", func() { json.Parse(doc, mk(), json.ZeroCopy|json.UseNumber) })
		entry("Decoder.Decode(*"+tn+")", func() {
			d := json.NewDecoder(bytes.NewReader(doc))
			for i := 0; i < 4; i++ {
				if d.Decode(mk()) != nil {
					break
				}
			}
		})
	}
}

func c06Vector(c *Ctx, raw stdjson.RawMessage) {
	var cv cycleVec
	if stdjson.Unmarshal(raw, &cv) == nil && cv.Cyclic != nil {
		c.Nontrivial()
		c06Cycle(c, &cv)
		return
	}
	var sv strVec
	if stdjson.Unmarshal(raw, &sv) == nil && sv.Dir == "unesc" {
		// the literal units of spec/JsonString.tla, well formed or broken (surrogate halves, cut escapes, invalid bytes
		// at the very end of a string): as a value and as a member name into every kind of target
		c.Nontrivial()
		lits, _, ok := renderLit(&sv, int(c.Seed))
		if !ok {
			c.SpecError("C06", "unknown literal unit", sv)
			return
		}
		lit := `"` + strings.Join(lits, "") + `"`
		c.Case()
		for _, doc := range []string{lit, "{" + lit + ":" + lit + "}", "[" + lit + "]"} {
			c06Decode(c, c06Case{Kind: "doc", Doc: doc}, []byte(doc))
		}
		for _, tn := range []string{"string", "bytes", "number", "text", "map[text]", "[2]string"} {
			c06Decode(c, c06Case{Kind: "doc", Doc: lit, Target: tn}, []byte(lit))
		}
		return
	}
	var gv grammarVec
	if stdjson.Unmarshal(raw, &gv) == nil && gv.M != "" {
		c.Nontrivial()
		r := newRng(c.Seed, string(raw))
		pick := func(i int, alts []byte) byte { return alts[r.intn(len(alts))] }
		doc := liftDoc(gv.D, pick, 0, 'x')
		full := append(append([]byte(nil), doc...), liftDoc(gv.C, nil, 0, 'x')...)
		// the document, its completion, every truncation of the completion, single-byte corruptions
		c.Case()
		c06Decode(c, c06Case{Kind: "doc", Doc: string(doc)}, doc)
		for i := 0; i <= len(full); i++ {
			c06Decode(c, c06Case{Kind: "doc", Doc: string(full[:i])}, full[:i])
		}
		for m := 0; m < 4 && len(full) > 0; m++ {
			b := append([]byte(nil), full...)
			b[r.intn(len(b))] = []byte{0x00, '"', '\\', '{', '[', 0xff, 'e', '-', ':', ',', 'u'}[r.intn(11)]
			c06Decode(c, c06Case{Kind: "doc", Doc: string(b)}, b)
		}
		return
	}
	var v jsonVec
	if stdjson.Unmarshal(raw, &v) == nil && v.Shape != nil {
		// layout-sensitive shapes by value and by pointer: only the monitors matter here
		c.Nontrivial()
		c06Shape(c, v.Shape, c.Seed)
	}
}

// c06Shape: every value of the shape through Marshal, and through Append into destinations whose spare capacity is
// just short of, exactly, and just above what the encoding needs (the encoders grow or reslice the destination by hand)
func c06Shape(c *Ctx, sh *jShape, seed int64) {
	for i, val := range shapeValues(sh, seed, jLimit) {
		k := c06Case{Kind: "shape", Target: sh.String(), Depth: i, Shape: sh, Seed: seed}
		x := val.Interface()
		p := reflect.New(val.Type())
		p.Elem().Set(val)
		for _, y := range []any{x, p.Interface()} {
			yy := y
			c.Eval(1)
			var out []byte
			if pn, hung := guarded(func() { out, _ = json.Marshal(yy) }); pn != "" || hung {
				c.Diverge("C06", "json.Marshal", "a returned error at worst", fmt.Sprintf("%s hung=%v", pn, hung), "", k)
				continue
			}
			n := len(out)
			for _, pre := range []int{0, 3} {
				for spare := max(n-3, 0); spare <= n+1; spare++ {
					dst := make([]byte, pre, pre+spare)
					c.Eval(1)
					if pn := protect(func() { json.Append(dst, yy, json.EscapeHTML|json.SortMapKeys) }); pn != "" {
						c.Diverge("C06", "json.Append(destination with just about the capacity needed)", "a returned error at worst", fmt.Sprintf("%s (spare %d, needed %d)", pn, spare, n), "", k)
					}
				}
			}
		}
	}
}

// c06CyclicTargets: decode targets that are themselves cyclic - an interface that holds a pointer leading back to
// itself in one, two or three hops, a struct whose interface field points at the struct, a map holding a pointer to
// itself: whatever the document, the decoders return
type cycT struct {
	A any
	N *cycT
	M map[string]any
}

func c06CyclicTargets(c *Ctx) {
	mk := []func() any{
		func() any { var v any; v = &v; return &v },
		func() any { var v any; pv := &v; v = &pv; return &v },
		func() any { var v any; pv := &v; ppv := &pv; v = &ppv; return &v },
		func() any { var v any; pv := &v; v = &pv; return v },
		func() any { t := &cycT{}; t.A = t; t.N = t; return t },
		func() any { t := &cycT{}; var a any = t; t.A = &a; return t },
		func() any { t := &cycT{M: map[string]any{}}; t.M["A"] = &t.M; t.A = &t.M; return t },
		func() any { m := map[string]any{}; m["m"] = &m; return &m },
		func() any { s := make([]any, 1); s[0] = &s; return &s },
	}
	docs := []string{`{"A":1}`, `{"A":{"A":{"A":2}},"N":{"N":{"A":[1]}},"M":{"A":{"x":1}},"m":{"m":{"m":3}}}`, `[[[1]]]`, `"s"`, `null`, `7`, `{"A":`, `[`, `{"m":null}`, `[null]`}
	for ti, f := range mk {
		for _, doc := range docs {
			k := c06Case{Kind: "cyclic-target", Chain: ti, Doc: doc}
			for _, api := range []string{"Unmarshal", "Parse", "Decoder"} {
				c.Eval(1)
				c.Case()
				p, hung := guarded(func() {
					x := f()
					switch api {
					case "Unmarshal":
						json.Unmarshal([]byte(doc), x)
					case "Parse":
						json.Parse([]byte(doc), x, json.ZeroCopy)
					default:
						json.NewDecoder(strings.NewReader(doc)).Decode(x)
					}
				})
				if hung {
					c.Diverge("C06", "json."+api+"(cyclic target)", "returns", "timeout: still running after 20s", "", k)
				} else if p != "" {
					c.Diverge("C06", "json."+api+"(cyclic target)", "a returned error at worst", p, "", k)
				}
			}
		}
	}
}

// c06MemberNames: member names of every length around the decoder's 64-byte scratch buffer, made of letters whose
// simple case folding is longer or shorter than the letter (k -> U+212A, s -> U+017F and back), behind a non-ASCII
// letter that takes the name off the ASCII path, into struct targets
func c06MemberNames(c *Ctx) {
	for _, first := range []string{"é", "", "\xc3"} {
		for _, letter := range []string{"k", "s", "K", "x", "\u017f", "\u212a"} {
			for n := 0; n <= 140; n++ {
				if n > 70 && n%8 > 1 {
					continue
				}
				name := first + strings.Repeat(letter, n)
				for _, doc := range []string{`{"` + name + `":1,"A":2}`, `{"A":1,"` + name + `":{"` + name + `":[]},"a":3}`} {
					for _, tn := range []string{"rec", "struct{A}"} {
						c.Case()
						c06Decode(c, c06Case{Kind: "doc", Doc: doc, Target: tn}, []byte(doc))
					}
				}
			}
		}
	}
}

// c06AfterFailures: an encode that fails half-way through a map hands its scratch memory back; the encode that takes it
// over next (same goroutine, no collection in between) must neither panic nor write anything but its own value
func c06AfterFailures(c *Ctx) {
	failing := []any{
		map[string]json.RawMessage{"a": json.RawMessage(`1`), "b": json.RawMessage(`{"x":`), "c": json.RawMessage(`2`)},
		map[string]json.RawMessage{"only": json.RawMessage(``)},
		map[string]any{"a": 1, "b": make(chan int), "c": "z"},
		map[string]failingMarshaler{"a": {}, "b": {}},
		map[string]float64{"a": 1, "b": math.NaN(), "c": 3},
		map[string]map[string]any{"a": {"x": 1}, "b": {"y": func() {}}},
		map[string][]any{"a": {1}, "b": {make(chan int)}},
		struct {
			M map[string]json.RawMessage
			N map[string]bool
		}{map[string]json.RawMessage{"q": json.RawMessage(`tru`), "r": json.RawMessage(`true`)}, map[string]bool{"t": true}},
	}
	after := []any{
		map[string]bool{"t": true, "f": false, "g": false},
		map[string]string{"a": "b", "c": "<d>", "e": ""},
		map[string][]string{"a": {"x", "y"}, "b": nil, "c": {}},
		map[string]any{"z": 1, "a": []any{}, "m": map[string]any{"k": nil}},
		map[string]json.RawMessage{"a": json.RawMessage(`1`), "b": json.RawMessage(`[2]`)},
		map[string]int{"a": 1, "b": 2, "c": 3, "d": 4},
		map[string]map[string]bool{"o": {"i": true, "j": false}, "p": {}},
		struct {
			A map[string]bool
			B map[string]string
		}{map[string]bool{"x": false}, map[string]string{"y": "z"}},
	}
	for i, f := range failing {
		if _, err := stdjson.Marshal(f); err == nil {
			c.SpecError("C06", "a value that should not be encodable is", i)
			return
		}
		for j, a := range after {
			want, _ := stdjson.Marshal(a)
			k := c06Case{Kind: "after-failure", Chain: i*100 + j}
			c.Case()
			for rep := 0; rep < 8; rep++ {
				for _, via := range []string{"Marshal", "Encoder", "Append"} {
					var got []byte
					var ferr, err error
					c.Eval(2)
					p, hung := guarded(func() {
						switch via {
						case "Marshal":
							_, ferr = json.Marshal(f)
							got, err = json.Marshal(a)
						case "Encoder":
							var w bytes.Buffer
							e := json.NewEncoder(&w)
							ferr = e.Encode(f)
							w.Reset()
							err = e.Encode(a)
							got = bytes.TrimSuffix(w.Bytes(), []byte("\n"))
						default:
							_, ferr = json.Append(nil, f, json.SortMapKeys|json.EscapeHTML)
							got, err = json.Append(nil, a, json.SortMapKeys|json.EscapeHTML)
						}
					})
					if p != "" || hung || ferr == nil || err != nil || !bytes.Equal(got, want) {
						c.Diverge("C06", "json."+via+"(a map after an encode that failed inside a map)", string(want),
							fmt.Sprintf("%s err=%v first=%v %s hung=%v", clipS(string(got)), err, ferr, p, hung), "", k)
						return
					}
				}
			}
		}
	}
}

func c06Extra(c *Ctx) {
	c06CyclicTargets(c)
	c06AfterFailures(c)
	c06MemberNames(c)
	// cycles and dead-end chains at the cycle detector's threshold
	for _, n := range []int{1, 2, 3, 999, 1000, 1001, 2500} {
		for _, via := range []string{"ptr", "slice", "map", "iface"} {
			c06Chain(c, n, via, true)
			if n <= 1001 {
				c06Chain(c, n, via, false)
			}
		}
	}
	// cycles that run through slices / maps of STRUCT or ARRAY elements only (no pointer, no interface on the way)
	c06TypedCycles(c)
	// special-cased value types at their extremes: durations (written as quoted strings, formatted by hand), times
	durs := []time.Duration{0, 1, -1, math.MaxInt64, math.MinInt64, math.MinInt64 + 1, -1000000*time.Hour - 10*time.Minute - 10*time.Second - 1,
		1000000*time.Hour + 10*time.Minute + 10*time.Second + 1, -time.Hour, 999 * time.Millisecond, -999 * time.Microsecond, 59*time.Minute + 59*time.Second}
	for i, d := range durs {
		for _, root := range []any{d, &d, struct{ D time.Duration }{d}, map[string]time.Duration{"d": d}, []time.Duration{d, -d}, struct{ P *time.Duration }{&d}} {
			c.Case()
			c06Marshal(c, c06Case{Kind: "duration", Chain: i}, root, false)
		}
		// the quoted string comes back as the same duration
		var b []byte
		var err error
		if p, _ := guarded(func() { b, err = json.Marshal(d) }); p == "" && err == nil {
			var back time.Duration
			if p, _ := guarded(func() { err = json.Unmarshal(b, &back) }); p != "" || err != nil || back != d {
				c.Diverge("C06", "json.Unmarshal(Marshal(duration))", d.String(), fmt.Sprintf("%v err=%v %s (text %s)", back, err, p, b), "", c06Case{Kind: "duration", Chain: i})
			}
		}
	}
	for i, t := range []time.Time{{}, time.Unix(0, 0).UTC(), time.Date(9999, 12, 31, 23, 59, 59, 999999999, time.UTC), time.Date(0, 1, 1, 0, 0, 0, 0, time.UTC),
		time.Date(10000, 1, 1, 0, 0, 0, 0, time.UTC), time.Date(-1, 1, 1, 0, 0, 0, 0, time.UTC), time.Date(2020, 2, 29, 12, 0, 0, 1, time.FixedZone("x", -23*3600-59*60)),
		time.Date(2020, 2, 29, 12, 0, 0, 0, time.FixedZone("y", 24*3600))} {
		tt := t
		for _, root := range []any{tt, &tt, struct{ T time.Time }{tt}, map[string]any{"t": tt}} {
			c.Case()
			for _, byPtr := range []bool{false, true} {
				x := root
				if byPtr {
					x = &root
				}
				if p, hung := guarded(func() { json.Marshal(x); json.Append(nil, x, 0) }); p != "" || hung {
					c.Diverge("C06", "json.Marshal(time)", "a returned error at worst", fmt.Sprintf("%s hung=%v", p, hung), "", c06Case{Kind: "time", Chain: i})
				}
			}
		}
	}
	// nesting depths 10^2 .. 10^7
	depths := []int{100, 9999, 10000, 10001, 100000, 1000000}
	if c.Tier == "thorough" {
		depths = append(depths, 10000000)
	}
	for _, n := range depths {
		docs := map[string]string{
			"open-arrays":   strings.Repeat("[", n),
			"arrays":        strings.Repeat("[", n) + strings.Repeat("]", n),
			"objects":       strings.Repeat(`{"a":`, n) + "1" + strings.Repeat("}", n),
			"rec-struct":    strings.Repeat(`{"A":`, n) + "null" + strings.Repeat("}", n),
			"rec-list":      strings.Repeat(`{"L":[`, n) + strings.Repeat("]}", n),
			"mixed":         strings.Repeat(`[{"M":{"k":`, n) + "0" + strings.Repeat("}}]", n),
			"backslashes":   `"` + strings.Repeat(`\\`, n) + `"`,
			"digits":        strings.Repeat("9", n),
			"spaces-then-1": strings.Repeat(" ", n) + "1",
		}
		for name, d := range docs {
			for _, tn := range []string{"any", "raw", "struct{}", "rec"} {
				c.Case()
				c06Decode(c, c06Case{Kind: "deep:" + name, Depth: n, Target: tn}, []byte(d))
			}
		}
	}
}

type tnodeS struct {
	V int
	S []tnodeS
}
type tnodeM struct {
	V int
	M map[string]tnodeM
}
type tnodeA struct {
	V int
	A [][1]tnodeA
}
type tnodeSM struct {
	V int
	S []struct{ M map[string]tnodeSM }
}

func c06TypedCycles(c *Ctx) {
	s := tnodeS{V: 1}
	s.S = make([]tnodeS, 1)
	s.S[0] = s
	m := tnodeM{V: 2, M: map[string]tnodeM{}}
	m.M["k"] = m
	a := tnodeA{V: 3}
	a.A = make([][1]tnodeA, 1)
	a.A[0][0] = a
	sm := tnodeSM{V: 4}
	sm.S = make([]struct{ M map[string]tnodeSM }, 1)
	sm.S[0].M = map[string]tnodeSM{}
	sm.S[0].M["k"] = sm
	for i, root := range []any{s, m, a, sm, []tnodeS{s}, map[string]tnodeM{"r": m}, struct{ X tnodeA }{a}} {
		c.Case()
		c06Marshal(c, c06Case{Kind: "typed-cycle", Chain: i}, root, true)
	}
	// and the same shapes without a cycle
	for i, root := range []any{tnodeS{V: 1, S: []tnodeS{{V: 2, S: []tnodeS{{V: 3}}}}}, tnodeM{V: 1, M: map[string]tnodeM{"k": {V: 2}}}, tnodeA{V: 1, A: [][1]tnodeA{{{V: 2}}}}} {
		c.Case()
		c06Marshal(c, c06Case{Kind: "typed-cycle", Chain: 100 + i}, root, false)
	}
}

func c06Replay(c *Ctx, raw stdjson.RawMessage) {
	var k c06Case
	if stdjson.Unmarshal(raw, &k) != nil {
		return
	}
	switch {
	case k.Kind == "heap":
		cy := k.Cyclic
		c06Cycle(c, &cycleVec{Edges: k.Edges, Cyclic: &cy})
	case k.Kind == "chain" || k.Kind == "struct-chain":
		c06Chain(c, k.Chain, k.Via, k.Cyclic)
	case strings.HasPrefix(k.Kind, "deep:"), k.Kind == "duration", k.Kind == "time", k.Kind == "typed-cycle", k.Kind == "cyclic-target", k.Kind == "after-failure":
		c06Extra(c)
	case k.Kind == "doc":
		c06Decode(c, k, []byte(k.Doc))
	case k.Kind == "shape" && k.Shape != nil:
		c06Shape(c, k.Shape, k.Seed)
	}
}

func init() {
	register("C06", &Driver{Vector: c06Vector, Replay: c06Replay, Extra: c06Extra})
}

// c06rectype: the witness of open finding F-C06-1 (runs alone: it is expected to die)
type recMap map[string]recMap

// c06ptrkey: the witness of open finding F-C06-5 (runs alone: it is expected to die): a map keyed by pointers whose
// type has MarshalText
type ptrKey struct{ s string }

func (k *ptrKey) MarshalText() ([]byte, error) { return []byte("k:" + k.s), nil }

func init() {
	tools["c06ptrkey"] = func([]string) {
		debug.SetMaxStack(64 << 20)
		want, _ := stdjson.Marshal(map[*ptrKey]int{{s: "hello"}: 1})
		b, err := json.Marshal(map[*ptrKey]int{{s: "hello"}: 1})
		fmt.Printf("%s %v want %s\n", b, err, want)
		if string(b) == string(want) {
			fmt.Println("C06PTRKEY-OK")
		}
	}
	// byte-kind slice elements with value-receiver unmarshal methods (fixed finding F-C06-6): decoded like encoding/json
	tools["c06bytekinds"] = func([]string) {
		var a, b []bvJ
		e1 := stdjson.Unmarshal([]byte("[1,2]"), &a)
		e2 := json.Unmarshal([]byte("[1,2]"), &b)
		var c, d []bvT
		e3 := stdjson.Unmarshal([]byte(`["a"]`), &c)
		e4 := json.Unmarshal([]byte(`["a"]`), &d)
		fmt.Println(a, e1, b, e2, c, e3, d, e4)
		if fmt.Sprint(a, e1 == nil, c, e3 == nil) == fmt.Sprint(b, e2 == nil, d, e4 == nil) {
			fmt.Println("C06BYTEKINDS-OK")
		}
	}
}

type bvJ uint8

func (bvJ) UnmarshalJSON([]byte) error { return nil }

type bvT uint8

func (bvT) UnmarshalText([]byte) error { return nil }

func init() {
	tools["c06rectype"] = func([]string) {
		m := recMap{"a": recMap{}}
		b, err := json.Marshal(m)
		fmt.Println(string(b), err)
	}
}
