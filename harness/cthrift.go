package main

// C04, C08, C13 - the thrift package against spec/ThriftWire.tla.

import (
	"bufio"
	"bytes"
	"encoding/binary"
	"encoding/hex"
	stdjson "encoding/json"
	"errors"
	"fmt"
	"io"
	"math"
	"reflect"
	"runtime"
	"strconv"
	"strings"
	"sync"

	"github.com/segmentio/encoding/thrift"
)

type thriftCase struct {
	Layout []tField  `json:"layout"`
	Vals   []tVal    `json:"vals"`
	Salt   int       `json:"salt"`
	Proto  string    `json:"proto"` // "binary" | "binary-nonstrict" | "compact"
	What   string    `json:"what"`
	Bytes  string    `json:"bytes,omitempty"`
	Want   string    `json:"want,omitempty"`
	AsIs   string    `json:"asis,omitempty"`
	Extra  []tField  `json:"extra,omitempty"`
	Hist   []string  `json:"hist,omitempty"`
	Alloc  *allocVec `json:"alloc,omitempty"`
}

func protoOf(name string) thrift.Protocol {
	switch name {
	case "binary":
		return &thrift.BinaryProtocol{}
	case "binary-nonstrict":
		return &thrift.BinaryProtocol{NonStrict: true}
	}
	return &thrift.CompactProtocol{}
}

var protoNames = []string{"binary", "binary-nonstrict", "compact"}

func thriftType(ty string) thrift.Type {
	switch ty {
	case "BOOL":
		return thrift.BOOL
	case "I8":
		return thrift.I8
	case "I16":
		return thrift.I16
	case "I32":
		return thrift.I32
	case "I64":
		return thrift.I64
	case "DOUBLE":
		return thrift.DOUBLE
	case "BINARY":
		return thrift.BINARY
	case "LIST":
		return thrift.LIST
	case "SET":
		return thrift.SET
	case "MAP":
		return thrift.MAP
	case "ENUM":
		return thrift.I32 // enums are i32 on the wire
	}
	return thrift.STRUCT // STRUCT and STRUCTP
}

// writeLogical drives the low-level Writer with the call sequence for a logical value
func (l tlift) writeLogical(w thrift.Writer, v tVal, compact bool) error {
	switch v.Ty {
	case "BOOL":
		return w.WriteBool(v.V != 0)
	case "I8":
		return w.WriteInt8(l.scalar("I8", v.V).(int8))
	case "I16":
		return w.WriteInt16(l.scalar("I16", v.V).(int16))
	case "I32":
		return w.WriteInt32(l.scalar("I32", v.V).(int32))
	case "I64":
		return w.WriteInt64(l.scalar("I64", v.V).(int64))
	case "DOUBLE":
		return w.WriteFloat64(l.scalar("DOUBLE", v.V).(float64))
	case "ENUM":
		return w.WriteInt32(int32(l.enumValue(v.E, v.V)))
	case "BINARY":
		if v.V%2 == 0 {
			return w.WriteString(l.scalar("BINARY", v.V).(string))
		}
		return w.WriteBytes([]byte(l.scalar("BINARY", v.V).(string)))
	case "LIST", "SET":
		var err error
		if v.Ty == "LIST" {
			err = w.WriteList(thrift.List{Size: int32(len(v.Xs)), Type: thriftType(v.E)})
		} else {
			err = w.WriteSet(thrift.Set{Size: int32(len(v.Xs)), Type: thriftType(v.E)})
		}
		for _, e := range v.Xs {
			if err == nil {
				err = l.writeLogical(w, e.tVal, compact)
			}
		}
		return err
	case "MAP":
		err := w.WriteMap(thrift.Map{Size: int32(len(v.Xs) / 2), Key: thriftType(v.K), Value: thriftType(v.E)})
		for _, e := range v.Xs {
			if err == nil {
				err = l.writeLogical(w, e.tVal, compact)
			}
		}
		return err
	case "STRUCT":
		last := 0
		for _, f := range v.Xs {
			fld := thrift.Field{ID: int16(f.ID), Type: thriftType(f.Val.Ty)}
			skipValue := false
			if compact {
				if d := f.ID - last; d <= 15 {
					fld.ID, fld.Delta = int16(d), true
				}
				if f.Val.Ty == "BOOL" {
					skipValue = true
					if f.Val.V != 0 {
						fld.Type = thrift.TRUE
					}
				}
			}
			if err := w.WriteField(fld); err != nil {
				return err
			}
			if !skipValue {
				if err := l.writeLogical(w, *f.Val, compact); err != nil {
					return err
				}
			}
			last = f.ID
		}
		return w.WriteField(thrift.Field{Type: thrift.STOP})
	}
	return fmt.Errorf("writeLogical: %s", v.Ty)
}

func hasDouble(v tVal) bool {
	if v.Ty == "DOUBLE" || v.E == "DOUBLE" {
		return true
	}
	for _, x := range v.Xs {
		if x.Val != nil && hasDouble(*x.Val) {
			return true
		}
		if x.Val == nil && hasDouble(x.tVal) {
			return true
		}
	}
	return false
}

// classify compares produced bytes with the specification's and with the recorded as-is dialect
func c13Classify(c *Ctx, k thriftCase, api string, got, want, asis []byte, findingAsIs string) {
	c.Eval(1)
	if bytes.Equal(got, want) {
		return
	}
	finding := ""
	if bytes.Equal(got, asis) {
		finding = findingAsIs
	}
	k.Want, k.AsIs = hex.EncodeToString(want), hex.EncodeToString(asis)
	c.Diverge("C13", api+"["+k.Proto+"]", hex.EncodeToString(want), hex.EncodeToString(got), finding, k)
}

func c13Run(c *Ctx, k thriftCase, v *thriftVec) {
	l := tlift{k.Salt}
	compact := k.Proto == "compact"
	var want, asis, asisW, alt, altasis []byte
	finding := "F-C13-1"
	if compact {
		want, asis, asisW = l.expand(v.Comp), l.expand(v.CompAsIs), l.expand(v.CompAsIsW)
		alt, altasis = l.expand(v.CompLong), l.expand(v.CompLongAsIs)
		finding = "F-C13-3"
	} else {
		want, asis, asisW = l.expand(v.Bin), l.expand(v.BinAsIs), l.expand(v.BinAsIsW)
	}
	findingW := finding
	if wideEnum(k.Layout) {
		finding = "F-C13-5" // the header of an enum field carries the type of the Go field's width (the value is an i32)
	}
	p := protoOf(k.Proto)
	// Writer level
	var buf bytes.Buffer
	var err error
	if pn := protect(func() { err = l.writeLogical(p.NewWriter(&buf), v.Logical, compact) }); pn != "" || err != nil {
		c.Diverge("C13", "Writer["+k.Proto+"]", "bytes", fmt.Sprintf("panic=%q err=%v", pn, err), "", k)
	} else {
		c13Classify(c, k, "Writer calls", buf.Bytes(), want, asisW, findingW)
	}
	// Marshal level
	x := l.structValue(k.Layout, k.Vals).Interface()
	var mb []byte
	if pn := protect(func() { mb, err = thrift.Marshal(p, x) }); pn != "" || err != nil {
		c.Diverge("C13", "thrift.Marshal["+k.Proto+"]", "bytes", fmt.Sprintf("panic=%q err=%v", pn, err), "", k)
	} else {
		c13Classify(c, k, "thrift.Marshal", mb, want, asis, finding)
	}
	// ... and through an Encoder that served the other protocol before its Reset
	{
		other := "compact"
		if compact {
			other = "binary"
		}
		var junk, out bytes.Buffer
		e := thrift.NewEncoder(protoOf(other).NewWriter(&junk))
		if pn := protect(func() {
			e.Encode(x)
			e.Reset(p.NewWriter(&out))
			err = e.Encode(x)
		}); pn != "" || err != nil {
			c.Diverge("C13", "Encoder(Reset from "+other+")["+k.Proto+"]", "bytes", fmt.Sprintf("panic=%q err=%v", pn, err), "", k)
		} else if !hasTwoEntryMap(k.Vals) {
			c13Classify(c, k, "Encoder(Reset from "+other+")", out.Bytes(), want, asis, finding)
		}
	}
	// Reader direction: the specification's bytes (and the long-form alternative) must decode to the value
	wantTree := tTreeGo(k.Layout, l.structValue(k.Layout, k.Vals))
	dec := func(what string, b, bAsIs []byte) {
		c.Eval(1)
		try := func(in []byte) (string, error) {
			out := reflect.New(tStructType(k.Layout))
			var e error
			if pn := protect(func() { e = thrift.Unmarshal(p, in, out.Interface()) }); pn != "" {
				return "", errors.New(pn)
			}
			if e != nil {
				return "", e
			}
			return tTreeGo(k.Layout, out.Elem()), nil
		}
		got, e := try(b)
		if e == nil && got == wantTree {
			return
		}
		f := ""
		if g2, e2 := try(bAsIs); e2 == nil && g2 == wantTree && !bytes.Equal(b, bAsIs) {
			f = finding // the package reads its own dialect of the same content, not the specified bytes
		}
		kk := k
		kk.What, kk.Bytes, kk.AsIs, kk.Want = what, hex.EncodeToString(b), hex.EncodeToString(bAsIs), wantTree
		c.Diverge("C13", "thrift.Unmarshal("+what+")["+k.Proto+"]", wantTree, fmt.Sprintf("%s err=%v", got, e), f, kk)
	}
	dec("specified bytes", want, asis)
	if compact {
		dec("long-form headers", alt, altasis)
	}
}

func hasTwoEntryMap(vals []tVal) bool {
	for _, v := range vals {
		if v.Ty == "MAP" && len(v.Xs) > 2 {
			return true
		}
	}
	return false
}

func wideEnum(layout []tField) bool {
	for _, f := range layout {
		if f.Ty == "ENUM" && f.E != "I32" {
			return true
		}
	}
	return false
}

func parseThriftVec(c *Ctx, prop string, raw stdjson.RawMessage) (*thriftVec, bool) {
	var v thriftVec
	if err := stdjson.Unmarshal(raw, &v); err != nil {
		c.SpecError(prop, "bad vector: "+err.Error(), string(raw))
		return nil, false
	}
	return &v, len(v.Layout) > 0
}

func c13Vector(c *Ctx, raw stdjson.RawMessage) {
	if varintVector(c, "C13", raw) {
		return
	}
	var mv struct {
		Messages []msgCase `json:"messages"`
	}
	if stdjson.Unmarshal(raw, &mv) == nil && len(mv.Messages) > 0 {
		c.Nontrivial()
		c13Messages(c, mv.Messages)
		return
	}
	v, ok := parseThriftVec(c, "C13", raw)
	if !ok {
		return
	}
	c.Nontrivial()
	r := newRng(c.Seed, string(raw))
	salts := []int{0, 1 + r.intn(tMaxTable-1)}
	if len(v.Layout) == 1 && v.Layout[0].ID <= 2 { // single-field structs: every value of the tables
		salts = salts[:0]
		for i := 0; i < tMaxTable; i++ {
			salts = append(salts, i)
		}
	}
	if hasBinary(v.Layout) && (len(v.Layout) == 1 || r.intn(8) == 0) {
		salts = append(salts, tBigSalt+r.intn(26)) // byte sequences above the readers' 4096-byte threshold
	}
	for _, salt := range salts {
		for _, pn := range protoNames {
			c.Case()
			c13Run(c, thriftCase{Layout: v.Layout, Vals: v.Vals, Salt: salt, Proto: pn}, v)
		}
	}
	c.Sample(map[string]any{"layout": v.Layout, "logical": v.Logical})
}

// ---------------------------------------------------------------- C13 message headers

type msgCase struct {
	MT       int     `json:"mt"`
	Name     int     `json:"name"`
	Seq      int     `json:"seq"`
	Bin      []tItem `json:"bin"`
	BinAsIs  []tItem `json:"binasis"`
	BinNS    []tItem `json:"binns"`
	Comp     []tItem `json:"comp"`
	CompAsIs []tItem `json:"compasis"`
}

// c13UsedWriter: a Writer that has been used writes the same message header as a fresh one, whatever was written
// through it before (the writers keep scratch space between calls)
func c13UsedWriter(c *Ctx, k thriftCase, proto string, m thrift.Message, fresh []byte) {
	for hi, hist := range [][]func(w thrift.Writer){
		{func(w thrift.Writer) { w.WriteInt32(-1) }},
		{func(w thrift.Writer) { w.WriteInt64(-1) }, func(w thrift.Writer) { w.WriteFloat64(0.1) }},
		{func(w thrift.Writer) {
			w.WriteMessage(thrift.Message{Type: thrift.Reply, Name: "earlier", SeqID: 0x01020304})
		}},
		{func(w thrift.Writer) { w.WriteInt16(0x1515) }, func(w thrift.Writer) { w.WriteString("xyz") }, func(w thrift.Writer) { w.WriteInt8(-1) }},
	} {
		var used bytes.Buffer
		w := protoOf(proto).NewWriter(&used)
		for _, f := range hist {
			f(w)
		}
		at := used.Len()
		c.Eval(1)
		if err := w.WriteMessage(m); err != nil || !bytes.Equal(used.Bytes()[at:], fresh) {
			c.Diverge("C13", "WriteMessage(on a Writer used before)["+proto+"]", hex.EncodeToString(fresh),
				fmt.Sprintf("%x err=%v (history %d)", used.Bytes()[at:], err, hi), "", k)
			return
		}
	}
}

func c13Messages(c *Ctx, cases []msgCase) {
	for _, mc := range cases {
		for _, salt := range []int{0, 2} {
			l := tlift{salt}
			name := l.scalar("BINARY", mc.Name).(string)
			m := thrift.Message{Type: thrift.MessageType(mc.MT), Name: name, SeqID: int32(mc.Seq)}
			for _, h := range []struct {
				proto      string
				want, asis []tItem
				finding    string
			}{{"binary", mc.Bin, mc.BinAsIs, "F-C13-2"}, {"binary-nonstrict", mc.BinNS, mc.BinNS, ""}, {"compact", mc.Comp, mc.CompAsIs, "F-C13-4"}} {
				k := thriftCase{Proto: h.proto, Salt: salt, What: fmt.Sprintf("message type=%d name=%q seq=%d", mc.MT, name, mc.Seq)}
				want, asis := l.expand(h.want), l.expand(h.asis)
				k.Want, k.AsIs = hex.EncodeToString(want), hex.EncodeToString(asis)
				var buf bytes.Buffer
				err := protoOf(h.proto).NewWriter(&buf).WriteMessage(m)
				c.Case()
				if err != nil {
					c.Diverge("C13", "WriteMessage["+h.proto+"]", k.Want, "error: "+err.Error(), "", k)
					continue
				}
				c13Classify(c, k, "WriteMessage", buf.Bytes(), want, asis, h.finding)
				c13UsedWriter(c, k, h.proto, m, buf.Bytes())
				// the specified header must be read back
				got, rerr := protoOf(h.proto).NewReader(bytes.NewReader(want)).ReadMessage()
				c.Eval(1)
				if rerr != nil || got != m {
					f := ""
					if g2, e2 := protoOf(h.proto).NewReader(bytes.NewReader(asis)).ReadMessage(); e2 == nil && g2 == m && !bytes.Equal(want, asis) {
						f = h.finding
					}
					c.Diverge("C13", "ReadMessage["+h.proto+"]", fmt.Sprint(m), fmt.Sprintf("%v err=%v", got, rerr), f, k)
				}
			}
		}
	}
}

// c13Doubles: doubles bit for bit - both zeros, infinities, a NaN with a payload, the smallest and the largest
// finite values.  Under the binary protocol the bytes are the big-endian IEEE 754 bits; under every protocol what was
// written is read back with the same bits, on its own and as a list element, map value and field.
// onlyRead hides every method of a reader but Read (no ReadByte, no WriteTo) and hands out at most n bytes per call
type onlyRead struct {
	r io.Reader
	n int
}

func (o onlyRead) Read(p []byte) (int, error) {
	if o.n > 0 && len(p) > o.n {
		p = p[:o.n]
	}
	return o.r.Read(p)
}

// c13Sources: what the Readers make of an encoding does not depend on the kind of io.Reader it comes from - a
// bytes.Reader, a reader with nothing but Read that hands out 1, 2, 7 or all available bytes per call, a LimitReader,
// a bufio.Reader
func c13Sources(c *Ctx) {
	type inner struct {
		S string `thrift:"1"`
		N int64  `thrift:"2"`
	}
	type all struct {
		A  int16            `thrift:"1"`
		S  string           `thrift:"2"`
		L  []int64          `thrift:"3"`
		M  map[string]int32 `thrift:"4"`
		D  float64          `thrift:"5"`
		B  bool             `thrift:"6"`
		I  inner            `thrift:"40"`
		LS []string         `thrift:"300"`
		Bs []byte           `thrift:"301"`
		I8 int8             `thrift:"302"`
	}
	in := all{A: -300, S: "héllo", L: []int64{1, -1, 1 << 40, 0, 5, 6, 7, 8, 9, 10, 11, 12, 13, 14, 15, 16, 17}, M: map[string]int32{"k": 70000}, D: 0.1, B: true,
		I: inner{S: strings.Repeat("s", 200), N: -5}, LS: []string{"a", "", "ccc"}, Bs: bytes.Repeat([]byte{7}, 5000), I8: -2}
	for _, pn := range []string{"binary", "binary-nonstrict", "compact"} {
		p := protoOf(pn)
		b, err := thrift.Marshal(p, in)
		if err != nil {
			c.SpecError("C13", "cannot encode", err.Error())
			return
		}
		sources := map[string]func() io.Reader{
			"bytes.Reader":       func() io.Reader { return bytes.NewReader(b) },
			"Read only, all":     func() io.Reader { return onlyRead{bytes.NewReader(b), 0} },
			"Read only, 1 byte":  func() io.Reader { return onlyRead{bytes.NewReader(b), 1} },
			"Read only, 2 bytes": func() io.Reader { return onlyRead{bytes.NewReader(b), 2} },
			"Read only, 7 bytes": func() io.Reader { return onlyRead{bytes.NewReader(b), 7} },
			"Read only, 4096":    func() io.Reader { return onlyRead{bytes.NewReader(b), 4096} },
			"io.LimitReader":     func() io.Reader { return io.LimitReader(bytes.NewReader(b), int64(len(b))) },
			"bufio.Reader(16)":   func() io.Reader { return bufio.NewReaderSize(onlyRead{bytes.NewReader(b), 3}, 16) },
			"strings.Reader":     func() io.Reader { return strings.NewReader(string(b)) },
		}
		for _, name := range sortedKeys(sources) {
			k := thriftCase{Proto: pn, What: "source: " + name}
			var out all
			var derr error
			c.Case()
			c.Eval(1)
			if pan := protect(func() { derr = thrift.NewDecoder(p.NewReader(sources[name]())).Decode(&out) }); pan != "" || derr != nil || !reflect.DeepEqual(in, out) {
				c.Diverge("C13", "Decoder.Decode(source: an io.Reader of another kind)["+pn+"]", "the value that was encoded", fmt.Sprintf("err=%v %s source=%s", derr, pan, name), "", k)
			}
			// the Reader methods one after the other on a hand-laid sequence: string, i32, double, bytes, i64
			var w bytes.Buffer
			wr := p.NewWriter(&w)
			wr.WriteString("abc")
			wr.WriteInt32(300)
			wr.WriteFloat64(1.5)
			wr.WriteBytes([]byte{1, 2, 3, 4})
			wr.WriteInt64(-70000)
			wr.WriteString("z")
			seq := w.Bytes()
			var src io.Reader = bytes.NewReader(seq)
			if strings.HasPrefix(name, "Read only") {
				src = onlyRead{bytes.NewReader(seq), map[string]int{"Read only, all": 0, "Read only, 1 byte": 1, "Read only, 2 bytes": 2, "Read only, 7 bytes": 7, "Read only, 4096": 4096}[name]}
			} else if name == "io.LimitReader" {
				src = io.LimitReader(bytes.NewReader(seq), int64(len(seq)))
			}
			rd := p.NewReader(src)
			s1, e1 := rd.ReadString()
			n2, e2 := rd.ReadInt32()
			f3, e3 := rd.ReadFloat64()
			b4, e4 := rd.ReadBytes()
			n5, e5 := rd.ReadInt64()
			s6, e6 := rd.ReadString()
			c.Eval(1)
			if e1 != nil || e2 != nil || e3 != nil || e4 != nil || e5 != nil || e6 != nil || s1 != "abc" || n2 != 300 || f3 != 1.5 || !bytes.Equal(b4, []byte{1, 2, 3, 4}) || n5 != -70000 || s6 != "z" {
				c.Diverge("C13", "Reader methods(source: an io.Reader of another kind)["+pn+"]", `"abc" 300 1.5 01020304 -70000 "z"`,
					fmt.Sprintf("%q %d %v %x %d %q errs=%v %v %v %v %v %v source=%s", s1, n2, f3, b4, n5, s6, e1, e2, e3, e4, e5, e6, name), "", k)
			}
		}
	}
}

// c13MapEntryOrders: a map is unordered on the wire: the entries of one content written in every order decode to the
// same value, each entry to what it decodes to alone (struct values of which some omit the fields others carry, so
// that nothing left over from one entry can pass for content of the next)
type c13MV struct {
	A int32         `thrift:"1"`
	B string        `thrift:"2"`
	P *int64        `thrift:"3"`
	L []int32       `thrift:"4"`
	M map[int8]bool `thrift:"5"`
	N *c13MV        `thrift:"6"`
}

func c13MapEntryOrders(c *Ctx) {
	seven := int64(7)
	vals := []c13MV{{A: 5, B: "x", P: &seven, L: []int32{1, 2}, M: map[int8]bool{1: true}, N: &c13MV{A: 9}}, {}, {B: "only b"}, {N: &c13MV{B: "n"}}}
	perms := [][]int{{0, 1, 2}, {0, 2, 1}, {1, 0, 2}, {1, 2, 0}, {2, 0, 1}, {2, 1, 0}, {0, 1, 3}, {3, 1, 0}, {1, 3, 0}}
	for _, pn := range protoNames {
		p := protoOf(pn)
		hdr := 6
		if pn == "compact" {
			hdr = 2
		}
		var entry [][]byte
		var alone []c13MV
		for i, v := range vals {
			b, err := thrift.Marshal(p, map[int32]c13MV{int32(i + 1): v})
			if err != nil || len(b) < hdr {
				c.SpecError("C13", "cannot encode a one-entry map", fmt.Sprint(err))
				return
			}
			var back map[int32]c13MV
			if err := thrift.Unmarshal(p, b, &back); err != nil {
				c.SpecError("C13", "cannot decode a one-entry map", fmt.Sprint(err))
				return
			}
			entry = append(entry, b[hdr:])
			alone = append(alone, back[int32(i+1)])
		}
		one, _ := thrift.Marshal(p, map[int32]c13MV{1: vals[0]})
		for _, perm := range perms {
			k := thriftCase{Proto: pn, What: fmt.Sprintf("map entry order %v", perm)}
			in := append([]byte(nil), one[:hdr]...)
			if pn == "compact" {
				in[0] = byte(len(perm))
			} else {
				in[hdr-1] = byte(len(perm))
			}
			want := map[int32]c13MV{}
			for _, i := range perm {
				in = append(in, entry[i]...)
				want[int32(i+1)] = alone[i]
			}
			var got map[int32]c13MV
			var err error
			c.Case()
			c.Eval(1)
			if pan := protect(func() { err = thrift.Unmarshal(p, in, &got) }); pan != "" || err != nil || !reflect.DeepEqual(got, want) {
				c.Diverge("C13", "thrift.Unmarshal(map entries in another order)["+pn+"]", fmt.Sprintf("each entry as it decodes alone: %s", showGo(reflect.ValueOf(want))),
					fmt.Sprintf("%s err=%v %s", showGo(reflect.ValueOf(got)), err, pan), "", k)
			}
		}
	}
}

// c13DeclarationOrders: the ids of a struct's fields need not ascend in the order the Go type declares them (embedded
// structs, fields added later): whatever order the fields are written in, every field header must say the field's own
// id - read here by a reader of the harness's own (compact: a delta only when the id is above the one before it by at
// most 15) - and the value must come back
type c13Emb struct {
	E1 int32 `thrift:"1"`
	E9 bool  `thrift:"9"`
}
type c13Desc struct {
	F30 int32  `thrift:"30"`
	F2  int32  `thrift:"2"`
	F17 string `thrift:"17"`
	c13Emb
	F3  bool  `thrift:"3"`
	F16 int32 `thrift:"16"`
}

// compactFieldIDs reads the field ids of a compact struct whose values are i32, bool or binary
func compactFieldIDs(b []byte) (ids []int, ok bool) {
	last := 0
	for len(b) > 0 {
		h := b[0]
		b = b[1:]
		if h == 0 {
			return ids, len(b) == 0
		}
		id := last + int(h>>4)
		if h>>4 == 0 {
			u, n := binary.Uvarint(b)
			if n <= 0 {
				return ids, false
			}
			b = b[n:]
			id = int(int32(u>>1) ^ -int32(u&1))
		}
		ids, last = append(ids, id), id
		switch h & 15 {
		case 1, 2:
		case 5:
			_, n := binary.Uvarint(b)
			if n <= 0 {
				return ids, false
			}
			b = b[n:]
		case 8:
			l, n := binary.Uvarint(b)
			if n <= 0 || int(l) > len(b)-n {
				return ids, false
			}
			b = b[n+int(l):]
		default:
			return ids, false
		}
	}
	return ids, false
}

type c13Core struct {
	X int32  `thrift:"1"`
	Y int32  `thrift:"2"`
	Z int32  `thrift:"3"`
	W string `thrift:"4"`
}
type c13Inner struct{ c13Core }
type c13Middle struct{ c13Inner }
type c13Outer struct{ c13Middle }
type c13Outermost struct {
	c13Outer
	V int32 `thrift:"9"`
}

// c13EnumTwins: what the tag of one field says (enum) says nothing about other uses of the same Go type in the same
// struct: the bytes are those of a twin type whose enum fields have Go types of their own, declared in both orders
type c13E8 int8
type c13E16 int16
type c13E64 int64
type c13EI int
type c13EnumShared struct {
	K8  int8           `thrift:"1,enum"`
	P8  int8           `thrift:"2"`
	K16 int16          `thrift:"3,enum"`
	P16 int16          `thrift:"4"`
	K64 int64          `thrift:"5,enum"`
	P64 int64          `thrift:"6"`
	KI  int            `thrift:"7,enum"`
	PI  int            `thrift:"8"`
	L   []int64        `thrift:"9"`
	M   map[int8]int16 `thrift:"10"`
	N   struct {
		Q int64 `thrift:"1"`
		R int8  `thrift:"2"`
	} `thrift:"11"`
}
type c13EnumOwn struct {
	K8  c13E8          `thrift:"1,enum"`
	P8  int8           `thrift:"2"`
	K16 c13E16         `thrift:"3,enum"`
	P16 int16          `thrift:"4"`
	K64 c13E64         `thrift:"5,enum"`
	P64 int64          `thrift:"6"`
	KI  c13EI          `thrift:"7,enum"`
	PI  int            `thrift:"8"`
	L   []int64        `thrift:"9"`
	M   map[int8]int16 `thrift:"10"`
	N   struct {
		Q int64 `thrift:"1"`
		R int8  `thrift:"2"`
	} `thrift:"11"`
}
type c13EnumSharedRev struct {
	P8  int8  `thrift:"2"`
	K8  int8  `thrift:"1,enum"`
	P64 int64 `thrift:"6"`
	K64 int64 `thrift:"5,enum"`
}
type c13EnumOwnRev struct {
	P8  int8   `thrift:"2"`
	K8  c13E8  `thrift:"1,enum"`
	P64 int64  `thrift:"6"`
	K64 c13E64 `thrift:"5,enum"`
}

func c13EnumTwins(c *Ctx) {
	for vi, x := range []int64{1, -1, 100, 1 << 20, -(1 << 20)} {
		sh := c13EnumShared{K8: 3, P8: int8(x), K16: 3, P16: int16(x), K64: 3, P64: x << 20, KI: 3, PI: int(x) << 20, L: []int64{x << 30, 1}, M: map[int8]int16{int8(x): int16(x)}}
		sh.N.Q, sh.N.R = x<<33, int8(x)
		own := c13EnumOwn{K8: 3, P8: sh.P8, K16: 3, P16: sh.P16, K64: 3, P64: sh.P64, KI: 3, PI: sh.PI, L: sh.L, M: sh.M, N: sh.N}
		pairs := [][2]any{{sh, own}, {c13EnumSharedRev{P8: sh.P8, K8: 3, P64: sh.P64, K64: 3}, c13EnumOwnRev{P8: sh.P8, K8: 3, P64: sh.P64, K64: 3}}}
		for pi, pr := range pairs {
			for _, pn := range protoNames {
				p := protoOf(pn)
				k := thriftCase{Proto: pn, What: fmt.Sprintf("declaration orders: enum twins value=%d pair=%d", vi, pi)}
				var a, b []byte
				var e1, e2 error
				c.Case()
				c.Eval(2)
				// the twin first: its codec must not depend on what was built before
				if pan := protect(func() { b, e2 = thrift.Marshal(p, pr[1]); a, e1 = thrift.Marshal(p, pr[0]) }); pan != "" || e1 != nil || e2 != nil {
					c.Diverge("C13", "thrift.Marshal(an enum field and plain uses of its Go type)["+pn+"]", "bytes", fmt.Sprintf("%v %v %s", e1, e2, pan), "", k)
					continue
				}
				if !bytes.Equal(a, b) {
					c.Diverge("C13", "thrift.Marshal(an enum field and plain uses of its Go type)["+pn+"]", hex.EncodeToString(b), hex.EncodeToString(a), "", k)
					continue
				}
				back := reflect.New(reflect.TypeOf(pr[0]))
				var err error
				if pan := protect(func() { err = thrift.Unmarshal(p, a, back.Interface()) }); pan != "" || err != nil || !reflect.DeepEqual(back.Elem().Interface(), pr[0]) {
					c.Diverge("C13", "thrift.Unmarshal(Marshal(v))(an enum field and plain uses of its Go type)["+pn+"]", fmt.Sprintf("%+v", pr[0]),
						fmt.Sprintf("%+v err=%v %s", back.Elem().Interface(), err, pan), "", k)
				}
			}
		}
	}
}

// fields reached through three and more levels of embedding (by value and through a pointer): each under its own id
func c13DeepEmbedding(c *Ctx) {
	for _, v := range []any{c13Outer{c13Middle{c13Inner{c13Core{1, 2, 3, "w"}}}}, c13Outermost{c13Outer{c13Middle{c13Inner{c13Core{1, 2, 3, "w"}}}}, 9}, c13Middle{c13Inner{c13Core{1, 2, 3, "w"}}}} {
		for _, pn := range protoNames {
			p := protoOf(pn)
			k := thriftCase{Proto: pn, What: "declaration orders: deep embedding by value"}
			var b []byte
			var err error
			c.Case()
			c.Eval(1)
			if pan := protect(func() { b, err = thrift.Marshal(p, v) }); pan != "" || err != nil {
				c.Diverge("C13", "thrift.Marshal(fields behind three levels of embedding)["+pn+"]", "bytes", fmt.Sprintf("%v %s", err, pan), "", k)
				continue
			}
			if pn == "compact" {
				want := []byte{0x15, 2, 0x15, 4, 0x15, 6, 0x18, 1, 'w'}
				if _, ok := v.(c13Outermost); ok {
					want = append(want, 0x55, 18)
				}
				want = append(want, 0)
				if !bytes.Equal(b, want) {
					c.Diverge("C13", "thrift.Marshal(fields behind three levels of embedding)[compact]", hex.EncodeToString(want), hex.EncodeToString(b), "", k)
					continue
				}
			}
			back := reflect.New(reflect.TypeOf(v))
			if pan := protect(func() { err = thrift.Unmarshal(p, b, back.Interface()) }); pan != "" || err != nil || !reflect.DeepEqual(back.Elem().Interface(), v) {
				c.Diverge("C13", "thrift.Unmarshal(Marshal(v))(fields behind three levels of embedding)["+pn+"]", fmt.Sprintf("%+v", v), fmt.Sprintf("%+v err=%v %s", back.Elem().Interface(), err, pan), "", k)
			}
		}
	}
	l3 := EmbL3{A: 11, B: 22, C: "c", H: 88}
	v := EmbTop{EmbL0: EmbL0{EmbL1: EmbL1{EmbL2: &EmbL2{EmbL3: l3, D: 4}, F: true}, G: "g"}, I: 7}
	for _, pn := range protoNames {
		p := protoOf(pn)
		k := thriftCase{Proto: pn, What: "declaration orders: deep embedding"}
		var b []byte
		var err error
		c.Case()
		c.Eval(1)
		if pan := protect(func() { b, err = thrift.Marshal(p, v) }); pan != "" || err != nil {
			c.Diverge("C13", "thrift.Marshal(fields behind three levels of embedding)["+pn+"]", "bytes", fmt.Sprintf("%v %s", err, pan), "", k)
			continue
		}
		if pn == "compact" {
			// i32 11 under id 1, i32 22 under 2, "c" under 3, i32 4 under 4, true under 5, "g" under 6, i16 7 under 7, i64 88 under 8
			want := []byte{0x15, 22, 0x15, 44, 0x18, 1, 'c', 0x15, 8, 0x11, 0x18, 1, 'g', 0x14, 14, 0x16, 176, 1, 0}
			if !bytes.Equal(b, want) {
				c.Diverge("C13", "thrift.Marshal(fields behind three levels of embedding)[compact]", hex.EncodeToString(want), hex.EncodeToString(b), "", k)
				continue
			}
		}
		var back EmbTop
		if pan := protect(func() { err = thrift.Unmarshal(p, b, &back) }); pan != "" || err != nil || !reflect.DeepEqual(back, v) {
			c.Diverge("C13", "thrift.Unmarshal(Marshal(v))(fields behind three levels of embedding)["+pn+"]", fmt.Sprintf("%+v", v), fmt.Sprintf("%+v err=%v %s", back, err, pan), "", k)
		}
	}
}

func c13DeclarationOrders(c *Ctx) {
	c13DeepEmbedding(c)
	c13EnumTwins(c)
	vals := []c13Desc{
		{F30: 30, F2: 2, F17: "s", c13Emb: c13Emb{E1: 1, E9: true}, F3: true, F16: 16},
		{F30: 30, F2: 2}, {F2: 2, c13Emb: c13Emb{E1: 1}}, {F17: "x", F16: 16}, {F30: 1, F3: true}, {c13Emb: c13Emb{E9: true}, F3: true},
	}
	for vi, v := range vals {
		for _, pn := range protoNames {
			p := protoOf(pn)
			k := thriftCase{Proto: pn, What: fmt.Sprintf("declaration orders value=%d", vi)}
			var b []byte
			var err error
			c.Case()
			c.Eval(1)
			if pan := protect(func() { b, err = thrift.Marshal(p, v) }); pan != "" || err != nil {
				c.Diverge("C13", "thrift.Marshal(field ids not ascending in declaration order)["+pn+"]", "bytes", fmt.Sprintf("%v %s", err, pan), "", k)
				continue
			}
			if pn == "compact" {
				want := map[int]bool{}
				for id, nz := range map[int]bool{30: v.F30 != 0, 2: v.F2 != 0, 17: v.F17 != "", 1: v.E1 != 0, 9: v.E9, 3: v.F3, 16: v.F16 != 0} {
					if nz {
						want[id] = true
					}
				}
				ids, ok := compactFieldIDs(b)
				got := map[int]bool{}
				for _, id := range ids {
					got[id] = true
				}
				if !ok || !reflect.DeepEqual(got, want) || len(ids) != len(want) {
					c.Diverge("C13", "thrift.Marshal(field ids not ascending in declaration order)[compact]", fmt.Sprintf("field headers for the ids %v", want),
						fmt.Sprintf("ids %v (well formed: %v) bytes=%x", ids, ok, b), "", k)
					continue
				}
			}
			var back c13Desc
			if pan := protect(func() { err = thrift.Unmarshal(p, b, &back) }); pan != "" || err != nil || back != v {
				c.Diverge("C13", "thrift.Unmarshal(Marshal(v))(field ids not ascending in declaration order)["+pn+"]", fmt.Sprintf("%+v", v), fmt.Sprintf("%+v err=%v %s bytes=%x", back, err, pan, b), "", k)
			}
		}
	}
}

func c13Doubles(c *Ctx) {
	c13DeclarationOrders(c)
	c13Sources(c)
	c13MapEntryOrders(c)
	vals := []float64{0, math.Copysign(0, -1), 1, -1, math.Inf(1), math.Inf(-1), math.Float64frombits(0x7ff8000000000001), math.SmallestNonzeroFloat64,
		-math.SmallestNonzeroFloat64, math.MaxFloat64, -math.MaxFloat64, 0.1, 1e-310}
	for _, pn := range []string{"binary", "binary-nonstrict", "compact"} {
		p := protoOf(pn)
		for _, v := range vals {
			bits := math.Float64bits(v)
			k := thriftCase{Proto: pn, What: fmt.Sprintf("double bits=%016x", bits)}
			var w bytes.Buffer
			c.Case()
			c.Eval(1)
			if pan := protect(func() { p.NewWriter(&w).WriteFloat64(v) }); pan != "" {
				c.Diverge("C13", "Writer.WriteFloat64["+pn+"]", "8 bytes", pan, "", k)
				continue
			}
			if pn != "compact" {
				if want := binary.BigEndian.AppendUint64(nil, bits); !bytes.Equal(w.Bytes(), want) {
					c.Diverge("C13", "Writer.WriteFloat64["+pn+"]", hex.EncodeToString(want), hex.EncodeToString(w.Bytes()), "", k)
				}
			}
			got, err := p.NewReader(bytes.NewReader(w.Bytes())).ReadFloat64()
			if err != nil || math.Float64bits(got) != bits {
				c.Diverge("C13", "Reader.ReadFloat64(Writer.WriteFloat64(v))["+pn+"]", fmt.Sprintf("%016x", bits), fmt.Sprintf("%016x err=%v", math.Float64bits(got), err), "", k)
			}
			type holder struct {
				L []float64        `thrift:"1"`
				M map[int8]float64 `thrift:"2"`
				R float64          `thrift:"3,required"`
				P *float64         `thrift:"4"`
			}
			in := holder{L: []float64{v, v}, M: map[int8]float64{1: v}, R: v, P: &v}
			b, err := thrift.Marshal(p, in)
			var out holder
			if err == nil {
				err = thrift.Unmarshal(p, b, &out)
			}
			same := err == nil && len(out.L) == 2 && math.Float64bits(out.L[0]) == bits && math.Float64bits(out.L[1]) == bits &&
				math.Float64bits(out.M[1]) == bits && math.Float64bits(out.R) == bits && out.P != nil && math.Float64bits(*out.P) == bits
			if !same {
				c.Diverge("C13", "thrift.Unmarshal(Marshal(doubles))["+pn+"]", fmt.Sprintf("every double with bits %016x", bits), fmt.Sprintf("%+v err=%v bytes=%x", out, err, b), "", k)
			}
		}
	}
}

func c13Replay(c *Ctx, raw stdjson.RawMessage) {
	if varintVector(c, "C13", raw) {
		return
	}
	// replays re-run the whole vector case: layout/vals carry everything but the spec bytes, which the
	// stored want/asis hex strings provide
	var k thriftCase
	if stdjson.Unmarshal(raw, &k) != nil {
		return
	}
	if strings.HasPrefix(k.What, "source: ") {
		c13Sources(c)
		return
	}
	if strings.HasPrefix(k.What, "map entry order") {
		c13MapEntryOrders(c)
		return
	}
	if strings.HasPrefix(k.What, "declaration orders") {
		c13DeclarationOrders(c)
		return
	}
	if strings.HasPrefix(k.What, "double bits=") {
		c13Doubles(c)
		return
	}
	if len(k.Layout) == 0 { // message header case
		var mt int
		var name string
		var seq int
		fmt.Sscanf(k.What, "message type=%d name=%q seq=%d", &mt, &name, &seq)
		want, _ := hex.DecodeString(k.Want)
		var buf bytes.Buffer
		protoOf(k.Proto).NewWriter(&buf).WriteMessage(thrift.Message{Type: thrift.MessageType(mt), Name: name, SeqID: int32(seq)})
		if !bytes.Equal(buf.Bytes(), want) {
			c.Diverge("C13", "WriteMessage["+k.Proto+"]", k.Want, hex.EncodeToString(buf.Bytes()), "", k)
			c.Diverge("C13", "ReadMessage["+k.Proto+"]", k.Want, hex.EncodeToString(buf.Bytes()), "", k)
		}
		c13UsedWriter(c, k, k.Proto, thrift.Message{Type: thrift.MessageType(mt), Name: name, SeqID: int32(seq)}, buf.Bytes())
		return
	}
	l := tlift{k.Salt}
	p := protoOf(k.Proto)
	want, _ := hex.DecodeString(k.Want)
	if k.Bytes != "" { // decode-direction case
		b, _ := hex.DecodeString(k.Bytes)
		out := reflect.New(tStructType(k.Layout))
		var e error
		pn := protect(func() { e = thrift.Unmarshal(p, b, out.Interface()) })
		if pn != "" || e != nil || tTreeGo(k.Layout, out.Elem()) != k.Want {
			c.Diverge("C13", "thrift.Unmarshal("+k.What+")["+k.Proto+"]", k.Want, fmt.Sprintf("err=%v %s", e, pn), "", k)
		}
		return
	}
	x := l.structValue(k.Layout, k.Vals).Interface()
	mb, err := thrift.Marshal(p, x)
	if err != nil || !bytes.Equal(mb, want) {
		c.Diverge("C13", "thrift.Marshal["+k.Proto+"]", k.Want, hex.EncodeToString(mb), "", k)
		c.Diverge("C13", "Writer calls["+k.Proto+"]", k.Want, hex.EncodeToString(mb), "", k)
	}
	// the Encoder that served the other protocol before its Reset
	other := "compact"
	if k.Proto == "compact" {
		other = "binary"
	}
	asis, _ := hex.DecodeString(k.AsIs)
	var junk, out bytes.Buffer
	e := thrift.NewEncoder(protoOf(other).NewWriter(&junk))
	pn := protect(func() {
		e.Encode(x)
		e.Reset(p.NewWriter(&out))
		err = e.Encode(x)
	})
	if pn != "" || err != nil || (!bytes.Equal(out.Bytes(), want) && !bytes.Equal(out.Bytes(), asis)) {
		c.Diverge("C13", "Encoder(Reset from "+other+")["+k.Proto+"]", k.Want, fmt.Sprintf("%x err=%v %s", out.Bytes(), err, pn), "", k)
	}
}

// ---------------------------------------------------------------- C04

func c04Run(c *Ctx, k thriftCase) {
	l := tlift{k.Salt}
	sv := l.structValue(k.Layout, k.Vals)
	want := tTreeGo(k.Layout, sv)
	t := tStructType(k.Layout)
	fail := func(api, w, g string) { c.Diverge("C04", api, w, g, "", k) }
	bigMap := false // a map or set with more than one entry: the member order on the wire is free
	for _, v := range k.Vals {
		if (v.Ty == "MAP" && len(v.Xs) > 2) || (v.Ty == "SET" && len(v.Xs) > 1) {
			bigMap = true
		}
	}
	enc := map[string][]byte{}
	for _, pn := range protoNames {
		p := protoOf(pn)
		var b []byte
		var err error
		c.Eval(2)
		if pa := protect(func() { b, err = thrift.Marshal(p, sv.Interface()) }); pa != "" || err != nil {
			fail("thrift.Marshal["+pn+"]", "bytes", fmt.Sprintf("%s err=%v", pa, err))
			return
		}
		enc[pn] = b
		out := reflect.New(t)
		if pa := protect(func() { err = thrift.Unmarshal(p, b, out.Interface()) }); pa != "" || err != nil {
			fail("thrift.Unmarshal(Marshal(v))["+pn+"]", want, fmt.Sprintf("%s err=%v bytes=%x", pa, err, b))
			continue
		}
		if got := tTreeGo(k.Layout, out.Elem()); got != want {
			fail("thrift.Unmarshal(Marshal(v))["+pn+"]", want, got+fmt.Sprintf(" bytes=%x", b))
		}
		// pointer form
		pv := reflect.New(t)
		pv.Elem().Set(sv)
		if b2, e2 := thrift.Marshal(p, pv.Interface()); e2 != nil || !sameEncoding(b2, b, bigMap) {
			fail("thrift.Marshal(&v)["+pn+"]", hex.EncodeToString(b), fmt.Sprintf("%x err=%v", b2, e2))
		}
	}
	// histories: a Reset encoder / decoder behaves like a fresh one for the new protocol
	for _, h := range [][]string{k.Hist} {
		if len(h) == 0 {
			continue
		}
		var e *thrift.Encoder
		var d *thrift.Decoder
		for i, pn := range h {
			var buf bytes.Buffer
			if i == 0 {
				e = thrift.NewEncoder(protoOf(pn).NewWriter(&buf))
			} else {
				e.Reset(protoOf(pn).NewWriter(&buf))
			}
			c.Eval(2)
			if err := e.Encode(sv.Interface()); err != nil || !sameEncoding(buf.Bytes(), enc[pn], bigMap) {
				fail(fmt.Sprintf("Encoder after %v", h[:i+1]), hex.EncodeToString(enc[pn]), fmt.Sprintf("%x err=%v", buf.Bytes(), err))
			}
			rd := protoOf(pn).NewReader(bytes.NewReader(enc[pn]))
			if i == 0 {
				d = thrift.NewDecoder(rd)
			} else {
				if i%2 == 1 && len(enc[pn]) > 1 {
					// a decode that fails half-way (truncated input) before the Reset: nothing of it may stay behind
					d.Reset(protoOf(pn).NewReader(bytes.NewReader(enc[pn][:len(enc[pn])/2])))
					protect(func() { d.Decode(reflect.New(t).Interface()) })
				}
				d.Reset(rd)
			}
			d.SetStrict(i%2 == 0)
			out := reflect.New(t)
			if err := d.Decode(out.Interface()); err != nil || tTreeGo(k.Layout, out.Elem()) != want {
				fail(fmt.Sprintf("Decoder after %v", h[:i+1]), want, fmt.Sprintf("%s err=%v", tTreeGo(k.Layout, out.Elem()), err))
			}
		}
	}
}

var c04Histories = [][]string{
	{"binary", "compact"}, {"compact", "binary"}, {"compact", "binary-nonstrict", "compact"},
	{"binary", "binary", "compact", "binary"}, {"compact", "compact"}, {"binary-nonstrict", "compact", "binary"},
}

// c04Embedded: struct types whose fields sit one to four levels of embedding down (by value and through pointers):
// the package flattens them into one thrift struct, every field under its own id
type EmbL3 struct {
	A int32  `thrift:"1"`
	B int32  `thrift:"2"`
	C string `thrift:"3"`
	H int64  `thrift:"8"`
}
type EmbL2 struct {
	EmbL3
	D int32 `thrift:"4"`
}
type EmbL1 struct {
	*EmbL2
	F bool `thrift:"5"`
}
type EmbL0 struct {
	EmbL1
	G string `thrift:"6"`
}
type EmbTop struct {
	EmbL0
	I int16 `thrift:"7"`
}

// embedded structs with required and optional fields: what the flattening may leave out is decided field by field
// (a required field is written even when the whole embedded struct holds nothing)
type EmbReqIn struct {
	R int32  `thrift:"1,required"`
	S string `thrift:"2,required"`
	O int32  `thrift:"3,optional"`
	P bool   `thrift:"6"`
}
type EmbReqVal struct {
	EmbReqIn
	X int32 `thrift:"4"`
}
type EmbReqPtr struct {
	*EmbReqIn
	X int32 `thrift:"4"`
}
type EmbReqDeep struct {
	EmbReqVal
	Y bool `thrift:"5,required"`
}
type EmbReqOuter struct {
	A int64       `thrift:"1"`
	V EmbReqVal   `thrift:"2"`
	L []EmbReqVal `thrift:"3"`
}

// c04Recursive: a struct type that contains itself through a map / list / pointer (the decoder of such a field is
// entered again while it is at work), and the same round trips behind a decode of the same type that failed half-way
type RecTree struct {
	Name     string             `thrift:"1"`
	Children map[string]RecTree `thrift:"2"`
	List     []RecTree          `thrift:"3"`
	Next     *RecTree           `thrift:"4"`
	N        int32              `thrift:"5"`
}

// c04LongLists: lists, sets and maps around and beyond the number of elements the decoders reserve room for (1024)
func c04LongLists(c *Ctx) {
	type holder struct {
		A int32            `thrift:"1"`
		L []int32          `thrift:"2"`
		S []string         `thrift:"3"`
		M map[int32]string `thrift:"4"`
		T []struct {
			X int8 `thrift:"1"`
		} `thrift:"5"`
		Z string `thrift:"6"`
	}
	for _, n := range []int{1023, 1024, 1025, 2048, 2049, 3000} {
		in := holder{A: 1, Z: "z", M: map[int32]string{}}
		for i := 0; i < n; i++ {
			in.L = append(in.L, int32(i*7))
			in.S = append(in.S, strconv.Itoa(i))
			in.M[int32(i)] = "v"
			in.T = append(in.T, struct {
				X int8 `thrift:"1"`
			}{int8(i)})
		}
		for _, pn := range []string{"binary", "binary-nonstrict", "compact"} {
			p := protoOf(pn)
			k := thriftCase{Proto: pn, What: fmt.Sprintf("long lists %d", n)}
			c.Case()
			c.Eval(1)
			b, err := thrift.Marshal(p, in)
			var out holder
			if err == nil {
				err = thrift.Unmarshal(p, b, &out)
			}
			if err != nil || !reflect.DeepEqual(in, out) {
				c.Diverge("C04", "thrift.Unmarshal(Marshal(v))(collections of more than 1024 elements)["+pn+"]", fmt.Sprintf("%d elements each", n),
					fmt.Sprintf("err=%v lengths %d %d %d %d", err, len(out.L), len(out.S), len(out.M), len(out.T)), "", k)
			}
		}
	}
}

func c04Recursive(c *Ctx) {
	c04LongLists(c)
	leaf := func(n string, v int32) RecTree { return RecTree{Name: n, N: v} }
	vals := []RecTree{
		{Name: "root", Children: map[string]RecTree{"a": {Name: "a", Children: map[string]RecTree{"x": leaf("x", 1), "y": leaf("y", 2)}}, "b": leaf("b", 3)}},
		{Name: "l", List: []RecTree{{Name: "l1", List: []RecTree{leaf("l2", 4)}}, leaf("l3", 0)}, Next: &RecTree{Name: "n", Children: map[string]RecTree{"k": leaf("", 5)}}},
		{Children: map[string]RecTree{"only": {Children: map[string]RecTree{"deep": {Children: map[string]RecTree{"deeper": leaf("d", 9)}}}}}},
		{Children: map[string]RecTree{"zero": {}, "z2": {N: 0, Name: ""}}, N: 7},
	}
	for _, pn := range []string{"binary", "binary-nonstrict", "compact"} {
		p := protoOf(pn)
		for i, v := range vals {
			for _, poisoned := range []bool{false, true} {
				k := thriftCase{Proto: pn, What: fmt.Sprintf("recursive types %d poisoned=%v", i, poisoned)}
				c.Case()
				c.Eval(1)
				var b []byte
				var err error
				if pan := protect(func() { b, err = thrift.Marshal(p, v) }); pan != "" || err != nil {
					c.Diverge("C04", "thrift.Marshal(recursive types)["+pn+"]", "nil error", fmt.Sprintf("%v %s", err, pan), "", k)
					continue
				}
				if poisoned { // every prefix of another value's encoding first: decodes that stop in the middle of an entry
					ob, _ := thrift.Marshal(p, vals[(i+1)%len(vals)])
					for cut := 1; cut < len(ob); cut += 1 + len(ob)/40 {
						var junk RecTree
						protect(func() { thrift.Unmarshal(p, ob[:cut], &junk) })
					}
				}
				var out RecTree
				if pan := protect(func() { err = thrift.Unmarshal(p, b, &out) }); pan != "" || err != nil {
					c.Diverge("C04", "thrift.Unmarshal(Marshal(v))(recursive types)["+pn+"]", "nil error", fmt.Sprintf("%v %s bytes=%x", err, pan, b), "", k)
					continue
				}
				w, _ := stdjson.Marshal(v)
				g, _ := stdjson.Marshal(out)
				norm := func(s []byte) string {
					return strings.NewReplacer(":null", ":Z", ":[]", ":Z", ":{}", ":Z").Replace(string(s))
				}
				if norm(w) != norm(g) {
					c.Diverge("C04", "thrift.Unmarshal(Marshal(v))(recursive types)["+pn+"]", string(w), string(g)+fmt.Sprintf(" bytes=%x", b), "", k)
				}
			}
		}
	}
}

// c04Known: two open findings with the values that show them (any other difference of these types is a violation)
type c04U struct {
	A bool `thrift:"1"`
	B int  `thrift:"2"`
	F any  `thrift:",union"`
}
type c04HoldMap struct {
	M map[string]c04U `thrift:"1"`
}
type c04HoldList struct {
	L []c04U `thrift:"1"`
}
type c04E64 struct {
	E int64 `thrift:"1,enum"`
}

func c04Known(c *Ctx) {
	tr := true
	for _, pn := range protoNames {
		p := protoOf(pn)
		// F-C04-2: a union as the value of a map entry: the member pointer of the decoded entry points into the
		// decoder's scratch entry, which is cleared afterwards
		{
			k := thriftCase{Proto: pn, What: "known: union as a map value"}
			in := c04HoldMap{M: map[string]c04U{"a": {A: true, F: &tr}}}
			var out c04HoldMap
			var err error
			c.Case()
			c.Eval(1)
			b, merr := thrift.Marshal(p, in)
			if pan := protect(func() { err = thrift.Unmarshal(p, b, &out) }); pan != "" || merr != nil || err != nil {
				c.Diverge("C04", "thrift.Unmarshal(Marshal(v))(union as a map value)["+pn+"]", "the value", fmt.Sprintf("%v %v %s", merr, err, pan), "", k)
			} else {
				e, ok := out.M["a"]
				fp, isPtr := e.F.(*bool)
				switch {
				case ok && e.A && isPtr && fp != nil && *fp:
				case ok && e.A && isPtr && fp != nil && !*fp:
					c.Diverge("C04", "thrift.Unmarshal(Marshal(v))(union as a map value)["+pn+"]", "A=true, F -> true", "A=true, F -> false", "F-C04-2", k)
				default:
					c.Diverge("C04", "thrift.Unmarshal(Marshal(v))(union as a map value)["+pn+"]", "A=true, F -> true", fmt.Sprintf("%+v", out), "", k)
				}
			}
			// the same union as a list element comes back whole
			inl := c04HoldList{L: []c04U{{A: true, F: &tr}}}
			var outl c04HoldList
			bl, _ := thrift.Marshal(p, inl)
			if pan := protect(func() { err = thrift.Unmarshal(p, bl, &outl) }); pan != "" || err != nil || len(outl.L) != 1 || !outl.L[0].A {
				c.Diverge("C04", "thrift.Unmarshal(Marshal(v))(union as a list element)["+pn+"]", "A=true", fmt.Sprintf("%+v err=%v %s", outl, err, pan), "", k)
			} else if fp, isPtr := outl.L[0].F.(*bool); !isPtr || fp == nil || !*fp {
				c.Diverge("C04", "thrift.Unmarshal(Marshal(v))(union as a list element)["+pn+"]", "F -> true", fmt.Sprintf("%+v", outl.L[0].F), "", k)
			}
		}
		// F-C04-3: an enum field of a 64-bit kind travels as 32 bits (F-C13-5 is the same fact seen on the wire)
		for _, v := range []int64{1, -1, 1 << 31, 1 << 40, -(1 << 40), 1<<31 - 1} {
			k := thriftCase{Proto: pn, What: fmt.Sprintf("known: enum of a 64-bit kind %d", v)}
			var out c04E64
			var err error
			c.Case()
			c.Eval(1)
			b, merr := thrift.Marshal(p, c04E64{E: v})
			if pan := protect(func() { err = thrift.Unmarshal(p, b, &out) }); pan != "" || merr != nil || err != nil {
				c.Diverge("C04", "thrift.Unmarshal(Marshal(v))(enum of a 64-bit kind)["+pn+"]", fmt.Sprint(v), fmt.Sprintf("%v %v %s", merr, err, pan), "", k)
			} else if out.E != v {
				finding := ""
				if out.E == int64(int32(v)) {
					finding = "F-C04-3"
				}
				c.Diverge("C04", "thrift.Unmarshal(Marshal(v))(enum of a 64-bit kind)["+pn+"]", fmt.Sprint(v), fmt.Sprint(out.E), finding, k)
			}
		}
	}
}

// c04Spans: struct types whose field ids span 63, 64, 65, 127, 128, 129 ... slots (the decoders keep one bit per id
// between the smallest and the largest): round trips, with and without required fields
func c04Spans(c *Ctx) {
	for _, span := range []int{1, 2, 63, 64, 65, 127, 128, 129, 191, 192, 193, 256, 1024} {
		for _, lo := range []int{1, 7} {
			for _, req := range []bool{false, true} {
				ids := []int{lo, lo + span/2, lo + span - 1}
				if span < 3 {
					ids = ids[:span]
					if span == 2 {
						ids = []int{lo, lo + 1}
					}
				}
				var fs []reflect.StructField
				seen := map[int]bool{}
				for _, id := range ids {
					if seen[id] {
						continue
					}
					seen[id] = true
					tag := fmt.Sprintf(`thrift:"%d"`, id)
					if req {
						tag = fmt.Sprintf(`thrift:"%d,required"`, id)
					}
					fs = append(fs, reflect.StructField{Name: "F" + strconv.Itoa(id), Type: reflect.TypeOf(int32(0)), Tag: reflect.StructTag(tag)})
				}
				t := reflect.StructOf(fs)
				v := reflect.New(t).Elem()
				for i := 0; i < v.NumField(); i++ {
					v.Field(i).SetInt(int64(i + 1))
				}
				for _, pn := range protoNames {
					p := protoOf(pn)
					k := thriftCase{Proto: pn, What: fmt.Sprintf("known: spans %d from %d required=%v", span, lo, req)}
					out := reflect.New(t)
					var err error
					c.Case()
					c.Eval(1)
					b, merr := thrift.Marshal(p, v.Interface())
					if pan := protect(func() { err = thrift.Unmarshal(p, b, out.Interface()) }); pan != "" || merr != nil || err != nil || !reflect.DeepEqual(out.Elem().Interface(), v.Interface()) {
						c.Diverge("C04", "thrift.Unmarshal(Marshal(v))(field ids spanning a multiple of 64)["+pn+"]", fmt.Sprintf("%+v", v.Interface()),
							fmt.Sprintf("%+v %v %v %s", out.Elem().Interface(), merr, err, pan), "", k)
					}
				}
			}
		}
	}
}

func c04Embedded(c *Ctx) {
	c04Spans(c)
	c04Known(c)
	c04Recursive(c)
	l3 := EmbL3{A: 11, B: 22, C: "c", H: 88}
	vals := []any{
		EmbL2{EmbL3: l3, D: 4},
		EmbL1{EmbL2: &EmbL2{EmbL3: l3, D: 4}, F: true},
		EmbL0{EmbL1: EmbL1{EmbL2: &EmbL2{EmbL3: l3, D: 4}, F: true}, G: "g"},
		EmbTop{EmbL0: EmbL0{EmbL1: EmbL1{EmbL2: &EmbL2{EmbL3: l3, D: 4}, F: true}, G: "g"}, I: 7},
		EmbTop{EmbL0: EmbL0{EmbL1: EmbL1{EmbL2: &EmbL2{EmbL3: EmbL3{A: 1}}}}},
		EmbTop{EmbL0: EmbL0{EmbL1: EmbL1{EmbL2: &EmbL2{EmbL3: EmbL3{B: 2, H: 3}}}}, I: 1},
		EmbReqVal{}, EmbReqVal{X: 4}, EmbReqVal{EmbReqIn: EmbReqIn{R: 1}}, EmbReqVal{EmbReqIn: EmbReqIn{S: "s"}, X: 4},
		EmbReqVal{EmbReqIn: EmbReqIn{O: 3}}, EmbReqVal{EmbReqIn: EmbReqIn{P: true}}, EmbReqVal{EmbReqIn: EmbReqIn{R: 1, S: "s", O: 3, P: true}, X: 4},
		EmbReqPtr{EmbReqIn: &EmbReqIn{}}, EmbReqPtr{EmbReqIn: &EmbReqIn{}, X: 4}, EmbReqPtr{EmbReqIn: &EmbReqIn{R: 1, S: "s"}, X: 4},
		EmbReqDeep{}, EmbReqDeep{Y: true}, EmbReqDeep{EmbReqVal: EmbReqVal{X: 4}}, EmbReqDeep{EmbReqVal: EmbReqVal{EmbReqIn: EmbReqIn{S: "s"}}, Y: true},
		EmbReqOuter{}, EmbReqOuter{A: 1, L: []EmbReqVal{{}, {X: 4}, {EmbReqIn: EmbReqIn{R: 1}}, {}}}, EmbReqOuter{V: EmbReqVal{X: 4}, L: []EmbReqVal{}},
	}
	for i, v := range vals {
		for _, pn := range []string{"binary", "binary-nonstrict", "compact"} {
			p := protoOf(pn)
			k := thriftCase{Proto: pn, What: fmt.Sprintf("embedded structs %d", i)}
			c.Case()
			c.Eval(1)
			var b []byte
			var err error
			if pan := protect(func() { b, err = thrift.Marshal(p, v) }); pan != "" || err != nil {
				c.Diverge("C04", "thrift.Marshal(embedded structs)["+pn+"]", "nil error", fmt.Sprintf("%v %s", err, pan), "", k)
				continue
			}
			out := reflect.New(reflect.TypeOf(v))
			if pan := protect(func() { err = thrift.Unmarshal(p, b, out.Interface()) }); pan != "" || err != nil {
				c.Diverge("C04", "thrift.Unmarshal(Marshal(v))(embedded structs)["+pn+"]", "nil error", fmt.Sprintf("%v %s bytes=%x", err, pan, b), "", k)
				continue
			}
			w, _ := stdjson.Marshal(v)
			g, _ := stdjson.Marshal(out.Elem().Interface())
			if string(w) != string(g) {
				c.Diverge("C04", "thrift.Unmarshal(Marshal(v))(embedded structs)["+pn+"]", string(w), string(g)+fmt.Sprintf(" bytes=%x", b), "", k)
			}
		}
	}
}

// c04EmbeddedLayout: the layouts and values of ThriftWire once more with the first k fields moved into an embedded
// struct (by value, and behind an embedded pointer): the package flattens embedded structs, so the bytes are those of
// the flat struct - required fields of an embedded struct that holds nothing included - and decoding the bytes into
// the embedding type gives the same fields back
var c04EmbTypes sync.Map

func c04EmbType(flat reflect.Type, k int, ptr bool) reflect.Type {
	type key struct {
		t   reflect.Type
		k   int
		ptr bool
	}
	if t, ok := c04EmbTypes.Load(key{flat, k, ptr}); ok {
		return t.(reflect.Type)
	}
	var in, out []reflect.StructField
	for i := 0; i < flat.NumField(); i++ {
		if i < k {
			in = append(in, flat.Field(i))
		} else {
			f := flat.Field(i)
			f.Offset, f.Index = 0, nil
			out = append(out, f)
		}
	}
	for i := range in {
		in[i].Offset, in[i].Index = 0, nil
	}
	it := reflect.StructOf(in)
	et := it
	if ptr {
		et = reflect.PointerTo(it)
	}
	t := reflect.StructOf(append([]reflect.StructField{{Name: "Emb", Type: et, Anonymous: true}}, out...))
	c04EmbTypes.Store(key{flat, k, ptr}, t)
	return t
}

func c04ToEmb(flat reflect.Value, et reflect.Type, k int) reflect.Value {
	ev := reflect.New(et).Elem()
	inner := ev.Field(0)
	if inner.Kind() == reflect.Pointer {
		inner.Set(reflect.New(inner.Type().Elem()))
		inner = inner.Elem()
	}
	for i := 0; i < flat.NumField(); i++ {
		if i < k {
			inner.Field(i).Set(flat.Field(i))
		} else {
			ev.Field(1 + i - k).Set(flat.Field(i))
		}
	}
	return ev
}

func c04FromEmb(ev reflect.Value, ft reflect.Type, k int) reflect.Value {
	flat := reflect.New(ft).Elem()
	inner := ev.Field(0)
	if inner.Kind() == reflect.Pointer {
		if inner.IsNil() {
			inner = reflect.New(inner.Type().Elem()).Elem()
		} else {
			inner = inner.Elem()
		}
	}
	for i := 0; i < ft.NumField(); i++ {
		if i < k {
			flat.Field(i).Set(inner.Field(i))
		} else {
			flat.Field(i).Set(ev.Field(1 + i - k))
		}
	}
	return flat
}

func c04EmbeddedLayout(c *Ctx, layout []tField, vals []tVal, salt int) {
	for _, f := range layout {
		if f.Ty == "UNION" {
			return // (the member of a union points at a sibling field: not a value that can be moved)
		}
	}
	l := tlift{salt}
	flat := l.structValue(layout, vals)
	want := tTreeGo(layout, flat)
	k := thriftCase{Layout: layout, Vals: vals, Salt: salt, What: "embedded layout"}
	for n := 1; n <= len(layout); n++ {
		for _, ptr := range []bool{false, true} {
			et := c04EmbType(flat.Type(), n, ptr)
			ev := c04ToEmb(flat, et, n)
			how := fmt.Sprintf("first %d of %d field(s) in a struct embedded by value", n, len(layout))
			if ptr {
				how = fmt.Sprintf("first %d of %d field(s) behind an embedded pointer", n, len(layout))
			}
			for _, pn := range protoNames {
				p := protoOf(pn)
				k.Proto = pn
				var b1, b2 []byte
				var e1, e2 error
				c.Case()
				c.Eval(2)
				if pan := protect(func() { b1, e1 = thrift.Marshal(p, flat.Interface()); b2, e2 = thrift.Marshal(p, ev.Interface()) }); pan != "" || (e1 == nil) != (e2 == nil) {
					c.Diverge("C04", "thrift.Marshal(the layout with "+how+")["+pn+"]", fmt.Sprintf("as the flat struct: err=%v", e1), fmt.Sprintf("err=%v %s", e2, pan), "", k)
					return
				}
				if e1 != nil {
					continue
				}
				if !hasTwoEntryMap(vals) && !bytes.Equal(b1, b2) {
					c.Diverge("C04", "thrift.Marshal(the layout with "+how+")["+pn+"]", hex.EncodeToString(b1), hex.EncodeToString(b2), "", k)
					return
				}
				for bi, b := range [][]byte{b2, b1} {
					back := reflect.New(et)
					var err error
					if pan := protect(func() { err = thrift.Unmarshal(p, b, back.Interface()) }); pan != "" || err != nil {
						c.Diverge("C04", "thrift.Unmarshal(Marshal(v))(the layout with "+how+")["+pn+"]", "nil error", fmt.Sprintf("%v %s bytes=%x (source %d)", err, pan, b, bi), "", k)
						return
					}
					if got := tTreeGo(layout, c04FromEmb(back.Elem(), flat.Type(), n)); got != want {
						c.Diverge("C04", "thrift.Unmarshal(Marshal(v))(the layout with "+how+")["+pn+"]", want, got+fmt.Sprintf(" bytes=%x", b), "", k)
						return
					}
				}
			}
		}
	}
}

func c04Vector(c *Ctx, raw stdjson.RawMessage) {
	v, ok := parseThriftVec(c, "C04", raw)
	if !ok {
		return
	}
	c.Nontrivial()
	r := newRng(c.Seed, string(raw))
	for _, salt := range []int{0, 1 + r.intn(tMaxTable-1)} {
		c.Case()
		c04Run(c, thriftCase{Layout: v.Layout, Vals: v.Vals, Salt: salt, Hist: c04Histories[r.intn(len(c04Histories))]})
	}
	// the same layout and values with fields moved into embedded structs
	c04EmbeddedLayout(c, v.Layout, v.Vals, r.intn(tMaxTable))
	// another conformant encoding of the same content: the entries of every map in the opposite order
	if hasTwoEntryMap(v.Vals) && len(v.BinRevAsIs) > 0 {
		for _, salt := range []int{0, 1 + r.intn(tMaxTable-1)} {
			l := tlift{salt}
			want := tTreeGo(v.Layout, l.structValue(v.Layout, v.Vals))
			for _, pn := range protoNames {
				items, fwd := v.BinRevAsIs, v.BinAsIs
				if pn == "compact" {
					items, fwd = v.CompRevAsIs, v.CompAsIs
				}
				rev := l.expand(items)
				if bytes.Equal(rev, l.expand(fwd)) {
					continue // the two entries are equal
				}
				c.Case()
				c04Reversed(c, thriftCase{Layout: v.Layout, Vals: v.Vals, Salt: salt, Proto: pn, What: "map entries reversed", Bytes: hex.EncodeToString(rev), Want: want})
			}
		}
	}
	// lifting: byte sequences above the readers' 4096-byte threshold, several in one value, later ones shorter
	if hasBinary(v.Layout) {
		c.Case()
		c04Run(c, thriftCase{Layout: v.Layout, Vals: v.Vals, Salt: tBigSalt + r.intn(26), Hist: c04Histories[r.intn(len(c04Histories))]})
	}
	// lifting: lists of 14 / 15 / 16 elements (compact short form boundary) and a few hundred
	for _, n := range []int{14, 15, 16, 300 + r.intn(50)} {
		vals, did := tStretch(v.Layout, v.Vals, n)
		if did {
			c.Case()
			c04Run(c, thriftCase{Layout: v.Layout, Vals: vals, Salt: 1})
		}
	}
	c.Sample(map[string]any{"layout": v.Layout, "vals": v.Vals})
}

func hasBinary(layout []tField) bool {
	for _, f := range layout {
		if f.Ty == "BINARY" || f.E == "BINARY" || f.K == "BINARY" {
			return true
		}
	}
	return false
}

func tStretch(layout []tField, vals []tVal, n int) ([]tVal, bool) {
	out := append([]tVal(nil), vals...)
	did := false
	for i, f := range layout {
		if f.Ty == "LIST" && vals[i].Ty == "LIST" && len(vals[i].Xs) > 0 {
			xs := append([]tX(nil), vals[i].Xs...)
			for len(xs) < n {
				xs = append(xs, xs[len(xs)-1])
			}
			nv := vals[i]
			nv.Xs = xs
			out[i] = nv
			did = true
		}
	}
	return out, did
}

// sameEncoding: equal bytes, or - when the value holds a multi-entry map - the same bytes in another order
func sameEncoding(a, b []byte, permuted bool) bool {
	if bytes.Equal(a, b) {
		return true
	}
	return permuted && sortedBytes(a) == sortedBytes(b)
}

// c04Reversed: the specification's encoding of the same content with the entries of every map in the opposite order
// (ThriftWire.Rev) decodes to the same value
func c04Reversed(c *Ctx, k thriftCase) {
	b, _ := hex.DecodeString(k.Bytes)
	p := protoOf(k.Proto)
	out := reflect.New(tStructType(k.Layout))
	var err error
	c.Eval(1)
	if pa := protect(func() { err = thrift.Unmarshal(p, b, out.Interface()) }); pa != "" || err != nil {
		c.Diverge("C04", "thrift.Unmarshal(map entries in the opposite order)["+k.Proto+"]", k.Want, fmt.Sprintf("%s err=%v bytes=%x", pa, err, b), "", k)
		return
	}
	if got := tTreeGo(k.Layout, out.Elem()); got != k.Want {
		c.Diverge("C04", "thrift.Unmarshal(map entries in the opposite order)["+k.Proto+"]", k.Want, got+fmt.Sprintf(" bytes=%x", b), "", k)
	}
}

func c04Replay(c *Ctx, raw stdjson.RawMessage) {
	var k thriftCase
	if stdjson.Unmarshal(raw, &k) == nil {
		if k.What == "map entries reversed" {
			c04Reversed(c, k)
			return
		}
		if k.What == "embedded layout" {
			c04EmbeddedLayout(c, k.Layout, k.Vals, k.Salt)
			return
		}
		if strings.HasPrefix(k.What, "embedded structs") || strings.HasPrefix(k.What, "recursive types") || strings.HasPrefix(k.What, "long lists") || strings.HasPrefix(k.What, "known: ") {
			c04Embedded(c)
			return
		}
		c04Run(c, k)
	}
}

// ---------------------------------------------------------------- C08

func isUnexpectedEOF(err error) bool {
	return errors.Is(err, io.ErrUnexpectedEOF)
}

// extraFields are the unknown fields sprinkled around the target's own fields: every thrift type,
// nested containers, ids below, between and far above the target's
var c08Extra = []tField{
	{ID: 3, Ty: "BOOL"}, {ID: 4, Ty: "I8"}, {ID: 6, Ty: "I16"}, {ID: 7, Ty: "I32"}, {ID: 8, Ty: "I64"},
	{ID: 9, Ty: "DOUBLE"}, {ID: 10, Ty: "BINARY"}, {ID: 11, Ty: "STRUCT"}, {ID: 12, Ty: "LIST", E: "STRUCT"},
	{ID: 13, Ty: "SET", E: "I32"}, {ID: 14, Ty: "MAP", K: "BINARY", E: "STRUCT"}, {ID: 18, Ty: "LIST", E: "BINARY"},
	{ID: 71, Ty: "I32"}, {ID: 200, Ty: "BOOL"}, {ID: 301, Ty: "MAP", K: "I32", E: "I64"}, {ID: 32000, Ty: "BINARY"},
}

var sub1Full = tVal{Ty: "STRUCT", Xs: []tX{{ID: 1, Val: &tVal{Ty: "I64", V: 2}}, {ID: 2, Val: &tVal{Ty: "BOOL", V: 1}}}}

func c08ExtraVal(f tField) tVal {
	el := func(ty string) tX {
		if ty == "STRUCT" || ty == "STRUCTP" {
			return tX{tVal: sub1Full}
		}
		return tX{tVal: tVal{Ty: ty, V: 1}}
	}
	switch f.Ty {
	case "STRUCT":
		return sub1Full
	case "LIST", "SET":
		return tVal{Ty: f.Ty, E: f.E, Xs: []tX{el(f.E), el(f.E)}}
	case "MAP":
		return tVal{Ty: "MAP", K: f.K, E: f.E, Xs: []tX{el(f.K), el(f.E)}}
	}
	return tVal{Ty: f.Ty, V: 1}
}

func c08Run(c *Ctx, k thriftCase) {
	l := tlift{k.Salt}
	p := protoOf(k.Proto)
	t := tStructType(k.Layout)
	fail := func(api, w, g string) { c.Diverge("C08", api+"["+k.Proto+"]", w, g, "", k) }
	strictHistory := 0
	decode := func(b []byte, strict bool) (tree string, err error, pan string) {
		out := reflect.New(t)
		pan = protect(func() {
			if strict {
				// strict mode is a property of the Decoder: it holds for a new one and, set once, across Reset
				// (onto a reader of either protocol) and across earlier Decode calls
				var d *thrift.Decoder
				switch strictHistory {
				case 0:
					d = thrift.NewDecoder(p.NewReader(bytes.NewReader(b)))
					d.SetStrict(true)
				case 1:
					other := thrift.Protocol(&thrift.CompactProtocol{})
					if k.Proto == "compact" {
						other = &thrift.BinaryProtocol{}
					}
					d = thrift.NewDecoder(other.NewReader(bytes.NewReader(nil)))
					d.SetStrict(true)
					d.Reset(p.NewReader(bytes.NewReader(b)))
				case 2:
					d = thrift.NewDecoder(p.NewReader(bytes.NewReader([]byte{0})))
					d.SetStrict(true)
					var e struct{}
					d.Decode(&e)
					d.Reset(p.NewReader(bytes.NewReader(b)))
				default:
					d = thrift.NewDecoder(p.NewReader(bytes.NewReader(nil)))
					d.Reset(p.NewReader(bytes.NewReader(b)))
					d.SetStrict(false)
					d.SetStrict(true)
				}
				err = d.Decode(out.Interface())
			} else {
				err = thrift.Unmarshal(p, b, out.Interface())
			}
		})
		if pan == "" && err == nil {
			tree = tTreeGo(k.Layout, out.Elem())
		}
		return
	}
	switch k.What {
	case "unknown-fields":
		// the same content written by a struct that declares extra fields of every type
		used := map[int]bool{}
		for _, f := range k.Layout {
			used[f.ID] = true
		}
		layout := append([]tField(nil), k.Layout...)
		vals := append([]tVal(nil), k.Vals...)
		for _, f := range c08Extra {
			if !used[f.ID] {
				layout = append(layout, f)
				vals = append(vals, c08ExtraVal(f))
			}
		}
		want := tTreeGo(k.Layout, l.structValue(k.Layout, k.Vals))
		// (a union is written like any struct that has one field set: the writer of the superset is a plain struct,
		// so that the unknown fields really are on the wire, before and behind the member)
		var wl []tField
		var wv []tVal
		for i, f := range layout {
			if f.Ty != "UNION" {
				wl, wv = append(wl, f), append(wv, vals[i])
			}
		}
		b, err := thrift.Marshal(p, l.structValue(wl, wv).Interface())
		if err != nil {
			return
		}
		c.Eval(1)
		got, derr, pan := decode(b, false)
		if pan != "" || derr != nil || got != want {
			fail("thrift.Unmarshal(with unknown fields)", want, fmt.Sprintf("%s err=%v %s bytes=%x", got, derr, pan, b))
		}
		// ... and cut short anywhere (also right behind a complete unknown field): an unexpected-EOF class error
		for i := 1; i < len(b); i++ {
			if len(b) > 600 && i > 40 && i < len(b)-40 && i%37 != 0 {
				continue
			}
			c.Eval(1)
			_, perr, ppan := decode(b[:i], false)
			if ppan != "" || perr == nil || !isUnexpectedEOF(perr) {
				fail("thrift.Unmarshal(with unknown fields, cut short)", "unexpected-EOF class error", fmt.Sprintf("err=%v %s prefix %d of %x", perr, ppan, i, b))
				break
			}
		}
	case "prefixes":
		b, err := thrift.Marshal(p, l.structValue(k.Layout, k.Vals).Interface())
		if err != nil {
			return
		}
		for i := 0; i < len(b); i++ {
			if len(b) > 2000 && i > 40 && i < len(b)-40 && i%257 != 0 && (i+2)%4096 > 4 {
				continue // long encodings: the ends, every 257th offset and the offsets around the multiples of 4096
			}
			c.Eval(1)
			_, derr, pan := decode(b[:i], false)
			if pan != "" {
				fail(fmt.Sprintf("thrift.Unmarshal(prefix %d of %d)", i, len(b)), "an error, no panic", pan+fmt.Sprintf(" bytes=%x", b[:i]))
				return
			}
			if derr == nil {
				fail(fmt.Sprintf("thrift.Unmarshal(prefix %d of %d)", i, len(b)), "unexpected-EOF class error", fmt.Sprintf("nil error bytes=%x", b[:i]))
				return
			}
			if i == 0 && derr != io.EOF && !isUnexpectedEOF(derr) {
				fail("thrift.Unmarshal(empty input)", "io.EOF", derr.Error())
			}
			if i > 0 && !isUnexpectedEOF(derr) {
				fail(fmt.Sprintf("thrift.Unmarshal(prefix %d of %d)", i, len(b)), "unexpected-EOF class error", fmt.Sprintf("%v bytes=%x", derr, b[:i]))
				return
			}
		}
		for _, i := range []int{0, 1, len(b) / 2, len(b) - 1} {
			if i >= 0 && i <= len(b) {
				c08Readers(c, k, p, b[:i], fail)
			}
		}
		// trailing bytes are reported
		c.Eval(1)
		if _, derr, pan := decode(append(append([]byte(nil), b...), 0), false); pan != "" || derr == nil {
			fail("thrift.Unmarshal(trailing byte)", "an error", fmt.Sprintf("err=%v %s", derr, pan))
		}
	case "bytes":
		b, _ := hex.DecodeString(k.Bytes)
		c.Eval(1)
		var alloc uint64
		var derr error
		var pan string
		meterMu.Lock()
		alloc = allocDuring(func() { _, derr, pan = decode(b, false) })
		meterMu.Unlock()
		if pan != "" {
			fail("thrift.Unmarshal(mutated)", "error or value, no panic", pan+fmt.Sprintf(" bytes=%x", b))
		} else if bound := uint64(1024*len(b) + 1<<20); alloc > bound {
			fail("thrift.Unmarshal(mutated)", fmt.Sprintf("allocation <= %d for %d bytes", bound, len(b)), fmt.Sprintf("%d err=%v bytes=%x", alloc, derr, b))
		}
		_, _, pan = decode(b, true)
		if pan != "" {
			fail("Decoder.Decode(strict, mutated)", "error or value, no panic", pan+fmt.Sprintf(" bytes=%x", b))
		}
		c08Readers(c, k, p, b, fail)
	case "missing-required":
		// drop each required field from the written content: MissingField
		for i, f := range k.Layout {
			if !f.Req {
				continue
			}
			layout := append(append([]tField(nil), k.Layout[:i]...), k.Layout[i+1:]...)
			vals := append(append([]tVal(nil), k.Vals[:i]...), k.Vals[i+1:]...)
			if len(layout) == 0 {
				layout, vals = []tField{{ID: 31000, Ty: "I8"}}, []tVal{{Ty: "I8", V: 1}}
			}
			b, err := thrift.Marshal(p, l.structValue(layout, vals).Interface())
			if err != nil {
				continue
			}
			c.Eval(1)
			_, derr, pan := decode(b, false)
			var mf *thrift.MissingField
			if pan != "" || !errors.As(derr, &mf) {
				fail("thrift.Unmarshal(required field absent)", "MissingField", fmt.Sprintf("err=%v %s", derr, pan))
			}
		}
	case "type-mismatch":
		// write field i with another type: strict decoding reports TypeMismatch
		for i, f := range k.Layout {
			if f.Ty == "UNION" {
				continue
			}
			other := tField{ID: f.ID, Ty: "I16"}
			if f.Ty == "I16" || f.Ty == "ENUM" {
				other.Ty = "BINARY" // (an enum field of 16-bit width expects I16 in the header as the code is: F-C13-5)
			}
			layout := append([]tField(nil), k.Layout...)
			vals := append([]tVal(nil), k.Vals...)
			layout[i], vals[i] = other, tVal{Ty: other.Ty, V: 1}
			b, err := thrift.Marshal(p, l.structValue(layout, vals).Interface())
			if err != nil {
				continue
			}
			for strictHistory = 0; strictHistory < 4; strictHistory++ {
				c.Eval(1)
				_, derr, pan := decode(b, true)
				var tm *thrift.TypeMismatch
				if pan != "" || !errors.As(derr, &tm) {
					fail("Decoder.Decode(strict, wrong wire type)", "TypeMismatch", fmt.Sprintf("err=%v %s [%s]", derr, pan,
						[]string{"new Decoder, SetStrict", "SetStrict, then Reset onto this input", "SetStrict, a Decode, then Reset", "Reset, SetStrict off and on"}[strictHistory]))
					break
				}
			}
			strictHistory = 0
		}
		// the same inside nested values: every struct nested in field i (directly, behind a pointer, as list /
		// set element, as map key or value) is written with its field 1 as i16 instead of i64
		for i := range k.Layout {
			src := l.structValue(k.Layout, k.Vals)
			wt, changed := altType(src.Type())
			if !changed {
				break
			}
			n := 0
			dst := reflect.New(wt).Elem()
			for j := 0; j < src.NumField(); j++ {
				if j == i {
					convertAlt(dst.Field(j), src.Field(j), &n)
				} else if ft, ch := altType(src.Field(j).Type()); !ch {
					dst.Field(j).Set(src.Field(j))
					_ = ft
				}
			}
			if n == 0 {
				continue // no struct was written inside field i
			}
			b, err := thrift.Marshal(p, dst.Interface())
			if err != nil {
				continue
			}
			c.Eval(1)
			_, derr, pan := decode(b, true)
			var tm *thrift.TypeMismatch
			if pan != "" || !errors.As(derr, &tm) {
				fail("Decoder.Decode(strict, wrong wire type inside a nested struct)", "TypeMismatch", fmt.Sprintf("err=%v %s field=%d bytes=%x", derr, pan, k.Layout[i].ID, b))
			}
		}
	}
}

// c08Readers: every method of the protocol's Reader on the bytes, each on a reader of its own, and a walk that
// keeps calling methods until the first error: no panic, and what is allocated stays within a constant factor of
// the bytes that are really there (lengths and counts are read from the input)
func c08Readers(c *Ctx, k thriftCase, p thrift.Protocol, b []byte, fail func(api, w, g string)) {
	calls := []struct {
		name string
		f    func(r thrift.Reader) error
	}{
		{"ReadBool", func(r thrift.Reader) error { _, e := r.ReadBool(); return e }},
		{"ReadInt8", func(r thrift.Reader) error { _, e := r.ReadInt8(); return e }},
		{"ReadInt16", func(r thrift.Reader) error { _, e := r.ReadInt16(); return e }},
		{"ReadInt32", func(r thrift.Reader) error { _, e := r.ReadInt32(); return e }},
		{"ReadInt64", func(r thrift.Reader) error { _, e := r.ReadInt64(); return e }},
		{"ReadFloat64", func(r thrift.Reader) error { _, e := r.ReadFloat64(); return e }},
		{"ReadBytes", func(r thrift.Reader) error { _, e := r.ReadBytes(); return e }},
		{"ReadString", func(r thrift.Reader) error { _, e := r.ReadString(); return e }},
		{"ReadLength", func(r thrift.Reader) error { _, e := r.ReadLength(); return e }},
		{"ReadMessage", func(r thrift.Reader) error { _, e := r.ReadMessage(); return e }},
		{"ReadField", func(r thrift.Reader) error { _, e := r.ReadField(); return e }},
		{"ReadList", func(r thrift.Reader) error { _, e := r.ReadList(); return e }},
		{"ReadSet", func(r thrift.Reader) error { _, e := r.ReadSet(); return e }},
		{"ReadMap", func(r thrift.Reader) error { _, e := r.ReadMap(); return e }},
	}
	bound := uint64(14*1024*len(b) + 1<<20)
	c.Eval(len(calls))
	var pan, where string
	run := func() {
		for i, call := range calls {
			where = call.name
			pan = protect(func() {
				call.f(p.NewReader(bytes.NewReader(b)))
				// a walk: this method, then the others in turn, until the first error
				r := p.NewReader(bytes.NewReader(b))
				for j := 0; j < 64; j++ {
					if calls[(i+j*5)%len(calls)].f(r) != nil {
						break
					}
				}
			})
			if pan != "" {
				return
			}
		}
	}
	var alloc uint64
	if newRng(c.Seed, string(b)).intn(8) == 0 { // metering stops the world: one input in eight
		meterMu.Lock()
		alloc = allocDuring(run)
		meterMu.Unlock()
	} else {
		meterMu.RLock()
		run()
		meterMu.RUnlock()
	}
	if pan != "" {
		fail("Reader."+where, "an error or a value, no panic", pan+fmt.Sprintf(" bytes=%x", b))
		return
	}
	if alloc > bound {
		fail("Reader methods", fmt.Sprintf("allocation <= %d for %d bytes", bound, len(b)), fmt.Sprintf("%d bytes=%x", alloc, b))
	}
}

var c08LongOnce sync.Map

// c08LongValue: ReadBytes / ReadString / Unmarshal into a top-level string, []byte and []string on a value longer
// than 4096 bytes whose payload is cut short (and on a huge declared length with a few bytes behind it)
func c08LongValue(c *Ctx, pn string) {
	if _, done := c08LongOnce.LoadOrStore(pn, true); done {
		return
	}
	p := protoOf(pn)
	for _, n := range []int{4096, 4097, 5000, 70000} {
		payload := []byte(strings.Repeat("L", n))
		full, err := thrift.Marshal(p, payload)
		if err != nil {
			continue
		}
		list, _ := thrift.Marshal(p, []string{"a", string(payload)})
		for _, cut := range []int{1, 2, 100, 4095, 4096, 4097, n / 2, n - 1} {
			if cut >= n {
				continue
			}
			in := full[:len(full)-cut]
			k := thriftCase{Proto: pn, What: fmt.Sprintf("long value of %d bytes, %d missing", n, cut)}
			check := func(api string, err error, pan string) {
				c.Eval(1)
				if pan != "" {
					c.Diverge("C08", api+"["+pn+"]", "an error, no panic", pan, "", k)
				} else if err == nil {
					c.Diverge("C08", api+"["+pn+"]", "unexpected-EOF class error (the value is cut short)", "nil error", "", k)
				}
			}
			var e error
			pan := protect(func() { _, e = p.NewReader(bytes.NewReader(in)).ReadBytes() })
			check("Reader.ReadBytes", e, pan)
			pan = protect(func() { _, e = p.NewReader(bytes.NewReader(in)).ReadString() })
			check("Reader.ReadString", e, pan)
			var s string
			pan = protect(func() { e = thrift.Unmarshal(p, in, &s) })
			check("thrift.Unmarshal(*string)", e, pan)
			var bs []byte
			pan = protect(func() { e = thrift.Unmarshal(p, in, &bs) })
			check("thrift.Unmarshal(*[]byte)", e, pan)
			var ss []string
			pan = protect(func() { e = thrift.Unmarshal(p, list[:len(list)-cut], &ss) })
			check("thrift.Unmarshal(*[]string)", e, pan)
		}
	}
}

// ---------------------------------------------------------------- announced sizes (spec/WireAlloc.tla)

// allocVec: a list / map / byte string whose header announces n units while r are present (model sizes)
type allocVec struct {
	Kind  string `json:"kind"`
	N     int    `json:"n"`
	R     int    `json:"r"`
	Pre   int    `json:"pre"`
	Small int    `json:"small"`
}

// liftSize maps a model size onto the real constant `real` that the model constant `base` stands for: multiples
// of base become multiples of real, sizes just below / above a multiple stay just below / above it
func liftSize(x, base, real int) int {
	q, rem := x/base, x%base
	if rem <= base/2 {
		return q*real + rem
	}
	return (q+1)*real - (base - rem)
}

// liftAnnounced: as liftSize up to four times the constant, then doubling up to 2^31-1
func liftAnnounced(x, base, real int) (int, bool) {
	if x <= 4*base {
		return liftSize(x, base, real), true
	}
	sh := x - 4*base
	if sh > 21 {
		return 0, false
	}
	v := (4 * real) << sh
	if v >= 1<<31 || v <= 0 {
		v = 1<<31 - 1
	}
	return v, true
}

func uvarintBytes(n uint64) []byte {
	var b []byte
	for n >= 0x80 {
		b = append(b, byte(n)|0x80)
		n >>= 7
	}
	return append(b, byte(n))
}

func be32Bytes(n uint32) []byte { return []byte{byte(n >> 24), byte(n >> 16), byte(n >> 8), byte(n)} }

// c08Alloc replays one (kind, n, r) of the model on both protocols: the header announces n, r units follow, and the
// decode must fail with an unexpected-EOF class error having allocated no more than a constant factor of the input.
// C08 runs its vectors one at a time, so the process-wide allocation meter is quiet.
func c08Alloc(c *Ctx, v *allocVec) {
	base, real := v.Pre, 1024
	if v.Kind == "bytes" {
		base, real = v.Small, 4096
	}
	n, ok := liftAnnounced(v.N, base, real)
	r := liftSize(v.R, base, real)
	if !ok || r >= n {
		return
	}
	c.Nontrivial()
	type target struct {
		name string
		one  any // a container of one unit, encoded by the package: supplies the type codes and the unit's bytes
		dst  func() any
	}
	var targets []target
	switch v.Kind {
	case "list":
		targets = []target{
			{"[]int8", []int8{7}, func() any { return new([]int8) }},
			{"[]int64", []int64{1}, func() any { return new([]int64) }},
			{"[]bool", []bool{true}, func() any { return new([]bool) }},
			{"[]string", []string{"x"}, func() any { return new([]string) }},
			{"set of int8", map[int8]struct{}{7: {}}, func() any { return new(map[int8]struct{}) }},
		}
	case "map":
		targets = []target{
			{"map[int8]int8", map[int8]int8{1: 2}, func() any { return new(map[int8]int8) }},
			{"map[int64]string", map[int64]string{1: "x"}, func() any { return new(map[int64]string) }},
		}
	default:
		targets = []target{
			{"string", "x", func() any { return new(string) }},
			{"[]byte", []byte("x"), func() any { return new([]byte) }},
		}
	}
	for _, pn := range []string{"binary", "compact"} {
		p := protoOf(pn)
		for ti, tg := range targets {
			enc1, err := thrift.Marshal(p, tg.one)
			if err != nil || len(enc1) < 2 {
				c.SpecError("C08", "cannot encode a container of one unit: "+tg.name, v)
				return
			}
			var in, unit []byte
			switch {
			case v.Kind == "list" && pn == "binary":
				in, unit = append([]byte{enc1[0]}, be32Bytes(uint32(n))...), enc1[5:]
			case v.Kind == "list":
				in, unit = append([]byte{0xf0 | enc1[0]&0x0f}, uvarintBytes(uint64(n))...), enc1[1:]
			case v.Kind == "map" && pn == "binary":
				in, unit = append([]byte{enc1[0], enc1[1]}, be32Bytes(uint32(n))...), enc1[6:]
			case v.Kind == "map":
				in, unit = append(uvarintBytes(uint64(n)), enc1[1]), enc1[2:]
			case pn == "binary":
				in, unit = be32Bytes(uint32(n)), []byte{'x'}
			default:
				in, unit = uvarintBytes(uint64(n)), []byte{'x'}
			}
			for i := 0; i < r; i++ {
				in = append(in, unit...)
			}
			k := thriftCase{Proto: pn, What: fmt.Sprintf("announced size %d, %d present (%s)", n, r, tg.name), Alloc: v, Salt: ti}
			var derr error
			var pan string
			dst := tg.dst()
			c.Eval(1)
			c.Case()
			alloc := allocDuring(func() { pan = protect(func() { derr = thrift.Unmarshal(p, in, dst) }) })
			bound := uint64(64*len(in) + 128<<10)
			if alloc > bound && pan == "" {
				// the meter is process-wide (a first use compiles the decoder, the runtime allocates too): what counts is
				// what the same call allocates when it is repeated
				for rep := 0; rep < 2 && alloc > bound; rep++ {
					runtime.GC()
					dst = tg.dst()
					alloc = min(alloc, allocDuring(func() { pan = protect(func() { derr = thrift.Unmarshal(p, in, dst) }) }))
				}
			}
			api := "thrift.Unmarshal(" + v.Kind + " announcing more than the input holds)[" + pn + "]"
			switch {
			case pan != "":
				c.Diverge("C08", api, "an error, no panic", pan, "", k)
			case derr == nil:
				c.Diverge("C08", api, "unexpected-EOF class error", "nil error", "", k)
			case !isUnexpectedEOF(derr):
				c.Diverge("C08", api, "unexpected-EOF class error", derr.Error(), "", k)
			case alloc > bound:
				c.Diverge("C08", api, fmt.Sprintf("allocation within a constant factor of the %d bytes present (<= %d)", len(in), bound),
					fmt.Sprintf("%d bytes allocated, err=%v", alloc, derr), "", k)
			}
		}
	}
}

var sub1AltLayout = []tField{{ID: 1, Ty: "I16"}, {ID: 2, Ty: "BOOL"}}

// altType: t with every occurrence of the nested struct type replaced by a struct whose field 1 is an i16
func altType(t reflect.Type) (reflect.Type, bool) {
	sub := tStructType(sub1Layout)
	switch {
	case t == sub:
		return tStructType(sub1AltLayout), true
	case t.Kind() == reflect.Pointer:
		e, ch := altType(t.Elem())
		return reflect.PointerTo(e), ch
	case t.Kind() == reflect.Slice:
		e, ch := altType(t.Elem())
		return reflect.SliceOf(e), ch
	case t.Kind() == reflect.Map:
		k, ch1 := altType(t.Key())
		e, ch2 := altType(t.Elem())
		return reflect.MapOf(k, e), ch1 || ch2
	case t.Kind() == reflect.Struct && t.NumField() > 0 && t != reflect.TypeOf(struct{}{}):
		fields := make([]reflect.StructField, t.NumField())
		changed := false
		for i := range fields {
			f := t.Field(i)
			ft, ch := altType(f.Type)
			changed = changed || ch
			fields[i] = reflect.StructField{Name: f.Name, Type: ft, Tag: f.Tag}
		}
		if changed {
			return reflect.StructOf(fields), true
		}
	}
	return t, false
}

// convertAlt copies src into dst (of the altType); nested structs get field 1 = 1 (as i16); n counts them
func convertAlt(dst, src reflect.Value, n *int) {
	if dst.Type() == src.Type() {
		dst.Set(src)
		return
	}
	switch src.Kind() {
	case reflect.Pointer:
		if !src.IsNil() {
			dst.Set(reflect.New(dst.Type().Elem()))
			convertAlt(dst.Elem(), src.Elem(), n)
		}
	case reflect.Slice:
		if !src.IsNil() {
			dst.Set(reflect.MakeSlice(dst.Type(), src.Len(), src.Len()))
			for i := 0; i < src.Len(); i++ {
				convertAlt(dst.Index(i), src.Index(i), n)
			}
		}
	case reflect.Map:
		if !src.IsNil() {
			dst.Set(reflect.MakeMap(dst.Type()))
			it := src.MapRange()
			for it.Next() {
				kv := reflect.New(dst.Type().Key()).Elem()
				ev := reflect.New(dst.Type().Elem()).Elem()
				convertAlt(kv, it.Key(), n)
				convertAlt(ev, it.Value(), n)
				dst.SetMapIndex(kv, ev)
			}
		}
	case reflect.Struct:
		if src.Type() == tStructType(sub1Layout) {
			dst.Field(0).SetInt(1)
			dst.Field(1).Set(src.Field(1))
			*n++
			return
		}
		for i := 0; i < src.NumField(); i++ {
			convertAlt(dst.Field(i), src.Field(i), n)
		}
	}
}

// c08ForeignBools: other writers announce the booleans of a list, set or map with the type code TRUE (1) where this
// package writes BOOL (2); the decoder takes both for a declared field, and both are skipped alike in a field the
// target does not declare - alone, in a struct, in a list of lists
// c08IdZero: a field with id 0 - which no target can declare - among the others, complete and cut short at every
// offset (the readers keep track of the last id they saw)
func c08IdZero(c *Ctx) {
	type tgt struct {
		A int8 `thrift:"1"`
		B int8 `thrift:"2"`
	}
	for _, in := range []struct{ proto, hexs string }{
		{"binary", "030001050300000703000209"}, {"binary", "030000070300010503000209"}, {"binary", "030001050300020903000007"},
		{"compact", "13050300072309"}, {"compact", "03000713051309"}, {"compact", "13051309030007"},
	} {
		// (the end of a struct as the package itself writes it)
		stop, _ := thrift.Marshal(protoOf(in.proto), struct{}{})
		in.hexs += hex.EncodeToString(stop)
		b, _ := hex.DecodeString(in.hexs)
		p := protoOf(in.proto)
		k := thriftCase{Proto: in.proto, What: "field id 0", Bytes: in.hexs}
		var out tgt
		c.Case()
		c.Eval(1)
		if err := thrift.Unmarshal(p, b, &out); err != nil || out.A != 5 || out.B != 9 {
			c.Diverge("C08", "thrift.Unmarshal(unknown field with id 0)["+in.proto+"]", "{A:5 B:9} nil error", fmt.Sprintf("%+v err=%v", out, err), "", k)
			continue
		}
		for i := 0; i < len(b); i++ {
			var o2 tgt
			var err error
			c.Eval(1)
			if pan := protect(func() { err = thrift.Unmarshal(p, b[:i], &o2) }); pan != "" || err == nil || (i == 0) != (err == io.EOF) || (i > 0 && !isUnexpectedEOF(err)) {
				c.Diverge("C08", "thrift.Unmarshal(unknown field with id 0, cut short)["+in.proto+"]", "io.EOF for the empty input, unexpected-EOF class behind it",
					fmt.Sprintf("prefix %d: err=%v %s", i, err, pan), "", k)
				break
			}
		}
	}
}

// c08TopLevelTargets: values of every kind as the whole input of Unmarshal and Decoder.Decode (no struct around them
// to turn an end of input into "unexpected"): every proper prefix of a non-empty encoding gives an unexpected-EOF class
// error - plain io.EOF is for the empty input only - and the whole encoding decodes
func c08TopLevelTargets(c *Ctx) {
	type st struct {
		A int32  `thrift:"1"`
		S string `thrift:"2"`
	}
	values := []any{
		map[int32]struct{}{1: {}, 2: {}, 300: {}}, map[string]struct{}{"a": {}, "bcd": {}}, []int64{1, 2, 3}, []string{"x", "", "yz"},
		map[string]int32{"k": 1, "l": 2}, map[int8][]string{1: {"a"}, 2: {}}, "text", []byte("bytes"), int64(-5), 1.5, true,
		st{7, "s"}, []st{{1, "a"}, {2, ""}}, map[string]st{"k": {3, "c"}}, map[int32]map[string]struct{}{1: {"s": {}}}, [][]int16{{1}, {}, {2, 3}},
	}
	for _, pn := range protoNames {
		p := protoOf(pn)
		for vi, v := range values {
			b, err := thrift.Marshal(p, v)
			if err != nil {
				continue
			}
			t := reflect.TypeOf(v)
			for cut := 0; cut <= len(b); cut++ {
				k := thriftCase{Proto: pn, What: fmt.Sprintf("top-level targets value=%d cut=%d", vi, cut)}
				for _, api := range []string{"thrift.Unmarshal", "Decoder.Decode"} {
					out := reflect.New(t)
					var derr error
					c.Case()
					c.Eval(1)
					if pan := protect(func() {
						if api == "thrift.Unmarshal" {
							derr = thrift.Unmarshal(p, b[:cut], out.Interface())
						} else {
							derr = thrift.NewDecoder(p.NewReader(onlyRead{bytes.NewReader(b[:cut]), 3})).Decode(out.Interface())
						}
					}); pan != "" {
						c.Diverge("C08", api+"(a value of any kind as the whole input, cut short)["+pn+"]", "an error, no panic", pan, "", k)
						continue
					}
					switch {
					case cut == len(b):
						if derr != nil {
							c.Diverge("C08", api+"(a value of any kind as the whole input)["+pn+"]", "nil error", fmt.Sprintf("%v (%T)", derr, v), "", k)
						}
					case cut == 0:
						if derr == nil {
							c.Diverge("C08", api+"(empty input)["+pn+"]", "an error", fmt.Sprintf("nil (%T)", v), "", k)
						}
					case derr == nil || errors.Is(derr, io.EOF) && !isUnexpectedEOF(derr):
						c.Diverge("C08", api+"(a value of any kind as the whole input, cut short)["+pn+"]", "an unexpected-EOF class error",
							fmt.Sprintf("err=%v (%T, first %d of %d bytes)", derr, v, cut, len(b)), "", k)
					}
				}
			}
		}
	}
}

// c08Messages: every proper prefix of a message header is an unexpected end of input for ReadMessage (plain io.EOF
// for the empty input only), and a negative element count is rejected also where the value is only skipped
func c08Messages(c *Ctx) {
	for _, pn := range protoNames {
		p := protoOf(pn)
		for _, m := range []thrift.Message{{Type: thrift.Call, Name: "", SeqID: 1}, {Type: thrift.Reply, Name: "name", SeqID: 300}, {Type: thrift.Exception, Name: strings.Repeat("n", 200), SeqID: 0}} {
			var buf bytes.Buffer
			if err := p.NewWriter(&buf).WriteMessage(m); err != nil {
				continue
			}
			b := buf.Bytes()
			for cut := 0; cut <= len(b); cut++ {
				k := thriftCase{Proto: pn, What: fmt.Sprintf("message headers cut=%d", cut)}
				var err error
				c.Case()
				c.Eval(1)
				if pan := protect(func() { _, err = p.NewReader(bytes.NewReader(b[:cut])).ReadMessage() }); pan != "" {
					c.Diverge("C08", "Reader.ReadMessage(cut short)["+pn+"]", "an error, no panic", pan, "", k)
					continue
				}
				switch {
				case cut == len(b) && err != nil:
					c.Diverge("C08", "Reader.ReadMessage["+pn+"]", "nil error", fmt.Sprint(err), "", k)
				case cut > 0 && cut < len(b) && (err == nil || errors.Is(err, io.EOF) && !isUnexpectedEOF(err)):
					c.Diverge("C08", "Reader.ReadMessage(cut short)["+pn+"]", "an unexpected-EOF class error", fmt.Sprintf("err=%v (first %d of %d bytes)", err, cut, len(b)), "", k)
				}
			}
		}
	}
	// message headers whose name length is negative or far beyond the input: an error, no panic, no huge allocation
	for _, pn := range protoNames {
		p := protoOf(pn)
		var buf bytes.Buffer
		p.NewWriter(&buf).WriteMessage(thrift.Message{Type: thrift.Call, Name: "abcd", SeqID: 1})
		b := buf.Bytes()
		at := bytes.Index(b, []byte("abcd"))
		if at < 0 {
			continue
		}
		for _, ln := range [][]byte{{0xff, 0xff, 0xff, 0xff}, {0x80, 0x00, 0x00, 0x00}, {0x7f, 0xff, 0xff, 0xff}, {0xff, 0xff, 0xff, 0xff, 0x0f}, {0xff, 0xff, 0xff, 0xff, 0xff, 0xff, 0xff, 0xff, 0xff, 0x01}} {
			lenAt := at - 4
			if pn == "compact" {
				lenAt = at - 1
				if len(ln) == 4 {
					continue
				}
			} else if len(ln) != 4 {
				continue
			}
			in := append(append(append([]byte(nil), b[:lenAt]...), ln...), b[at:]...)
			k := thriftCase{Proto: pn, What: fmt.Sprintf("message headers name length %x", ln)}
			var err error
			c.Case()
			c.Eval(1)
			var alloc uint64
			pan := protect(func() { alloc = allocDuring(func() { _, err = p.NewReader(bytes.NewReader(in)).ReadMessage() }) })
			if pan != "" || err == nil || alloc > 1<<22 {
				c.Diverge("C08", "Reader.ReadMessage(name length damaged)["+pn+"]", "an error, no panic, bounded allocation", fmt.Sprintf("err=%v alloc=%d %s", err, alloc, pan), "", k)
			}
		}
	}
	// negative sizes of lists, sets and maps in fields the target does not declare (binary: the size is a signed word)
	p := protoOf("binary")
	stop, _ := thrift.Marshal(p, struct{}{})
	for _, kind := range []string{"list", "set", "map"} {
		for _, size := range []uint32{0xffffffff, 0x80000000, 0xfffffff0} {
			var buf bytes.Buffer
			w := p.NewWriter(&buf)
			switch kind {
			case "list":
				w.WriteField(thrift.Field{ID: 9, Type: thrift.LIST})
				w.WriteList(thrift.List{Type: thrift.I32, Size: 1})
			case "set":
				w.WriteField(thrift.Field{ID: 9, Type: thrift.SET})
				w.WriteSet(thrift.Set{Type: thrift.I32, Size: 1})
			default:
				w.WriteField(thrift.Field{ID: 9, Type: thrift.MAP})
				w.WriteMap(thrift.Map{Key: thrift.I32, Value: thrift.I32, Size: 1})
			}
			b := buf.Bytes()
			binary.BigEndian.PutUint32(b[len(b)-4:], size)
			w.WriteField(thrift.Field{ID: 1, Type: thrift.I32})
			w.WriteInt32(7)
			in := append(append([]byte(nil), buf.Bytes()...), stop...)
			k := thriftCase{Proto: "binary", What: fmt.Sprintf("message headers negative %s size %x", kind, size)}
			var out struct {
				A int32 `thrift:"1"`
			}
			var err error
			c.Case()
			c.Eval(1)
			if pan := protect(func() { err = thrift.Unmarshal(p, in, &out) }); pan != "" || err == nil {
				c.Diverge("C08", "thrift.Unmarshal(negative element count in a field the target does not declare)[binary]", "an error", fmt.Sprintf("err=%v A=%d %s", err, out.A, pan), "", k)
			}
		}
	}
}

// c08ElementTypes: strict mode and the types announced in the headers of lists, sets and maps: a header that announces
// another element, key or value type than the target declares is a wrong wire type, with 0, 1 and 2 elements behind it,
// as a field, inside a nested struct and as the top-level value.  (F-C08-9, repaired: for EMPTY sets and empty
// binary-protocol maps the pinned code returned before it looked at the types; lists were checked also when empty.)
func c08ElementTypes(c *Ctx) {
	type inner struct {
		L []string `thrift:"1"`
	}
	type target struct {
		L  []string            `thrift:"1"`
		S  map[string]struct{} `thrift:"2"`
		M  map[string]int32    `thrift:"3"`
		LS []inner             `thrift:"4"`
		N  inner               `thrift:"5"`
		LL [][]int64           `thrift:"6"`
	}
	for _, pn := range protoNames {
		p := protoOf(pn)
		for n := int32(0); n <= 2; n++ {
			for _, kind := range []string{"list", "list-of-structs", "list-in-struct", "list-in-list", "set", "map-key", "map-value", "top-level list", "top-level set", "top-level map"} {
				var w bytes.Buffer
				wr := p.NewWriter(&w)
				ints := func() {
					for i := int32(0); i < n; i++ {
						wr.WriteInt32(7 + i)
					}
				}
				var tgt any = &target{}
				empty := false // the cases of F-C08-9
				switch kind {
				case "list":
					wr.WriteField(thrift.Field{ID: 1, Type: thrift.LIST})
					wr.WriteList(thrift.List{Size: n, Type: thrift.I32})
					ints()
					wr.WriteField(thrift.Field{Type: thrift.STOP})
				case "list-of-structs":
					wr.WriteField(thrift.Field{ID: 4, Type: thrift.LIST})
					wr.WriteList(thrift.List{Size: n, Type: thrift.I32})
					ints()
					wr.WriteField(thrift.Field{Type: thrift.STOP})
				case "list-in-struct":
					wr.WriteField(thrift.Field{ID: 5, Type: thrift.STRUCT})
					wr.WriteField(thrift.Field{ID: 1, Type: thrift.LIST})
					wr.WriteList(thrift.List{Size: n, Type: thrift.I32})
					ints()
					wr.WriteField(thrift.Field{Type: thrift.STOP})
					wr.WriteField(thrift.Field{Type: thrift.STOP})
				case "list-in-list":
					wr.WriteField(thrift.Field{ID: 6, Type: thrift.LIST})
					wr.WriteList(thrift.List{Size: 1, Type: thrift.LIST})
					wr.WriteList(thrift.List{Size: n, Type: thrift.I32})
					ints()
					wr.WriteField(thrift.Field{Type: thrift.STOP})
				case "set":
					wr.WriteField(thrift.Field{ID: 2, Type: thrift.SET})
					wr.WriteSet(thrift.Set{Size: n, Type: thrift.I32})
					ints()
					wr.WriteField(thrift.Field{Type: thrift.STOP})
					empty = n == 0
				case "map-key":
					wr.WriteField(thrift.Field{ID: 3, Type: thrift.MAP})
					wr.WriteMap(thrift.Map{Size: n, Key: thrift.I32, Value: thrift.I32})
					ints()
					ints()
					wr.WriteField(thrift.Field{Type: thrift.STOP})
					empty = n == 0
				case "map-value":
					wr.WriteField(thrift.Field{ID: 3, Type: thrift.MAP})
					wr.WriteMap(thrift.Map{Size: n, Key: thrift.BINARY, Value: thrift.I64})
					for i := int32(0); i < n; i++ {
						wr.WriteString("k" + strconv.Itoa(int(i)))
						wr.WriteInt64(7)
					}
					wr.WriteField(thrift.Field{Type: thrift.STOP})
					empty = n == 0
				case "top-level list":
					wr.WriteList(thrift.List{Size: n, Type: thrift.I32})
					ints()
					tgt = &[]string{}
				case "top-level set":
					wr.WriteSet(thrift.Set{Size: n, Type: thrift.I32})
					ints()
					tgt = &map[string]struct{}{}
					empty = n == 0
				case "top-level map":
					wr.WriteMap(thrift.Map{Size: n, Key: thrift.I32, Value: thrift.I32})
					ints()
					ints()
					tgt = &map[string]int32{}
					empty = n == 0
				}
				if n == 0 && pn == "compact" && strings.Contains(kind, "map") {
					continue // the compact protocol's empty map is one byte: no types are announced
				}
				k := thriftCase{Proto: pn, What: fmt.Sprintf("element types: %s, %d element(s)", kind, n)}
				var derr error
				c.Case()
				c.Eval(1)
				pan := protect(func() {
					d := thrift.NewDecoder(p.NewReader(bytes.NewReader(w.Bytes())))
					d.SetStrict(true)
					derr = d.Decode(tgt)
				})
				var tm *thrift.TypeMismatch
				if pan != "" || !errors.As(derr, &tm) {
					finding := ""
					if empty && pan == "" && derr == nil {
						finding = "F-C08-9"
					}
					c.Diverge("C08", "Decoder.Decode(strict, header of a "+kind+" announces another type)["+pn+"]", "TypeMismatch",
						fmt.Sprintf("err=%v %s bytes=%x", derr, pan, w.Bytes()), finding, k)
				}
				// without strict mode: any verdict, no panic
				if pan := protect(func() { thrift.Unmarshal(p, w.Bytes(), tgt) }); pan != "" {
					c.Diverge("C08", "thrift.Unmarshal(header of a "+kind+" announces another type)["+pn+"]", "an error at worst", pan, "", k)
				}
			}
		}
	}
}

func c08ForeignBools(c *Ctx) {
	c08ElementTypes(c)
	c08IdZero(c)
	c08TopLevelTargets(c)
	c08Messages(c)
	type full struct {
		A int32  `thrift:"1"`
		L []bool `thrift:"9"`
		S struct {
			L []bool `thrift:"1"`
		} `thrift:"10"`
		M  map[int32]bool `thrift:"11"`
		LL [][]bool       `thrift:"12"`
		Z  int32          `thrift:"20"`
	}
	type partial struct {
		A int32 `thrift:"1"`
		Z int32 `thrift:"20"`
	}
	in := full{A: 5, L: []bool{true, false, true}, M: map[int32]bool{7: true}, LL: [][]bool{{true}, {false, true}}, Z: 9}
	in.S.L = []bool{false, true}
	for _, pn := range []string{"binary", "compact"} {
		p := protoOf(pn)
		b, err := thrift.Marshal(p, in)
		if err != nil {
			c.SpecError("C08", "cannot encode the superset struct", err.Error())
			return
		}
		// every way of rewriting a BOOL (2) element / value type code into TRUE (1): the headers of bool collections are
		// <02 count32> (binary list), <x2> with x the count (compact list, count < 15), <.. 02 count32> / <..52> (map value)
		var variants [][]byte
		for i := range b {
			v := append([]byte(nil), b...)
			switch {
			case pn == "binary" && b[i] == 2 && i+4 < len(b) && b[i+1] == 0 && b[i+2] == 0 && b[i+3] == 0 && b[i+4] > 0 && b[i+4] < 4:
				v[i] = 1
			case pn == "compact" && b[i]&0x0f == 2 && b[i]>>4 > 0 && b[i]>>4 < 4 && i > 0:
				v[i] = b[i]&0xf0 | 1
			default:
				continue
			}
			variants = append(variants, v)
		}
		for vi, v := range append([][]byte{b}, variants...) {
			k := thriftCase{Proto: pn, What: fmt.Sprintf("foreign bools %d", vi), Bytes: hex.EncodeToString(v)}
			// the rewritten input must still be what it was for a reader that declares the fields (else the rewrite hit
			// something else than a type code: not a case)
			var chk full
			if err := thrift.Unmarshal(p, v, &chk); err != nil || !reflect.DeepEqual(chk, in) {
				continue
			}
			c.Case()
			c.Eval(1)
			var out partial
			var derr error
			if pan := protect(func() { derr = thrift.Unmarshal(p, v, &out) }); pan != "" || derr != nil || out.A != 5 || out.Z != 9 {
				c.Diverge("C08", "thrift.Unmarshal(unknown collections of booleans)["+pn+"]", "{A:5 Z:9} nil error", fmt.Sprintf("%+v err=%v %s bytes=%x", out, derr, pan, v), "", k)
			}
		}
	}
}

func c08Vector(c *Ctx, raw stdjson.RawMessage) {
	var av allocVec
	if stdjson.Unmarshal(raw, &av) == nil && av.Kind != "" && av.Pre > 0 {
		if av.Kind != "append" {
			c08Alloc(c, &av)
		}
		return
	}
	v, ok := parseThriftVec(c, "C08", raw)
	if !ok {
		return
	}
	c.Nontrivial()
	r := newRng(c.Seed, string(raw))
	salt := r.intn(tMaxTable)
	l := tlift{salt}
	for _, pn := range []string{"binary", "compact"} {
		// values above the readers' 4096-byte threshold, cut everywhere that matters; and the Reader methods on a
		// long value cut short (nothing else follows: the error must come from the value itself)
		if hasBinary(v.Layout) && (len(v.Layout) == 1 || r.intn(6) == 0) {
			c.Case()
			c08Run(c, thriftCase{Layout: v.Layout, Vals: v.Vals, Salt: tBigSalt + r.intn(26), Proto: pn, What: "prefixes"})
			c08LongValue(c, pn)
		}
		for _, what := range []string{"unknown-fields", "prefixes", "missing-required", "type-mismatch"} {
			c.Case()
			c08Run(c, thriftCase{Layout: v.Layout, Vals: v.Vals, Salt: salt, Proto: pn, What: what})
		}
		// size / length damage on the package's own encoding
		b, err := thrift.Marshal(protoOf(pn), l.structValue(v.Layout, v.Vals).Interface())
		if err != nil || len(b) == 0 {
			continue
		}
		muts := 6
		if c.Tier == "thorough" {
			muts = 30
		}
		for m := 0; m < muts; m++ {
			mb := append([]byte(nil), b...)
			i := r.intn(len(mb))
			switch r.intn(6) {
			case 0:
				mb[i] = 0xff
			case 1:
				mb[i] = 0x80
			case 2:
				mb[i] = byte(r.intn(256))
			case 3:
				mb = append(mb[:i], append([]byte{0x7f, 0xff, 0xff, 0xff}, mb[i:]...)...) // 2^31-1 as a be32 size
			case 4:
				mb = append(mb[:i], append([]byte{0xff, 0xff, 0xff, 0xff, 0x07}, mb[i:]...)...) // 2^31-1 as a uvarint size
			case 5:
				mb = append(mb[:i], append([]byte{0xff, 0xff, 0xff, 0xff}, mb[i:]...)...) // negative be32 size
			}
			c.Case()
			c08Run(c, thriftCase{Layout: v.Layout, Vals: v.Vals, Salt: salt, Proto: pn, What: "bytes", Bytes: hex.EncodeToString(mb)})
		}
	}
	c.Sample(map[string]any{"layout": v.Layout})
}

func c08Replay(c *Ctx, raw stdjson.RawMessage) {
	var k thriftCase
	if stdjson.Unmarshal(raw, &k) == nil {
		if k.Alloc != nil {
			c08Alloc(c, k.Alloc)
			return
		}
		if strings.HasPrefix(k.What, "foreign bools") || k.What == "field id 0" || strings.HasPrefix(k.What, "top-level targets") || strings.HasPrefix(k.What, "message headers") || strings.HasPrefix(k.What, "element types") {
			c08ForeignBools(c)
			return
		}
		if strings.HasPrefix(k.What, "long value") {
			c08LongOnce.Delete(k.Proto)
			c08LongValue(c, k.Proto)
			return
		}
		c08Run(c, k)
	}
}

func init() {
	register("C13", &Driver{Vector: c13Vector, Replay: c13Replay, Extra: c13Doubles})
	register("C04", &Driver{Vector: c04Vector, Replay: c04Replay, Extra: c04Embedded})
	register("C08", &Driver{Vector: c08Vector, Replay: c08Replay, Extra: c08ForeignBools})
}
