package main

// C17 - json.Tokenizer enumerates exactly the tokens of the document.
//
// Spec -> code: vectors from spec/JsonTokenizer.tla are complete token-level
// documents with the DEFINITION's Depth/Index/IsKey for every scalar and opening
// delimiter. Each is lifted to bytes (scalar variants, whitespace) and the real
// Tokenizer is stepped through it, every public observable compared.
// encoding/json's Decoder.Token stream cross-checks the definition (REF).
//
// Code -> spec: `vh c17trace` records ndjson traces of the real Tokenizer over
// arbitrary byte strings and Reset/reuse histories; TLC validates them against
// spec/TraceJsonTokenizer.tla.

import (
	"bufio"
	"bytes"
	stdjson "encoding/json"
	"flag"
	"fmt"
	"io"
	"math"
	"os"
	"strconv"
	"strings"
	"sync"
	"unsafe"

	"github.com/segmentio/encoding/json"
)

type tokVec struct {
	T []string `json:"t"`
	W []struct {
		Depth int  `json:"depth"`
		Index int  `json:"index"`
		IsKey bool `json:"iskey"`
	} `json:"w"`
}

type c17Case struct {
	Doc  string   `json:"doc"`
	Toks []string `json:"toks"`          // lifted tokens in order
	Cls  []string `json:"cls"`           // token classes
	W    []int    `json:"w"`             // depth,index,iskey triples
	Ops  []string `json:"ops,omitempty"` // trace histories
	// what the tokenizer did before it was Reset to Doc ("" = a new tokenizer)
	Prior string `json:"prior,omitempty"`
	// a second tokenizer is advanced by one token after each token of this one (tokenizers take their stacks from a pool:
	// a stack that went back to the pool twice ends up under two of them)
	Companion bool `json:"companion,omitempty"`
}

const c17CompanionDoc = `[[{"k":[1,2],"l":{"m":[]}}],[3,[4,[5]]],6]`

type c17Tok struct {
	val   string
	depth int
	index int
	isKey bool
}

// the companion's own token stream, taken once from a tokenizer used alone
var (
	c17CompanionOnce sync.Once
	c17CompanionVal  []c17Tok
)

func c17CompanionToks() []c17Tok {
	c17CompanionOnce.Do(func() {
		t := json.NewTokenizer([]byte(c17CompanionDoc))
		for t.Next() {
			c17CompanionVal = append(c17CompanionVal, c17Tok{string(t.Value), t.Depth, t.Index, t.IsKey})
		}
	})
	return c17CompanionVal
}

// "a Reset tokenizer behaves like a new one": the token stream of every document is also read with a
// tokenizer that was used before - to the end of a document, stopped inside one, after an error, on input
// with and without escapes - and then Reset
var c17Priors = []struct {
	name  string
	doc   string
	calls int // Next calls before the Reset (-1: until Next returns false)
}{
	{"", "", 0},
	{"read to its end, no escapes", `{"a":[1,2,3]}`, -1},
	{"stopped inside nested containers", `[[{"k":"v","w":[true`, 9},
	{"after a syntax error", `[1,2}`, -1},
	{"read to its end, escapes and non-ASCII", `["x\"y\n","é",{"\u00e9":null}]`, -1},
	{"stopped after one token of a plain string array", `["abc","def"]`, 2},
}

func c17Tokenizer(prior string, doc []byte) *json.Tokenizer {
	for _, p := range c17Priors {
		if p.name == prior && p.name != "" {
			t := json.NewTokenizer([]byte(p.doc))
			for i := 0; i != p.calls && t.Next(); i++ {
			}
			t.Reset(doc)
			return t
		}
	}
	return json.NewTokenizer(doc)
}

var strVariants = []string{`"a"`, `""`, `"k\n"`, `"é😀"`, "\"é\"", `"a\"b\\"`, `"</x>&"`,
	`"abcdefgh"`, `"abcdefg\t"`, `"0123456789abcdef"`, `"0123456789abcde\/"`, `"long string beyond sixteen bytes A ok"`}
var numVariants = []string{"0", "7", "-1", "12", "-0", "1.5", "1e2", "-2.5E-3", "18446744073709551615", "-9223372036854775808", "0.0", "1E+2",
	"18446744073709551616", "-9223372036854775809", "123456789012345678901234567890", "-123456789012345678901234567890", "9007199254740993", "1e400", "-0.0"}
var litVariants = []string{"true", "false", "null"}
var wsVariants = []string{"", " ", "\n", "\t \r\n", "  "}

func liftTokens(cls []string, r *rng, canonical bool) (doc []byte, toks []string) {
	for i, c := range cls {
		var t string
		switch c {
		case "s":
			t = strVariants[0]
			if !canonical {
				t = strVariants[r.intn(len(strVariants))]
			}
		case "n":
			t = numVariants[1]
			if !canonical {
				t = numVariants[r.intn(len(numVariants))]
			}
		case "l":
			t = litVariants[r.intn(len(litVariants))]
		default:
			t = c
		}
		if !canonical && (i > 0 || r.intn(3) == 0) {
			doc = append(doc, wsVariants[r.intn(len(wsVariants))]...)
		}
		doc = append(doc, t...)
		toks = append(toks, t)
	}
	if !canonical {
		doc = append(doc, wsVariants[r.intn(len(wsVariants))]...)
	}
	return
}

// stdFacts derives Depth/Index/IsKey of scalars and opening delimiters from
// encoding/json's own token stream (the reference the property names).
func stdFacts(doc []byte) (out [][3]int, err error) {
	dec := stdjson.NewDecoder(bytes.NewReader(doc))
	dec.UseNumber()
	type frame struct {
		obj bool
		n   int
	}
	var st []frame
	for {
		tok, e := dec.Token()
		if e == io.EOF {
			return out, nil
		}
		if e != nil {
			return out, e
		}
		fact := func(isStr bool) [3]int {
			d, idx, k := len(st), 0, 0
			if d > 0 {
				f := &st[d-1]
				if f.obj {
					idx = f.n / 2
					if f.n%2 == 0 && isStr {
						k = 1
					}
				} else {
					idx = f.n
				}
				f.n++
			}
			return [3]int{d, idx, k}
		}
		switch v := tok.(type) {
		case stdjson.Delim:
			switch v {
			case '[', '{':
				out = append(out, fact(false))
				st = append(st, frame{obj: v == '{'})
			default:
				st = st[:len(st)-1]
			}
		case string:
			out = append(out, fact(true))
		default:
			out = append(out, fact(false))
		}
	}
}

func b2i(b bool) int {
	if b {
		return 1
	}
	return 0
}

func c17RunDoc(c *Ctx, k c17Case) {
	doc := []byte(k.Doc)
	orig := append([]byte(nil), doc...)
	fail := func(api, want, got string) {
		if k.Prior != "" {
			api += " (Reset tokenizer)"
			got += " [tokenizer used before: " + k.Prior + "]"
		}
		if k.Companion {
			got += " [a second tokenizer is advanced in turn]"
		}
		c.Diverge("C17", api, want, got, "", k)
	}
	// REF: the definition must agree with encoding/json's token stream
	facts, err := stdFacts(doc)
	if err != nil {
		c.SpecError("C17", "encoding/json rejects a document the specification generated: "+err.Error(), k)
		return
	}
	si := 0
	for i, cl := range k.Cls {
		if cl == "s" || cl == "n" || cl == "l" || cl == "{" || cl == "[" {
			if si >= len(facts) || facts[si] != [3]int{k.W[3*i], k.W[3*i+1], k.W[3*i+2]} {
				c.SpecError("C17", fmt.Sprintf("definition disagrees with encoding/json token stream at token %d", i), k)
				return
			}
			si++
		}
	}
	var compact bytes.Buffer
	stdjson.Compact(&compact, doc)
	var concat []byte
	p := protect(func() {
		t := c17Tokenizer(k.Prior, doc)
		var comp *json.Tokenizer
		ci := 0
		for i, cl := range k.Cls {
			c.Eval(1)
			if !t.Next() {
				fail("Tokenizer.Next", fmt.Sprintf("true at token %d (%s)", i, k.Toks[i]), fmt.Sprintf("false err=%v", t.Err))
				return
			}
			if k.Companion {
				if comp == nil || ci == len(c17CompanionToks()) {
					comp, ci = json.NewTokenizer([]byte(c17CompanionDoc)), 0
				}
				w := c17CompanionToks()[ci]
				if !comp.Next() || string(comp.Value) != w.val || comp.Depth != w.depth || comp.Index != w.index || comp.IsKey != w.isKey {
					fail("Tokenizer (a second tokenizer used in turn with this one)", fmt.Sprintf("token %d of %s: %s depth=%d index=%d", ci, c17CompanionDoc, w.val, w.depth, w.index),
						fmt.Sprintf("%s depth=%d index=%d err=%v", comp.Value, comp.Depth, comp.Index, comp.Err))
					return
				}
				ci++
			}
			if string(t.Value) != k.Toks[i] {
				fail("Tokenizer.Value", k.Toks[i], string(t.Value))
				return
			}
			concat = append(concat, t.Value...)
			// sub-slice of the input ending Remaining() bytes before its end
			end := len(doc) - t.Remaining()
			start := end - len(t.Value)
			if start < 0 || end > len(doc) || len(t.Value) == 0 || unsafe.Pointer(&doc[start]) != unsafe.Pointer(&t.Value[0]) {
				fail("Tokenizer.Remaining", fmt.Sprintf("Value is doc[%d:%d]", start, end), "Value is not that sub-slice")
				return
			}
			isDelim := len(cl) == 1 && strings.Contains("{}[]:,", cl)
			if isDelim != (t.Delim != 0) || (isDelim && string(rune(t.Delim)) != cl) {
				fail("Tokenizer.Delim", cl, string(rune(t.Delim)))
				return
			}
			if cl == "s" || cl == "n" || cl == "l" || cl == "{" || cl == "[" {
				want := fmt.Sprintf("depth=%d index=%d iskey=%d", k.W[3*i], k.W[3*i+1], k.W[3*i+2])
				got := fmt.Sprintf("depth=%d index=%d iskey=%d", t.Depth, t.Index, b2i(t.IsKey))
				if want != got {
					fail("Tokenizer.Depth/Index/IsKey", want+" at token "+strconv.Itoa(i)+" "+k.Toks[i], got)
					return
				}
			}
			// Kind and decoded value
			tok := k.Toks[i]
			kind := t.Kind()
			switch cl {
			case "s":
				var s string
				stdjson.Unmarshal([]byte(tok), &s)
				if kind.Class() != json.String {
					fail("Tokenizer.Kind", "String class", fmt.Sprint(kind))
				} else if got := string(t.String()); got != s {
					fail("Tokenizer.String", s, got)
				}
				if !t.Value.String() {
					fail("RawValue.String", "true", "false")
				}
				var got string
				if p := protect(func() { got = string(t.Value.Unquote()) }); p != "" || got != s {
					fail("RawValue.Unquote", s, got+p)
				}
			case "n":
				if kind.Class() != json.Num {
					fail("Tokenizer.Kind", "Num class", fmt.Sprint(kind))
					break
				}
				if !t.Value.Number() {
					fail("RawValue.Number", "true", "false")
				}
				f, _ := strconv.ParseFloat(tok, 64)
				if got := t.Float(); math.Float64bits(got) != math.Float64bits(f) && !(math.IsNaN(got) && math.IsNaN(f)) {
					fail("Tokenizer.Float", fmt.Sprint(f), fmt.Sprint(got))
				}
				// the kind follows the spelling (an integer literal is Uint or Int whatever its size, anything with a
				// fraction or an exponent is Float); Uint() / Int() are held to the value when it fits 64 bits
				switch {
				case strings.ContainsAny(tok, ".eE"):
					if kind != json.Float {
						fail("Tokenizer.Kind", "Float", fmt.Sprint(kind))
					}
				case strings.HasPrefix(tok, "-"):
					if kind != json.Int {
						fail("Tokenizer.Kind", "Int", fmt.Sprint(kind))
					} else if n, e := strconv.ParseInt(tok, 10, 64); e == nil {
						if got := t.Int(); got != n {
							fail("Tokenizer.Int", fmt.Sprint(n), fmt.Sprint(got))
						}
					}
				default:
					if kind != json.Uint {
						fail("Tokenizer.Kind", "Uint", fmt.Sprint(kind))
					} else if u, e := strconv.ParseUint(tok, 10, 64); e == nil {
						if got := t.Uint(); got != u {
							fail("Tokenizer.Uint", fmt.Sprint(u), fmt.Sprint(got))
						}
					}
				}
			case "l":
				switch tok {
				case "true":
					if kind != json.True || !t.Bool() || !t.Value.True() {
						fail("Tokenizer.Kind/Bool", "True", fmt.Sprint(kind))
					}
				case "false":
					if kind != json.False || t.Bool() || !t.Value.False() {
						fail("Tokenizer.Kind/Bool", "False", fmt.Sprint(kind))
					}
				case "null":
					if kind != json.Null || !t.Value.Null() {
						fail("Tokenizer.Kind", "Null", fmt.Sprint(kind))
					}
				}
			case "{":
				if kind != json.Object {
					fail("Tokenizer.Kind", "Object", fmt.Sprint(kind))
				}
			case "[":
				if kind != json.Array {
					fail("Tokenizer.Kind", "Array", fmt.Sprint(kind))
				}
			}
		}
		if t.Next() {
			fail("Tokenizer.Next", "false at end of input", "true value="+string(t.Value))
			return
		}
		if t.Err != nil {
			fail("Tokenizer.Err", "nil at end of valid input", t.Err.Error())
			return
		}
		if !bytes.Equal(concat, compact.Bytes()) {
			fail("Tokenizer.Values", compact.String(), string(concat))
		}
	})
	if p != "" {
		fail("Tokenizer", "no panic", p)
	}
	if !bytes.Equal(doc, orig) {
		fail("Tokenizer(input)", "input unchanged", "input modified")
	}
}

// c17Literal: a sequence of literal units of spec/JsonString.tla as a string token - on its own, as an element, a member
// name and a member value: one token of class String whose decoded value (String, RawValue.Unquote) is what the
// definition says, escapes resolved and invalid UTF-8 replaced; a Reset tokenizer gives the same
// c17NoPanic: whatever the bytes, the Tokenizer ends: the literal (well formed or broken) in four document forms and
// every prefix of each, handed over without spare capacity
func c17NoPanic(c *Ctx, k strCase, lit string) {
	for wi, doc := range []string{lit, "[" + lit + "]", "{" + lit + ":" + lit + "}", `{"k":[` + lit + `,1]}`} {
		for cut := 1; cut <= len(doc); cut++ {
			in := make([]byte, cut)
			copy(in, doc[:cut])
			c.Eval(1)
			calls := 0
			if p := protect(func() {
				t := json.NewTokenizer(in[:cut:cut])
				for t.Next() {
					if t.Kind().Class() == json.String {
						t.String()
					}
					if calls++; calls > cut+2 {
						break
					}
				}
			}); p != "" || calls > cut+2 {
				c.Diverge("C17", "Tokenizer.Next(any bytes)", "ends without a panic", fmt.Sprintf("%s calls=%d (document form %d, first %d bytes: %q)", p, calls, wi, cut, clipS(doc[:cut])), "", k)
				return
			}
		}
	}
}

func c17Literal(c *Ctx, k strCase) {
	v := k.Str
	if l0, _, ok := renderLit(v, k.Var); ok && len(k.Pads) > 0 && k.Pads[0] == 0 {
		c17NoPanic(c, k, `"`+strings.Join(l0, "")+`"`)
	}
	if !v.OK {
		return // broken literals are C05's
	}
	lits, dec, ok := renderLit(v, k.Var)
	if !ok {
		c.SpecError("C17", "unknown literal unit", k)
		return
	}
	pad := strings.Repeat(strPad, k.Pads[0])
	lit := `"` + pad + strings.Join(lits, "") + `"`
	want := pad
	for i := range lits {
		want += dec[i]
	}
	for wi, doc := range []string{lit, "[" + lit + "]", "{" + lit + ":" + lit + "}", `{"k":[` + lit + `,1]}`} {
		buf := []byte(doc)
		tok := json.NewTokenizer(buf)
		for round := 0; round < 2; round++ {
			n := 0
			c.Eval(1)
			next := func() (ok bool) {
				if p := protect(func() { ok = tok.Next() }); p != "" {
					c.Diverge("C17", "Tokenizer.Next", "no panic", fmt.Sprintf("%s (document form %d, round %d)", p, wi, round), "", k)
					return false
				}
				return ok
			}
			for next() {
				if tok.Kind().Class() != json.String || (wi == 3 && tok.IsKey) {
					continue // (the member name of the fourth form is not the literal under test)
				}
				n++
				var got string
				if p := protect(func() { got = string(tok.String()) }); p != "" || got != want {
					c.Diverge("C17", "Tokenizer.String", fmt.Sprintf("%q", clipS(want)), fmt.Sprintf("%q %s (document form %d, round %d)", clipS(got), p, wi, round), "", k)
					return
				}
				// reading a token's meaning leaves the caller's document, and with it the token's Value, as they were
				if string(buf) != doc {
					c.Diverge("C17", "Tokenizer.String(the document afterwards)", fmt.Sprintf("%q", clipS(doc)), fmt.Sprintf("%q (document form %d, round %d)", clipS(string(buf)), wi, round), "", k)
					return
				}
				// (a well-formed literal: Unquote panics on malformed ones only)
				if p := protect(func() { got = string(json.RawValue(tok.Value).Unquote()) }); p != "" || got != want {
					c.Diverge("C17", "RawValue.Unquote", fmt.Sprintf("%q", clipS(want)), fmt.Sprintf("%q %s", clipS(got), p), "", k)
					return
				}
			}
			if wantN := []int{1, 1, 2, 1}[wi]; n != wantN || tok.Err != nil {
				c.Diverge("C17", "Tokenizer(string tokens)", fmt.Sprintf("%d string token(s), no error", wantN), fmt.Sprintf("%d, err=%v", n, tok.Err), "", k)
				return
			}
			tok.Reset(buf)
		}
	}
}

// c17Wrap puts a document inside one more container, with a sibling before it and one behind it (what comes behind a
// deep part is where a stack that lost its lower entries shows)
func c17Wrap(toks, cls []string, w []int, object bool) ([]string, []string, []int) {
	var t2, c2 []string
	var w2 []int
	add := func(tok, cl string, d, i, k int) {
		t2 = append(t2, tok)
		c2 = append(c2, cl)
		w2 = append(w2, d, i, k)
	}
	if object {
		add("{", "{", 0, 0, 0)
		add(`"a"`, "s", 1, 0, 1)
		add(":", ":", 0, 0, 0)
		add("0", "n", 1, 0, 0)
		add(",", ",", 0, 0, 0)
		add(`"b"`, "s", 1, 1, 1)
		add(":", ":", 0, 0, 0)
	} else {
		add("[", "[", 0, 0, 0)
		add("0", "n", 1, 0, 0)
		add(",", ",", 0, 0, 0)
	}
	for i := range toks {
		d, ix, ky := w[3*i], w[3*i+1], w[3*i+2]
		if d == 0 {
			ix = 1
		}
		add(toks[i], cls[i], d+1, ix, ky)
	}
	if object {
		add(",", ",", 0, 0, 0)
		add(`"c"`, "s", 1, 2, 1)
		add(":", ":", 0, 0, 0)
		add("true", "l", 1, 2, 0)
		add("}", "}", 0, 0, 0)
	} else {
		add(",", ",", 0, 0, 0)
		add(`"z"`, "s", 1, 2, 0)
		add("]", "]", 0, 0, 0)
	}
	return t2, c2, w2
}

var c17Depths = []int{3, 4, 5, 7, 8, 9, 15, 16, 17, 31, 33, 40, 64, 65, 130}

// c17Limit: documents nested exactly as deep as encoding/json allows (10000) are valid documents: every token comes
var c17LimitOnce sync.Once

func c17Limit(c *Ctx) {
	for _, depth := range []int{9999, 10000} {
		for _, obj := range []bool{false, true} {
			open, cl, per := "[", "]", 1
			if obj {
				open, cl, per = `{"a":`, "}", 3
			}
			doc := []byte(strings.Repeat(open, depth) + "0" + strings.Repeat(cl, depth))
			if !stdjson.Valid(doc) {
				c.SpecError("C17", "encoding/json refuses a document nested to its own limit", depth)
				return
			}
			k := c17Case{Doc: fmt.Sprintf("limit:%d:%v", depth, obj)}
			n, maxDepth := 0, 0
			var t *json.Tokenizer
			c.Case()
			c.Eval(1)
			if p := protect(func() {
				t = json.NewTokenizer(doc)
				for t.Next() {
					n++
					if t.Depth > maxDepth {
						maxDepth = t.Depth
					}
				}
			}); p != "" || t.Err != nil || n != depth*per+1+depth || maxDepth != depth {
				c.Diverge("C17", "Tokenizer(document nested to the limit of encoding/json)", fmt.Sprintf("%d tokens, greatest depth %d, no error", depth*per+1+depth, depth),
					fmt.Sprintf("%d tokens, greatest depth %d, err=%v %s", n, maxDepth, t.Err, p), "", k)
			}
		}
	}
}

func c17Vector(c *Ctx, raw stdjson.RawMessage) {
	c17LimitOnce.Do(func() { c17Limit(c) })
	var sv strVec
	if stdjson.Unmarshal(raw, &sv) == nil && sv.Dir == "unesc" {
		c.Nontrivial()
		for _, vr := range []int{int(c.Seed), int(c.Seed) + 1} {
			for _, front := range []int{0, 3, 8, 13} {
				pads := make([]int, len(sv.S)+1)
				pads[0] = front
				c.Case()
				c17Literal(c, strCase{Str: &sv, Var: vr, Pads: pads})
			}
		}
		return
	}
	var v tokVec
	if err := stdjson.Unmarshal(raw, &v); err != nil || len(v.T) != len(v.W) {
		c.SpecError("C17", "bad vector", string(raw))
		return
	}
	c.Nontrivial()
	r := newRng(c.Seed, string(raw))
	w := make([]int, 0, 3*len(v.W))
	for _, x := range v.W {
		w = append(w, x.Depth, x.Index, b2i(x.IsKey))
	}
	n := 4
	if c.Tier == "thorough" {
		n = 8
	}
	for i := 0; i < n; i++ {
		doc, toks := liftTokens(v.T, r, i == 0)
		k := c17Case{Doc: string(doc), Toks: toks, Cls: v.T, W: w}
		c.Case()
		if i == 1 {
			c.Sample(map[string]any{"tokens": v.T, "doc": string(doc)})
		}
		for _, pr := range c17Priors {
			k.Prior = pr.name
			c17RunDoc(c, k)
			if i == 0 {
				k.Companion = true
				c17RunDoc(c, k)
				k.Companion = false
			}
		}
		if i == 0 || i == 1 {
			// the same document some levels further down
			toks2, cls2, w2 := toks, v.T, w
			depth := c17Depths[r.intn(len(c17Depths))]
			for d := 0; d < depth; d++ {
				toks2, cls2, w2 = c17Wrap(toks2, cls2, w2, r.intn(2) == 0)
			}
			var deep []byte
			for j, t := range toks2 {
				if i == 1 && j%5 == 3 {
					deep = append(deep, ' ')
				}
				deep = append(deep, t...)
			}
			kd := c17Case{Doc: string(deep), Toks: toks2, Cls: cls2, W: w2}
			c.Case()
			for _, pr := range c17Priors {
				kd.Prior = pr.name
				kd.Companion = i == 1
				c17RunDoc(c, kd)
			}
		}
	}
}

func c17Replay(c *Ctx, raw stdjson.RawMessage) {
	if bytes.Contains(raw, []byte(`"doc":"limit:`)) {
		c17Limit(c)
		return
	}
	var sk strCase
	if stdjson.Unmarshal(raw, &sk) == nil && sk.Str != nil {
		c17Literal(c, sk)
		return
	}
	var k c17Case
	if stdjson.Unmarshal(raw, &k) != nil {
		return
	}
	c17RunDoc(c, k)
}

// ---------------------------------------------------------------- trace recording

type tokTracer struct {
	w      *bufio.Writer
	events int
}

func (tt *tokTracer) emit(s string) { tt.w.WriteString(s); tt.w.WriteByte('\n'); tt.events++ }

// classify the token the tokenizer is about to read, from the harness's own view of the input
func nextClass(rest []byte) string {
	i := 0
	for i < len(rest) && (rest[i] == ' ' || rest[i] == '\t' || rest[i] == '\n' || rest[i] == '\r') {
		i++
	}
	if i == len(rest) {
		return "eof"
	}
	switch c := rest[i]; {
	case strings.IndexByte("{}[]:,", c) >= 0:
		return string(c)
	case c == '"':
		return "s"
	case c == 'n' || c == 't' || c == 'f':
		return "l"
	case c == '-' || (c >= '0' && c <= '9'):
		return "n"
	}
	return "bad"
}

// traceDoc drives one tokenizer over doc for at most maxCalls calls of Next (continuing
// past false returns to observe stickiness), logging every call.
func (tt *tokTracer) run(t *json.Tokenizer, doc []byte, maxCalls int, extraAfterStop int) {
	tt.runID(1, t, doc, maxCalls, extraAfterStop, nil)
}

// runID drives tokenizer `id`; between two of its calls `between` (if any) lets another tokenizer make a call
func (tt *tokTracer) runID(id int, t *json.Tokenizer, doc []byte, maxCalls int, extraAfterStop int, between func()) {
	stopped := 0
	for n := 0; n < maxCalls; n++ {
		if between != nil {
			between()
		}
		hadErr := t.Err != nil
		cls := "none"
		if !hadErr {
			cls = nextClass(doc[len(doc)-t.Remaining():])
		}
		ret := t.Next()
		if !hadErr && t.Err != nil && t.Delim == 0 {
			cls = "bad" // malformed scalar or stray byte
		}
		tt.emit(fmt.Sprintf(`{"ev":"next","t":%d,"tok":%q,"ret":%v,"d":%d,"i":%d,"k":%v,"e":%v}`, id, cls, ret, t.Depth, t.Index, t.IsKey, t.Err != nil))
		if !ret {
			stopped++
			if stopped > extraAfterStop {
				return
			}
		}
	}
}

var traceAlphabet = []string{"{", "}", "[", "]", ":", ",", `"a"`, `"k\n"`, "1", "-2.5", "true", "null", " ", "\n",
	"x", `"unterminated`, "-", "tru", `"\x"`, "1e", "\x00"}

func randomTokDoc(r *rng, valid bool, vecs [][]string) []byte {
	if valid && len(vecs) > 0 {
		doc, _ := liftTokens(vecs[r.intn(len(vecs))], r, false)
		return doc
	}
	n := 1 + r.intn(12)
	var b []byte
	for i := 0; i < n; i++ {
		a := traceAlphabet
		if r.intn(4) != 0 {
			a = a[:14] // mostly well-formed tokens in arbitrary order
		}
		b = append(b, a[r.intn(len(a))]...)
	}
	return b
}

func c17Trace(args []string) {
	fs := flag.NewFlagSet("c17trace", flag.ExitOnError)
	seed := fs.Int64("seed", 1, "")
	n := fs.Int("n", 300, "number of histories")
	out := fs.String("out", "trace.ndjson", "")
	idx := fs.String("index", "", "index file: first event number and history of each trace")
	vec := fs.String("vec", "", "valid token documents (vectors) to mix in")
	only := fs.Int("only", -1, "record only this history")
	fs.Parse(args)
	var vecs [][]string
	if *vec != "" {
		f, err := os.Open(*vec)
		if err == nil {
			sc := bufio.NewScanner(f)
			sc.Buffer(make([]byte, 1<<20), 1<<24)
			for sc.Scan() && len(vecs) < 20000 {
				var v tokVec
				if stdjson.Unmarshal(sc.Bytes(), &v) == nil && len(v.T) > 0 {
					vecs = append(vecs, v.T)
				}
			}
			f.Close()
		}
	}
	fo, err := os.Create(*out)
	if err != nil {
		fmt.Fprintln(os.Stderr, err)
		os.Exit(2)
	}
	tt := &tokTracer{w: bufio.NewWriter(fo)}
	var fi *bufio.Writer
	if *idx != "" {
		f2, _ := os.Create(*idx)
		defer f2.Close()
		fi = bufio.NewWriter(f2)
		defer fi.Flush()
	}
	for h := 0; h < *n; h++ {
		r := newRng(*seed, "c17trace"+strconv.Itoa(h))
		// a history: new tokenizer, then up to 3 documents separated by Reset (some mid-document,
		// some after an error, some after the end of input)
		docs := 1 + r.intn(3)
		var hist []string
		first := tt.events + 1
		var t *json.Tokenizer
		skip := *only >= 0 && h != *only
		for d := 0; d < docs; d++ {
			doc := randomTokDoc(r, r.intn(3) == 0, vecs)
			calls := 1 + r.intn(24)
			extra := r.intn(3)
			hist = append(hist, fmt.Sprintf("%q calls=%d", doc, calls))
			if skip {
				continue
			}
			if d == 0 {
				t = json.NewTokenizer(doc)
				tt.emit(`{"ev":"new","t":1}`)
			} else {
				t.Reset(doc)
				tt.emit(`{"ev":"reset","t":1}`)
			}
			// every third history: a second tokenizer is alive at the same time and the calls interleave
			var between func()
			if h%3 == 2 {
				doc2 := randomTokDoc(r, true, vecs)
				t2 := json.NewTokenizer(doc2)
				tt.emit(`{"ev":"new","t":2}`)
				hist = append(hist, fmt.Sprintf("interleaved with %q", doc2))
				done2 := false
				between = func() {
					if !done2 {
						one := &tokTracer{w: tt.w}
						one.runID(2, t2, doc2, 1, 0, nil)
						tt.events += one.events
						done2 = t2.Err != nil || (t2.Remaining() == 0 && one.events > 0 && t2.Delim == 0 && len(t2.Value) == 0)
					}
				}
			}
			if p := protect(func() { tt.runID(1, t, doc, calls, extra, between) }); p != "" {
				tt.emit(`{"ev":"panic","t":1}`)
			}
		}
		if fi != nil && !skip {
			b, _ := stdjson.Marshal(map[string]any{"h": h, "first": first, "last": tt.events, "hist": hist})
			fi.Write(b)
			fi.WriteByte('\n')
		}
	}
	tt.w.Flush()
	fo.Close()
	fmt.Printf("{\"events\":%d,\"histories\":%d}\n", tt.events, *n)
}

func init() {
	register("C17", &Driver{Vector: c17Vector, Replay: c17Replay})
	tools["c17trace"] = c17Trace
}
