package main

// Shared machinery for the proto properties (C03, C07, C12, C16, C19):
// materialises the abstract shapes / values / wire records of
// spec/ProtoCodec.tla as Go types (reflect.StructOf), Go values and bytes, and
// builds the reference view of the same message with google.golang.org/protobuf
// (descriptor + dynamicpb) so that the specification is validated against the
// standard implementation on every vector.

import (
	"encoding/binary"
	"encoding/hex"
	"fmt"
	"github.com/segmentio/encoding/proto"
	"math"
	"reflect"
	"sort"
	"strconv"
	"strings"
	"sync"

	gproto "google.golang.org/protobuf/proto"
	"google.golang.org/protobuf/reflect/protodesc"
	"google.golang.org/protobuf/reflect/protoreflect"
	"google.golang.org/protobuf/types/descriptorpb"
	"google.golang.org/protobuf/types/dynamicpb"
)

type pField struct {
	K  string `json:"k"`
	C  string `json:"c"`
	N  int    `json:"n"`
	MK string `json:"mk"`
}

type pVal struct {
	T  string `json:"t"`
	V  int    `json:"v"`
	Xs []pVal `json:"xs"`
}

type pRec struct {
	N   int    `json:"n"`
	W   int    `json:"w"`
	K   string `json:"k"`
	V   int    `json:"v"`
	Sub []pRec `json:"sub"`
}

type protoVec struct {
	Shape []pField            `json:"shape"`
	Val   pVal                `json:"val"`
	Wire  []pRec              `json:"wire"`
	Impl  []pRec              `json:"impl"`
	Lib   map[string][]pField `json:"lib"`
}

// subShapes mirrors SubShape(k) of spec/ProtoCodec.tla; the generator's first
// vector carries the specification's own table and the two are compared.
var subShapes = map[string][]pField{
	"m1": {{K: "i64", C: "one"}},
	"m2": {{K: "str", C: "one"}, {K: "i32", C: "rep"}},
	"m3": {{K: "m1", C: "ptr"}, {K: "bool", C: "one"}, {K: "m1", C: "rep"}},
	"m4": {{K: "m1", C: "ptr"}, {K: "i32", C: "rep"}},
}

func isMsgKind(k string) bool { _, ok := subShapes[k]; return ok }

// arrLen: byte-array kinds "arr" (4 bytes), "arr7", "arr15", "arr16"
func arrLen(k string) int {
	if k == "arr" {
		return 4
	}
	if strings.HasPrefix(k, "arr") {
		n, _ := strconv.Atoi(k[3:])
		return n
	}
	return 0
}

func numOf(shape []pField, i int) int {
	if shape[i].N != 0 {
		return shape[i].N
	}
	return i + 1
}

// ---------------------------------------------------------------- value tables

var nonZeroI64 = []int64{1, -1, math.MaxInt64, math.MinInt64, 127, 128, 1 << 35, -129}
var nonZeroI32 = []int32{1, -1, math.MaxInt32, math.MinInt32, 300, -64, 16384}
var nonZeroU64 = []uint64{1, math.MaxUint64, 1 << 63, 128, 1 << 32, 16383}
var nonZeroU32 = []uint32{1, math.MaxUint32, 1 << 31, 16384, 127}
var nonZeroF32 = []float32{1.5, float32(math.Copysign(0, -1)), float32(math.Inf(1)), math.SmallestNonzeroFloat32, -2}
var nonZeroF64 = []float64{1.5, math.Copysign(0, -1), math.Inf(-1), math.SmallestNonzeroFloat64, 1e300}
var nonZeroStr = []string{"a", "héllo", strings.Repeat("x", 127), strings.Repeat("y", 128), "\x00"}

// Types with user-supplied marshalling methods (kinds "pmsg", "cmsg"; "rawm" is proto.RawMessage): a struct
// implementing proto.Message, and one implementing the gogo-style custom interface.  Both encode themselves
// as small valid messages, so the reference implementation sees a bytes / nested-message field.
type PairMsg struct{ A, B uint8 }

func (p PairMsg) Size() int { return 4 }
func (p PairMsg) Marshal(b []byte) error {
	if len(b) < 4 {
		return fmt.Errorf("PairMsg.Marshal: %d bytes", len(b))
	}
	b[0], b[1], b[2], b[3] = 0x08, p.A&0x7f, 0x10, p.B&0x7f
	return nil
}
func (p *PairMsg) Unmarshal(b []byte) error {
	if len(b) != 4 || b[0] != 0x08 || b[2] != 0x10 {
		return fmt.Errorf("PairMsg.Unmarshal: % x", b)
	}
	p.A, p.B = b[1], b[3]
	return nil
}

type CustMsg struct{ X uint8 }

func (c CustMsg) Size() int { return 2 }
func (c CustMsg) MarshalTo(b []byte) (int, error) {
	if len(b) < 2 {
		return 0, fmt.Errorf("CustMsg.MarshalTo: %d bytes", len(b))
	}
	b[0], b[1] = 0x08, c.X&0x7f
	return 2, nil
}
func (c *CustMsg) Unmarshal(b []byte) error {
	if len(b) != 2 || b[0] != 0x08 {
		return fmt.Errorf("CustMsg.Unmarshal: % x", b)
	}
	c.X = b[1]
	return nil
}

func isBlobKind(kind string) bool { return kind == "rawm" || kind == "pmsg" || kind == "cmsg" }

// lift maps (kind, abstract id) to a concrete Go value; salt rotates through the boundary tables
//
// salt >= strLenSalt selects the LENGTH lifting: every non-empty string / []byte is strLen() bytes long
// (content distinct per id), so that the sizes of the enclosing length-delimited records (map entries,
// embedded messages) can be swept across the 127/128 and 16383/16384 varint boundaries.
type lift struct{ salt int }

const strLenSalt = 1000

func (l lift) strLen() int {
	if l.salt >= strLenSalt {
		return l.salt - strLenSalt
	}
	return -1
}

func (l lift) idx(id, n int) int { return (id - 1 + l.salt) % n }

func (l lift) str(id int) string {
	if n := l.strLen(); n >= 0 {
		return strings.Repeat(string(rune('a'+id%26)), n)
	}
	return nonZeroStr[l.idx(id, len(nonZeroStr))]
}

// hasStringLeaf: the shape has a string / bytes leaf somewhere (field, map key, nested message)
func hasStringLeaf(shape []pField) bool {
	for _, f := range shape {
		if f.K == "str" || f.K == "byt" || (f.C == "map" && f.MK == "str") {
			return true
		}
		if isMsgKind(f.K) && hasStringLeaf(subShapes[f.K]) {
			return true
		}
	}
	return false
}

// masks of the bit-or rules (ids of their own: see OrId in spec/ProtoRewrite.tla)
var orMasks = []uint64{16, 0x40000001, 5, 1<<20 | 1, 0x7f00, 1 << 30}

func (l lift) mask(kind string, m int) uint64 {
	if m == 0 {
		return 0
	}
	x := orMasks[l.idx(m, len(orMasks))]
	if l.salt%2 == 1 && (kind == "int" || kind == "i64" || kind == "s64" || kind == "uint" || kind == "u64" || kind == "x64") {
		x |= 1 << 40
	}
	return x
}

func orValue(v any, mask uint64) any {
	switch x := v.(type) {
	case int:
		return x | int(mask)
	case int32:
		return x | int32(mask)
	case int64:
		return x | int64(mask)
	case uint:
		return x | uint(mask)
	case uint32:
		return x | uint32(mask)
	case uint64:
		return x | mask
	}
	panic("orValue: not an integer")
}

func (l lift) scalar(kind string, id int) any {
	if id >= 100 { // value (id-100)/10 or-ed with mask (id-100)%10
		return orValue(l.scalar(kind, (id-100)/10), l.mask(kind, (id-100)%10))
	}
	switch kind {
	case "bool":
		return id != 0
	case "int":
		if id == 0 {
			return int(0)
		}
		return int(nonZeroI64[l.idx(id, len(nonZeroI64))])
	case "i64", "s64":
		if id == 0 {
			return int64(0)
		}
		return nonZeroI64[l.idx(id, len(nonZeroI64))]
	case "i32", "s32":
		if id == 0 {
			return int32(0)
		}
		return nonZeroI32[l.idx(id, len(nonZeroI32))]
	case "uint":
		if id == 0 {
			return uint(0)
		}
		return uint(nonZeroU64[l.idx(id, len(nonZeroU64))])
	case "u64", "x64":
		if id == 0 {
			return uint64(0)
		}
		return nonZeroU64[l.idx(id, len(nonZeroU64))]
	case "u32", "x32":
		if id == 0 {
			return uint32(0)
		}
		return nonZeroU32[l.idx(id, len(nonZeroU32))]
	case "flt":
		if id == 0 {
			return float32(0)
		}
		return nonZeroF32[l.idx(id, len(nonZeroF32))]
	case "dbl":
		if id == 0 {
			return float64(0)
		}
		return nonZeroF64[l.idx(id, len(nonZeroF64))]
	case "str":
		if id == 0 {
			return ""
		}
		return l.str(id)
	case "byt":
		if id == 0 {
			return []byte{}
		}
		return []byte(l.str(id))
	case "rawm":
		if id == 0 {
			return proto.RawMessage{}
		}
		return proto.RawMessage{0x08, byte(1 + (id+l.salt)%120), 0x12, 0x01, 'r'}
	case "pmsg":
		if id == 0 {
			return PairMsg{}
		}
		return PairMsg{A: uint8(1 + (id*7+l.salt)%120), B: uint8(id % 100)}
	case "cmsg":
		if id == 0 {
			return CustMsg{}
		}
		return CustMsg{X: uint8(1 + (id*5+l.salt)%120)}
	}
	if n := arrLen(kind); n > 0 {
		// byte arrays: a single non-zero byte, at the end (id 1), at the start (id 2) or at a salted position
		a := reflect.New(reflect.ArrayOf(n, reflect.TypeOf(byte(0)))).Elem()
		switch {
		case id == 0:
		case id == 1:
			a.Index(n - 1 - (l.salt % 2 * (n / 2))).SetUint(uint64(1 + l.salt))
		case id == 2:
			a.Index(0).SetUint(0x80)
		default:
			a.Index((id*5 + l.salt) % n).SetUint(uint64(id))
		}
		return a.Interface()
	}
	panic("unknown kind " + kind)
}

// canonical text of a scalar (the leaf of value trees)
func canonScalar(kind string, v any) string {
	switch x := v.(type) {
	case bool:
		return strconv.FormatBool(x)
	case int:
		return strconv.FormatInt(int64(x), 10)
	case int32:
		return strconv.FormatInt(int64(x), 10)
	case int64:
		return strconv.FormatInt(x, 10)
	case uint:
		return strconv.FormatUint(uint64(x), 10)
	case uint32:
		return strconv.FormatUint(uint64(x), 10)
	case uint64:
		return strconv.FormatUint(x, 10)
	case float32:
		return fmt.Sprintf("f%08x", math.Float32bits(x))
	case float64:
		return fmt.Sprintf("d%016x", math.Float64bits(x))
	case string:
		return "s" + hex.EncodeToString([]byte(x))
	case proto.RawMessage:
		return "b" + hex.EncodeToString(x)
	case PairMsg:
		return "b" + hex.EncodeToString([]byte{0x08, x.A & 0x7f, 0x10, x.B & 0x7f})
	case CustMsg:
		return "b" + hex.EncodeToString([]byte{0x08, x.X & 0x7f})
	case []byte:
		if n := arrLen(kind); n > 0 && len(x) == 0 {
			return "b" + strings.Repeat("00", n)
		}
		return "b" + hex.EncodeToString(x)
	}
	if rv := reflect.ValueOf(v); rv.Kind() == reflect.Array {
		b := make([]byte, rv.Len())
		reflect.Copy(reflect.ValueOf(b), rv)
		return "b" + hex.EncodeToString(b)
	}
	panic(fmt.Sprintf("canonScalar %T", v))
}

// ---------------------------------------------------------------- Go types

var (
	typeMu    sync.Mutex
	typeCache = map[string]reflect.Type{}
)

func scalarType(kind string) reflect.Type {
	switch kind {
	case "bool":
		return reflect.TypeOf(false)
	case "int":
		return reflect.TypeOf(int(0))
	case "i64", "s64":
		return reflect.TypeOf(int64(0))
	case "i32", "s32":
		return reflect.TypeOf(int32(0))
	case "uint":
		return reflect.TypeOf(uint(0))
	case "u64", "x64":
		return reflect.TypeOf(uint64(0))
	case "u32", "x32":
		return reflect.TypeOf(uint32(0))
	case "flt":
		return reflect.TypeOf(float32(0))
	case "dbl":
		return reflect.TypeOf(float64(0))
	case "str":
		return reflect.TypeOf("")
	case "byt":
		return reflect.TypeOf([]byte(nil))
	case "rawm":
		return reflect.TypeOf(proto.RawMessage(nil))
	case "pmsg":
		return reflect.TypeOf(PairMsg{})
	case "cmsg":
		return reflect.TypeOf(CustMsg{})
	}
	if n := arrLen(kind); n > 0 {
		return reflect.ArrayOf(n, reflect.TypeOf(byte(0)))
	}
	panic("scalarType " + kind)
}

func elemType(kind string) reflect.Type {
	if isMsgKind(kind) {
		return structTypeOf(subShapes[kind], kind)
	}
	return scalarType(kind)
}

func tagWire(kind string) string {
	switch kind {
	case "s32":
		return "zigzag32"
	case "s64":
		return "zigzag64"
	case "x32", "flt":
		return "fixed32"
	case "x64", "dbl":
		return "fixed64"
	case "str", "byt", "rawm", "pmsg", "cmsg":
		return "bytes"
	}
	if isMsgKind(kind) || arrLen(kind) > 0 {
		return "bytes"
	}
	return "varint"
}

func shapeKey(shape []pField) string {
	var sb strings.Builder
	for _, f := range shape {
		fmt.Fprintf(&sb, "%s/%s/%d/%s;", f.K, f.C, f.N, f.MK)
	}
	return sb.String()
}

// structTypeOf builds the Go struct type of a shape (fields F1..Fn, protobuf tags where the
// shape asks for an explicit number or a zigzag / fixed encoding).
func structTypeOf(shape []pField, name string) reflect.Type {
	key := shapeKey(shape)
	typeMu.Lock()
	if t, ok := typeCache[key]; ok {
		typeMu.Unlock()
		return t
	}
	typeMu.Unlock()
	fields := make([]reflect.StructField, len(shape))
	for i, f := range shape {
		et := elemType(f.K)
		var ft reflect.Type
		switch f.C {
		case "one":
			ft = et
		case "ptr":
			ft = reflect.PointerTo(et)
		case "rep":
			ft = reflect.SliceOf(et)
		case "map":
			ft = reflect.MapOf(scalarType(f.MK), et)
		}
		sf := reflect.StructField{Name: "F" + strconv.Itoa(i+1), Type: ft}
		if f.N != 0 {
			opt := "opt"
			if f.C == "rep" || f.C == "map" {
				opt = "rep"
			}
			w := tagWire(f.K)
			if f.C == "map" {
				w = "bytes"
			}
			sf.Tag = reflect.StructTag(fmt.Sprintf(`protobuf:"%s,%d,%s"`, w, f.N, opt))
		}
		fields[i] = sf
	}
	t := reflect.StructOf(fields)
	typeMu.Lock()
	typeCache[key] = t
	typeMu.Unlock()
	return t
}

// ---------------------------------------------------------------- Go values

func (l lift) elemValue(kind string, v pVal) reflect.Value {
	if isMsgKind(kind) {
		return l.structValue(subShapes[kind], v)
	}
	return reflect.ValueOf(l.scalar(kind, v.V))
}

func (l lift) structValue(shape []pField, v pVal) reflect.Value {
	t := structTypeOf(shape, "")
	s := reflect.New(t).Elem()
	for i, f := range shape {
		fv := v.Xs[i]
		dst := s.Field(i)
		switch f.C {
		case "one":
			dst.Set(l.elemValue(f.K, fv))
		case "ptr":
			if fv.T != "nil" {
				p := reflect.New(dst.Type().Elem())
				p.Elem().Set(l.elemValue(f.K, fv.Xs[0]))
				dst.Set(p)
			}
		case "rep":
			sl := reflect.MakeSlice(dst.Type(), 0, len(fv.Xs))
			for _, e := range fv.Xs {
				sl = reflect.Append(sl, l.elemValue(f.K, e))
			}
			dst.Set(sl)
		case "map":
			m := reflect.MakeMap(dst.Type())
			for _, e := range fv.Xs {
				m.SetMapIndex(reflect.ValueOf(l.scalar(f.MK, e.V)), l.elemValue(f.K, e.Xs[0]))
			}
			dst.Set(m)
		}
	}
	return s
}

// ---------------------------------------------------------------- value trees

// A tree is the canonical, comparison-ready form of a message value:
// scalar leaf "…", ptr: "nil" or ["p", tree], rep: ["r", …], map: ["m", [k, tree]… sorted], msg: ["g", …]
type tree any

func (l lift) treeOfAbstract(shape []pField, v pVal) tree {
	out := []any{"g"}
	for i, f := range shape {
		out = append(out, l.fieldTreeAbs(f, v.Xs[i]))
	}
	return out
}

func (l lift) elemTreeAbs(kind string, v pVal) tree {
	if isMsgKind(kind) {
		return l.treeOfAbstract(subShapes[kind], v)
	}
	return canonScalar(kind, l.scalar(kind, v.V))
}

func (l lift) fieldTreeAbs(f pField, v pVal) tree {
	switch f.C {
	case "one":
		return l.elemTreeAbs(f.K, v)
	case "ptr":
		if v.T == "nil" {
			return "nil"
		}
		return []any{"p", l.elemTreeAbs(f.K, v.Xs[0])}
	case "rep":
		out := []any{"r"}
		for _, e := range v.Xs {
			out = append(out, l.elemTreeAbs(f.K, e))
		}
		return out
	default:
		var es [][2]any
		for _, e := range v.Xs {
			es = append(es, [2]any{canonScalar(f.MK, l.scalar(f.MK, e.V)), l.elemTreeAbs(f.K, e.Xs[0])})
		}
		return mapTree(es)
	}
}

func mapTree(es [][2]any) tree {
	sort.Slice(es, func(i, j int) bool { return es[i][0].(string) < es[j][0].(string) })
	out := []any{"m"}
	for _, e := range es {
		out = append(out, []any{e[0], e[1]})
	}
	return out
}

func treeOfGo(shape []pField, s reflect.Value) tree {
	out := []any{"g"}
	for i, f := range shape {
		out = append(out, fieldTreeGo(f, s.Field(i)))
	}
	return out
}

func elemTreeGo(kind string, v reflect.Value) tree {
	if isMsgKind(kind) {
		return treeOfGo(subShapes[kind], v)
	}
	return canonScalar(kind, v.Interface())
}

func fieldTreeGo(f pField, v reflect.Value) tree {
	switch f.C {
	case "one":
		return elemTreeGo(f.K, v)
	case "ptr":
		if v.IsNil() {
			return "nil"
		}
		return []any{"p", elemTreeGo(f.K, v.Elem())}
	case "rep":
		out := []any{"r"}
		for i := 0; i < v.Len(); i++ {
			out = append(out, elemTreeGo(f.K, v.Index(i)))
		}
		return out
	default:
		var es [][2]any
		it := v.MapRange()
		for it.Next() {
			es = append(es, [2]any{canonScalar(f.MK, it.Key().Interface()), elemTreeGo(f.K, it.Value())})
		}
		return mapTree(es)
	}
}

func treeString(t tree) string { return fmt.Sprint(t) }

// ---------------------------------------------------------------- wire records -> bytes

func appendVarint(b []byte, v uint64) []byte {
	for v >= 0x80 {
		b = append(b, byte(v)|0x80)
		v >>= 7
	}
	return append(b, byte(v))
}

// appendVarintPadded writes v in exactly n bytes (n >= minimal length, n <= 10): a non-minimal varint
func appendVarintPadded(b []byte, v uint64, n int) []byte {
	for i := 0; i < n-1; i++ {
		b = append(b, byte(v)|0x80)
		v >>= 7
	}
	return append(b, byte(v))
}

func varintLen(v uint64) int { return len(appendVarint(nil, v)) }

// scalarBits is the integer a varint / fixed record of this kind carries
func (l lift) scalarBits(kind string, id int) uint64 {
	switch v := l.scalar(kind, id).(type) {
	case bool:
		if v {
			return 1
		}
		return 0
	case int:
		return uint64(int64(v))
	case int32:
		if kind == "s32" {
			return uint64(uint32((v << 1) ^ (v >> 31)))
		}
		return uint64(int64(v))
	case int64:
		if kind == "s64" {
			return uint64((v << 1) ^ (v >> 63))
		}
		return uint64(v)
	case uint:
		return uint64(v)
	case uint32:
		return uint64(v)
	case uint64:
		return v
	case float32:
		return uint64(math.Float32bits(v))
	case float64:
		return math.Float64bits(v)
	}
	panic("scalarBits " + kind)
}

func (l lift) scalarBytes(kind string, id int) []byte {
	switch v := l.scalar(kind, id).(type) {
	case string:
		return []byte(v)
	case []byte:
		return v
	case proto.RawMessage:
		return v
	case PairMsg:
		return []byte{0x08, v.A & 0x7f, 0x10, v.B & 0x7f}
	case CustMsg:
		return []byte{0x08, v.X & 0x7f}
	}
	if rv := reflect.ValueOf(l.scalar(kind, id)); rv.Kind() == reflect.Array {
		b := make([]byte, rv.Len())
		reflect.Copy(reflect.ValueOf(b), rv)
		return b
	}
	panic("scalarBytes " + kind)
}

// wireOpts selects among the legal encodings of the same records
type wireOpts struct {
	padVarints int // 0 = minimal; n = every varint (tags excluded) written with n extra bytes where room
	padTags    int
	padLens    int
}

func (l lift) encodeRecs(recs []pRec, o wireOpts) []byte {
	var b []byte
	pad := func(v uint64, extra int) []byte {
		n := varintLen(v)
		if extra > 0 && n+extra <= 10 {
			return appendVarintPadded(nil, v, n+extra)
		}
		return appendVarint(nil, v)
	}
	for _, r := range recs {
		b = append(b, pad(uint64(r.N)<<3|uint64(r.W), o.padTags)...)
		switch r.W {
		case 0:
			b = append(b, pad(l.scalarBits(r.K, r.V), o.padVarints)...)
		case 1:
			b = binary.LittleEndian.AppendUint64(b, l.scalarBits(r.K, r.V))
		case 5:
			b = binary.LittleEndian.AppendUint32(b, uint32(l.scalarBits(r.K, r.V)))
		case 2:
			var payload []byte
			if r.K == "entry" || isMsgKind(r.K) {
				payload = l.encodeRecs(r.Sub, o)
			} else if r.K == "raw" {
				payload = []byte(strings.Repeat("z", r.V))
			} else {
				payload = l.scalarBytes(r.K, r.V)
			}
			b = append(b, pad(uint64(len(payload)), o.padLens)...)
			b = append(b, payload...)
		}
	}
	return b
}

// ---------------------------------------------------------------- reference: descriptors + dynamicpb

var (
	descMu    sync.Mutex
	descCache = map[string]protoreflect.MessageDescriptor{}
	descSeq   int
)

func protoTypeOf(kind string) descriptorpb.FieldDescriptorProto_Type {
	switch kind {
	case "bool":
		return descriptorpb.FieldDescriptorProto_TYPE_BOOL
	case "int", "i64":
		return descriptorpb.FieldDescriptorProto_TYPE_INT64
	case "i32":
		return descriptorpb.FieldDescriptorProto_TYPE_INT32
	case "s32":
		return descriptorpb.FieldDescriptorProto_TYPE_SINT32
	case "s64":
		return descriptorpb.FieldDescriptorProto_TYPE_SINT64
	case "uint", "u64":
		return descriptorpb.FieldDescriptorProto_TYPE_UINT64
	case "u32":
		return descriptorpb.FieldDescriptorProto_TYPE_UINT32
	case "x32":
		return descriptorpb.FieldDescriptorProto_TYPE_FIXED32
	case "x64":
		return descriptorpb.FieldDescriptorProto_TYPE_FIXED64
	case "flt":
		return descriptorpb.FieldDescriptorProto_TYPE_FLOAT
	case "dbl":
		return descriptorpb.FieldDescriptorProto_TYPE_DOUBLE
	case "str":
		return descriptorpb.FieldDescriptorProto_TYPE_STRING
	case "byt", "rawm", "pmsg", "cmsg":
		return descriptorpb.FieldDescriptorProto_TYPE_BYTES
	}
	if arrLen(kind) > 0 {
		return descriptorpb.FieldDescriptorProto_TYPE_BYTES
	}
	return descriptorpb.FieldDescriptorProto_TYPE_MESSAGE
}

// buildMessageProto adds message `name` for `shape` (and its map entry types) to file fd
func buildMessageProto(fd *descriptorpb.FileDescriptorProto, name string, shape []pField, done map[string]bool) {
	if done[name] {
		return
	}
	done[name] = true
	msg := &descriptorpb.DescriptorProto{Name: gproto.String(name)}
	for i, f := range shape {
		fp := &descriptorpb.FieldDescriptorProto{
			Name:   gproto.String("f" + strconv.Itoa(i+1)),
			Number: gproto.Int32(int32(numOf(shape, i))),
			Label:  descriptorpb.FieldDescriptorProto_LABEL_OPTIONAL.Enum(),
		}
		setType := func(p *descriptorpb.FieldDescriptorProto, kind string) {
			p.Type = protoTypeOf(kind).Enum()
			if isMsgKind(kind) {
				buildMessageProto(fd, "M_"+kind, subShapes[kind], done)
				p.TypeName = gproto.String(".verif.M_" + kind)
			}
		}
		switch f.C {
		case "one", "ptr":
			setType(fp, f.K)
		case "rep":
			fp.Label = descriptorpb.FieldDescriptorProto_LABEL_REPEATED.Enum()
			setType(fp, f.K)
		case "map":
			fp.Label = descriptorpb.FieldDescriptorProto_LABEL_REPEATED.Enum()
			fp.Type = descriptorpb.FieldDescriptorProto_TYPE_MESSAGE.Enum()
			en := "F" + strconv.Itoa(i+1) + "Entry"
			entry := &descriptorpb.DescriptorProto{
				Name:    gproto.String(en),
				Options: &descriptorpb.MessageOptions{MapEntry: gproto.Bool(true)},
			}
			kf := &descriptorpb.FieldDescriptorProto{Name: gproto.String("key"), Number: gproto.Int32(1), Label: descriptorpb.FieldDescriptorProto_LABEL_OPTIONAL.Enum()}
			setType(kf, f.MK)
			vf := &descriptorpb.FieldDescriptorProto{Name: gproto.String("value"), Number: gproto.Int32(2), Label: descriptorpb.FieldDescriptorProto_LABEL_OPTIONAL.Enum()}
			setType(vf, f.K)
			entry.Field = []*descriptorpb.FieldDescriptorProto{kf, vf}
			msg.NestedType = append(msg.NestedType, entry)
			fp.TypeName = gproto.String(".verif." + name + "." + en)
		}
		msg.Field = append(msg.Field, fp)
	}
	fd.MessageType = append(fd.MessageType, msg)
}

func refDescriptor(shape []pField) (protoreflect.MessageDescriptor, error) {
	key := shapeKey(shape)
	descMu.Lock()
	defer descMu.Unlock()
	if d, ok := descCache[key]; ok {
		return d, nil
	}
	descSeq++
	fd := &descriptorpb.FileDescriptorProto{
		Name:    gproto.String(fmt.Sprintf("verif%d.proto", descSeq)),
		Package: gproto.String("verif"),
		Syntax:  gproto.String("proto2"),
	}
	buildMessageProto(fd, "Top", shape, map[string]bool{})
	file, err := protodesc.NewFile(fd, nil)
	if err != nil {
		return nil, err
	}
	d := file.Messages().ByName("Top")
	descCache[key] = d
	return d, nil
}

func refScalar(kind string, v protoreflect.Value) string {
	switch kind {
	case "bool":
		return strconv.FormatBool(v.Bool())
	case "int", "i64", "s64", "i32", "s32":
		return strconv.FormatInt(v.Int(), 10)
	case "uint", "u64", "x64", "u32", "x32":
		return strconv.FormatUint(v.Uint(), 10)
	case "flt":
		return fmt.Sprintf("f%08x", math.Float32bits(float32(v.Float())))
	case "dbl":
		return fmt.Sprintf("d%016x", math.Float64bits(v.Float()))
	case "str":
		return "s" + hex.EncodeToString([]byte(v.String()))
	case "byt", "rawm", "pmsg", "cmsg":
		return "b" + hex.EncodeToString(v.Bytes())
	}
	if n := arrLen(kind); n > 0 {
		if len(v.Bytes()) == 0 {
			return "b" + strings.Repeat("00", n)
		}
		return "b" + hex.EncodeToString(v.Bytes())
	}
	panic("refScalar " + kind)
}

func refElemTree(kind string, v protoreflect.Value) tree {
	if isMsgKind(kind) {
		return refTree(subShapes[kind], v.Message())
	}
	return refScalar(kind, v)
}

// refTree reads a dynamicpb message back as a value tree under the package's conventions
// (plain fields: value or default; pointer fields: presence)
func refTree(shape []pField, m protoreflect.Message) tree {
	out := []any{"g"}
	fds := m.Descriptor().Fields()
	for i, f := range shape {
		fd := fds.ByNumber(protoreflect.FieldNumber(numOf(shape, i)))
		switch f.C {
		case "one":
			out = append(out, refElemTree(f.K, m.Get(fd)))
		case "ptr":
			if !m.Has(fd) {
				out = append(out, "nil")
			} else {
				out = append(out, []any{"p", refElemTree(f.K, m.Get(fd))})
			}
		case "rep":
			l := m.Get(fd).List()
			t := []any{"r"}
			for j := 0; j < l.Len(); j++ {
				t = append(t, refElemTree(f.K, l.Get(j)))
			}
			out = append(out, t)
		case "map":
			var es [][2]any
			m.Get(fd).Map().Range(func(k protoreflect.MapKey, v protoreflect.Value) bool {
				es = append(es, [2]any{refScalar(f.MK, k.Value()), refElemTree(f.K, v)})
				return true
			})
			out = append(out, mapTree(es))
		}
	}
	return out
}

// refDecode decodes bytes with the reference implementation and returns the value tree
func refDecode(shape []pField, b []byte) (tree, error) {
	d, err := refDescriptor(shape)
	if err != nil {
		return nil, err
	}
	m := dynamicpb.NewMessage(d)
	if err := (gproto.UnmarshalOptions{}).Unmarshal(b, m); err != nil {
		return nil, err
	}
	return refTree(shape, m), nil
}

// refEncode re-encodes bytes through the reference implementation (deterministic marshalling)
func refEncode(shape []pField, b []byte) ([]byte, error) {
	d, err := refDescriptor(shape)
	if err != nil {
		return nil, err
	}
	m := dynamicpb.NewMessage(d)
	if err := (gproto.UnmarshalOptions{}).Unmarshal(b, m); err != nil {
		return nil, err
	}
	return gproto.MarshalOptions{Deterministic: true}.Marshal(m)
}
