package main

// C05 - json.Valid and every syntax-only path accept exactly RFC 8259 JSON.
//
// Vectors come from spec/JsonGrammar.tla (Gen_JsonGrammar.cfg): one record per
// viable prefix of the JSON language over byte classes, with the spec's verdict
// (accept), the classes that kill the prefix, one completion, and the verdicts
// of four wrapped documents.  Every syntax-only consumer of the package must
// agree with the specification on every lifted document; encoding/json.Valid
// must agree with the specification too (else the spec is wrong: SPEC-ERROR).

import (
	"bytes"
	"encoding/hex"
	stdjson "encoding/json"
	"io"
	"strings"

	"github.com/segmentio/encoding/json"
)

type grammarVec struct {
	D  []string        `json:"d"`
	A  bool            `json:"a"`
	K  []string        `json:"k"`
	C  []string        `json:"c"`
	M  string          `json:"m"`
	N  int             `json:"n"`
	WV map[string]bool `json:"w"`
	MD int             `json:"md"` // deepest nesting the document reaches
	// insertions into a complete document (class c inserted before symbol p+1) with the verdicts of the wrapped results
	Ins []struct {
		P int             `json:"p"`
		C string          `json:"c"`
		W map[string]bool `json:"w"`
	} `json:"ins"`
}

type c05Case struct {
	API string `json:"api"`
	Doc string `json:"doc"` // hex
	Acc bool   `json:"acc"`
}

// classBytes maps a byte class of the specification to its concrete bytes
// (first = canonical representative).
var classBytes = map[string][]byte{}

func init() {
	single := "{}[]:,\"\\/truefalsnbE0-+."
	used := map[byte]bool{}
	for i := 0; i < len(single); i++ {
		c := single[i]
		classBytes[string(c)] = []byte{c}
		used[c] = true
	}
	classBytes["h"] = []byte("cdABCDF")
	classBytes["1"] = []byte("123456789")
	classBytes["S"] = []byte{' '}
	classBytes["W"] = []byte{'\n', '\t', '\r'}
	for _, k := range []string{"h", "1", "S", "W"} {
		for _, c := range classBytes[k] {
			used[c] = true
		}
	}
	var ctl []byte
	for c := 0; c < 0x20; c++ {
		if !used[byte(c)] {
			ctl = append(ctl, byte(c))
			used[byte(c)] = true
		}
	}
	classBytes["C"] = ctl
	x := []byte{'x'}
	used['x'] = true
	for c := 0x20; c < 0x100; c++ {
		if !used[byte(c)] {
			x = append(x, byte(c))
		}
	}
	classBytes["x"] = x
}

// liftDoc turns a class sequence into bytes. pick(i, class) chooses the
// representative; stretch > 0 inserts that many plain bytes after each opening
// quote (legal by the lemma PlainInStringStutters) and widens whitespace runs
// (WhitespaceStutters).
func liftDoc(classes []string, pick func(i int, alts []byte) byte, stretch int, fill byte) []byte {
	var b []byte
	inStr, esc, hexn := false, false, 0
	for i, c := range classes {
		alts := classBytes[c]
		ch := alts[0]
		if pick != nil && len(alts) > 1 {
			ch = pick(i, alts)
		}
		b = append(b, ch)
		switch {
		case !inStr:
			if c == "\"" {
				inStr = true
				for k := 0; k < stretch; k++ {
					b = append(b, fill)
				}
			} else if (c == "S" || c == "W") && stretch > 0 {
				for k := 0; k < stretch; k++ {
					b = append(b, ch)
				}
			}
		case hexn > 0:
			hexn--
		case esc:
			esc = false
			if c == "u" {
				hexn = 4
			}
		case c == "\\":
			esc = true
		case c == "\"":
			inStr = false
		}
	}
	return b
}

// inStringAfter: whether a class sequence ends inside a string
func inStringAfter(classes []string) bool {
	inStr, esc := false, false
	for _, c := range classes {
		switch {
		case !inStr:
			inStr = c == "\""
		case esc:
			esc = false
		case c == "\\":
			esc = true
		case c == "\"":
			inStr = false
		}
	}
	return inStr
}

// c05Among: b as one of several raw messages of a map, under the given key
func c05Among(b []byte, key string) bool {
	m := map[string]json.RawMessage{"b": json.RawMessage(`1`), "n": json.RawMessage(`[2]`), "y": json.RawMessage(`{"k":3}`)}
	m[key] = b
	_, err := json.Marshal(m)
	return err == nil
}

type marshalerOf struct{ b []byte }

func (m marshalerOf) MarshalJSON() ([]byte, error) { return m.b, nil }

type synConsumer struct {
	name string
	// accepts reports whether the package treated doc as a well-formed JSON document
	accepts func(doc []byte) bool
	// skipEmpty: consumer is not defined on the empty document (nil RawMessage encodes as null)
	skipEmpty bool
}

var c05Consumers = []synConsumer{
	{"Valid", func(b []byte) bool { return json.Valid(b) }, false},
	{"Marshal(RawMessage)", func(b []byte) bool { _, err := json.Marshal(json.RawMessage(b)); return err == nil }, true},
	{"Marshal(*RawMessage)", func(b []byte) bool { r := json.RawMessage(b); _, err := json.Marshal(&r); return err == nil }, true},
	{"Marshal(struct{RawMessage})", func(b []byte) bool {
		_, err := json.Marshal(struct{ R json.RawMessage }{b})
		return err == nil
	}, true},
	{"Marshal(map[string]RawMessage)", func(b []byte) bool {
		_, err := json.Marshal(map[string]json.RawMessage{"a": b})
		return err == nil
	}, true},
	// several entries, the one under test first, in the middle and last in key order: every entry is checked
	{"Marshal(map[string]RawMessage, first of several)", func(b []byte) bool { return c05Among(b, "a") }, true},
	{"Marshal(map[string]RawMessage, one of several)", func(b []byte) bool { return c05Among(b, "m") }, true},
	{"Marshal(map[string]RawMessage, last of several)", func(b []byte) bool { return c05Among(b, "z") }, true},
	{"Marshal([]RawMessage, one of several)", func(b []byte) bool {
		_, err := json.Marshal([]json.RawMessage{json.RawMessage(`1`), b, json.RawMessage(`2`)})
		return err == nil
	}, true},
	{"Marshal(struct{RawMessage;Marshaler;RawMessage})", func(b []byte) bool {
		_, err := json.Marshal(struct {
			A json.RawMessage
			B marshalerOf
			C json.RawMessage
		}{b, marshalerOf{[]byte(`1`)}, json.RawMessage(`2`)})
		return err == nil
	}, true},
	{"Marshal(map[string]Marshaler, first of two)", func(b []byte) bool {
		_, err := json.Marshal(map[string]marshalerOf{"a": {b}, "b": {[]byte(`1`)}})
		return err == nil
	}, true},
	{"Append(map[string]RawMessage,unsorted)", func(b []byte) bool {
		_, err := json.Append(nil, map[string]json.RawMessage{"a": b}, json.EscapeHTML)
		return err == nil
	}, true},
	{"Marshal(Marshaler)", func(b []byte) bool { _, err := json.Marshal(marshalerOf{b}); return err == nil }, true},
	// TrustRawMessage is about RawMessage values: what a MarshalJSON method returns is checked all the same
	{"Append(Marshaler,TrustRawMessage)", func(b []byte) bool {
		_, err := json.Append(nil, marshalerOf{b}, json.TrustRawMessage|json.EscapeHTML|json.SortMapKeys)
		return err == nil
	}, true},
	{"Append(struct{Marshaler;RawMessage},TrustRawMessage)", func(b []byte) bool {
		_, err := json.Append(nil, struct {
			M marshalerOf
			R json.RawMessage
		}{marshalerOf{b}, json.RawMessage(`{"ok":true}`)}, json.TrustRawMessage)
		return err == nil
	}, true},
	{"Encoder.SetTrustRawMessage(true).Encode(*Marshaler)", func(b []byte) bool {
		var w bytes.Buffer
		e := json.NewEncoder(&w)
		e.SetTrustRawMessage(true)
		return e.Encode(&marshalerOf{b}) == nil
	}, true},
	{"Marshal(*Marshaler)", func(b []byte) bool { _, err := json.Marshal(&marshalerOf{b}); return err == nil }, true},
	{"Unmarshal(*RawMessage)", func(b []byte) bool { var r json.RawMessage; return json.Unmarshal(b, &r) == nil }, false},
	{"Unmarshal(*any)", func(b []byte) bool { var r any; return json.Unmarshal(b, &r) == nil }, false},
	{"Unmarshal(*Unmarshaler)", func(b []byte) bool { var r anyUnmarshaler; return json.Unmarshal(b, &r) == nil }, false},
	{"Parse(*RawMessage,ZeroCopy)", func(b []byte) bool {
		var r json.RawMessage
		rest, err := json.Parse(b, &r, json.ZeroCopy)
		return err == nil && len(rest) == 0
	}, false},
	{"Decoder.Decode(*RawMessage)+EOF", func(b []byte) bool {
		d := json.NewDecoder(bytes.NewReader(b))
		var r json.RawMessage
		if d.Decode(&r) != nil {
			return false
		}
		var r2 json.RawMessage
		return d.Decode(&r2) == io.EOF
	}, false},
	// the same framing when the value straddles a refill of the Decoder's buffer
	straddle("first byte", func(n int) int { return 1 }),
	straddle("first third", func(n int) int { return n / 3 }),
	straddle("half", func(n int) int { return n / 2 }),
	straddle("all but two bytes", func(n int) int { return n - 2 }),
	straddle("all but the last byte", func(n int) int { return n - 1 }),
	{"Tokenizer(no error)", nil, false}, // placeholder: the Tokenizer is deliberately lenient (see C17); not a syntax checker
}

// typedConsumers: consumers that decode as well as check syntax, with the
// standard library's verdict for the same target.
var typedConsumers = map[string]func([]byte) bool{
	"Unmarshal(*any)":                     func(b []byte) bool { var r any; return stdjson.Unmarshal(b, &r) == nil },
	"Unmarshal([doc],*[]any)":             func(b []byte) bool { var r []any; return stdjson.Unmarshal(b, &r) == nil },
	"Unmarshal([doc,\"\\n\u00e9\"],*any)": func(b []byte) bool { var r any; return stdjson.Unmarshal(b, &r) == nil },
}

// straddle: the Decoder reads its input in fills of the buffer's capacity (32 KiB at first), whatever the
// reader returns; a first value is sized so that exactly at(len(doc)) bytes of doc arrive with the first fill
// and the rest with the next one (after compaction).
func straddle(name string, at func(n int) int) synConsumer {
	return synConsumer{"Decoder.Decode(*RawMessage)+EOF, document split by a buffer refill: " + name, func(b []byte) bool {
		p := at(len(b))
		if p < 0 {
			p = 0
		}
		const fill = 32768
		if p > fill-16 {
			p = fill - 16 // a document longer than the buffer: cut where the first fill ends
		}
		pad := make([]byte, 0, fill+len(b))
		pad = append(pad, '"')
		for len(pad) < fill-p-2 {
			pad = append(pad, 'a')
		}
		pad = append(pad, '"', '\n')
		d := json.NewDecoder(bytes.NewReader(append(pad, b...)))
		var r0, r, r2 json.RawMessage
		if d.Decode(&r0) != nil || len(r0) != fill-p-1 {
			return false
		}
		if d.Decode(&r) != nil {
			return false
		}
		return d.Decode(&r2) == io.EOF
	}, false}
}

type anyUnmarshaler struct{ got []byte }

func (a *anyUnmarshaler) UnmarshalJSON(b []byte) error { a.got = append([]byte(nil), b...); return nil }

// wrappers: the specification computes the verdict of the *wrapped* class
// sequence itself (WrapVerdicts), so these expectations are exact.
type wrapConsumer struct {
	name    string
	wrap    string // key into grammarVec.WV
	pre     string
	post    string
	accepts func(doc []byte) bool
}

// a document longer than the Decoder's buffer: several refills inside one value (whitespace is
// inserted where the grammar allows it: WhitespaceStutters)
var longGap = strings.Repeat(" ", 40000)

var c05Wrappers = []wrapConsumer{
	{"Decoder.Decode([0,<40000 spaces>doc],*RawMessage)+EOF", "a2", `[0,` + longGap, `]`, func(b []byte) bool {
		d := json.NewDecoder(bytes.NewReader(b))
		var r, r2 json.RawMessage
		return d.Decode(&r) == nil && d.Decode(&r2) == io.EOF
	}},
	{"Unmarshal({\"x\":doc},*struct{})", "o", `{"x":`, `}`, func(b []byte) bool { var t struct{}; return json.Unmarshal(b, &t) == nil }},
	{"Unmarshal({\"x\":doc},*struct{A int})", "o", `{"x":`, `}`, func(b []byte) bool {
		var t struct{ A int }
		return json.Unmarshal(b, &t) == nil
	}},
	{"Unmarshal({\"x\":doc},*map[string]RawMessage)", "o", `{"x":`, `}`, func(b []byte) bool {
		var t map[string]json.RawMessage
		return json.Unmarshal(b, &t) == nil
	}},
	{"Valid({\"x\":doc})", "o", `{"x":`, `}`, func(b []byte) bool { return json.Valid(b) }},
	{"Unmarshal([doc],*[0]int)", "a1", `[`, `]`, func(b []byte) bool { var t [0]int; return json.Unmarshal(b, &t) == nil }},
	{"Unmarshal([doc],*[]RawMessage)", "a1", `[`, `]`, func(b []byte) bool { var t []json.RawMessage; return json.Unmarshal(b, &t) == nil }},
	{"Unmarshal([doc],*[1]RawMessage)", "a1", `[`, `]`, func(b []byte) bool { var t [1]json.RawMessage; return json.Unmarshal(b, &t) == nil }},
	{"Unmarshal([doc],*[]any)", "a1", `[`, `]`, func(b []byte) bool { var t []any; return json.Unmarshal(b, &t) == nil }},
	{"Unmarshal([0,doc],*[1]int)", "a2", `[0,`, `]`, func(b []byte) bool { var t [1]int; return json.Unmarshal(b, &t) == nil }},
	{"Unmarshal([0,doc],*[0]int)", "a2", `[0,`, `]`, func(b []byte) bool { var t [0]int; return json.Unmarshal(b, &t) == nil }},
	{"Unmarshal([0,doc],*[2]RawMessage)", "a2", `[0,`, `]`, func(b []byte) bool { var t [2]json.RawMessage; return json.Unmarshal(b, &t) == nil }},
	{"Valid([doc,\"\\nx\"])", "t", `[`, `,"\nx"]`, func(b []byte) bool { return json.Valid(b) }},
	{"Unmarshal([doc,\"\\n\u00e9\"],*any)", "t", `[`, ",\"\\n\u00e9\"]", func(b []byte) bool { var t any; return json.Unmarshal(b, &t) == nil }},
}

func verdict(b bool) string {
	if b {
		return "accept"
	}
	return "reject"
}

func c05Check(c *Ctx, api string, f func([]byte) bool, doc []byte, acc bool, tags ...string) {
	var got bool
	p := protect(func() { got = f(doc) })
	c.Eval(1)
	if acc && !got && p == "" && typedConsumers[api] != nil && !typedConsumers[api](doc) {
		// the consumer also decodes: a well-formed document may still be rejected for a
		// reason other than syntax (1e400 does not fit a float64); only count the rejection
		// if encoding/json accepts the same document into the same target
		return
	}
	if p != "" {
		c.Diverge("C05", api, verdict(acc), p, c05Finding(api, doc, acc, p), c05Case{api, hex.EncodeToString(doc), acc}, tags...)
		return
	}
	if got != acc {
		c.Diverge("C05", api, verdict(acc), verdict(got), c05Finding(api, doc, acc, verdict(got)), c05Case{api, hex.EncodeToString(doc), acc}, tags...)
	}
}

// c05Finding names the known-findings predicate (if any) that this divergence falls under.
// Predicates are as narrow as the recorded defect; anything else stays unclassified
// and is reported as a violation.
func c05Finding(api string, doc []byte, acc bool, got string) string {
	return ""
}

func c05All(c *Ctx, doc []byte, acc bool, full bool, tags ...string) {
	// REF: the standard library must agree with the specification.
	if stdjson.Valid(doc) != acc {
		c.SpecError("C05", "encoding/json.Valid disagrees with JsonGrammar: spec="+verdict(acc), c05Case{"ref", hex.EncodeToString(doc), acc})
		return
	}
	for i, k := range c05Consumers {
		if k.accepts == nil || (k.skipEmpty && len(doc) == 0) {
			continue
		}
		if !full && i > 0 {
			break
		}
		c05Check(c, k.name, k.accepts, doc, acc, tags...)
	}
}

// c05Literal: a sequence of literal units of spec/JsonString.tla (well formed or broken, as the specification says) as a
// document, an element, a member value and a member name through every syntax-only consumer
func c05Literal(c *Ctx, v *strVec) {
	c.Nontrivial()
	for _, vr := range []int{int(c.Seed), int(c.Seed) + 1} {
		lits, _, ok := renderLit(v, vr)
		if !ok {
			c.SpecError("C05", "unknown literal unit", v)
			return
		}
		for _, front := range []int{0, 3, 8, 13} {
			doc := `"` + strings.Repeat(strPad, front) + strings.Join(lits, "") + `"`
			if stdjson.Valid([]byte(doc)) != v.OK {
				c.SpecError("C05", "encoding/json.Valid disagrees with JsonString.WellFormed on "+doc, v)
				return
			}
			c.Case()
			c05All(c, []byte(doc), v.OK, true, "literal")
			c05All(c, []byte("["+doc+"]"), v.OK, false, "literal")
			c05All(c, []byte(`{"k":`+doc+`,"l":1}`), v.OK, false, "literal")
			c05All(c, []byte("{"+doc+":1}"), v.OK, false, "literal")
		}
	}
}

func c05Vector(c *Ctx, raw stdjson.RawMessage) {
	var sv strVec
	if stdjson.Unmarshal(raw, &sv) == nil && sv.Dir == "unesc" {
		c05Literal(c, &sv)
		return
	}
	var v grammarVec
	if err := stdjson.Unmarshal(raw, &v); err != nil {
		c.SpecError("C05", "bad vector: "+err.Error(), string(raw))
		return
	}
	r := newRng(c.Seed, string(raw))
	tag := "m=" + v.M
	c.Tag(tag)
	c.Nontrivial()
	pickRnd := func(i int, alts []byte) byte { return alts[r.intn(len(alts))] }
	// 1. canonical lifting, and a seeded alternative lifting: every consumer
	docs := [][]byte{liftDoc(v.D, nil, 0, 'x'), liftDoc(v.D, pickRnd, 0, 'x')}
	// stretched liftings: the string bodies grow past the 8- and 16-byte word scans
	for _, n := range []int{5 + r.intn(4), 13 + r.intn(6), 29 + r.intn(8)} {
		fill := []byte{'x', ' ', 0xc3, '/', '<'}[r.intn(5)]
		docs = append(docs, liftDoc(v.D, pickRnd, n, fill))
	}
	for i, d := range docs {
		c.Case()
		if i < 2 && len(c.sum.Samples) < 3 {
			c.Sample(map[string]any{"classes": v.D, "doc": string(d), "accept": v.A, "kills": v.K})
		}
		c05All(c, d, v.A, true, tag)
		for _, w := range c05Wrappers {
			want, ok := v.WV[w.wrap]
			if !ok {
				continue
			}
			wd := append(append([]byte(w.pre), d...), w.post...)
			if stdjson.Valid(wd) != want {
				c.SpecError("C05", "encoding/json.Valid disagrees with JsonGrammar on wrapper "+w.wrap, c05Case{w.name, hex.EncodeToString(wd), want})
				continue
			}
			c05Check(c, w.name, w.accepts, wd, want, tag, "wrap="+w.wrap)
		}
	}
	// 1a'. white space is scanned in runs: each white space position of an accepted document widened to a run of
	// 8 .. 17 equal bytes stays accepted, and the same run with one byte that is no white space inside it (NUL, another
	// control byte, 0xa0, DEL) - at the front, in the middle of a word, at its end - is rejected
	if v.A {
		for i, cl := range v.D {
			if cl != "S" && cl != "W" {
				continue
			}
			n := 8 + r.intn(10)
			pre := liftDoc(v.D[:i], nil, 0, 'x')
			post := liftDoc(v.D[i+1:], nil, 0, 'x')
			if inStringAfter(v.D[:i]) {
				continue // a blank inside a string is content, not white space
			}
			ws := classBytes[cl][r.intn(len(classBytes[cl]))]
			run := bytes.Repeat([]byte{ws}, n)
			good := append(append(append([]byte(nil), pre...), run...), post...)
			c.Case()
			c05All(c, good, true, true, tag, "ws-run")
			for _, at := range []int{0, 1, 3, 7, 8, n - 1} {
				if at >= n {
					continue
				}
				for _, bad := range []byte{0x00, 0x01, 0x0b, 0x0c, 0x1f, 0x7f, 0xa0} {
					d := append([]byte(nil), good...)
					d[len(pre)+at] = bad
					c05All(c, d, false, at == 3 && bad == 0, tag, "ws-run-poisoned")
				}
			}
			break // one white space position per document
		}
	}
	// 1b. a killing class inserted inside a complete document, the rest of the document following: not JSON
	// on its own; embedded in an array or an object as the specification says (typed targets that skip values
	// must enforce the same language).  All structural insertions, a seeded choice of the others.
	for _, in := range v.Ins {
		structural := strings.Contains(",:[]{}\"", in.C)
		if !structural && r.intn(6) != 0 {
			continue
		}
		cls := append(append(append([]string(nil), v.D[:in.P]...), in.C), v.D[in.P:]...)
		d := liftDoc(cls, pickRnd, 0, 'x')
		c.Case()
		c05All(c, d, false, structural, tag, "insert="+in.C)
		for _, w := range c05Wrappers {
			want, ok := in.W[w.wrap]
			if !ok {
				continue
			}
			wd := append(append([]byte(w.pre), d...), w.post...)
			if stdjson.Valid(wd) != want {
				c.SpecError("C05", "encoding/json.Valid disagrees with JsonGrammar on a wrapped insertion "+w.wrap, c05Case{w.name, hex.EncodeToString(wd), want})
				continue
			}
			c05Check(c, w.name, w.accepts, wd, want, tag, "wrap="+w.wrap, "insert="+in.C)
		}
	}
	// 1d. the depth limit (DepthLifting): a complete document wrapped in as many containers as take its deepest
	// nesting to exactly 10000 is a document, with one more it is not - whatever the innermost value looks like
	if v.A && len(v.D) > 0 && (len(v.D) <= 3 || r.intn(30) == 0) {
		inner := liftDoc(v.D, pickRnd, 0, 'x')
		for _, lim := range []struct {
			k   int
			acc bool
		}{{10000 - v.MD, true}, {10001 - v.MD, false}} {
			for wi, w := range [][2]string{{"[", "]"}, {`{"a":`, "}"}, {`[{"b":`, "}]"}} {
				k := lim.k
				if wi == 2 {
					if k%2 != 0 {
						continue
					}
					k /= 2
				}
				d := append([]byte(strings.Repeat(w[0], k)), inner...)
				d = append(d, strings.Repeat(w[1], k)...)
				c.Case()
				c05All(c, d, lim.acc, true, tag, "depth-limit")
				// the same limit where a part of the document is checked on its own (a RawMessage below the first
				// level, a skipped member or element): the levels above it count
				if k > 1 && wi < 2 && (len(v.D) <= 2 || r.intn(4) == 0) {
					d1 := append([]byte(strings.Repeat(w[0], k-1)), inner...)
					d1 = append(d1, strings.Repeat(w[1], k-1)...)
					for _, wr := range c05Wrappers {
						if strings.Contains(wr.pre, longGap) {
							continue
						}
						wd := append(append([]byte(wr.pre), d1...), wr.post...)
						if stdjson.Valid(wd) != lim.acc {
							c.SpecError("C05", "encoding/json.Valid disagrees with the depth lifting on a wrapped document "+wr.wrap, c05Case{wr.name, "", lim.acc})
							continue
						}
						c05Check(c, wr.name, wr.accepts, wd, lim.acc, tag, "depth-limit", "wrap="+wr.wrap)
					}
				}
			}
		}
	}
	// 1c. inside a string: a killing byte (a control character, an invalid escape) at every distance from the
	// opening quote and from the closing quote, with enough bytes behind the string for the word-at-a-time scans
	// (plain bytes in a string stutter: PlainInStringStutters; a dead prefix stays dead)
	if v.M == "S" && (len(v.D) <= 2 || r.intn(6) == 0) {
		base0 := liftDoc(v.D, nil, 0, 'x')
		comp0 := liftDoc(v.C, nil, 0, 'x')
		for _, kc := range v.K {
			if kc != "C" {
				continue
			}
			kb := classBytes[kc][r.intn(len(classBytes[kc]))]
			for a := 0; a <= 17; a++ {
				for _, bb := range []int{0, 1, 6, 7, 8, 9, 15, 16, 17} {
					if a+bb > 24 && r.intn(3) != 0 {
						continue
					}
					d := append([]byte(nil), base0...)
					d = append(d, bytes.Repeat([]byte{'x'}, a)...)
					d = append(d, kb)
					d = append(d, bytes.Repeat([]byte{'y'}, bb)...)
					d = append(d, comp0...)
					d = append(d, "                        "...)
					c.Case()
					c05All(c, d, false, a%4 == 0 && bb < 2, tag, "kill-in-string="+kc)
				}
			}
		}
	}
	// 2. every killing class, every representative byte: doc+k and doc+k+completion are not JSON
	comp := liftDoc(v.C, nil, 0, 'x')
	base := docs[0]
	for _, k := range v.K {
		alts := classBytes[k]
		fullAt := r.intn(len(alts))
		for ai, kb := range alts {
			d1 := append(append([]byte(nil), base...), kb)
			d2 := append(append([]byte(nil), d1...), comp...)
			full := ai == fullAt
			c05All(c, d1, false, full, tag, "kill="+k)
			c05All(c, d2, false, full, tag, "kill="+k)
			c.Case()
		}
	}
}

func c05Replay(c *Ctx, raw stdjson.RawMessage) {
	var k c05Case
	if err := stdjson.Unmarshal(raw, &k); err != nil {
		return
	}
	doc, _ := hex.DecodeString(k.Doc)
	for _, s := range c05Consumers {
		if s.name == k.API && s.accepts != nil {
			c05Check(c, s.name, s.accepts, doc, k.Acc)
		}
	}
	for _, w := range c05Wrappers {
		if w.name == k.API {
			c05Check(c, w.name, w.accepts, doc, k.Acc)
		}
	}
}

func init() {
	register("C05", &Driver{Vector: c05Vector, Replay: c05Replay})
}
