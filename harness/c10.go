package main

// C10 - json memory ownership: inputs untouched, results stable, aliasing opt-in.
//
// Vectors from spec/JsonMemory.tla are histories of library calls and caller
// actions with, after every step, the set of earlier results that may have
// changed (those allowed to alias an input that has been overwritten).  The
// harness executes each history on the real package, snapshots every result
// and every lent input, and compares after every step.

import (
	"bytes"
	stdjson "encoding/json"
	"fmt"
	"strings"

	"github.com/segmentio/encoding/json"
)

type memVec struct {
	Hist []struct {
		Op string `json:"op"`
		K  int    `json:"k"`
		ZC bool   `json:"zc"`
		T  string `json:"t"`  // decode: kind of target (struct | raw | any)
		At string `json:"at"` // decode: the value ends inside the buffered data | at its end while more is to come
	} `json:"hist"`
	May [][]int `json:"may"`
}

type memTarget struct {
	S string
	U string // non-ASCII, no escape
	E string // a string that needs unescaping: always a copy
	N json.Number
	R json.RawMessage
	B []byte
	M map[string]string
	A any
	P *string
	L []string
}

func (t *memTarget) dump() string {
	p := "<nil>"
	if t.P != nil {
		p = *t.P
	}
	return fmt.Sprintf("%q|%q|%q|%q|%q|%q|%q|%#v|%q|%q", t.S, t.U, t.E, string(t.N), string(t.R), string(t.B), fmt.Sprint(t.M), t.A, p, t.L)
}

func memDoc(k int) []byte {
	return []byte(fmt.Sprintf(`{"S":"plain string number %d long enough to matter","U":"héllo wörld ünïcödé no escapes %d","E":"esc\né %d","N":12345678%d,"R":{"raw":[%d,"x"]},"B":"aGVsbG8gd29ybGQ=",`+
		`"M":{"key%d":"value%d","k2":"v2","clé é":"vàlue"},"A":{"any":["str%d",1.5,{"deep":"s","ünï":"çödé"}]},"P":"pointer %d","L":["l%d","sécond"]}`, k, k, k, k, k, k, k, k, k, k))
}

type memResult struct {
	get  func() string
	snap string
}

type c10Case struct {
	Vec  memVec `json:"vec"`
	Step int    `json:"step"`
}

func c10Run(c *Ctx, v memVec) {
	fail := func(step int, api, w, g string) { c.Diverge("C10", api, w, g, "", c10Case{v, step}) }
	inputs := map[int][]byte{}
	expect := map[int][]byte{}
	// the Decoder's stream arrives in pieces, each handed over together with an error of the transient kind (which ends
	// the Decoder's attempt to fill its buffer): a piece ends behind every value that the history wants to end where
	// the buffered data ends ("end"); values wanted "inside" share their piece with what follows
	var ends []bool
	for _, a := range v.Hist {
		switch a.Op {
		case "decode":
			ends = append(ends, a.At == "end")
		case "churn":
			ends = append(ends, make([]bool, 9)...)
		}
	}
	var pieces [][]byte
	var piece bytes.Buffer
	for i, n := 0, 0; i < 40; i++ {
		flush := func() {
			if n < len(ends) && ends[n] {
				pieces = append(pieces, append([]byte(nil), piece.Bytes()...))
				piece.Reset()
			}
			n++
		}
		piece.Write(memDoc(100 + i))
		piece.WriteString("\n  ")
		flush()
		if i%7 == 3 { // a value larger than the read quantum and the initial buffer: forces regrowth
			piece.WriteString(`{"S":"` + strings.Repeat("z", 40000) + `"}` + "\n")
			flush()
		}
	}
	pieces = append(pieces, piece.Bytes())
	dec := json.NewDecoder(&pieceReader{pieces: pieces, withErr: true})
	var results []memResult
	add := func(get func() string) { results = append(results, memResult{get, get()}) }
	input := func(k int) []byte {
		if _, ok := inputs[k]; !ok {
			inputs[k] = memDoc(k)
			expect[k] = append([]byte(nil), inputs[k]...)
		}
		return inputs[k]
	}
	for step, a := range v.Hist {
		c.Eval(1)
		switch a.Op {
		case "marshal":
			val := map[string]any{"step": step, "s": strings.Repeat("m", 100+step), "l": []int{1, 2, 3}}
			b, err := json.Marshal(val)
			if err != nil {
				return
			}
			add(func() string { return string(b) })
			var w bytes.Buffer
			if json.NewEncoder(&w).Encode(val) == nil {
				add(func() string { return w.String() })
			}
		case "unmarshal":
			in := input(a.K)
			t := &memTarget{}
			var fl json.ParseFlags
			if a.ZC {
				fl = json.ZeroCopy
			}
			if _, err := json.Parse(in, t, fl); err != nil {
				fail(step, "json.Parse", "nil error", err.Error())
				return
			}
			add(t.dump)
			if !a.ZC {
				t2 := &memTarget{}
				if json.Unmarshal(in, t2) == nil {
					add(t2.dump)
				}
			}
		case "decode":
			// the kind of target is the history's: a struct with every kind of field, a top-level RawMessage, a
			// value in an interface
			switch a.T {
			case "raw":
				var r json.RawMessage
				if err := dec.Decode(&r); err != nil {
					continue // stream exhausted
				}
				add(func() string { return string(r) })
			case "any":
				var x any
				if err := dec.Decode(&x); err != nil {
					continue
				}
				add(func() string { return fmt.Sprint(x) })
			default:
				t := &memTarget{}
				if err := dec.Decode(t); err != nil {
					continue
				}
				add(t.dump)
			}
		case "tokstring":
			in := input(a.K)
			tok := json.NewTokenizer(in)
			var kept [][]byte
			var snaps []string
			for tok.Next() {
				if tok.Kind().Class() == json.String {
					b := tok.String()
					kept = append(kept, b)
					snaps = append(snaps, string(b)) // what was handed out, at the moment it was handed out
				}
			}
			for i := range kept {
				if string(kept[i]) != snaps[i] {
					fail(step, "Tokenizer.String", "a result unchanged by later String calls: "+clipS(snaps[i]), clipS(string(kept[i])))
					return
				}
			}
			add(func() string { return fmt.Sprintf("%q", kept) })
		case "overwrite":
			in := input(a.K)
			for i := range in {
				in[i] = 'X'
			}
			copy(expect[a.K], in)
		case "churn":
			for i := 0; i < 64; i++ {
				json.Marshal(map[string]any{"churn": i, "pad": strings.Repeat("c", i*37)})
			}
			var w bytes.Buffer
			e := json.NewEncoder(&w)
			for i := 0; i < 8; i++ {
				e.Encode([]string{strings.Repeat("e", 500*i)})
			}
			for i := 0; i < 9; i++ {
				var skip any
				if dec.Decode(&skip) != nil {
					break
				}
			}
		}
		// "any further library call": a few encodes after every step, so that pooled buffers are re-acquired
		// by this very goroutine (makes a result that still points into a pooled buffer change deterministically)
		for i := 0; i < 4; i++ {
			json.Marshal([]string{strings.Repeat("~", 50*(i+1)+step)})
		}
		// no library call may change a lent input
		for k, in := range inputs {
			if !bytes.Equal(in, expect[k]) {
				fail(step, "input of "+a.Op, "lent input unchanged", fmt.Sprintf("input %d modified after step %d (%s)", k, step, a.Op))
				return
			}
		}
		// earlier results keep their contents unless the specification allows them to alias an overwritten input
		allowed := map[int]bool{}
		if step < len(v.May) {
			for _, i := range v.May[step] {
				allowed[i] = true
			}
		}
		// results are indexed by the specification per result-producing action; the harness may record two
		// results for one action (Marshal+Encode, Parse+Unmarshal): map harness results to spec indices
		specIdx := 0
		hi := 0
		for j := 0; j <= step; j++ {
			op := v.Hist[j].Op
			if op != "marshal" && op != "unmarshal" && op != "decode" && op != "tokstring" {
				continue
			}
			specIdx++
			n := 1
			if op == "marshal" || (op == "unmarshal" && !v.Hist[j].ZC) {
				n = 2
			}
			for x := 0; x < n && hi < len(results); x++ {
				r := results[hi]
				hi++
				if cur := r.get(); cur != r.snap && !allowed[specIdx] {
					fail(step, "result of "+op, "unchanged after "+a.Op+": "+clipS(r.snap), clipS(cur))
					return
				}
			}
		}
	}
}

func c10Vector(c *Ctx, raw stdjson.RawMessage) {
	var v memVec
	if err := stdjson.Unmarshal(raw, &v); err != nil || len(v.Hist) == 0 {
		var jv jsonVec
		if stdjson.Unmarshal(raw, &jv) == nil && jv.Shape != nil {
			c.Nontrivial()
			c10Wide(c, jv.Shape)
		}
		return
	}
	c.Nontrivial()
	c.Case()
	c10Run(c, v)
	if len(c.sum.Samples) < 2 {
		c.Sample(v)
	}
}

func c10Replay(c *Ctx, raw stdjson.RawMessage) {
	var w c10WideCase
	if stdjson.Unmarshal(raw, &w) == nil && (w.Shape != nil || w.Val > 100000 || w.Val == -7 || w.Val == -8 || w.Val == -9 || w.Val == -10) {
		c10WideReplay(c, w)
		return
	}
	var k c10Case
	if stdjson.Unmarshal(raw, &k) == nil {
		c10Run(c, k.Vec)
	}
}

func init() {
	register("C10", &Driver{Vector: c10Vector, Replay: c10Replay})
}
