package main

// C18 - iso8601.Parse agrees with time.Parse(RFC3339Nano); Valid is its grammar.
//
// Vectors from spec/Iso8601.tla: class strings (every grammatical shape, every
// single edit) with the flag set their only parse needs.  Valid is checked for
// all 32 flag sets against the specification; Parse against time.Parse, the
// oracle the property names.  The vector-independent part sweeps every byte at
// every position of the 20..30 byte fast-path shapes, every calendar date
// (impossible ones included), every second of a day and every fraction length.

import (
	stdjson "encoding/json"
	"fmt"
	"strings"
	"testing"
	"time"

	"github.com/segmentio/encoding/iso8601"
	"github.com/segmentio/encoding/json"
)

type isoVec struct {
	S   []string `json:"s"`
	OK  bool     `json:"ok"`
	Req []string `json:"req"`
}

type c18Case struct {
	API string `json:"api"`
	S   string `json:"s"` // hex-free: Go-quoted string
	F   int    `json:"flags"`
	Exp bool   `json:"want"`
}

var isoFlagBits = map[string]iso8601.ValidFlags{
	"sp": iso8601.AllowSpaceSeparator, "nt": iso8601.AllowMissingTime, "ns": iso8601.AllowMissingSubsecond,
	"nz": iso8601.AllowMissingTimezone, "nc": iso8601.AllowNumericTimezone,
}

var isoAllFlags = []iso8601.ValidFlags{iso8601.AllowSpaceSeparator, iso8601.AllowMissingTime, iso8601.AllowMissingSubsecond,
	iso8601.AllowMissingTimezone, iso8601.AllowNumericTimezone}

const isoTemplate = "2021-03-25T21:36:12.123456789+01:30"

var isoOther = []byte{'x', 't', 'z', '/', ',', ';', 0x00, 0x7f, 0x80, 0xff, '_', 'U', '[', '>', '?', '*', '\\', '"'}

func liftIso(classes []string, r *rng, plausible bool) string {
	b := make([]byte, len(classes))
	for i, c := range classes {
		switch c {
		case "d":
			if plausible && i < len(isoTemplate) && isoTemplate[i] >= '0' && isoTemplate[i] <= '9' {
				b[i] = isoTemplate[i]
			} else if plausible {
				b[i] = '0'
			} else {
				b[i] = byte('0' + r.intn(10))
			}
		case "-":
			b[i] = '-'
		case "T":
			b[i] = 'T'
		case "S":
			b[i] = ' '
		case "c":
			b[i] = ':'
		case ".":
			b[i] = '.'
		case "Z":
			b[i] = 'Z'
		case "+":
			b[i] = '+'
		default:
			b[i] = isoOther[r.intn(len(isoOther))]
		}
	}
	return string(b)
}

func c18Valid(c *Ctx, s string, f iso8601.ValidFlags, want bool) {
	var got bool
	c.Eval(1)
	if p := protect(func() { got = iso8601.Valid(s, f) }); p != "" {
		c.Diverge("C18", "iso8601.Valid", fmt.Sprint(want), p, "", c18Case{"Valid", s, int(f), want})
		return
	}
	if got != want {
		c.Diverge("C18", "iso8601.Valid", fmt.Sprint(want), fmt.Sprint(got), "", c18Case{"Valid", s, int(f), want})
	}
}

// c18Parse compares iso8601.Parse with time.Parse(time.RFC3339Nano, s)
// sameDateOtherTime: s with the seconds' last digit changed when s has the shape of a timestamp (else s itself)
func sameDateOtherTime(s string) string {
	if len(s) >= 19 && s[10] == 'T' && s[18] >= '0' && s[18] <= '9' {
		d := byte('0' + (s[18]-'0'+1)%10)
		return s[:18] + string(d) + s[19:]
	}
	return s
}

func c18Parse(c *Ctx, s string) {
	c.Eval(1)
	want, werr := time.Parse(time.RFC3339Nano, s)
	var got time.Time
	var gerr error
	if p := protect(func() { got, gerr = iso8601.Parse(s) }); p != "" {
		c.Diverge("C18", "iso8601.Parse", fmt.Sprintf("like time.Parse (err=%v)", werr), p, "", c18Case{API: "Parse", S: s})
		return
	}
	if (werr == nil) != (gerr == nil) {
		c.Diverge("C18", "iso8601.Parse", fmt.Sprintf("time.Parse: %v err=%v", want, werr), fmt.Sprintf("%v err=%v", got, gerr), "", c18Case{API: "Parse", S: s})
		return
	}
	// the same text once more, and a text with the same date and another time of day: Parse is a function of its
	// argument (nothing it learnt from the call before may show)
	for _, again := range []string{s, sameDateOtherTime(s)} {
		w2, werr2 := time.Parse(time.RFC3339Nano, again)
		var g2 time.Time
		var gerr2 error
		c.Eval(1)
		if p := protect(func() { g2, gerr2 = iso8601.Parse(again) }); p != "" || (werr2 == nil) != (gerr2 == nil) || (werr2 == nil && !w2.Equal(g2)) {
			c.Diverge("C18", "iso8601.Parse(right after a call with the same date)", fmt.Sprintf("time.Parse: %v err=%v", w2, werr2), fmt.Sprintf("%v err=%v %s", g2, gerr2, p), "",
				c18Case{API: "Parse", S: s})
			return
		}
	}
	if werr != nil {
		return
	}
	_, woff := want.Zone()
	_, goff := got.Zone()
	zUTC := !strings.HasSuffix(s, "Z") || got.Location() == time.UTC
	if !want.Equal(got) || woff != goff || !zUTC {
		c.Diverge("C18", "iso8601.Parse", fmt.Sprintf("%v (offset %d)", want, woff), fmt.Sprintf("%v (offset %d, loc %v)", got, goff, got.Location()), "", c18Case{API: "Parse", S: s})
	}
}

// c18JSON: json.Unmarshal into time.Time goes through iso8601.Parse
func c18JSON(c *Ctx, s string) {
	for i := 0; i < len(s); i++ {
		if s[i] < 0x20 || s[i] == '"' || s[i] == '\\' || s[i] >= 0x80 {
			return
		}
	}
	doc := []byte(`"` + s + `"`)
	var a, b time.Time
	werr := stdjson.Unmarshal(doc, &a)
	gerr := json.Unmarshal(doc, &b)
	c.Eval(1)
	if (werr == nil) != (gerr == nil) || (werr == nil && !a.Equal(b)) {
		c.Diverge("C18", "json.Unmarshal(*time.Time)", fmt.Sprintf("%v err=%v", a, werr), fmt.Sprintf("%v err=%v", b, gerr), "", c18Case{API: "JSON", S: s})
	}
}

func c18Vector(c *Ctx, raw stdjson.RawMessage) {
	var v isoVec
	if err := stdjson.Unmarshal(raw, &v); err != nil {
		return
	}
	c.Nontrivial()
	r := newRng(c.Seed, string(raw))
	var need iso8601.ValidFlags
	for _, f := range v.Req {
		need |= isoFlagBits[f]
	}
	for variant := 0; variant < 2; variant++ {
		s := liftIso(v.S, r, variant == 0)
		c.Case()
		for m := 0; m < 32; m++ {
			var f iso8601.ValidFlags
			for i, bit := range isoAllFlags {
				if m&(1<<i) != 0 {
					f |= bit
				}
			}
			c18Valid(c, s, f, v.OK && need&^f == 0)
		}
		c18Parse(c, s)
		c18JSON(c, s)
		if variant == 0 {
			c.Sample(map[string]any{"classes": strings.Join(v.S, ""), "string": s, "parses": v.OK, "needs": v.Req})
		}
	}
}

func c18Replay(c *Ctx, raw stdjson.RawMessage) {
	var k c18Case
	if stdjson.Unmarshal(raw, &k) != nil {
		return
	}
	switch k.API {
	case "Valid":
		c18Valid(c, k.S, iso8601.ValidFlags(k.F), k.Exp)
	case "Parse":
		c18Parse(c, k.S)
	case "JSON":
		c18JSON(c, k.S)
	case "Allocs":
		c18Allocs(c, k.S)
	}
}

func c18Allocs(c *Ctx, s string) {
	n := testing.AllocsPerRun(2, func() {
		for fl := 0; fl < 64; fl++ { // every subset of the flags
			iso8601.Valid(s, iso8601.ValidFlags(fl))
		}
	})
	c.Eval(1)
	if n != 0 {
		c.Diverge("C18", "iso8601.Valid(allocations)", "0", fmt.Sprint(n), "", c18Case{API: "Allocs", S: s})
	}
}

// c18Extra: the exhaustive sweeps (independent of the vectors and of the seed)
func c18Extra(c *Ctx) {
	// 1. every byte value at every position of the fast-path shapes: lengths 20..30
	for fl := 0; fl <= 9; fl++ {
		base := "2021-03-25T21:36:12"
		if fl > 0 {
			base += "." + "123456789"[:fl]
		}
		base += "Z"
		for i := 0; i < len(base); i++ {
			b := []byte(base)
			for v := 0; v < 256; v++ {
				b[i] = byte(v)
				c18Parse(c, string(b))
			}
		}
		c.Case()
	}
	// 2. every calendar date, the impossible ones included
	thorough := c.Tier == "thorough"
	for y := 0; y <= 9999; y++ {
		if !thorough && y%3 != 0 && y%100 != 0 && y%4 != 0 && (y < 1900 || y > 2100) {
			continue
		}
		for m := 0; m <= 13; m++ {
			for d := 0; d <= 32; d++ {
				if !thorough && d > 1 && d < 28 && d != 15 {
					continue
				}
				c18Parse(c, fmt.Sprintf("%04d-%02d-%02dT00:00:00Z", y, m, d))
			}
		}
		c.Case()
	}
	// 3. every second of a day (and the out-of-range hour / minute / second)
	for h := 0; h <= 24; h++ {
		for m := 0; m <= 60; m++ {
			for s := 0; s <= 60; s++ {
				if !thorough && h > 1 && h < 23 && m > 1 && m < 59 && s > 1 && s < 59 {
					continue
				}
				c18Parse(c, fmt.Sprintf("1999-12-31T%02d:%02d:%02dZ", h, m, s))
			}
		}
	}
	// 3b. dates and times together: the special dates (month ends, leap days real and impossible) with the boundary
	// and out-of-range times, zones and fractions (date and time checks may not short-circuit one another)
	var dates []string
	for _, y := range []int{0, 1, 1900, 1999, 2000, 2023, 2024, 2100, 9999} {
		for _, md := range []string{"01-01", "01-31", "02-28", "02-29", "02-30", "03-31", "04-30", "04-31", "06-30", "09-31", "12-31", "12-32", "13-01", "00-10", "10-00"} {
			dates = append(dates, fmt.Sprintf("%04d-%s", y, md))
		}
	}
	times := []string{"00:00:00", "23:59:59", "24:00:00", "23:60:00", "23:59:60", "99:99:99", "12:34:60", "12:60:34", "25:00:00", "00:00:61"}
	tails := []string{"Z", ".5Z", ".123456789Z", "+00:00", "-23:59", "+24:00", "+05:60", ".000000001+01:00"}
	for _, d := range dates {
		for _, t := range times {
			for _, z := range tails {
				c18Parse(c, d+"T"+t+z)
			}
		}
	}
	c.Case()
	// 4. every fraction length 0..10 with leading/trailing zeros
	for n := 0; n <= 10; n++ {
		for _, digits := range []string{"0000000000", "9999999999", "1000000000", "0000000001", "1234567891"} {
			s := "2004-02-29T23:59:59"
			if n > 0 {
				s += "." + digits[:n]
			}
			c18Parse(c, s+"Z")
			c18Parse(c, s+"+05:30")
		}
	}
	// 5. Valid never allocates (serial: AllocsPerRun pins GOMAXPROCS)
	for _, s := range []string{"2021-03-25T21:36:12.123456789Z", "2021-03-25", "2021-03-25 21:36:12 +0130", "", "garbage",
		"2021-03-25T21:36:12.1234567890Z", strings.Repeat("9", 300), "2021-03-25T21:36:12+01:3"} {
		c18Allocs(c, s)
	}
	// every combination of the optional parts, short and long (beyond any small-buffer size), well formed or cut short or
	// followed by garbage
	for _, sep := range []string{"T", " ", "t", "_"} {
		for _, tm := range []string{"", "21:36:12", "24:00:00"} {
			for _, fr := range []string{"", ".1", ".1234567", ".123456789", ".1234567891"} {
				for _, zone := range []string{"", "Z", "+07:00", "-0700", " +07:00", " -0700", "+07"} {
					s := "2021-03-25"
					if tm != "" {
						s += sep + tm + fr
					}
					s += zone
					c18Allocs(c, s)
					c18Allocs(c, s+strings.Repeat("x", 40))
					c18Allocs(c, s[:len(s)-1])
				}
			}
		}
	}
}

func init() {
	register("C18", &Driver{Vector: c18Vector, Replay: c18Replay, Extra: c18Extra})
}
