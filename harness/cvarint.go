//go:build verif

package main

// Vectors of spec/Varint.tla: a 64-bit pattern, its presentation (plain, zig-zag 64, zig-zag 32), the bytes the
// specification's encoder wrote, how they are presented to a decoder (as written, padded, a tenth byte beyond bit 63,
// too long, cut) and the specification's verdict.
//   C03 / C12  the package writes exactly the specification's bytes for a field of every integer kind that has the
//              presentation, Size agrees, the bytes come back as the value; padded (non-minimal) varints decode to
//              the same value, as a scalar, as elements of a repeated field and as a length prefix
//   C07        every presentation, the illegal ones included, is an error or a value, never a panic
//   C13        the compact protocol's zig-zag varints of i16 / i32 / i64 fields are the specification's bytes

import (
	"bytes"
	"encoding/binary"
	"encoding/hex"
	stdjson "encoding/json"
	"fmt"
	"reflect"

	"github.com/segmentio/encoding/proto"
	"github.com/segmentio/encoding/thrift"
)

type varintVec struct {
	Varint bool   `json:"varint"`
	Pat    []int  `json:"pat"`
	Enc    string `json:"enc"`
	Src    []int  `json:"src"`
	Bytes  []int  `json:"bytes"`
	Kind   string `json:"kind"`
	Res    string `json:"res"`
}

type varintCase struct {
	VarintVec *varintVec `json:"varint_vec"`
	Prop      string     `json:"prop"`
}

func patBits(p []int) (u uint64) {
	for i, b := range p {
		if b != 0 && i < 64 {
			u |= 1 << uint(i)
		}
	}
	return
}

type viU64 struct {
	F uint64 `protobuf:"varint,3,opt"`
}
type viI64 struct {
	F int64 `protobuf:"varint,3,opt"`
}
type viInt struct {
	F int `protobuf:"varint,3,opt"`
}
type viUint struct {
	F uint `protobuf:"varint,3,opt"`
}
type viU32 struct {
	F uint32 `protobuf:"varint,3,opt"`
}
type viI32 struct {
	F int32 `protobuf:"varint,3,opt"`
}
type viZ64 struct {
	F int64 `protobuf:"zigzag64,3,opt"`
}
type viZInt struct {
	F int `protobuf:"zigzag64,3,opt"`
}
type viZ32 struct {
	F int32 `protobuf:"zigzag32,3,opt"`
}
type viRep struct {
	A int32    `protobuf:"varint,1,opt"`
	F []uint64 `protobuf:"varint,3,rep"`
	Z string   `protobuf:"bytes,4,opt"`
}
type viRepZ struct {
	F []int64 `protobuf:"varint,3,rep"`
}
type viStr struct {
	F string `protobuf:"bytes,3,opt"`
	Z uint32 `protobuf:"varint,4,opt"`
}

type tvI64 struct {
	F int64 `thrift:"1,required"`
}
type tvI32 struct {
	F int32 `thrift:"1,required"`
}
type tvI16 struct {
	F int16 `thrift:"1,required"`
}

// varintTargets: the integer kinds a presentation applies to: a new target, and the value the pattern is for the kind
func varintTargets(enc string, pat uint64) (out []struct {
	name string
	mk   func() any
	val  any
}) {
	add := func(name string, mk func() any, val any) {
		out = append(out, struct {
			name string
			mk   func() any
			val  any
		}{name, mk, val})
	}
	is32 := int64(int32(pat)) == int64(pat)
	switch enc {
	case "plain":
		add("uint64", func() any { return new(viU64) }, viU64{pat})
		add("int64", func() any { return new(viI64) }, viI64{int64(pat)})
		add("int", func() any { return new(viInt) }, viInt{int(pat)})
		add("uint", func() any { return new(viUint) }, viUint{uint(pat)})
		if pat>>32 == 0 {
			add("uint32", func() any { return new(viU32) }, viU32{uint32(pat)})
		}
		if is32 {
			add("int32", func() any { return new(viI32) }, viI32{int32(pat)})
		}
	case "zz64":
		add("sint64", func() any { return new(viZ64) }, viZ64{int64(pat)})
		add("sint64(int)", func() any { return new(viZInt) }, viZInt{int(pat)})
	case "zz32":
		if is32 {
			add("sint32", func() any { return new(viZ32) }, viZ32{int32(pat)})
		}
	}
	return
}

func varintRun(c *Ctx, prop string, v *varintVec) {
	k := varintCase{VarintVec: v, Prop: prop}
	pat, src := patBits(v.Pat), patBits(v.Src)
	bs := make([]byte, len(v.Bytes))
	for i, b := range v.Bytes {
		bs[i] = byte(b)
	}
	// REF: the specification against encoding/binary and the zig-zag formulas of the protobuf documentation
	u, n := binary.Uvarint(bs)
	refOK := (v.Res == "ok" && n == len(bs) && u == src) || (v.Res == "eof" && n == 0) || (v.Res == "overflow" && n < 0)
	zzOK := (v.Enc == "plain" && src == pat) || (v.Enc == "zz64" && src == uint64(int64(pat)<<1)^uint64(int64(pat)>>63)) ||
		(v.Enc == "zz32" && src == uint64(uint32(int32(pat)<<1)^uint32(int32(pat)>>31)))
	if !refOK || !zzOK || len(v.Pat) != 64 || len(v.Src) != 64 {
		c.SpecError(prop, fmt.Sprintf("Varint.tla disagrees with encoding/binary or the zig-zag formula: Uvarint=%d,%d", u, n), k)
		return
	}
	fail := func(api, want, got string) {
		c.Diverge(prop, api+"(varint of the bit lattice, "+v.Enc+", "+v.Kind+")", want, got, "", k)
	}
	tag := []byte{3 << 3}
	if prop == "C13" {
		if v.Kind != "canon" {
			return
		}
		c.Case()
		var vals []any
		var hdr []byte
		switch {
		case v.Enc == "zz64":
			vals, hdr = []any{tvI64{int64(pat)}}, []byte{0x16}
		case v.Enc == "zz32":
			vals, hdr = []any{tvI32{int32(pat)}}, []byte{0x15}
			if int64(int16(pat)) == int64(pat) {
				vals, hdr = append(vals, tvI16{int16(pat)}), append(hdr, 0x14)
			}
		}
		for i, val := range vals {
			want := append(append([]byte{hdr[i]}, bs...), 0)
			var b []byte
			var err error
			c.Eval(1)
			if p := protect(func() { b, err = thrift.Marshal(&thrift.CompactProtocol{}, val) }); p != "" || err != nil || !bytes.Equal(b, want) {
				fail(fmt.Sprintf("thrift.Marshal[compact](%T)", val), hex.EncodeToString(want), fmt.Sprintf("%x err=%v %s", b, err, p))
				continue
			}
			back := reflect.New(reflect.TypeOf(val))
			if p := protect(func() { err = thrift.Unmarshal(&thrift.CompactProtocol{}, want, back.Interface()) }); p != "" || err != nil || !reflect.DeepEqual(back.Elem().Interface(), val) {
				fail(fmt.Sprintf("thrift.Unmarshal[compact](*%T)", val), fmt.Sprintf("%+v", val), fmt.Sprintf("%+v err=%v %s", back.Elem().Interface(), err, p))
			}
		}
		return
	}
	for _, t := range varintTargets(v.Enc, pat) {
		c.Case()
		in := append(append([]byte(nil), tag...), bs...)
		if v.Kind == "canon" && prop != "C07" {
			want := in
			if pat == 0 {
				want = nil // the zero value is left out
			}
			var b []byte
			var err error
			size := -1
			c.Eval(1)
			if p := protect(func() { b, err = proto.Marshal(t.val); size = proto.Size(t.val) }); p != "" || err != nil {
				fail("proto.Marshal("+t.name+")", "nil error", fmt.Sprintf("%v %s", err, p))
			} else {
				if !bytes.Equal(b, want) {
					fail("proto.Marshal("+t.name+")", hex.EncodeToString(want), hex.EncodeToString(b))
				}
				if size != len(want) {
					fail("proto.Size("+t.name+")", fmt.Sprint(len(want)), fmt.Sprint(size))
				}
			}
		}
		out := t.mk()
		var err error
		c.Eval(1)
		if p := protect(func() { err = proto.Unmarshal(in, out) }); p != "" {
			fail("proto.Unmarshal(*"+t.name+")", "an error or a value", p)
			continue
		}
		if v.Res == "ok" && prop != "C07" {
			if got := reflect.ValueOf(out).Elem().Interface(); err != nil || !reflect.DeepEqual(got, t.val) {
				fail("proto.Unmarshal(*"+t.name+")", fmt.Sprintf("%+v", t.val), fmt.Sprintf("%+v err=%v", got, err))
			}
		}
	}
	if v.Enc != "plain" {
		return
	}
	// elements of a repeated field (not packed), between other fields
	c.Case()
	in := []byte{1 << 3, 5}
	for i := 0; i < 3; i++ {
		in = append(append(in, tag...), bs...)
	}
	tail := []byte{4<<3 | 2, 1, 'z'}
	if v.Res == "ok" {
		in = append(in, tail...)
	}
	var rep viRep
	var err error
	c.Eval(1)
	if p := protect(func() { err = proto.Unmarshal(in, &rep) }); p != "" {
		fail("proto.Unmarshal(repeated uint64)", "an error or a value", p)
	} else if v.Res == "ok" && prop != "C07" && (err != nil || rep.A != 5 || rep.Z != "z" || !reflect.DeepEqual(rep.F, []uint64{pat, pat, pat})) {
		fail("proto.Unmarshal(repeated uint64)", fmt.Sprintf("A=5 F=[%d %d %d] Z=z", pat, pat, pat), fmt.Sprintf("%+v err=%v", rep, err))
	}
	if v.Kind == "canon" && prop != "C07" && pat != 0 {
		val := viRep{A: 5, F: []uint64{pat, 0, pat}, Z: "z"}
		want := append(append([]byte{1 << 3, 5}, tail...), tag...)
		want = append(append(append(append(append(want, bs...), tag...), 0), tag...), bs...)
		var b []byte
		c.Eval(1)
		if p := protect(func() { b, err = proto.Marshal(val) }); p != "" || err != nil || !bytes.Equal(b, want) {
			fail("proto.Marshal(repeated uint64)", hex.EncodeToString(want), fmt.Sprintf("%x err=%v %s", b, err, p))
		}
	}
	// a length prefix
	if src <= 70000 {
		c.Case()
		payload := bytes.Repeat([]byte{'p'}, int(src))
		in := append(append([]byte{3<<3 | 2}, bs...), payload...)
		if v.Res == "ok" {
			in = append(in, 4<<3, 9)
		}
		var s viStr
		c.Eval(1)
		if p := protect(func() { err = proto.Unmarshal(in, &s) }); p != "" {
			fail("proto.Unmarshal(string behind a length)", "an error or a value", p)
		} else if v.Res == "ok" && prop != "C07" && (err != nil || s.F != string(payload) || s.Z != 9) {
			fail("proto.Unmarshal(string behind a length)", fmt.Sprintf("%d bytes, Z=9", len(payload)), fmt.Sprintf("%d bytes Z=%d err=%v", len(s.F), s.Z, err))
		}
		if v.Kind == "canon" && prop != "C07" && src != 0 {
			want := append(append([]byte{3<<3 | 2}, bs...), payload...)
			var b []byte
			c.Eval(1)
			if p := protect(func() { b, err = proto.Marshal(viStr{F: string(payload)}) }); p != "" || err != nil || !bytes.Equal(b, want) {
				fail("proto.Marshal(string behind a length)", "length prefix "+hex.EncodeToString(bs), fmt.Sprintf("%x.. err=%v %s", b[:min(len(b), 12)], err, p))
			}
		}
	}
}

// varintVector: true when the vector is one of Varint.tla's (or a replay of one)
func varintVector(c *Ctx, prop string, raw stdjson.RawMessage) bool {
	if !bytes.Contains(raw, []byte(`"varint`)) {
		return false
	}
	var k varintCase
	if stdjson.Unmarshal(raw, &k) == nil && k.VarintVec != nil {
		varintRun(c, prop, k.VarintVec)
		return true
	}
	var v varintVec
	if stdjson.Unmarshal(raw, &v) == nil && v.Varint {
		c.Nontrivial()
		varintRun(c, prop, &v)
		return true
	}
	return false
}
