//go:build verif

package main

// C01, first uses in every order: a type's codec is compiled on first use and cached process-wide, so what a value
// of []T is written as must not depend on whether T (or *T, or a struct holding T) went through the package before.
// Each scenario has a type family of its own (generic types instantiated with a marker), so every (first use, later
// use) pair really is the first pair of uses of its types in the process; encoding/json is the oracle at every step.

import (
	stdjson "encoding/json"
	"fmt"

	"github.com/segmentio/encoding/json"
)

// MarshalJSON on the pointer receiver: used for addressable values only (slice elements, fields reached through a
// pointer), not for a bare value
type ordJ[M any] struct{ V float64 }

func (t *ordJ[M]) MarshalJSON() ([]byte, error) { return []byte(fmt.Sprintf(`"%gC"`, t.V)), nil }

// MarshalText on the pointer receiver
type ordT[M any] struct{ V int }

func (t *ordT[M]) MarshalText() ([]byte, error) { return []byte(fmt.Sprintf("t%d<", t.V)), nil }

// a struct whose fields and array elements have such methods
type ordIn[M any] struct {
	A ordJ[M]
	B [1]ordT[M]
	C *ordJ[M] `json:",omitempty"`
}

func ordScenario[M any](c *Ctx, first, second int) {
	k := jsonCase{Setting: fmt.Sprintf("order:%d:%d", first, second)}
	j, t, in := ordJ[M]{21.5}, ordT[M]{3}, ordIn[M]{A: ordJ[M]{1}, B: [1]ordT[M]{{2}}}
	firsts := [][]any{
		{j, t, in},
		{&j, &t, &in},
		{[]ordJ[M]{j}, []ordT[M]{t}, []ordIn[M]{in}},
		{struct{ F ordJ[M] }{j}, struct{ F ordT[M] }{t}, struct{ F ordIn[M] }{in}},
	}
	seconds := [][]any{
		{[]ordJ[M]{j, j}, []ordT[M]{t}, []ordIn[M]{in}},
		{[2]ordJ[M]{j, j}, [1]ordT[M]{t}, [1]ordIn[M]{in}},
		{map[string]ordJ[M]{"a": j}, map[string]ordT[M]{"a": t}, map[string]ordIn[M]{"a": in}},
		{struct{ F ordJ[M] }{j}, struct{ F ordT[M] }{t}, struct{ F ordIn[M] }{in}},
		{struct{ F []ordJ[M] }{[]ordJ[M]{j}}, struct{ F []ordT[M] }{[]ordT[M]{t}}, struct{ F []ordIn[M] }{[]ordIn[M]{in}}},
		{&[]ordJ[M]{j}, &[]ordT[M]{t}, &[]ordIn[M]{in}},
		{[]*ordJ[M]{&j}, []*ordT[M]{&t}, []*ordIn[M]{&in}},
		{map[string][]ordJ[M]{"a": {j}}, map[string][]ordT[M]{"a": {t}}, map[ordT[M]]int{t: 1}},
		{[]any{[]ordJ[M]{j}, j, &j}, []any{[]ordT[M]{t}, t, &t}, []any{in, &in, []ordIn[M]{in}}},
		{j, t, in},
	}
	step := func(what string, vals []any) {
		for _, v := range vals {
			c.Case()
			wb, we := stdjson.Marshal(v)
			var gb []byte
			var ge error
			api := fmt.Sprintf("json.Marshal(%s use of a type family: %T)", what, v)
			if p := protect(func() { gb, ge = json.Marshal(v) }); p != "" {
				c.Diverge("C01", api, errStr(we)+" "+clipS(string(wb)), p, "", k)
				continue
			}
			c01Compare(c, k, api, wb, we, gb, ge, "")
		}
	}
	step("first", firsts[first])
	step("later", seconds[second])
	// and once more, now that everything is cached
	step("repeated", firsts[first])
	step("repeated", seconds[second])
}

var ordScenarios = []func(c *Ctx){
	func(c *Ctx) { ordScenario[[1]int8](c, 0, 0) },
	func(c *Ctx) { ordScenario[[2]int8](c, 0, 1) },
	func(c *Ctx) { ordScenario[[3]int8](c, 0, 2) },
	func(c *Ctx) { ordScenario[[4]int8](c, 0, 3) },
	func(c *Ctx) { ordScenario[[5]int8](c, 0, 4) },
	func(c *Ctx) { ordScenario[[6]int8](c, 0, 5) },
	func(c *Ctx) { ordScenario[[7]int8](c, 0, 6) },
	func(c *Ctx) { ordScenario[[8]int8](c, 0, 7) },
	func(c *Ctx) { ordScenario[[9]int8](c, 0, 8) },
	func(c *Ctx) { ordScenario[[10]int8](c, 0, 9) },
	func(c *Ctx) { ordScenario[[11]int8](c, 1, 0) },
	func(c *Ctx) { ordScenario[[12]int8](c, 1, 1) },
	func(c *Ctx) { ordScenario[[13]int8](c, 1, 2) },
	func(c *Ctx) { ordScenario[[14]int8](c, 1, 3) },
	func(c *Ctx) { ordScenario[[15]int8](c, 1, 4) },
	func(c *Ctx) { ordScenario[[16]int8](c, 1, 5) },
	func(c *Ctx) { ordScenario[[17]int8](c, 1, 6) },
	func(c *Ctx) { ordScenario[[18]int8](c, 1, 7) },
	func(c *Ctx) { ordScenario[[19]int8](c, 1, 8) },
	func(c *Ctx) { ordScenario[[20]int8](c, 1, 9) },
	func(c *Ctx) { ordScenario[[21]int8](c, 2, 0) },
	func(c *Ctx) { ordScenario[[22]int8](c, 2, 1) },
	func(c *Ctx) { ordScenario[[23]int8](c, 2, 2) },
	func(c *Ctx) { ordScenario[[24]int8](c, 2, 3) },
	func(c *Ctx) { ordScenario[[25]int8](c, 2, 4) },
	func(c *Ctx) { ordScenario[[26]int8](c, 2, 5) },
	func(c *Ctx) { ordScenario[[27]int8](c, 2, 6) },
	func(c *Ctx) { ordScenario[[28]int8](c, 2, 7) },
	func(c *Ctx) { ordScenario[[29]int8](c, 2, 8) },
	func(c *Ctx) { ordScenario[[30]int8](c, 2, 9) },
	func(c *Ctx) { ordScenario[[31]int8](c, 3, 0) },
	func(c *Ctx) { ordScenario[[32]int8](c, 3, 1) },
	func(c *Ctx) { ordScenario[[33]int8](c, 3, 2) },
	func(c *Ctx) { ordScenario[[34]int8](c, 3, 3) },
	func(c *Ctx) { ordScenario[[35]int8](c, 3, 4) },
	func(c *Ctx) { ordScenario[[36]int8](c, 3, 5) },
	func(c *Ctx) { ordScenario[[37]int8](c, 3, 6) },
	func(c *Ctx) { ordScenario[[38]int8](c, 3, 7) },
	func(c *Ctx) { ordScenario[[39]int8](c, 3, 8) },
	func(c *Ctx) { ordScenario[[40]int8](c, 3, 9) },
}

func c01Orders(c *Ctx) {
	for _, f := range ordScenarios {
		f(c)
	}
}
